//go:build conctrace

package main

// Timeline instrumentation of the ckptsnap scenario (root-causing F9b): with
// CONC_CKPT_DEBUG=<file> every trace point of the database and every application
// commit is logged with the local position (newest L0 header), the WAL header and
// size, and the wal-index counters (mxFrame, nBackfill).

import (
	"context"
	"database/sql"
	"encoding/binary"
	"fmt"
	"os"
	"path/filepath"
	"sync"
	"time"

	"github.com/benbjohnson/litestream"
	"github.com/superfly/ltx"
)

var ckptDbg struct {
	mu   sync.Mutex
	f    *os.File
	path string
	t0   time.Time
}

func ckptDebugStart(dbPath string) bool {
	p := os.Getenv("CONC_CKPT_DEBUG")
	if p == "" {
		return false
	}
	f, err := os.Create(p)
	if err != nil {
		return false
	}
	ckptDbg.f, ckptDbg.path, ckptDbg.t0 = f, dbPath, time.Now()
	litestream.VerifTracePoint = func(obj any, ev string) {
		switch ev {
		case "chk.try", "ckpt.run", "pt.ckpt.bump", "chk.rel", "snap.pos", "chk.rlock", "chk.runlock", "exec.rel", "exec.try", "exec.acq":
			ckptDebugLog(ev, "")
		}
	}
	return true
}

func ckptDebugStop() {
	litestream.VerifTracePoint = nil
	if ckptDbg.f != nil {
		_ = ckptDbg.f.Close()
		ckptDbg.f = nil
	}
}

func ckptDebugLog(ev, extra string) {
	if ckptDbg.f == nil {
		return
	}
	dbPath := ckptDbg.path
	// newest local L0 file = litestream's position; its header gives the synced WAL extent
	l0 := filepath.Join(filepath.Dir(dbPath), "."+filepath.Base(dbPath)+litestream.MetaDirSuffix, "ltx", "0")
	var maxT ltx.TXID
	ents, _ := os.ReadDir(l0)
	for _, e := range ents {
		if _, mx, err := ltx.ParseFilename(e.Name()); err == nil && mx > maxT {
			maxT = mx
		}
	}
	pos := fmt.Sprintf("pos=%d", uint64(maxT))
	if maxT > 0 {
		if f, err := os.Open(filepath.Join(l0, ltx.FormatFilename(maxT, maxT))); err == nil {
			dec := ltx.NewDecoder(f)
			if dec.DecodeHeader() == nil {
				h := dec.Header()
				pos += fmt.Sprintf(" l0end=%d l0salt=%08x", h.WALOffset+h.WALSize, h.WALSalt1)
			}
			_ = f.Close()
		}
	}
	wal := ""
	if f, err := os.Open(dbPath + "-wal"); err == nil {
		b := make([]byte, 32)
		if n, _ := f.ReadAt(b, 0); n == 32 {
			fi, _ := f.Stat()
			wal = fmt.Sprintf("walsalt=%08x walsize=%d", binary.BigEndian.Uint32(b[16:]), fi.Size())
		}
		_ = f.Close()
	}
	shm := ""
	if f, err := os.Open(dbPath + "-shm"); err == nil {
		b := make([]byte, 136)
		if n, _ := f.ReadAt(b, 0); n >= 100 {
			mx := binary.LittleEndian.Uint32(b[16:])
			nb := binary.LittleEndian.Uint32(b[96:])
			shm = fmt.Sprintf("mxFrame=%d(end=%d) nBackfill=%d(end=%d)", mx, 32+int64(mx)*(4096+24), nb, 32+int64(nb)*(4096+24))
		}
		_ = f.Close()
	}
	ckptDbg.mu.Lock()
	fmt.Fprintf(ckptDbg.f, "%9.3fms %-13s %s %s %s %s\n", float64(time.Since(ckptDbg.t0).Microseconds())/1000, ev, pos, wal, shm, extra)
	ckptDbg.mu.Unlock()
}

// scenarioCkptFail is the deterministic form of finding F9b. At the trace point just
// before the sequence bump of a FULL / RESTART checkpoint (everything is backfilled, the
// read lock is held again on read-mark 0) the application commits once — which restarts
// the WAL — and then holds the write lock, so bumpLitestreamSeq fails with SQLITE_BUSY and
// checkpointWithExecutor returns before it compares the WAL headers. The published state is
// "position = end of the previous generation, lastSyncedWALOffset = its last offset" while
// the live WAL is a new generation. The application commits a few more transactions and a
// DB.Snapshot is taken before the next sync.
func scenarioCkptFail(out string) (detail string, err error) {
	dir := filepath.Join(out, "ckptfail") + "/"
	_ = os.RemoveAll(dir)
	dbPath := filepath.Join(dir, "src", "db.sqlite")
	e := &episode{dir: dir, dbPath: dbPath, repDir: dir + "rep", arcDir: dir + "arc", snapDir: dir + "snaps", c: cfg{MinCkptPages: 100000}}
	for _, d := range []string{filepath.Dir(dbPath), e.repDir, e.arcDir, e.snapDir, dir + "scratch"} {
		_ = os.MkdirAll(d, 0o755)
	}
	app, err := openApp(dbPath, 4)
	if err != nil {
		return "", err
	}
	defer app.Close()
	if _, err = app.Exec(`CREATE TABLE t(id INTEGER PRIMARY KEY, w INTEGER, v BLOB)`); err != nil {
		return "", err
	}
	for i := 0; i < 60 && err == nil; i++ {
		_, err = app.Exec(`INSERT INTO t(w, v) VALUES (0, randomblob(3000))`)
	}
	if err != nil {
		return "", err
	}
	ctx := context.Background()
	db := e.newDB()
	db.MonitorInterval = 0
	db.BusyTimeout = 300 * time.Millisecond
	if err = db.Open(); err != nil {
		return "", err
	}
	defer func() { litestream.VerifTracePoint = nil }()
	failed, nsnap := 0, 0
	for k, mode := range []string{litestream.CheckpointModeFull, litestream.CheckpointModeRestart} {
		for i := 0; i < 10; i++ { // frames in the WAL, all copied
			if _, err = app.Exec(`UPDATE t SET w = ?, v = randomblob(3000) WHERE id = ?`, k+1, 1+i); err != nil {
				return "", err
			}
		}
		if err = db.SyncAndWait(ctx); err != nil {
			return "", err
		}
		var hold *sql.Tx
		var once sync.Once
		litestream.VerifTracePoint = func(obj any, ev string) {
			if ev != "pt.ckpt.bump" {
				return
			}
			once.Do(func() {
				_, _ = app.Exec(`UPDATE t SET w = 100, v = randomblob(3000) WHERE id = 20`) // restarts the WAL
				if tx, e := app.Begin(); e == nil {
					if _, e = tx.Exec(`UPDATE t SET w = 101, v = randomblob(3000) WHERE id = 21`); e == nil {
						hold = tx // the write lock is held: the bump cannot get it
					} else {
						_ = tx.Rollback()
					}
				}
			})
		}
		var cerr error
		call("Checkpoint"+mode, func() { cerr = db.Checkpoint(ctx, mode) })
		litestream.VerifTracePoint = nil
		if hold != nil {
			_ = hold.Commit()
		}
		if cerr != nil {
			failed++
		}
		for i := 0; i < 6; i++ {
			if _, err = app.Exec(`UPDATE t SET w = ?, v = randomblob(3000) WHERE id = ?`, 102+i, 30+i); err != nil {
				return "", err
			}
		}
		call("Snapshot", func() {
			if _, e := db.Snapshot(ctx); e == nil {
				nsnap++
			}
		})
		call("Sync", func() { _ = db.Sync(ctx) })
	}
	var e1, e2 error
	call("SyncAndWait", func() { e1 = db.SyncAndWait(ctx) })
	call("DBClose", func() { e2 = db.Close(ctx) })
	if e1 != nil || e2 != nil {
		return "", fmt.Errorf("final sync/close: %v / %v", e1, e2)
	}
	rep := map[string]any{"how": "harness conc -n 0 (scenario ckptfail)",
		"history": "OPEN; 10 writes; SyncAndWait; Checkpoint(FULL) with, at trace point pt.ckpt.bump: one application commit (restarts the fully backfilled WAL) then an application write transaction left open (bumpLitestreamSeq gets SQLITE_BUSY, the checkpoint returns that error); commit it; 6 more commits; Snapshot; Sync; the same with RESTART; SyncAndWait; Close; every snapshot 1..n against Restore(TXID=n) of the L0 chain"}
	before := nViols()
	n := snapshotOracle("uploaded", snapshotFiles(e.snapDir, true), e.arcDir, dir+"scratch", rep, "C12/", map[ltx.TXID]int{}, e.snapDir)
	if nViols() == before {
		_ = os.RemoveAll(dir)
		return fmt.Sprintf("%d of 2 checkpoints failed after the WAL restart, %d snapshots, all equal to the L0 chain at their TXID", failed, n), nil
	}
	return fmt.Sprintf("%d of 2 checkpoints failed after the WAL restart, %d snapshots checked: a snapshot contains the commits of the new WAL generation although its position is the end of the old one", failed, n), nil
}
