//go:build conctrace

package main

// Timeline instrumentation of the ckptsnap scenario (root-causing F9b): with
// CONC_CKPT_DEBUG=<file> every trace point of the database and every application
// commit is logged with the local position (newest L0 header), the WAL header and
// size, and the wal-index counters (mxFrame, nBackfill).

import (
	"context"
	"database/sql"
	"encoding/binary"
	"fmt"
	"os"
	"path/filepath"
	"sync"
	"time"

	"github.com/benbjohnson/litestream"
	"github.com/superfly/ltx"
)

var ckptDbg struct {
	mu   sync.Mutex
	f    *os.File
	path string
	t0   time.Time
}

func ckptDebugStart(dbPath string) bool {
	p := os.Getenv("CONC_CKPT_DEBUG")
	if p == "" {
		return false
	}
	f, err := os.Create(p)
	if err != nil {
		return false
	}
	ckptDbg.f, ckptDbg.path, ckptDbg.t0 = f, dbPath, time.Now()
	setTracePointExtra(func(obj any, ev string) {
		switch ev {
		case "chk.try", "ckpt.run", "pt.ckpt.bump", "chk.rel", "snap.pos", "chk.rlock", "chk.runlock", "exec.rel", "exec.try", "exec.acq":
			ckptDebugLog(ev, "")
		}
	})
	return true
}

func ckptDebugStop() {
	setTracePointExtra(nil)
	if ckptDbg.f != nil {
		_ = ckptDbg.f.Close()
		ckptDbg.f = nil
	}
}

func ckptDebugLog(ev, extra string) {
	if ckptDbg.f == nil {
		return
	}
	dbPath := ckptDbg.path
	// newest local L0 file = litestream's position; its header gives the synced WAL extent
	l0 := filepath.Join(filepath.Dir(dbPath), "."+filepath.Base(dbPath)+litestream.MetaDirSuffix, "ltx", "0")
	var maxT ltx.TXID
	ents, _ := os.ReadDir(l0)
	for _, e := range ents {
		if _, mx, err := ltx.ParseFilename(e.Name()); err == nil && mx > maxT {
			maxT = mx
		}
	}
	pos := fmt.Sprintf("pos=%d", uint64(maxT))
	if maxT > 0 {
		if f, err := os.Open(filepath.Join(l0, ltx.FormatFilename(maxT, maxT))); err == nil {
			dec := ltx.NewDecoder(f)
			if dec.DecodeHeader() == nil {
				h := dec.Header()
				pos += fmt.Sprintf(" l0end=%d l0salt=%08x", h.WALOffset+h.WALSize, h.WALSalt1)
			}
			_ = f.Close()
		}
	}
	wal := ""
	if f, err := os.Open(dbPath + "-wal"); err == nil {
		b := make([]byte, 32)
		if n, _ := f.ReadAt(b, 0); n == 32 {
			fi, _ := f.Stat()
			wal = fmt.Sprintf("walsalt=%08x walsize=%d", binary.BigEndian.Uint32(b[16:]), fi.Size())
		}
		_ = f.Close()
	}
	shm := ""
	if f, err := os.Open(dbPath + "-shm"); err == nil {
		b := make([]byte, 136)
		if n, _ := f.ReadAt(b, 0); n >= 100 {
			mx := binary.LittleEndian.Uint32(b[16:])
			nb := binary.LittleEndian.Uint32(b[96:])
			shm = fmt.Sprintf("mxFrame=%d(end=%d) nBackfill=%d(end=%d)", mx, 32+int64(mx)*(4096+24), nb, 32+int64(nb)*(4096+24))
		}
		_ = f.Close()
	}
	ckptDbg.mu.Lock()
	fmt.Fprintf(ckptDbg.f, "%9.3fms %-13s %s %s %s %s\n", float64(time.Since(ckptDbg.t0).Microseconds())/1000, ev, pos, wal, shm, extra)
	ckptDbg.mu.Unlock()
}

// scenarioCkptFail is the deterministic form of finding F9b, one checkpoint mode per call.
// At the trace point just before the sequence bump of the checkpoint (everything it could
// backfill is backfilled, the read lock is held again) the application commits once — which
// restarts a fully backfilled WAL — and then holds the write lock, so bumpLitestreamSeq
// fails with SQLITE_BUSY and checkpointWithExecutor returns before it compares the WAL
// headers and copies again. For TRUNCATE there is in addition one commit at the trace point
// just before the PRAGMA (after the copy-before sync): the PRAGMA checkpoints it unseen. The
// application then commits a few more transactions and a DB.Snapshot is taken before the
// next sync. FULL / RESTART / PASSIVE were repaired by 5f481c7, 482a715, a637c7e; the
// TRUNCATE shape (database file ahead of the position) is the remaining known finding.
func scenarioCkptFail(out, mode string) (detail string, err error) {
	dir := filepath.Join(out, "ckptfail-"+mode) + "/"
	_ = os.RemoveAll(dir)
	dbPath := filepath.Join(dir, "src", "db.sqlite")
	e := &episode{dir: dir, dbPath: dbPath, repDir: dir + "rep", arcDir: dir + "arc", snapDir: dir + "snaps", c: cfg{MinCkptPages: 100000}}
	for _, d := range []string{filepath.Dir(dbPath), e.repDir, e.arcDir, e.snapDir, dir + "scratch"} {
		_ = os.MkdirAll(d, 0o755)
	}
	app, err := openApp(dbPath, 4)
	if err != nil {
		return "", err
	}
	defer app.Close()
	if _, err = app.Exec(`CREATE TABLE t(id INTEGER PRIMARY KEY, w INTEGER, v BLOB)`); err != nil {
		return "", err
	}
	for i := 0; i < 60 && err == nil; i++ {
		_, err = app.Exec(`INSERT INTO t(w, v) VALUES (0, randomblob(3000))`)
	}
	if err != nil {
		return "", err
	}
	ctx := context.Background()
	db := e.newDB()
	db.MonitorInterval = 0
	db.BusyTimeout = 300 * time.Millisecond
	if err = db.Open(); err != nil {
		return "", err
	}
	defer setTracePointExtra(nil)
	for i := 0; i < 10; i++ { // frames in the WAL, all copied
		if _, err = app.Exec(`UPDATE t SET w = 1, v = randomblob(3000) WHERE id = ?`, 1+i); err != nil {
			return "", err
		}
	}
	if err = db.SyncAndWait(ctx); err != nil {
		return "", err
	}
	var hold *sql.Tx
	var onceRun, onceBump sync.Once
	setTracePointExtra(func(obj any, ev string) {
		switch ev {
		case "ckpt.run":
			if mode == litestream.CheckpointModeTruncate {
				onceRun.Do(func() { // after the copy-before sync, before the PRAGMA
					_, _ = app.Exec(`UPDATE t SET w = 99, v = randomblob(3000) WHERE id = 19`)
				})
			}
		case "pt.ckpt.bump":
			onceBump.Do(func() {
				_, _ = app.Exec(`UPDATE t SET w = 100, v = randomblob(3000) WHERE id = 20`) // restarts a fully backfilled WAL
				if tx, e := app.Begin(); e == nil {
					if _, e = tx.Exec(`UPDATE t SET w = 101, v = randomblob(3000) WHERE id = 21`); e == nil {
						hold = tx // the write lock is held: the bump cannot get it
					} else {
						_ = tx.Rollback()
					}
				}
			})
		}
	})
	var cerr error
	call("Checkpoint"+mode, func() { cerr = db.Checkpoint(ctx, mode) })
	setTracePointExtra(nil)
	if hold != nil {
		_ = hold.Commit()
	}
	for i := 0; i < 6; i++ {
		if _, err = app.Exec(`UPDATE t SET w = ?, v = randomblob(3000) WHERE id = ?`, 102+i, 30+i); err != nil {
			return "", err
		}
	}
	var serr error
	call("Snapshot", func() { _, serr = db.Snapshot(ctx) })
	var e1, e2 error
	call("SyncAndWait", func() { e1 = db.SyncAndWait(ctx) })
	call("DBClose", func() { e2 = db.Close(ctx) })
	if e1 != nil || e2 != nil {
		return "", fmt.Errorf("final sync/close: %v / %v", e1, e2)
	}
	extra := ""
	if mode == litestream.CheckpointModeTruncate {
		extra = "one application commit at trace point ckpt.run (after the copy-before sync, before the PRAGMA); "
	}
	rep := map[string]any{"how": "harness conc -n 0 (scenario ckptfail, mode " + mode + ")",
		"history": "OPEN; 10 writes; SyncAndWait; Checkpoint(" + mode + ") with " + extra + "at trace point pt.ckpt.bump one application commit, then an application write transaction left open (bumpLitestreamSeq gets SQLITE_BUSY, the checkpoint returns that error); commit it; 6 more commits; Snapshot; SyncAndWait; Close; the snapshot 1..n against Restore(TXID=n) of the L0 chain"}
	before := nViols()
	n := snapshotOracle("uploaded", snapshotFiles(e.snapDir, true), e.arcDir, dir+"scratch", rep, "C12/", map[ltx.TXID]int{}, e.snapDir)
	res := fmt.Sprintf("checkpoint: %v; snapshot: %v; %d snapshot(s) checked", cerr, serr, n)
	if nViols() == before {
		_ = os.RemoveAll(dir)
		return res + ": equal to the L0 chain at their TXID (or refused)", nil
	}
	return res + ": the snapshot does not match the position it advertises", nil
}
