package main

// Registry scenarios (C12, register_once over the store's slice):
//
//   - regsched: enumerated three-party schedules of RegisterDB micro-steps. A
//     slog.Handler installed on Store.Logger parks a registering goroutine in
//     `s.Logger.With(...)`, i.e. exactly between RegisterDB's first and second
//     check, while the harness completes other RegisterDB / UnregisterDB calls on
//     the same and on other paths (which shift the slice). Every schedule is
//     emitted as a `conc_register` case for the extracted model (final slice and
//     per-call outcome) and checked by the oracle at every instant.
//   - regstress: randomised: K goroutines RegisterDB(path A) with fresh objects
//     while others Register/Unregister paths B, C, D (and sometimes A) in a loop,
//     a sampler checks "at most one instance per path" all the time.

import (
	"context"
	"fmt"
	"log/slog"
	"math/rand"
	"path/filepath"
	"runtime"
	"sync"
	"sync/atomic"

	"github.com/benbjohnson/litestream"
	"github.com/benbjohnson/litestream/file"
	. "verifharness/hx"
)

// ---- parking handler ------------------------------------------------------------

type parkSlot struct {
	passed  atomic.Bool // the call got past its first check (it asked for a logger)
	parked  chan struct{}
	release chan struct{}
}

type parkCtl struct {
	mu    sync.Mutex
	armed *parkSlot
}

type parkHandler struct {
	ctl   *parkCtl
	child bool
}

func (h *parkHandler) Enabled(context.Context, slog.Level) bool  { return false }
func (h *parkHandler) Handle(context.Context, slog.Record) error { return nil }
func (h *parkHandler) WithGroup(string) slog.Handler             { return &parkHandler{ctl: h.ctl, child: true} }
func (h *parkHandler) WithAttrs(attrs []slog.Attr) slog.Handler {
	if !h.child {
		for _, a := range attrs {
			if a.Key == litestream.LogKeyDB {
				h.ctl.mu.Lock()
				s := h.ctl.armed
				h.ctl.armed = nil
				h.ctl.mu.Unlock()
				if s != nil {
					s.passed.Store(true)
					close(s.parked)
					<-s.release
				}
			}
		}
	}
	return &parkHandler{ctl: h.ctl, child: true}
}

// ---- a registry world -------------------------------------------------------------

type regWorld struct {
	dir   string
	store *litestream.Store
	ctl   *parkCtl
	inst  map[*litestream.DB]int
	objs  []*litestream.DB
	mu    sync.Mutex
}

func newRegWorld(dir string, park bool) *regWorld {
	w := &regWorld{dir: dir, inst: map[*litestream.DB]int{}, ctl: &parkCtl{}}
	w.store = litestream.NewStore(nil, levels())
	w.store.CompactionMonitorEnabled = false
	w.store.ShutdownSyncTimeout = 0
	if park {
		w.store.Logger = slog.New(&parkHandler{ctl: w.ctl})
	} else {
		w.store.Logger = QuietLogger()
	}
	return w
}

func (w *regWorld) path(p int) string {
	return filepath.Join(w.dir, fmt.Sprintf("r%c.sqlite", 'A'+p))
}

func (w *regWorld) newDB(p int) (*litestream.DB, int) {
	db := litestream.NewDB(w.path(p))
	db.MonitorInterval = 0
	fc := file.NewReplicaClient(filepath.Join(w.dir, fmt.Sprintf("rep%c", 'A'+p)))
	db.Replica = litestream.NewReplicaWithClient(db, fc)
	db.Replica.MonitorEnabled = false
	fc.Replica = db.Replica
	w.mu.Lock()
	id := 100 + len(w.objs)
	w.inst[db] = id
	w.objs = append(w.objs, db)
	w.mu.Unlock()
	return db, id
}

func (w *regWorld) pathIndex(db *litestream.DB) int {
	for p := 0; p < 8; p++ {
		if db.Path() == w.path(p) {
			return p
		}
	}
	return 99
}

// slice returns the store's list as [[path inst]...] and the highest number of
// instances any single path has.
func (w *regWorld) slice() (Sx, int, map[*litestream.DB]bool) {
	var out SxList
	per := map[string]int{}
	in := map[*litestream.DB]bool{}
	worst := 0
	for _, d := range w.store.DBs() {
		w.mu.Lock()
		id := w.inst[d]
		w.mu.Unlock()
		out = append(out, L(I(int64(w.pathIndex(d))), I(int64(id))))
		per[d.Path()]++
		in[d] = true
		if per[d.Path()] > worst {
			worst = per[d.Path()]
		}
	}
	if out == nil {
		out = SxList{}
	}
	return out, worst, in
}

// final oracle: members are open, every other object ever created is closed and holds nothing
func (w *regWorld) checkClosed(rep any, what string) {
	_, _, in := w.slice()
	for _, d := range w.objs {
		h, f, rtx, opened := d.VerifConcHandles()
		if in[d] && !opened {
			violate("C12/registered-instance-not-open", fmt.Sprintf("%s: the managed instance %d of %s is not open", what, w.inst[d], filepath.Base(d.Path())), rep)
		}
		if !in[d] && (opened || h || f || rtx) {
			violate("C12/register-loser-not-closed",
				fmt.Sprintf("%s: DB object %d of %s is not managed by the store but is left open (opened=%v sql=%v file=%v rtx=%v): a losing or unregistered instance was not closed",
					what, w.inst[d], filepath.Base(d.Path()), opened, h, f, rtx), rep)
		}
	}
	if left := fdsUnder(w.dir); len(left) > 0 {
		violate("C12/register-loser-not-closed", fmt.Sprintf("%s: descriptors left open below the scenario directory: %v", what, left), rep)
	}
}

// ---- enumerated schedules -----------------------------------------------------------

type regOp struct {
	kind int // 1 first(cid,path) 2 second(cid) 3 unreg(path)
	cid  int
	path int
}

type regCall struct {
	db   *litestream.DB
	id   int
	slot *parkSlot
	done chan error
	held bool
}

func runRegSchedule(dir string, ops []regOp, cw *CaseWriter, class string) {
	traceReset()
	w := newRegWorld(dir, true)
	calls := map[int]*regCall{}
	var sched, outcomes SxList
	desc := ""
	rep := func() any {
		return map[string]any{"how": "harness conc (scenario regsched)", "schedule": desc,
			"legend": "F(c,p)=RegisterDB call c of path p runs its first check and is parked before Open; S(c)=call c resumes: Open, second check, append; U(p)=UnregisterDB(p)"}
	}
	decide := func(c *regCall, cid int, err error) {
		code := 0
		_, _, in := w.slice()
		switch {
		case err != nil:
			code = 9
		case !c.slot.passed.Load():
			code = 1
		case in[c.db]:
			code = 0
		default:
			code = 2
		}
		outcomes = append(outcomes, L(I(int64(cid)), I(int64(code))))
	}
	for _, op := range ops {
		switch op.kind {
		case 1:
			db, id := w.newDB(op.path)
			c := &regCall{db: db, id: id, slot: &parkSlot{parked: make(chan struct{}), release: make(chan struct{})}, done: make(chan error, 1)}
			calls[op.cid] = c
			w.ctl.mu.Lock()
			w.ctl.armed = c.slot
			w.ctl.mu.Unlock()
			go func() { call("RegisterDB", func() { c.done <- w.store.RegisterDB(db) }) }()
			select {
			case <-c.slot.parked:
				c.held = true
			case err := <-c.done:
				w.ctl.mu.Lock()
				w.ctl.armed = nil
				w.ctl.mu.Unlock()
				decide(c, op.cid, err)
			}
			sched = append(sched, L(I(1), I(int64(op.cid)), I(int64(op.path)), I(int64(id))))
			desc += fmt.Sprintf("F(%d,%c) ", op.cid, 'A'+op.path)
		case 2:
			c := calls[op.cid]
			if c != nil && c.held {
				c.held = false
				close(c.slot.release)
				decide(c, op.cid, <-c.done)
			}
			sched = append(sched, L(I(2), I(int64(op.cid))))
			desc += fmt.Sprintf("S(%d) ", op.cid)
		case 3:
			_ = w.store.UnregisterDB(context.Background(), w.path(op.path))
			sched = append(sched, L(I(3), I(int64(op.path))))
			desc += fmt.Sprintf("U(%c) ", 'A'+op.path)
		}
		if _, worst, _ := w.slice(); worst > 1 {
			violate("C12/register-two-instances-of-one-path",
				fmt.Sprintf("after the micro-steps %sthe store manages %d instances of one path", desc, worst), rep())
		}
	}
	for _, c := range calls { // never leave a goroutine parked
		if c.held {
			close(c.slot.release)
			<-c.done
		}
	}
	final, _, _ := w.slice()
	if outcomes == nil {
		outcomes = SxList{}
	}
	cw.Add("conc_register", L(L(), sched), L(final, outcomes), class, true)
	w.checkClosed(rep(), "schedule "+desc)
	_ = w.store.Close(context.Background())
	emitTrace(cw, "regsched")
}

func regSequences(maxLen int) [][]regOp {
	var alpha []regOp
	for p := 0; p < 4; p++ {
		alpha = append(alpha, regOp{kind: 1, path: p}, regOp{kind: 3, path: p})
	}
	out := [][]regOp{{}}
	frontier := [][]regOp{{}}
	for l := 0; l < maxLen; l++ {
		var next [][]regOp
		for _, s := range frontier {
			for _, a := range alpha {
				n := append(append([]regOp{}, s...), a)
				next = append(next, n)
			}
		}
		out = append(out, next...)
		frontier = next
	}
	return out
}

// scenarioRegSched enumerates: initial slice in {[], [B], [B,C]}; one call of A
// parked between its checks (or two parked calls, A and A|B, resumed in both
// orders) while every sequence of up to maxLen whole RegisterDB / UnregisterDB
// calls over the paths A..D runs.
func scenarioRegSched(out string, maxLen int, cw *CaseWriter) string {
	dir := filepath.Join(out, "regsched") + "/"
	n := 0
	expand := func(seq []regOp, cid *int) []regOp {
		var ops []regOp
		for _, a := range seq {
			if a.kind == 1 {
				*cid++
				ops = append(ops, regOp{1, *cid, a.path}, regOp{2, *cid, 0})
			} else {
				ops = append(ops, a)
			}
		}
		return ops
	}
	for _, init := range [][]int{{}, {1}, {1, 2}} {
		for _, seq := range regSequences(maxLen) {
			cid := 0
			var ops []regOp
			for _, p := range init {
				cid++
				ops = append(ops, regOp{1, cid, p}, regOp{2, cid, 0})
			}
			cid++
			parked := cid
			ops = append(ops, regOp{1, parked, 0})
			ops = append(ops, expand(seq, &cid)...)
			ops = append(ops, regOp{2, parked, 0})
			runRegSchedule(dir, ops, cw, fmt.Sprintf("regsched/one-parked/init%d/len%d", len(init), len(seq)))
			n++
		}
		l2 := maxLen - 1
		if l2 < 1 {
			l2 = 1
		}
		for _, p2 := range []int{0, 1} {
			for _, seq := range regSequences(l2) {
				for order := 0; order < 2; order++ {
					cid := 0
					var ops []regOp
					for _, p := range init {
						cid++
						ops = append(ops, regOp{1, cid, p}, regOp{2, cid, 0})
					}
					a, b := cid+1, cid+2
					cid += 2
					ops = append(ops, regOp{1, a, 0}, regOp{1, b, p2})
					ops = append(ops, expand(seq, &cid)...)
					if order == 0 {
						ops = append(ops, regOp{2, a, 0}, regOp{2, b, 0})
					} else {
						ops = append(ops, regOp{2, b, 0}, regOp{2, a, 0})
					}
					runRegSchedule(dir, ops, cw, fmt.Sprintf("regsched/two-parked/init%d/len%d", len(init), len(seq)))
					n++
				}
			}
		}
	}
	return fmt.Sprintf("%d enumerated schedules (sequences of up to %d whole calls over 4 paths while 1 or 2 RegisterDB calls are parked between their checks)", n, maxLen)
}

// ---- randomised multi-path registration ---------------------------------------------

func scenarioRegStress(out string, seed int64, rounds int, cw *CaseWriter) string {
	dir := filepath.Join(out, "regstress") + "/"
	samples, calls := 0, 0
	for round := 0; round < rounds; round++ {
		traceReset()
		w := newRegWorld(dir, false)
		r := rand.New(rand.NewSource(seed*131 + int64(round)))
		rep := map[string]any{"how": "harness conc (scenario regstress)", "seed": seed, "round": round}
		for p := 1; p <= 1+r.Intn(3); p++ { // some databases registered before A
			d, _ := w.newDB(p)
			_ = w.store.RegisterDB(d)
		}
		var stop atomic.Bool
		var wg, swg sync.WaitGroup
		var ncalls atomic.Int64
		swg.Add(1)
		go func() { // sampler
			defer swg.Done()
			for !stop.Load() {
				if _, worst, _ := w.slice(); worst > 1 {
					violate("C12/register-two-instances-of-one-path",
						fmt.Sprintf("sampled during concurrent RegisterDB(A) with Register/Unregister of B, C, D: the store manages %d instances of one path", worst), rep)
				}
				samples++
				runtime.Gosched()
			}
		}()
		start := make(chan struct{})
		k := 3 + r.Intn(6)
		for g := 0; g < k; g++ { // registrars of A, fresh objects
			gs := r.Int63()
			wg.Add(1)
			go func() {
				defer wg.Done()
				gr := rand.New(rand.NewSource(gs))
				<-start
				for i := 0; i < 4; i++ {
					d, _ := w.newDB(0)
					for y := gr.Intn(4); y > 0; y-- {
						runtime.Gosched()
					}
					call("RegisterDB", func() { _ = w.store.RegisterDB(d) })
					ncalls.Add(1)
				}
			}()
		}
		for p := 1; p <= 3; p++ { // churn of the other paths shifts the slice
			p, gs := p, r.Int63()
			wg.Add(1)
			go func() {
				defer wg.Done()
				gr := rand.New(rand.NewSource(gs))
				<-start
				for i := 0; i < 10; i++ {
					call("UnregisterDB", func() { _ = w.store.UnregisterDB(context.Background(), w.path(p)) })
					for y := gr.Intn(3); y > 0; y-- {
						runtime.Gosched()
					}
					d, _ := w.newDB(p)
					call("RegisterDB", func() { _ = w.store.RegisterDB(d) })
					ncalls.Add(2)
				}
			}()
		}
		wg.Add(1)
		go func() { // A itself goes away now and then, re-opening the window
			defer wg.Done()
			<-start
			for i := 0; i < 3; i++ {
				for y := 0; y < 20; y++ {
					runtime.Gosched()
				}
				call("UnregisterDB", func() { _ = w.store.UnregisterDB(context.Background(), w.path(0)) })
				ncalls.Add(1)
			}
		}()
		close(start)
		wg.Wait()
		stop.Store(true)
		swg.Wait()
		if _, worst, _ := w.slice(); worst > 1 {
			violate("C12/register-two-instances-of-one-path",
				fmt.Sprintf("after quiescence of concurrent RegisterDB(A) x%d with Register/Unregister of B, C, D: %d instances of one path", k, worst), rep)
		}
		w.checkClosed(rep, "regstress after quiescence")
		_ = w.store.Close(context.Background())
		emitTrace(cw, "regstress")
		calls += int(ncalls.Load())
	}
	return fmt.Sprintf("%d rounds, %d Register/Unregister calls over 4 paths, %d samples of the slice", rounds, calls, samples)
}
