//go:build !conctrace

package main

func ckptDebugStart(dbPath string) bool { return false }
func ckptDebugStop()                    {}
func ckptDebugLog(ev, extra string)     {}

func scenarioCkptFail(out, mode string) (string, error) {
	return "skipped: needs the verifTrace hook", nil
}
