//go:build !conctrace

package main

import . "verifharness/hx"

// Built without the verifTrace hook of /repo (trace_verif.go absent or renamed):
// no lock-trace conformance cases are produced; the stress and its oracles still run.
const traceEnabled = false

var traceTotal int

func traceReset() {}

func emitTrace(cw *CaseWriter, label string) int { return 0 }

func snapMode(n uint64) string { return "UNKNOWN" }
