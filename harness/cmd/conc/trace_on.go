//go:build conctrace

package main

// Lock-trace conformance (built when /repo carries the verifTrace hook): after
// every episode / scenario the recorded lock events are projected per DB object
// (together with the events of the store, so that the order between Store.mu and
// the database's locks is visible) and handed to the extracted monitor of
// Conc/Locks.v: `conc_trace_ok` must answer 1, `conc_trace_diag` (n 0).

import (
	"fmt"
	"sort"
	"strings"
	"sync"
	"sync/atomic"

	"github.com/benbjohnson/litestream"
	. "verifharness/hx"
)

const traceEnabled = true

func traceReset() {
	litestream.VerifTraceReset(true)
	tpMu.Lock()
	lastCkptMode = map[*litestream.DB]string{}
	modeAtSnap = map[uint64]string{}
	tpMu.Unlock()
}

// Trace-point dispatcher: remembers, for every snapshot position that is captured, the mode
// of the last checkpoint of that database that got as far as its sequence bump (the point
// after which a failing call leaves the WAL restarted or checkpointed but not copied), so
// that a snapshot which does not match its position can be attributed to that mode.
var (
	tpMu         sync.Mutex
	lastCkptMode = map[*litestream.DB]string{}
	modeAtSnap   = map[uint64]string{}
	tpExtra      atomic.Pointer[func(obj any, ev string)]
)

func init() { litestream.VerifTracePoint = tracePoint }

func setTracePointExtra(f func(obj any, ev string)) {
	if f == nil {
		tpExtra.Store(nil)
		return
	}
	tpExtra.Store(&f)
}

func tracePoint(obj any, ev string) {
	switch ev {
	case "pt.ckpt.bump":
		if db, ok := obj.(*litestream.DB); ok && db != nil {
			mode := db.SyncDiagnostic().CheckpointMode
			tpMu.Lock()
			lastCkptMode[db] = mode
			tpMu.Unlock()
		}
	case "snap.pos":
		if db, ok := obj.(*litestream.DB); ok && db != nil {
			if pos, err := db.Pos(); err == nil {
				tpMu.Lock()
				modeAtSnap[uint64(pos.TXID)] = lastCkptMode[db]
				tpMu.Unlock()
			}
		}
	}
	if f := tpExtra.Load(); f != nil {
		(*f)(obj, ev)
	}
}

// snapMode: mode of the last checkpoint that reached its bump before the snapshot of TXID n
func snapMode(n uint64) string {
	tpMu.Lock()
	defer tpMu.Unlock()
	if m := modeAtSnap[n]; m != "" {
		return strings.ToUpper(m)
	}
	return "UNKNOWN"
}

// event -> (code, resource); codes as in coq/Conc/Entry.v
var traceCodes = map[string][2]int64{
	"exec.acq": {1, 0}, "exec.try": {2, 0}, "exec.rel": {4, 0},
	"chk.acq": {1, 1}, "chk.try": {2, 1}, "chk.rel": {4, 1}, "chk.rlock": {5, 0}, "chk.runlock": {6, 0},
	"sync.acq": {1, 2}, "sync.try": {2, 2}, "sync.rel": {4, 2},
	"store.acq": {1, 3}, "store.rel": {4, 3},
	"dbmu.acq": {1, 4}, "dbmu.rel": {4, 4}, "dbmu.rlock": {5, 1}, "dbmu.runlock": {6, 1},
	"snap.pos": {7, 0}, "ckpt.run": {8, 0},
}

var traceDropped, traceTotal int

func emitTrace(cw *CaseWriter, label string) int {
	evs, dropped := litestream.VerifTraceEvents()
	litestream.VerifTraceReset(true)
	if dropped > 0 {
		traceDropped += dropped
		return 0 // an incomplete trace cannot be judged
	}
	objs := map[int]bool{}
	for _, e := range evs {
		if !e.Store {
			objs[e.Obj] = true
		}
	}
	project := func(obj int) SxList {
		gids := map[uint64]int64{}
		var tr SxList
		for _, e := range evs {
			if !(e.Store || e.Obj == obj) {
				continue
			}
			c, ok := traceCodes[e.Ev]
			if !ok {
				c = [2]int64{99, 0}
			}
			g, ok := gids[e.G]
			if !ok {
				g = int64(len(gids))
				gids[e.G] = g
			}
			tr = append(tr, L(I(g), I(c[0]), I(c[1])))
		}
		return tr
	}
	emit := func(tr SxList, class string) {
		if len(tr) == 0 {
			return
		}
		cw.Add("conc_trace_ok", tr, I(1), class, true)
		cw.Add("conc_trace_diag", tr, L(I(int64(len(tr))), I(0)), class+"/diag", true)
	}
	if len(objs) == 0 {
		emit(project(-1), "trace/"+label+"/store-only")
	}
	ids := make([]int, 0, len(objs))
	for o := range objs {
		ids = append(ids, o)
	}
	sort.Ints(ids)
	for _, o := range ids {
		emit(project(o), fmt.Sprintf("trace/%s", label))
	}
	traceTotal += len(evs)
	return len(evs)
}
