// Command v3: correspondence cases for the v0.3.x ("legacy") restore path (C19).
//
// Legacy layouts are synthesised from real SQLite histories: snapshots are
// copies of the database file at checkpoint boundaries, WAL segments are byte
// ranges of the real -wal files split at frame-aligned offsets, spread over
// several generations, with file mtimes controlling CreatedAt.  The real
// Replica.RestoreV3 / Replica.Restore run on them; the choice they make is
// observed from outside through a recording ReplicaClient (which snapshot and
// which segments were opened) and the restored database is identified among
// the states the source database really went through.
package main

import (
	"context"
	"crypto/sha256"
	"database/sql"
	"encoding/binary"
	"errors"
	"flag"
	"fmt"
	"io"
	"log/slog"
	"math/rand"
	"os"
	"path/filepath"
	"sort"
	"strings"
	"sync"
	"time"

	"github.com/benbjohnson/litestream"
	"github.com/benbjohnson/litestream/file"
	"github.com/pierrec/lz4/v4"
	"github.com/superfly/ltx"
	_ "modernc.org/sqlite"
	. "verifharness/hx"
)

// ---- time ------------------------------------------------------------------

var baseTime = time.Unix(1577836800, 0).UTC() // tick k = baseTime + k seconds; tick 0 = zero time

func tickTime(k int64) time.Time {
	if k == 0 {
		return time.Time{}
	}
	return baseTime.Add(time.Duration(k) * time.Second)
}

// ---- a source history and the legacy layout made from it ------------------------

type segT struct {
	idx       int
	off, size int64
	tick      int64
	data      []byte
}

type snapT struct {
	idx  int
	tick int64
	data []byte
}

type epochT struct {
	idx     int
	wal     []byte
	commits []int64 // end offset of every commit
	base    int     // number of the state at the start of this WAL index
}

type genT struct {
	id     string
	snaps  []snapT
	segs   []segT
	epochs []epochT
}

type history struct {
	ps      int
	gens    []genT // sorted by id (listing order)
	states  map[[32]byte]int
	images  map[int][]byte // debug only
	nstates int
	maxTick int64
	class   string
}

// overlay applies the committed frames of wal[:upto] to img the way a complete
// checkpoint does: latest committed frame per page, pages above the final
// database size dropped, file cut to that size.
func overlay(img []byte, wal []byte, upto int64, ps int) []byte {
	out := append([]byte(nil), img...)
	if upto < 32 {
		return out
	}
	fs := int64(24 + ps)
	pending := map[uint32]int64{}
	committed := map[uint32]int64{}
	dbsize := uint32(0)
	for off := int64(32); off+fs <= upto; off += fs {
		pgno := binary.BigEndian.Uint32(wal[off:])
		commit := binary.BigEndian.Uint32(wal[off+4:])
		pending[pgno] = off + 24
		if commit != 0 {
			for k, v := range pending {
				committed[k] = v
			}
			pending = map[uint32]int64{}
			dbsize = commit
		}
	}
	if dbsize == 0 {
		return out
	}
	need := int(dbsize) * ps
	if len(out) < need {
		out = append(out, make([]byte, need-len(out))...)
	}
	out = out[:need]
	for pg, at := range committed {
		if pg == 0 || pg > dbsize {
			continue
		}
		copy(out[int(pg-1)*ps:], wal[at:at+int64(ps)])
	}
	return out
}

func randGenID(r *rand.Rand) string {
	const hexd = "0123456789abcdef"
	b := make([]byte, 16)
	for i := range b {
		b[i] = hexd[r.Intn(16)]
	}
	return string(b)
}

// genHistory runs real transactions in SQLite and cuts the result into a
// v0.3.x layout.
func genHistory(r *rand.Rand, dir string) (*history, error) {
	pss := []int{512, 1024, 4096, 1024, 512}
	ps := pss[r.Intn(len(pss))]
	path := filepath.Join(dir, "src.db")
	db, err := sql.Open("sqlite", path)
	if err != nil {
		return nil, err
	}
	defer db.Close()
	db.SetMaxOpenConns(1)
	exec := func(q string, a ...any) error {
		_, e := db.Exec(q, a...)
		if e != nil {
			return fmt.Errorf("%s: %w", q, e)
		}
		return nil
	}
	if err := exec(fmt.Sprintf("PRAGMA page_size=%d", ps)); err != nil {
		return nil, err
	}
	if err := exec("PRAGMA journal_mode=wal"); err != nil {
		return nil, err
	}
	if err := exec("PRAGMA wal_autocheckpoint=0"); err != nil {
		return nil, err
	}
	if err := exec("CREATE TABLE t(id INTEGER PRIMARY KEY, n INTEGER, v BLOB)"); err != nil {
		return nil, err
	}
	if err := exec("INSERT INTO t(n, v) VALUES (0, randomblob(40))"); err != nil {
		return nil, err
	}
	ckpt := func() error {
		var a, b, c int
		if e := db.QueryRow("PRAGMA wal_checkpoint(TRUNCATE)").Scan(&a, &b, &c); e != nil {
			return e
		}
		if a != 0 {
			return fmt.Errorf("checkpoint busy")
		}
		return nil
	}
	if err := ckpt(); err != nil {
		return nil, err
	}
	h := &history{ps: ps, states: map[[32]byte]int{}}
	img, err := os.ReadFile(path)
	if err != nil {
		return nil, err
	}
	h.states[sha256.Sum256(img)] = 0
	state := 0
	counter := 0
	tick := int64(0)
	nextTick := func() int64 {
		if tick == 0 || r.Intn(6) != 0 { // sometimes two files share a timestamp
			tick += 2
		}
		return tick
	}
	ngens := 1 + r.Intn(3)
	h.class = fmt.Sprintf("gens=%d", ngens)
	used := map[string]bool{}
	for g := 0; g < ngens; g++ {
		gen := genT{id: randGenID(r)}
		for used[gen.id] {
			gen.id = randGenID(r)
		}
		used[gen.id] = true
		nidx := 1 + r.Intn(4)
		prevLen := int64(0)
		for e := 0; e < nidx; e++ {
			// snapshot at the checkpoint boundary (always at the start of a generation)
			if e == 0 || r.Intn(3) == 0 {
				gen.snaps = append(gen.snaps, snapT{idx: e, tick: nextTick(), data: img})
			}
			ep := epochT{idx: e, base: state}
			ntx := 1 + r.Intn(4)
			record := func() error {
				fi, e2 := os.Stat(path + "-wal")
				if e2 != nil {
					return e2
				}
				if n := len(ep.commits); (n == 0 && fi.Size() > 0) || (n > 0 && ep.commits[n-1] != fi.Size()) {
					ep.commits = append(ep.commits, fi.Size())
				}
				return nil
			}
			for t := 0; t < ntx; t++ {
				counter++
				switch r.Intn(6) {
				case 0:
					err = exec("UPDATE t SET n = ?, v = randomblob(?) WHERE id = (SELECT min(id) FROM t)", counter, 10+r.Intn(ps))
				case 1:
					// two autocommit statements = two commits
					if err = exec("DELETE FROM t WHERE id = (SELECT max(id) FROM t) AND (SELECT count(*) FROM t) > 1"); err == nil {
						if err = record(); err == nil {
							err = exec("INSERT INTO t(n, v) VALUES (?, randomblob(8))", counter)
						}
					}
				case 2:
					err = exec("INSERT INTO t(n, v) VALUES (?, randomblob(?))", counter, ps+r.Intn(3*ps))
				case 3:
					// one explicit transaction of several statements
					var tx *sql.Tx
					if tx, err = db.Begin(); err == nil {
						for k := 0; k < 3 && err == nil; k++ {
							_, err = tx.Exec("INSERT INTO t(n, v) VALUES (?, randomblob(?))", counter, 10+r.Intn(2*ps))
						}
						if err == nil {
							err = tx.Commit()
						} else {
							tx.Rollback()
						}
					}
				default:
					err = exec("INSERT INTO t(n, v) VALUES (?, randomblob(?))", counter, 10+r.Intn(ps/2))
				}
				if err != nil {
					return nil, err
				}
				if err = record(); err != nil {
					return nil, err
				}
			}
			wal, e2 := os.ReadFile(path + "-wal")
			if e2 != nil {
				return nil, e2
			}
			ep.wal = wal
			if len(ep.commits) == 0 || ep.commits[len(ep.commits)-1] != int64(len(wal)) {
				return nil, fmt.Errorf("generator: WAL size %d does not end at a recorded commit %v", len(wal), ep.commits)
			}
			for _, c := range ep.commits {
				state++
				si := overlay(img, wal, c, ps)
				hs := sha256.Sum256(si)
				if _, dup := h.states[hs]; dup {
					return nil, fmt.Errorf("generator: two source states share a page image")
				}
				h.states[hs] = state
				if os.Getenv("VERIF_V3_DEBUG") != "" {
					if h.images == nil {
						h.images = map[int][]byte{}
					}
					h.images[state] = si
				}
			}
			want := overlay(img, wal, int64(len(wal)), ps)
			if err := ckpt(); err != nil {
				return nil, err
			}
			img, err = os.ReadFile(path)
			if err != nil {
				return nil, err
			}
			if sha256.Sum256(img) != sha256.Sum256(want) {
				return nil, fmt.Errorf("generator: reference overlay differs from SQLite's own checkpoint (ps=%d)", ps)
			}
			// split at frame-aligned offsets
			fs := int64(24 + ps)
			nfr := (int64(len(wal)) - 32) / fs
			cuts := map[int64]bool{}
			lo := int64(0)
			if e > 0 && prevLen > 0 && prevLen < int64(len(wal)) && r.Intn(3) == 0 {
				// a continuation segment whose offset equals the length of the previous WAL file
				cuts[prevLen] = true
				lo = (prevLen - 32) / fs
			}
			for k := r.Intn(4); k > 0; k-- {
				if nfr-lo <= 0 {
					break
				}
				f := lo + int64(r.Intn(int(nfr-lo)+1)) // 0..nfr frames in front of the cut
				c := 32 + f*fs
				if c > 0 && c < int64(len(wal)) {
					cuts[c] = true
				}
			}
			offs := []int64{0}
			for c := range cuts {
				offs = append(offs, c)
			}
			sort.Slice(offs, func(i, j int) bool { return offs[i] < offs[j] })
			for i, o := range offs {
				end := int64(len(wal))
				if i+1 < len(offs) {
					end = offs[i+1]
				}
				gen.segs = append(gen.segs, segT{idx: e, off: o, size: end - o, tick: nextTick(), data: wal[o:end]})
			}
			gen.epochs = append(gen.epochs, ep)
			prevLen = int64(len(wal))
		}
		h.gens = append(h.gens, gen)
	}
	h.nstates = state + 1
	h.maxTick = tick
	sort.Slice(h.gens, func(i, j int) bool { return h.gens[i].id < h.gens[j].id })
	return h, nil
}

func writeLZ4(path string, data []byte, mt time.Time) error {
	if err := os.MkdirAll(filepath.Dir(path), 0o755); err != nil {
		return err
	}
	f, err := os.Create(path)
	if err != nil {
		return err
	}
	zw := lz4.NewWriter(f)
	if _, err := zw.Write(data); err != nil {
		f.Close()
		return err
	}
	if err := zw.Close(); err != nil {
		f.Close()
		return err
	}
	if err := f.Close(); err != nil {
		return err
	}
	return os.Chtimes(path, mt, mt)
}

func (h *history) materialise(root string) error {
	for _, g := range h.gens {
		for _, s := range g.snaps {
			if err := writeLZ4(litestream.SnapshotPathV3(root, g.id, s.idx), s.data, tickTime(s.tick)); err != nil {
				return err
			}
		}
		for _, s := range g.segs {
			if err := writeLZ4(litestream.WALSegmentPathV3(root, g.id, s.idx, s.off), s.data, tickTime(s.tick)); err != nil {
				return err
			}
		}
	}
	return nil
}

// layoutSx is the listing the model sees; skipG/skipS names a removed segment (-1: none).
func (h *history) layoutSx(skipG, skipS int) Sx {
	gens := SxList{}
	for gi, g := range h.gens {
		snaps := SxList{}
		for _, s := range g.snaps {
			snaps = append(snaps, L(I(int64(s.idx)), I(s.tick)))
		}
		segs := SxList{}
		for si, s := range g.segs {
			if gi == skipG && si == skipS {
				continue
			}
			segs = append(segs, L(I(int64(s.idx)), I(s.off), I(s.size), I(s.tick)))
		}
		gens = append(gens, L(snaps, segs))
	}
	return gens
}

func (h *history) truthSx() Sx {
	out := SxList{}
	for _, g := range h.gens {
		es := SxList{}
		for _, e := range g.epochs {
			cs := SxList{}
			for _, c := range e.commits {
				cs = append(cs, I(c))
			}
			es = append(es, L(I(int64(e.idx)), I(int64(len(e.wal))), I(int64(e.base)), cs))
		}
		out = append(out, es)
	}
	return out
}

// ---- recording client -------------------------------------------------------------

type openRec struct {
	gen      string
	idx      int
	off      int64
	snapshot bool
}

type recClient struct {
	*file.ReplicaClient
	mu      sync.Mutex
	opens   []openRec
	ltxOpen int
	fault   *faultSpec
}

// faultSpec: the first open of one WAL segment (or of the snapshot) delivers `after` bytes of the
// stored (compressed) stream and then fails (eof=false: a read error; eof=true: the stream ends
// cleanly early); every later open of the same object is served completely.
type faultSpec struct {
	target openRec
	after  int64
	eof    bool
	fired  bool
}

type faultReader struct {
	rc    io.ReadCloser
	left  int64
	eof   bool
}

func (f *faultReader) Read(p []byte) (int, error) {
	if f.left <= 0 {
		if f.eof {
			return 0, io.EOF
		}
		return 0, errors.New("read tcp: connection reset by peer")
	}
	if int64(len(p)) > f.left {
		p = p[:f.left]
	}
	n, err := f.rc.Read(p)
	f.left -= int64(n)
	return n, err
}
func (f *faultReader) Close() error { return f.rc.Close() }

func (c *recClient) maybeFault(rec openRec, rc io.ReadCloser, err error) (io.ReadCloser, error) {
	if err != nil || c.fault == nil {
		return rc, err
	}
	c.mu.Lock()
	defer c.mu.Unlock()
	if !c.fault.fired && c.fault.target == rec {
		c.fault.fired = true
		return &faultReader{rc: rc, left: c.fault.after, eof: c.fault.eof}, nil
	}
	return rc, nil
}

func (c *recClient) OpenSnapshotV3(ctx context.Context, generation string, index int) (io.ReadCloser, error) {
	c.mu.Lock()
	c.opens = append(c.opens, openRec{gen: generation, idx: index, snapshot: true})
	c.mu.Unlock()
	rc, err := c.ReplicaClient.OpenSnapshotV3(ctx, generation, index)
	return c.maybeFault(openRec{gen: generation, idx: index, snapshot: true}, rc, err)
}

func (c *recClient) OpenWALSegmentV3(ctx context.Context, generation string, index int, offset int64) (io.ReadCloser, error) {
	c.mu.Lock()
	c.opens = append(c.opens, openRec{gen: generation, idx: index, off: offset})
	c.mu.Unlock()
	rc, err := c.ReplicaClient.OpenWALSegmentV3(ctx, generation, index, offset)
	return c.maybeFault(openRec{gen: generation, idx: index, off: offset}, rc, err)
}

func (c *recClient) OpenLTXFile(ctx context.Context, level int, minTXID, maxTXID ltx.TXID, offset, size int64) (io.ReadCloser, error) {
	c.mu.Lock()
	c.ltxOpen++
	c.mu.Unlock()
	return c.ReplicaClient.OpenLTXFile(ctx, level, minTXID, maxTXID, offset, size)
}

type restoreObs struct {
	status  int
	gen     int
	snapIdx int
	opened  [][2]int64
	matched int
	usedV3  bool
	usedLTX bool
	errText string
}

func classify(err error) int {
	switch {
	case err == nil:
		return 0
	case errors.Is(err, litestream.ErrNoSnapshots):
		return 1
	case strings.Contains(err.Error(), "missing WAL index"):
		return 2
	case strings.Contains(err.Error(), "missing WAL segment"):
		return 3
	case strings.Contains(err.Error(), "write WAL segment"):
		return 4
	default:
		return 5
	}
}

// runRestore runs RestoreV3 (viaRestore=false) or Restore (true) on root.
func runRestore(h *history, root, outDir string, T int64, viaRestore bool) (o restoreObs) {
	return runRestoreF(h, root, outDir, T, viaRestore, nil)
}

// outputLeftover: after a FAILED restore nothing may exist at the output path
func outputLeftover(outDir string) bool {
	_, err := os.Stat(filepath.Join(outDir, "restored.db"))
	return err == nil
}

func runRestoreF(h *history, root, outDir string, T int64, viaRestore bool, fs *faultSpec) (o restoreObs) {
	o.matched = -1
	rc := &recClient{ReplicaClient: file.NewReplicaClient(root), fault: fs}
	out := filepath.Join(outDir, "restored.db")
	for _, sfx := range []string{"", "-wal", "-shm", ".tmp", ".tmp-wal", ".tmp-shm"} {
		os.Remove(out + sfx)
	}
	var err error
	func() {
		defer func() {
			if p := recover(); p != nil {
				err = fmt.Errorf("panic: %v", p)
				o.status = 9
			}
		}()
		r := litestream.NewReplicaWithClient(nil, rc)
		opt := litestream.RestoreOptions{OutputPath: out, Timestamp: tickTime(T)}
		if viaRestore {
			opt.Parallelism = 1
			err = r.Restore(context.Background(), opt)
		} else {
			err = r.RestoreV3(context.Background(), opt)
		}
	}()
	if o.status != 9 {
		o.status = classify(err)
	}
	if err != nil {
		o.errText = err.Error()
	}
	o.usedLTX = rc.ltxOpen > 0
	for _, op := range rc.opens {
		if op.snapshot {
			o.usedV3 = true
			o.gen = -1
			for gi, g := range h.gens {
				if g.id == op.gen {
					o.gen = gi
				}
			}
			o.snapIdx = op.idx
		} else {
			o.opened = append(o.opened, [2]int64{int64(op.idx), op.off})
		}
	}
	if o.status == 0 {
		if b, e := os.ReadFile(out); e == nil {
			if n, ok := h.states[sha256.Sum256(b)]; ok {
				o.matched = n
			} else if h.images != nil {
				for st, im := range h.images {
					diff := []int{}
					for pg := 0; pg*h.ps < len(im) || pg*h.ps < len(b); pg++ {
						lo, hi := pg*h.ps, (pg+1)*h.ps
						if hi > len(im) || hi > len(b) || string(im[lo:hi]) != string(b[lo:hi]) {
							diff = append(diff, pg+1)
						}
					}
					if len(diff) < 4 {
						fmt.Fprintf(os.Stderr, "DEBUG T=%d opened=%v: restored (%d bytes) vs state %d (%d bytes): pages differ %v\n", T, o.opened, len(b), st, len(im), diff)
						for _, pg := range diff {
							lo := (pg - 1) * h.ps
							if lo+100 <= len(im) && lo+100 <= len(b) {
								for k := 0; k < h.ps; k++ {
									if im[lo+k] != b[lo+k] {
										fmt.Fprintf(os.Stderr, "  page %d first diff at byte %d: want %x got %x\n", pg, k, im[lo+k:lo+k+8], b[lo+k:lo+k+8])
										break
									}
								}
							}
						}
					}
				}
			}
		}
	}
	return o
}

func (o restoreObs) planSx() Sx {
	if o.status != 0 {
		return L(I(int64(o.status)), I(0), I(0), L())
	}
	op := SxList{}
	for _, p := range o.opened {
		op = append(op, L(I(p[0]), I(p[1])))
	}
	return L(I(0), I(int64(o.gen)), I(int64(o.snapIdx)), op)
}

func (o restoreObs) fullSx() Sx {
	op := SxList{}
	for _, p := range o.opened {
		op = append(op, L(I(p[0]), I(p[1])))
	}
	if o.status != 0 {
		return L(I(int64(o.status)), I(0), I(0), L(), I(-1))
	}
	return L(I(0), I(int64(o.gen)), I(int64(o.snapIdx)), op, I(int64(o.matched)))
}

// ---- case records (histories run in parallel, written in order) ------------------

type rec struct {
	def         bool
	name, entry string
	in, obs     Sx
	class       string
	nontrivial  bool
}

type recs []rec

func (rs *recs) define(name string, v Sx) { *rs = append(*rs, rec{def: true, name: name, in: v}) }
func (rs *recs) add(entry string, in, obs Sx, class string, nt bool) {
	*rs = append(*rs, rec{entry: entry, in: in, obs: obs, class: class, nontrivial: nt})
}

func flush(cw *CaseWriter, rs recs) {
	for _, r := range rs {
		if r.def {
			cw.Define(r.name, r.in)
		} else {
			cw.Add(r.entry, r.in, r.obs, r.class, r.nontrivial)
		}
	}
}

// ---- per-history case generation -----------------------------------------------------

type ltxPool struct {
	dir   string // a file replica with ltx/0/* and ltx/9/*
	files []ltxFile
}

type ltxFile struct {
	level    int
	min, max ltx.TXID
	path     string
}

var faultOnly bool

func historyCases(seed int64, hi int, workDir string, pool *ltxPool, thorough bool) (rs recs, err error) {
	r := NewRand(seed)
	dir := filepath.Join(workDir, fmt.Sprintf("h%d", hi))
	os.RemoveAll(dir)
	if err = os.MkdirAll(dir, 0o755); err != nil {
		return nil, err
	}
	defer os.RemoveAll(dir)
	h, err := genHistory(r, dir)
	if err != nil {
		return nil, err
	}
	root := filepath.Join(dir, "replica")
	if err = h.materialise(root); err != nil {
		return nil, err
	}
	stash := filepath.Join(dir, "stash")
	os.MkdirAll(stash, 0o755)
	outDir := filepath.Join(dir, "out")
	os.MkdirAll(outDir, 0o755)
	tag := func(variant string) Sx {
		_ = variant
		return L(I(seed), I(int64(hi)))
	}
	truth := h.truthSx()

	emit := func(skipG, skipS int, T int64, class string) restoreObs {
		o := runRestore(h, root, outDir, T, false)
		rs.add("v3_plan", L(Ref("l"), I(T)), o.planSx(), class, o.status != 1)
		rs.add("v3_plan_ok", L(Ref("l"), I(T), Ref("tr"), o.fullSx(), tag(class)), I(1), class+"/spec", o.status != 1)
		return o
	}

	// the complete layout at every timestamp (on and between every file time)
	rs.define("tr", truth)
	rs.define("l", h.layoutSx(-1, -1))
	emit(-1, -1, 0, h.class+"/full/latest")
	for T := int64(1); T <= h.maxTick+1 && !faultOnly; T++ {
		emit(-1, -1, T, h.class+"/full/ts")
	}

	// read faults while downloading (C10 for the legacy path): the first open of one object of the
	// fault-free plan fails or ends early after k bytes of the stored stream; the outcome must be an
	// error with nothing at the output path, or exactly the fault-free database
	{
		base := runRestore(h, root, outDir, 0, false)
		if base.status == 0 {
			var targets []openRec
			if base.gen >= 0 && base.gen < len(h.gens) {
				gid := h.gens[base.gen].id
				targets = append(targets, openRec{gen: gid, idx: base.snapIdx, snapshot: true})
				for _, op := range base.opened {
					targets = append(targets, openRec{gen: gid, idx: int(op[0]), off: op[1]})
				}
			}
			if !thorough && len(targets) > 4 {
				// the snapshot, the first and last segment and one in between
				mid := targets[1+r.Intn(len(targets)-2)]
				targets = []openRec{targets[0], targets[1], mid, targets[len(targets)-1]}
			}
			for _, tg := range targets {
				var p string
				if tg.snapshot {
					p = litestream.SnapshotPathV3(root, tg.gen, tg.idx)
				} else {
					p = litestream.WALSegmentPathV3(root, tg.gen, tg.idx, tg.off)
				}
				stored, e := os.ReadFile(p)
				if e != nil {
					continue
				}
				fi, _ := os.Stat(p)
				// length of the stream the client hands out (decompressed)
				var plain int64
				{
					var rcl io.ReadCloser
					fc := file.NewReplicaClient(root)
					if tg.snapshot {
						rcl, e = fc.OpenSnapshotV3(context.Background(), tg.gen, tg.idx)
					} else {
						rcl, e = fc.OpenWALSegmentV3(context.Background(), tg.gen, tg.idx, tg.off)
					}
					if e != nil {
						continue
					}
					plain, _ = io.Copy(io.Discard, rcl)
					rcl.Close()
				}
				what := "segment"
				if tg.snapshot {
					what = "snapshot"
				}
				emitF := func(o restoreObs, kind string, after int64) {
					class := h.class + "/fault/" + what + "/" + kind
					left := int64(0)
					if o.status != 0 && outputLeftover(outDir) {
						left = 1
					}
					rs.add("v3_fault_ok", L(base.fullSx(), o.fullSx(), I(left), L(I(seed), I(int64(hi)), I(after))), I(1), class+"/spec", true)
				}
				// (a) a read error after k bytes of the stream the client returns
				offs := []int64{0, 1, plain / 2, plain - 1}
				if thorough {
					for k := 0; k < 6 && plain > 0; k++ {
						offs = append(offs, r.Int63n(plain))
					}
				}
				for _, after := range offs {
					if after < 0 || after >= plain {
						continue
					}
					o := runRestoreF(h, root, outDir, 0, false, &faultSpec{target: tg, after: after})
					emitF(o, "read-error", after)
				}
				// (b) the stored object ends early (a download that ends early / a truncated file):
				// the compressed file is cut at k bytes, below the client's decompressor
				sz := int64(len(stored))
				cuts := []int64{0, 1, sz / 2, sz - 8, sz - 4, sz - 1}
				if thorough {
					for k := 0; k < 8 && sz > 0; k++ {
						cuts = append(cuts, r.Int63n(sz))
					}
				}
				for _, cut := range cuts {
					if cut < 0 || cut >= sz {
						continue
					}
					if e := os.WriteFile(p, stored[:cut], 0o644); e != nil {
						return nil, e
					}
					os.Chtimes(p, fi.ModTime(), fi.ModTime())
					o := runRestore(h, root, outDir, 0, false)
					emitF(o, "truncated-object", cut)
				}
				if e := os.WriteFile(p, stored, 0o644); e != nil {
					return nil, e
				}
				os.Chtimes(p, fi.ModTime(), fi.ModTime())
			}
		}
	}

	// any one segment removed
	for gi := range h.gens {
		g := &h.gens[gi]
		for si := range g.segs {
			s := g.segs[si]
			p := litestream.WALSegmentPathV3(root, g.id, s.idx, s.off)
			sp := filepath.Join(stash, "seg")
			if err = os.Rename(p, sp); err != nil {
				return nil, err
			}
			last := si == len(g.segs)-1 || g.segs[si+1].idx != s.idx
			finalIdx := s.idx == g.segs[len(g.segs)-1].idx
			shape := "middle"
			switch {
			case s.off == 0 && last:
				shape = "whole-index"
			case s.off == 0:
				shape = "first"
			case last && finalIdx:
				shape = "tail-of-final-index"
			case last:
				shape = "tail-of-nonfinal-index"
			}
			class := h.class + "/removed-" + shape
			rs.define("tr", truth)
			rs.define("l", h.layoutSx(gi, si))
			emit(gi, si, 0, class+"/latest")
			ts := []int64{s.tick, h.maxTick + 1}
			if faultOnly {
				ts = nil // C10 on the legacy path: a missing object, latest restore only
			} else if thorough {
				ts = nil
				for T := s.tick - 1; T <= h.maxTick+1; T++ {
					if T >= 1 {
						ts = append(ts, T)
					}
				}
			} else if s.tick+1 <= h.maxTick {
				ts = append(ts, s.tick+1+int64(r.Intn(int(h.maxTick-s.tick))))
			}
			for _, T := range ts {
				emit(gi, si, T, class+"/ts")
			}
			if err = os.Rename(sp, p); err != nil {
				return nil, err
			}
		}
	}

	// combined with a current-format replica: which format does Restore use?
	if pool != nil && !faultOnly {
		nv := 2
		if thorough {
			nv = 6
		}
		for v := 0; v < nv; v++ {
			ltxDir := litestream.LTXDir(root)
			os.RemoveAll(ltxDir)
			var snapTimes, otherTimes []int64
			// snapshot files in listing (TXID) order get non-decreasing times, like real ones
			hiTick := h.maxTick + 3
			st := int64(1 + r.Intn(int(hiTick)))
			for _, f := range pool.files {
				if f.level == litestream.SnapshotLevel {
					if r.Intn(4) == 0 && len(snapTimes) > 0 {
						continue
					}
					dst := litestream.LTXFilePath(root, f.level, f.min, f.max)
					if err = copyFile(f.path, dst, tickTime(st)); err != nil {
						return nil, err
					}
					snapTimes = append(snapTimes, st)
					st += int64(r.Intn(4))
				}
			}
			for _, f := range pool.files {
				if f.level != litestream.SnapshotLevel {
					ot := int64(1 + r.Intn(int(hiTick)))
					dst := litestream.LTXFilePath(root, f.level, f.min, f.max)
					if err = copyFile(f.path, dst, tickTime(ot)); err != nil {
						return nil, err
					}
					otherTimes = append(otherTimes, ot)
				}
			}
			sl, ol := SxList{}, SxList{}
			for _, t := range snapTimes {
				sl = append(sl, I(t))
			}
			for _, t := range otherTimes {
				ol = append(ol, I(t))
			}
			rs.define("tr", truth)
			rs.define("l", h.layoutSx(-1, -1))
			cand := []int64{0}
			for T := int64(1); T <= hiTick+1; T++ {
				cand = append(cand, T)
			}
			if !thorough {
				// all boundaries of the current-format files plus a sample of the others
				keep := map[int64]bool{0: true}
				for _, t := range append(append([]int64{}, snapTimes...), otherTimes...) {
					keep[t-1], keep[t], keep[t+1] = true, true, true
				}
				for i := 0; i < 4; i++ {
					keep[int64(1+r.Intn(int(hiTick)))] = true
				}
				cand = cand[:0]
				for T := int64(0); T <= hiTick+1; T++ {
					if keep[T] {
						cand = append(cand, T)
					}
				}
			}
			for _, T := range cand {
				o := runRestore(h, root, outDir, T, true)
				dec := int64(0)
				if o.usedV3 {
					dec = 1
				}
				cls := h.class + "/combined"
				if o.usedV3 && o.usedLTX {
					cls += "/both-opened"
				}
				rs.add("v3_arbitrate", L(Ref("l"), sl, ol, I(T)), I(dec), cls, true)
				rs.add("v3_arbitrate_ok", L(Ref("l"), sl, ol, I(T), I(dec)), I(1), cls+"/spec", true)
				if o.usedV3 {
					// the legacy restore reached through Restore must obey the same rules
					rs.add("v3_plan_ok", L(Ref("l"), I(T), Ref("tr"), o.fullSx(), tag(cls)), I(1), cls+"/spec", true)
				}
			}
			os.RemoveAll(ltxDir)
		}
	}
	return rs, nil
}

func copyFile(src, dst string, mt time.Time) error {
	b, err := os.ReadFile(src)
	if err != nil {
		return err
	}
	if err := os.MkdirAll(filepath.Dir(dst), 0o755); err != nil {
		return err
	}
	if err := os.WriteFile(dst, b, 0o644); err != nil {
		return err
	}
	return os.Chtimes(dst, mt, mt)
}

// ---- a small current-format replica made by the real DB/Replica code ---------------------

func buildLTXPool(dir string) (*ltxPool, error) {
	ctx := context.Background()
	dbPath := filepath.Join(dir, "ltxsrc.db")
	repDir := filepath.Join(dir, "ltxrep")
	db := litestream.NewDB(dbPath)
	db.MonitorInterval = 0
	db.Logger = QuietLogger()
	c := file.NewReplicaClient(repDir)
	db.Replica = litestream.NewReplicaWithClient(db, c)
	db.Replica.MonitorEnabled = false
	c.Replica = db.Replica
	if err := db.Open(); err != nil {
		return nil, err
	}
	app, err := sql.Open("sqlite", dbPath)
	if err != nil {
		return nil, err
	}
	app.SetMaxOpenConns(1)
	steps := []string{
		"PRAGMA journal_mode=wal",
		"PRAGMA wal_autocheckpoint=0",
		"CREATE TABLE ltxmarker(id INTEGER PRIMARY KEY, v TEXT)",
		"INSERT INTO ltxmarker(v) VALUES ('a')",
	}
	for _, q := range steps {
		if _, err := app.Exec(q); err != nil {
			return nil, fmt.Errorf("%s: %w", q, err)
		}
	}
	if err := db.SyncAndWait(ctx); err != nil {
		return nil, err
	}
	if _, err := db.Snapshot(ctx); err != nil {
		return nil, err
	}
	for i := 0; i < 2; i++ {
		if _, err := app.Exec("INSERT INTO ltxmarker(v) VALUES ('b')"); err != nil {
			return nil, err
		}
		if err := db.SyncAndWait(ctx); err != nil {
			return nil, err
		}
	}
	if _, err := db.Snapshot(ctx); err != nil {
		return nil, err
	}
	if _, err := app.Exec("INSERT INTO ltxmarker(v) VALUES ('c')"); err != nil {
		return nil, err
	}
	if err := db.SyncAndWait(ctx); err != nil {
		return nil, err
	}
	app.Close()
	if err := db.Close(ctx); err != nil {
		return nil, err
	}
	p := &ltxPool{dir: repDir}
	for _, level := range []int{litestream.SnapshotLevel, 0} {
		itr, err := c.LTXFiles(ctx, level, 0, false)
		if err != nil {
			return nil, err
		}
		for itr.Next() {
			fi := itr.Item()
			p.files = append(p.files, ltxFile{level: level, min: fi.MinTXID, max: fi.MaxTXID,
				path: litestream.LTXFilePath(repDir, level, fi.MinTXID, fi.MaxTXID)})
		}
		itr.Close()
	}
	if len(p.files) < 3 {
		return nil, fmt.Errorf("ltx pool: only %d files", len(p.files))
	}
	return p, nil
}

// ---- listing-level cases through the hook file (planner pieces on their own) ------------

func snapsSx(a []litestream.SnapshotInfoV3, genOrd map[string]int64) Sx {
	l := SxList{}
	for _, s := range a {
		l = append(l, L(I(genOrd[s.Generation]), I(int64(s.Index)), I(tickOf(s.CreatedAt))))
	}
	return l
}

func tickOf(t time.Time) int64 {
	if t.IsZero() {
		return 0
	}
	return int64(t.Sub(baseTime) / time.Second)
}

func plannerPieceCases(cw *CaseWriter, r *rand.Rand, n int) {
	gens := []string{"00000000000000aa", "00000000000000bb", "00000000000000cc"}
	genOrd := map[string]int64{}
	for i, g := range gens {
		genOrd[g] = int64(i)
	}
	for i := 0; i < n; i++ {
		// snapshots, collected generation by generation, each sorted by index; many equal times
		span := int64(1 + r.Intn(8))
		var snaps []litestream.SnapshotInfoV3
		for _, g := range gens[:1+r.Intn(3)] {
			k := r.Intn(4)
			idx := 0
			for j := 0; j < k; j++ {
				idx += r.Intn(3)
				snaps = append(snaps, litestream.SnapshotInfoV3{Generation: g, Index: idx, CreatedAt: tickTime(1 + r.Int63n(span))})
				idx++
			}
		}
		in := snapsSx(snaps, genOrd)
		sorted := append([]litestream.SnapshotInfoV3(nil), snaps...)
		litestream.SortSnapshotsV3ByCreatedAt(sorted)
		cw.Add("v3_sort", L(in), snapsSx(sorted, genOrd), "pieces/sort", len(snaps) > 1)
		T := r.Int63n(span + 2)
		best := litestream.FindBestSnapshotV3(sorted, tickTime(T))
		obs := L(I(0), I(0), I(0), I(0))
		if best != nil {
			obs = L(I(1), I(genOrd[best.Generation]), I(int64(best.Index)), I(tickOf(best.CreatedAt)))
		}
		cw.Add("v3_best", L(in, I(T)), obs, "pieces/best", len(snaps) > 0)

		// segments with arbitrary (also non-monotone) times
		var segs []litestream.WALSegmentInfoV3
		segIn := SxList{}
		idx := r.Intn(3)
		for j, k := 0, r.Intn(7); j < k; j++ {
			off := int64(0)
			if r.Intn(2) == 0 {
				off = int64(32 + 536*r.Intn(4))
			} else if j > 0 {
				idx += r.Intn(3)
			}
			ct := 1 + r.Int63n(span)
			segs = append(segs, litestream.WALSegmentInfoV3{Generation: gens[0], Index: idx, Offset: off, CreatedAt: tickTime(ct)})
			segIn = append(segIn, L(I(int64(idx)), I(off), I(0), I(ct)))
		}
		si := r.Intn(4)
		T2 := r.Int63n(span + 2)
		kept := litestream.FilterWALSegmentsV3(segs, si, tickTime(T2))
		ko := SxList{}
		for _, s := range kept {
			ko = append(ko, L(I(int64(s.Index)), I(s.Offset)))
		}
		cw.Add("v3_filter", L(segIn, I(int64(si)), I(T2)), ko, "pieces/filter", len(segs) > 0)
	}
}

// ---- listing-level cases through the real RestoreV3 / shouldUseV3Restore on a
// listing-only client (arbitrary listings: gaps, duplicates of times, non-monotone
// times, continuation segments of other indices) ---------------------------------------

type memSeg struct {
	idx       int
	off, size int64
	tick      int64
}

type memGen struct {
	id    string
	snaps [][2]int64 // idx, tick
	segs  []memSeg
}

type memClient struct {
	gens     []memGen
	snapshot []byte // a valid database image served for every snapshot
	ltxSnaps []int64
	ltxOther []int64
	opened   [][2]int64
	snapGen  int
	snapIdx  int
	snapOpen bool
}

func (c *memClient) Type() string                     { return "mem" }
func (c *memClient) Init(ctx context.Context) error   { return nil }
func (c *memClient) SetLogger(logger *slog.Logger)    {}
func (c *memClient) DeleteAll(ctx context.Context) error { return nil }
func (c *memClient) DeleteLTXFiles(ctx context.Context, a []*ltx.FileInfo) error {
	return nil
}
func (c *memClient) WriteLTXFile(ctx context.Context, level int, minTXID, maxTXID ltx.TXID, r io.Reader) (*ltx.FileInfo, error) {
	return nil, fmt.Errorf("read-only")
}
func (c *memClient) OpenLTXFile(ctx context.Context, level int, minTXID, maxTXID ltx.TXID, offset, size int64) (io.ReadCloser, error) {
	return nil, os.ErrNotExist
}
func (c *memClient) LTXFiles(ctx context.Context, level int, seek ltx.TXID, useMetadata bool) (ltx.FileIterator, error) {
	var a []*ltx.FileInfo
	if level == litestream.SnapshotLevel {
		for i, t := range c.ltxSnaps {
			a = append(a, &ltx.FileInfo{Level: level, MinTXID: 1, MaxTXID: ltx.TXID(i + 1), CreatedAt: tickTime(t)})
		}
	} else if level == 0 {
		for i, t := range c.ltxOther {
			a = append(a, &ltx.FileInfo{Level: level, MinTXID: ltx.TXID(i + 1), MaxTXID: ltx.TXID(i + 1), CreatedAt: tickTime(t)})
		}
	}
	return ltx.NewFileInfoSliceIterator(a), nil
}
func (c *memClient) GenerationsV3(ctx context.Context) ([]string, error) {
	var out []string
	for _, g := range c.gens {
		out = append(out, g.id)
	}
	return out, nil
}
func (c *memClient) gen(id string) (int, *memGen) {
	for i := range c.gens {
		if c.gens[i].id == id {
			return i, &c.gens[i]
		}
	}
	return -1, &memGen{}
}
func (c *memClient) SnapshotsV3(ctx context.Context, generation string) ([]litestream.SnapshotInfoV3, error) {
	_, g := c.gen(generation)
	var out []litestream.SnapshotInfoV3
	for _, s := range g.snaps {
		out = append(out, litestream.SnapshotInfoV3{Generation: generation, Index: int(s[0]), CreatedAt: tickTime(s[1])})
	}
	return out, nil
}
func (c *memClient) WALSegmentsV3(ctx context.Context, generation string) ([]litestream.WALSegmentInfoV3, error) {
	_, g := c.gen(generation)
	var out []litestream.WALSegmentInfoV3
	for _, s := range g.segs {
		out = append(out, litestream.WALSegmentInfoV3{Generation: generation, Index: s.idx, Offset: s.off, Size: s.size, CreatedAt: tickTime(s.tick)})
	}
	return out, nil
}
func (c *memClient) OpenSnapshotV3(ctx context.Context, generation string, index int) (io.ReadCloser, error) {
	gi, _ := c.gen(generation)
	c.snapGen, c.snapIdx, c.snapOpen = gi, index, true
	return io.NopCloser(strings.NewReader(string(c.snapshot))), nil
}
func (c *memClient) OpenWALSegmentV3(ctx context.Context, generation string, index int, offset int64) (io.ReadCloser, error) {
	_, g := c.gen(generation)
	c.opened = append(c.opened, [2]int64{int64(index), offset})
	for _, s := range g.segs {
		if s.idx == index && s.off == offset {
			// bytes SQLite does not recognise as a WAL: the checkpoint has nothing to apply
			return io.NopCloser(strings.NewReader(strings.Repeat("\x00", int(s.size)))), nil
		}
	}
	return nil, os.ErrNotExist
}

func (c *memClient) layoutSx() Sx {
	gens := SxList{}
	for _, g := range c.gens {
		snaps, segs := SxList{}, SxList{}
		for _, s := range g.snaps {
			snaps = append(snaps, L(I(s[0]), I(s[1])))
		}
		for _, s := range g.segs {
			segs = append(segs, L(I(int64(s.idx)), I(s.off), I(s.size), I(s.tick)))
		}
		gens = append(gens, L(snaps, segs))
	}
	return gens
}

func randMemLayout(r *rand.Rand, snapshot []byte) *memClient {
	c := &memClient{snapshot: snapshot}
	span := int64(2 + r.Intn(10))
	monotone := r.Intn(3) != 0
	tick := int64(0)
	nt := func() int64 {
		if monotone {
			tick += int64(r.Intn(3))
			if tick == 0 {
				tick = 1
			}
			return tick
		}
		return 1 + r.Int63n(span)
	}
	ids := []string{"00000000000000aa", "00000000000000bb", "00000000000000cc"}
	ng := r.Intn(4)
	if ng > 3 {
		ng = 3
	}
	order := r.Perm(3)[:ng]
	gens := make([]memGen, 3)
	for _, gi := range order { // chronological order differs from listing order
		g := memGen{id: ids[gi]}
		nidx := r.Intn(4)
		idx := 0
		if r.Intn(6) == 0 {
			idx = 1 + r.Intn(2)
		}
		for e := 0; e < nidx; e++ {
			if e == 0 && r.Intn(8) != 0 || r.Intn(3) == 0 {
				g.snaps = append(g.snaps, [2]int64{int64(idx), nt()})
			}
			off := int64(0)
			nseg := r.Intn(4)
			for s := 0; s < nseg; s++ {
				size := int64(8 * (1 + r.Intn(4)))
				sg := memSeg{idx: idx, off: off, size: size, tick: nt()}
				switch r.Intn(14) {
				case 0: // lost segment
				case 1: // offset gap
					sg.off += 8
					g.segs = append(g.segs, sg)
				case 2: // first segment not at offset 0
					if s == 0 {
						sg.off = 8
					}
					g.segs = append(g.segs, sg)
				default:
					g.segs = append(g.segs, sg)
				}
				off += size
			}
			idx++
			if r.Intn(8) == 0 {
				idx++ // index gap
			}
		}
		sort.Slice(g.segs, func(i, j int) bool {
			if g.segs[i].idx != g.segs[j].idx {
				return g.segs[i].idx < g.segs[j].idx
			}
			return g.segs[i].off < g.segs[j].off
		})
		// drop duplicates (a directory cannot hold two files of one name)
		var ded []memSeg
		for _, s := range g.segs {
			if n := len(ded); n > 0 && ded[n-1].idx == s.idx && ded[n-1].off == s.off {
				continue
			}
			ded = append(ded, s)
		}
		g.segs = ded
		gens[gi] = g
	}
	for _, g := range gens {
		if g.id != "" {
			c.gens = append(c.gens, g)
		}
	}
	// current-format side
	if r.Intn(4) != 0 {
		t := int64(1 + r.Intn(int(span)))
		for k := r.Intn(3); k > 0; k-- {
			c.ltxSnaps = append(c.ltxSnaps, t)
			t += int64(r.Intn(4))
		}
		for k := r.Intn(4); k > 0; k-- {
			c.ltxOther = append(c.ltxOther, 1+r.Int63n(span+2))
		}
	}
	return c
}

func memArbitrate(c *memClient, T int64) (obs Sx) {
	dec, st := int64(0), int64(0)
	defer func() {
		if p := recover(); p != nil {
			st = 9
		}
		obs = I(dec)
		if st != 0 {
			obs = I(100 + st)
		}
	}()
	rp := litestream.NewReplicaWithClient(nil, c)
	use, err := rp.ShouldUseV3Restore(context.Background(), c, tickTime(T))
	if err != nil {
		st = 5
	}
	if use {
		dec = 1
	}
	return
}

func memPlan(c *memClient, T int64, out string) restoreObs {
	c.opened, c.snapOpen = nil, false
	p := filepath.Join(out, "r.db")
	for _, sfx := range []string{"", "-wal", "-shm", ".tmp", ".tmp-wal", ".tmp-shm"} {
		os.Remove(p + sfx)
	}
	var err error
	status := 0
	func() {
		defer func() {
			if pn := recover(); pn != nil {
				status = 9
			}
		}()
		rp := litestream.NewReplicaWithClient(nil, c)
		err = rp.RestoreV3(context.Background(), litestream.RestoreOptions{OutputPath: p, Timestamp: tickTime(T)})
	}()
	if status != 9 {
		status = classify(err)
	}
	return restoreObs{status: status, gen: c.snapGen, snapIdx: c.snapIdx, opened: c.opened}
}

func timesSx(a []int64) Sx {
	l := SxList{}
	for _, t := range a {
		l = append(l, I(t))
	}
	return l
}

func listingCases(cw *CaseWriter, r *rand.Rand, n int, workDir string, snapshot []byte) {
	out := filepath.Join(workDir, "listing-out")
	os.MkdirAll(out, 0o755)
	defer os.RemoveAll(out)
	for i := 0; i < n; i++ {
		c := randMemLayout(r, snapshot)
		lay := c.layoutSx()
		maxT := int64(14)
		T := int64(0)
		if r.Intn(3) != 0 {
			T = 1 + r.Int63n(maxT)
		}
		// arbitration through the hook
		cls := "listing/arbitrate"
		if len(c.ltxSnaps)+len(c.ltxOther) == 0 {
			cls += "/no-ltx"
		} else if T == 0 {
			cls += "/latest"
		} else {
			cls += "/ts"
		}
		nt := len(c.gens) > 0 && len(c.ltxSnaps)+len(c.ltxOther) > 0
		dec := memArbitrate(c, T)
		cw.Add("v3_arbitrate", L(lay, timesSx(c.ltxSnaps), timesSx(c.ltxOther), I(T)), dec, cls, nt)
		if d, ok := dec.(SxInt); ok && d < 100 {
			cw.Add("v3_arbitrate_ok", L(lay, timesSx(c.ltxSnaps), timesSx(c.ltxOther), I(T), dec), I(1), cls+"/spec", nt)
		}
		// the planner through the real RestoreV3
		o := memPlan(c, T, out)
		cw.Add("v3_plan", L(lay, I(T)), o.planSx(), fmt.Sprintf("listing/plan/status%d", o.status), o.status != 1)
	}
}

// ---- replay of listing-level cases ---------------------------------------------------------

func memFromNode(n *Node, snapshot []byte) *memClient {
	c := &memClient{snapshot: snapshot}
	for gi, g := range n.List {
		mg := memGen{id: fmt.Sprintf("%016x", gi+1)}
		for _, s := range g.At(0).List {
			mg.snaps = append(mg.snaps, [2]int64{s.At(0).Int(), s.At(1).Int()})
		}
		for _, s := range g.At(1).List {
			mg.segs = append(mg.segs, memSeg{idx: int(s.At(0).Int()), off: s.At(1).Int(), size: s.At(2).Int(), tick: s.At(3).Int()})
		}
		c.gens = append(c.gens, mg)
	}
	return c
}

func nodeInts(n *Node) []int64 {
	var out []int64
	for _, x := range n.List {
		out = append(out, x.Int())
	}
	return out
}

// replayV3 re-runs the implementation on the inputs of a case file.  Listings
// are served by the in-memory client (segment contents are bytes of the listed
// size that SQLite does not recognise as a WAL), so the planner's decisions are
// reproduced; v3_plan_ok cases need the real contents and are regenerated from
// their source history instead (-hist / -hseed).
func replayV3(path, out string) error {
	cases, err := ReadCases(path)
	if err != nil {
		return err
	}
	cw, err := NewCaseWriter(filepath.Join(out, "cases.txt"))
	if err != nil {
		return err
	}
	tmp := filepath.Join(out, "tmp")
	os.MkdirAll(tmp, 0o755)
	defer os.RemoveAll(tmp)
	tiny, err := tinyDatabase(tmp)
	if err != nil {
		return err
	}
	gens := []string{"00000000000000aa", "00000000000000bb", "00000000000000cc", "00000000000000dd"}
	genOrd := map[string]int64{}
	for i, g := range gens {
		genOrd[g] = int64(i)
	}
	toSnaps := func(n *Node) []litestream.SnapshotInfoV3 {
		var a []litestream.SnapshotInfoV3
		for _, s := range n.List {
			a = append(a, litestream.SnapshotInfoV3{Generation: gens[int(s.At(0).Int())%len(gens)], Index: int(s.At(1).Int()), CreatedAt: tickTime(s.At(2).Int())})
		}
		return a
	}
	for _, c := range cases {
		switch c.Entry {
		case "v3_sort":
			a := toSnaps(c.In.At(0))
			in := snapsSx(a, genOrd)
			litestream.SortSnapshotsV3ByCreatedAt(a)
			cw.Add("v3_sort", L(in), snapsSx(a, genOrd), "replay", true)
		case "v3_best":
			a := toSnaps(c.In.At(0))
			in := snapsSx(a, genOrd)
			T := c.In.At(1).Int()
			litestream.SortSnapshotsV3ByCreatedAt(a)
			best := litestream.FindBestSnapshotV3(a, tickTime(T))
			obs := L(I(0), I(0), I(0), I(0))
			if best != nil {
				obs = L(I(1), I(genOrd[best.Generation]), I(int64(best.Index)), I(tickOf(best.CreatedAt)))
			}
			cw.Add("v3_best", L(in, I(T)), obs, "replay", true)
		case "v3_filter":
			var segs []litestream.WALSegmentInfoV3
			segIn := SxList{}
			for _, s := range c.In.At(0).List {
				segs = append(segs, litestream.WALSegmentInfoV3{Generation: gens[0], Index: int(s.At(0).Int()), Offset: s.At(1).Int(), CreatedAt: tickTime(s.At(3).Int())})
				segIn = append(segIn, L(I(s.At(0).Int()), I(s.At(1).Int()), I(s.At(2).Int()), I(s.At(3).Int())))
			}
			si, T := c.In.At(1).Int(), c.In.At(2).Int()
			ko := SxList{}
			for _, s := range litestream.FilterWALSegmentsV3(segs, int(si), tickTime(T)) {
				ko = append(ko, L(I(int64(s.Index)), I(s.Offset)))
			}
			cw.Add("v3_filter", L(segIn, I(si), I(T)), ko, "replay", true)
		case "v3_arbitrate":
			m := memFromNode(c.In.At(0), tiny)
			m.ltxSnaps, m.ltxOther = nodeInts(c.In.At(1)), nodeInts(c.In.At(2))
			T := c.In.At(3).Int()
			cw.Add("v3_arbitrate", L(m.layoutSx(), timesSx(m.ltxSnaps), timesSx(m.ltxOther), I(T)), memArbitrate(m, T), "replay", true)
		case "v3_arbitrate_ok":
			m := memFromNode(c.In.At(0), tiny)
			m.ltxSnaps, m.ltxOther = nodeInts(c.In.At(1)), nodeInts(c.In.At(2))
			T := c.In.At(3).Int()
			cw.Add("v3_arbitrate_ok", L(m.layoutSx(), timesSx(m.ltxSnaps), timesSx(m.ltxOther), I(T), memArbitrate(m, T)), I(1), "replay", true)
		case "v3_plan":
			m := memFromNode(c.In.At(0), tiny)
			T := c.In.At(1).Int()
			cw.Add("v3_plan", L(m.layoutSx(), I(T)), memPlan(m, T, tmp).planSx(), "replay", true)
		}
	}
	if err := cw.Close(); err != nil {
		return err
	}
	return WriteJSON(filepath.Join(out, "stats.json"), cw.Stats())
}

// a small valid database image for listing-level restores
func tinyDatabase(dir string) ([]byte, error) {
	p := filepath.Join(dir, "tiny.db")
	db, err := sql.Open("sqlite", p)
	if err != nil {
		return nil, err
	}
	for _, q := range []string{"PRAGMA page_size=512", "PRAGMA journal_mode=wal", "CREATE TABLE t(x)", "PRAGMA wal_checkpoint(TRUNCATE)"} {
		if _, err := db.Exec(q); err != nil {
			db.Close()
			return nil, err
		}
	}
	db.Close()
	return os.ReadFile(p)
}

// ---- main ---------------------------------------------------------------------------

func main() {
	if err := cmdV3(os.Args[1:]); err != nil {
		fmt.Fprintln(os.Stderr, "harness error:", err)
		os.Exit(3)
	}
}

func cmdV3(args []string) error {
	if len(args) > 0 && args[0] == "v3" {
		args = args[1:]
	}
	fl := flag.NewFlagSet("v3", flag.ContinueOnError)
	out := fl.String("out", "", "work directory")
	n := fl.Int("n", 24, "number of source histories")
	seed := fl.Int64("seed", 1, "PRNG seed")
	only := fl.Int("hist", -1, "generate only this history (replay)")
	thorough := fl.Bool("thorough", false, "all timestamps for every removed segment")
	hseed := fl.Int64("hseed", 0, "with -hist: the seed of that history (instead of deriving it from -seed)")
	replay := fl.String("replay", "", "case file whose listing-level inputs are re-run on the implementation")
	workers := fl.Int("workers", 8, "histories generated in parallel")
	fl.BoolVar(&faultOnly, "faultonly", false, "only the download-fault jobs of every history (C10 on the legacy path)")
	if err := fl.Parse(args); err != nil {
		return err
	}
	if *out == "" {
		return fmt.Errorf("-out required")
	}
	slog.SetDefault(QuietLogger())
	if *replay != "" {
		return replayV3(*replay, *out)
	}
	workDir := filepath.Join(*out, "tmp")
	os.RemoveAll(workDir)
	if err := os.MkdirAll(workDir, 0o755); err != nil {
		return err
	}
	defer os.RemoveAll(workDir)
	cw, err := NewCaseWriter(filepath.Join(*out, "cases.txt"))
	if err != nil {
		return err
	}
	master := NewRand(*seed)
	seeds := make([]int64, *n)
	for i := range seeds {
		seeds[i] = master.Int63()
	}
	if *only >= 0 && *hseed != 0 {
		if *only >= *n {
			*n = *only + 1
			seeds = append(seeds, make([]int64, *n-len(seeds))...)
		}
		seeds[*only] = *hseed
	}
	pool, err := buildLTXPool(workDir)
	if err != nil {
		return fmt.Errorf("ltx pool: %w", err)
	}

	results := make([]recs, *n)
	errs := make([]error, *n)
	var wg sync.WaitGroup
	sem := make(chan struct{}, *workers)
	for i := 0; i < *n; i++ {
		if *only >= 0 && i != *only {
			continue
		}
		wg.Add(1)
		sem <- struct{}{}
		go func(i int) {
			defer wg.Done()
			defer func() { <-sem }()
			results[i], errs[i] = historyCases(seeds[i], i, workDir, pool, *thorough)
		}(i)
	}
	wg.Wait()
	for i := 0; i < *n; i++ {
		if errs[i] != nil {
			return fmt.Errorf("history %d: %w", i, errs[i])
		}
		flush(cw, results[i])
	}
	if *only < 0 && !faultOnly {
		r := NewRand(master.Int63())
		tiny, err := tinyDatabase(workDir)
		if err != nil {
			return err
		}
		plannerPieceCases(cw, r, 60**n)
		listingCases(cw, r, 25**n, workDir, tiny)
	}
	if err := cw.Close(); err != nil {
		return err
	}
	return WriteJSON(filepath.Join(*out, "stats.json"), cw.Stats())
}
