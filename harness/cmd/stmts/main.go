// Command stmts (C14): litestream never alters the application's data.
//
// Part A — statement replay: every SQL text of the regenerated statement list
// (coq/Gen/stmts.json, written by tools/gen from the current source) is executed
// on a real SQLite database in several pre-states; the abstract effect is
// written as a case for the model (stmts_sem) and the user view is compared
// before/after in Go (a statement that changes user data is a concrete
// violation).
//
// Part B — differential replay: each deterministic application history runs
// twice, once with litestream replicating the database (Open, Sync,
// Replica.Sync, Checkpoint in all four modes, Snapshot, Compact, reopen, Close,
// tiny checkpoint thresholds) and once without; at every quiescent point the
// user view of both, the lock table, integrity_check, journal_mode and the set
// of internal objects are written as a case for the property's statement
// (stmts_diff_ok).  The database file is fingerprinted around every litestream
// operation: only operations that can run a SQLite checkpoint may change it.
package main

import (
	"context"
	"crypto/sha256"
	"database/sql"
	"encoding/hex"
	"encoding/json"
	"flag"
	"fmt"
	"log/slog"
	"math/rand"
	"os"
	"path/filepath"
	"sort"
	"strings"
	"time"

	"github.com/benbjohnson/litestream"
	"github.com/benbjohnson/litestream/file"
	_ "modernc.org/sqlite"

	. "verifharness/hx"
)

var ctxb = context.Background()

// ---- user view -----------------------------------------------------------------

// userView digests everything the application can read: sqlite_master rows of
// objects not named _litestream_* (type, name, tbl_name, sql — not rootpage) and
// all rows of every such table.
func userView(db *sql.DB) ([]byte, string, error) {
	h := sha256.New()
	var summary []string
	rows, err := db.Query("SELECT type, name, tbl_name, coalesce(sql,'') FROM sqlite_master WHERE name NOT LIKE '\\_litestream\\_%' ESCAPE '\\' ORDER BY type, name")
	if err != nil {
		return nil, "", err
	}
	var tables []string
	for rows.Next() {
		var t, n, tn, s string
		if err := rows.Scan(&t, &n, &tn, &s); err != nil {
			rows.Close()
			return nil, "", err
		}
		fmt.Fprintf(h, "%s|%s|%s|%s\n", t, n, tn, s)
		if t == "table" {
			tables = append(tables, n)
		}
	}
	if err := rows.Err(); err != nil {
		rows.Close()
		return nil, "", err
	}
	rows.Close()
	sort.Strings(tables)
	for _, t := range tables {
		r, err := db.Query("SELECT * FROM \"" + t + "\" ORDER BY 1, 2")
		if err != nil {
			return nil, "", fmt.Errorf("dump %s: %w", t, err)
		}
		cols, _ := r.Columns()
		vals := make([]any, len(cols))
		ptrs := make([]any, len(cols))
		for i := range vals {
			ptrs[i] = &vals[i]
		}
		n := 0
		fmt.Fprintf(h, "T %s %d\n", t, len(cols))
		for r.Next() {
			if err := r.Scan(ptrs...); err != nil {
				r.Close()
				return nil, "", err
			}
			n++
			for _, v := range vals {
				switch x := v.(type) {
				case []byte:
					fmt.Fprintf(h, "b:%x|", x)
				case nil:
					fmt.Fprint(h, "null|")
				default:
					fmt.Fprintf(h, "%T:%v|", x, x)
				}
			}
			fmt.Fprintln(h)
		}
		if err := r.Err(); err != nil {
			r.Close()
			return nil, "", err
		}
		r.Close()
		summary = append(summary, fmt.Sprintf("%s=%d", t, n))
	}
	return h.Sum(nil), strings.Join(summary, ","), nil
}

func internalObjects(db *sql.DB) ([]string, error) {
	rows, err := db.Query("SELECT name FROM sqlite_master WHERE name LIKE '\\_litestream\\_%' ESCAPE '\\' ORDER BY name")
	if err != nil {
		return nil, err
	}
	defer rows.Close()
	var out []string
	for rows.Next() {
		var n string
		if err := rows.Scan(&n); err != nil {
			return nil, err
		}
		out = append(out, strings.ToLower(n)) // SQLite object names are case-insensitive
	}
	return out, rows.Err()
}

func lockCount(db *sql.DB) int64 {
	var n int64
	if err := db.QueryRow("SELECT count(*) FROM _litestream_lock").Scan(&n); err != nil {
		return -1
	}
	return n
}

func journalMode(db *sql.DB) string {
	var m string
	if err := db.QueryRow("PRAGMA journal_mode").Scan(&m); err != nil {
		return "error:" + err.Error()
	}
	return strings.ToLower(m)
}

func integrityOK(db *sql.DB) (bool, string) {
	rows, err := db.Query("PRAGMA integrity_check")
	if err != nil {
		return false, err.Error()
	}
	defer rows.Close()
	var all []string
	for rows.Next() {
		var s string
		if err := rows.Scan(&s); err != nil {
			return false, err.Error()
		}
		all = append(all, s)
	}
	return len(all) == 1 && all[0] == "ok", strings.Join(all, "; ")
}

func namesSx(names []string) Sx {
	l := make(SxList, 0, len(names))
	for _, n := range names {
		l = append(l, SxBytes([]byte(n)))
	}
	return l
}

// ---- recorder ---------------------------------------------------------------------

type Recorder struct {
	cw         *CaseWriter
	violations []ImplViolation
	extra      map[string]int
}

func (rc *Recorder) violate(sig, detail string, replay map[string]any) {
	for _, v := range rc.violations {
		if v.Signature == sig && len(rc.violations) > 20 {
			return
		}
	}
	rc.violations = append(rc.violations, ImplViolation{Signature: sig, Detail: detail, Replay: replay})
}

// ===================================================================================
// Part A: statement replay
// ===================================================================================

type genStmt struct {
	Fn, Site, Text, Target string
	Instances              []string
}

type preState struct {
	name    string
	hasSeq  bool
	seqRows [][2]int64
	hasLock bool
	lockN   int
	wal     bool
}

var preStates = []preState{
	{"fresh-wal", false, nil, false, 0, true},
	{"fresh-delete", false, nil, false, 0, false},
	{"tables-empty", true, nil, true, 0, true},
	{"seq-1-5", true, [][2]int64{{1, 5}}, true, 0, true},
	{"seq-2-7", true, [][2]int64{{2, 7}}, true, 0, true},
	{"seq-1-9-3-4", true, [][2]int64{{1, 9}, {3, 4}}, true, 0, true},
	{"lock-2", true, [][2]int64{{1, 1}}, true, 2, true},
	{"only-seq", true, [][2]int64{{1, 2}}, false, 0, true},
	{"only-lock", false, nil, true, 1, true},
	{"tables-delete-mode", true, [][2]int64{{1, 3}}, true, 0, false},
}

// variants: behaviour-preserving spellings of a statement text
func variants(text string, rng *rand.Rand) []string {
	out := []string{text}
	if strings.HasPrefix(text, "<") {
		return out
	}
	out = append(out, strings.ToLower(text), strings.ToUpper(text))
	out = append(out, "  "+strings.ReplaceAll(text, " ", " \n\t ")+" ;; ")
	out = append(out, strings.TrimRight(strings.TrimSpace(text), ";"))
	return out
}

// openPre opens the database of one pre-state (user objects only); resetPre puts
// the internal tables and the journal mode back before every execution.
func openPre(path string) (*sql.DB, error) {
	for _, sfx := range []string{"", "-wal", "-shm", "-journal"} {
		os.Remove(path + sfx)
	}
	db, err := sql.Open("sqlite", "file:"+path+"?_pragma=busy_timeout(2000)")
	if err != nil {
		return nil, err
	}
	db.SetMaxOpenConns(1)
	for _, s := range []string{"PRAGMA synchronous=OFF",
		"CREATE TABLE t(id INTEGER PRIMARY KEY, v INTEGER)", "INSERT INTO t VALUES (1,10),(2,20)",
		"CREATE INDEX t_v ON t(v)", "CREATE VIEW tv AS SELECT v FROM t",
		"CREATE TABLE seq(id INTEGER PRIMARY KEY, seq INTEGER)", "INSERT INTO seq VALUES (1,1)"} {
		if _, err := db.Exec(s); err != nil {
			db.Close()
			return nil, fmt.Errorf("%s: %w", s, err)
		}
	}
	return db, nil
}

func resetPre(db *sql.DB, ps preState) error {
	stmts := []string{"DROP TABLE IF EXISTS _litestream_seq", "DROP TABLE IF EXISTS _litestream_lock"}
	if ps.hasSeq {
		stmts = append(stmts, "CREATE TABLE _litestream_seq (id INTEGER PRIMARY KEY, seq INTEGER)")
		for _, r := range ps.seqRows {
			stmts = append(stmts, fmt.Sprintf("INSERT INTO _litestream_seq VALUES (%d,%d)", r[0], r[1]))
		}
	}
	if ps.hasLock {
		stmts = append(stmts, "CREATE TABLE _litestream_lock (id INTEGER)")
		for i := 0; i < ps.lockN; i++ {
			stmts = append(stmts, "INSERT INTO _litestream_lock VALUES (1)")
		}
	}
	for _, s := range stmts {
		if _, err := db.Exec(s); err != nil {
			return fmt.Errorf("%s: %w", s, err)
		}
	}
	want := map[bool]string{true: "wal", false: "delete"}[ps.wal]
	var got string
	if err := db.QueryRow("PRAGMA journal_mode=" + want).Scan(&got); err != nil || got != want {
		return fmt.Errorf("reset journal mode to %s: got %q err %v", want, got, err)
	}
	return nil
}

func preSx(ps preState) Sx {
	rows := make(SxList, 0)
	for _, r := range ps.seqRows {
		rows = append(rows, L(I(r[0]), I(r[1])))
	}
	return L(B(ps.hasSeq), rows, B(ps.hasLock), I(int64(ps.lockN)), B(ps.wal))
}

// observe the abstract post-state
func postSx(db *sql.DB, ok bool, viewSame bool) Sx {
	objs, _ := internalObjects(db)
	has := func(n string) bool {
		for _, o := range objs {
			if o == n {
				return true
			}
		}
		return false
	}
	rows := make(SxList, 0)
	if has("_litestream_seq") {
		r, err := db.Query("SELECT id, seq FROM _litestream_seq ORDER BY id")
		if err == nil {
			for r.Next() {
				var a, b int64
				r.Scan(&a, &b)
				rows = append(rows, L(I(a), I(b)))
			}
			r.Close()
		}
	}
	var lockN int64
	if has("_litestream_lock") {
		lockN = lockCount(db)
	}
	return L(B(true), B(ok), B(has("_litestream_seq")), rows, B(has("_litestream_lock")), I(lockN), B(journalMode(db) == "wal"), B(viewSame))
}

func runStatementReplay(rc *Recorder, stmtsPath, tmp string, rng *rand.Rand) error {
	b, err := os.ReadFile(stmtsPath)
	if err != nil {
		return err
	}
	var list []genStmt
	if err := json.Unmarshal(b, &list); err != nil {
		return err
	}
	if len(list) == 0 {
		return fmt.Errorf("empty statement list %s", stmtsPath)
	}
	dbs := map[string]*sql.DB{}
	for _, ps := range preStates {
		db, err := openPre(filepath.Join(tmp, "stmt-"+ps.name+".db"))
		if err != nil {
			return err
		}
		defer db.Close()
		dbs[ps.name] = db
	}
	for _, st := range list {
		for _, inst := range st.Instances {
			if strings.Contains(inst, "<dyn:") {
				rc.extra["stmt_instances_not_constant"]++ // not an executable text; the sweep rejects it
				continue
			}
			for vi, text := range variants(inst, rng) {
				for _, ps := range preStates {
					if vi > 0 && ps.name != "seq-1-5" && ps.name != "fresh-delete" {
						continue // spelling variants: two pre-states are enough
					}
					db := dbs[ps.name]
					if err := resetPre(db, ps); err != nil {
						return err
					}
					before, _, err := userView(db)
					if err != nil {
						return err
					}
					ok := true
					if strings.HasPrefix(text, "<BeginTx") || text == "<Begin>" {
						tx, err := db.BeginTx(ctxb, nil)
						if err != nil {
							ok = false
						} else {
							tx.Rollback()
						}
					} else {
						// statements are run the way litestream runs them: rows are drained and closed
						r, err := db.QueryContext(ctxb, text)
						if err != nil {
							ok = false
						} else {
							for r.Next() {
							}
							if r.Err() != nil {
								ok = false
							}
							r.Close()
						}
					}
					after, _, err := userView(db)
					same := err == nil && hex.EncodeToString(before) == hex.EncodeToString(after)
					if !same {
						rc.violate("C14/statement-changes-user-data",
							fmt.Sprintf("the statement at %s (%s) changes what the application reads: %q executed on pre-state %s", st.Site, st.Fn, text, ps.name),
							map[string]any{"site": st.Site, "function": st.Fn, "statement": text, "pre_state": ps.name, "part": "statement-replay"})
					}
					if ps.wal && journalMode(db) != "wal" {
						rc.violate("C14/statement-leaves-wal-mode",
							fmt.Sprintf("after %q (%s) the journal mode is %s", text, st.Site, journalMode(db)),
							map[string]any{"site": st.Site, "statement": text, "pre_state": ps.name, "part": "statement-replay"})
					}
					rc.cw.Add("stmts_sem", L(preSx(ps), SxBytes([]byte(text))), postSx(db, ok, same), "stmt:"+st.Fn, true)
					rc.extra["stmt_executions"]++
				}
			}
		}
	}
	rc.extra["stmt_sites"] = len(list)
	return nil
}

// ===================================================================================
// Part B: differential replay
// ===================================================================================

type Config struct {
	PageSize           int
	AutoVacuum         int
	MinCheckpointPageN int
	TruncatePageN      int
	CheckpointInterval time.Duration
	MaxSyncWALBytes    int64
	AppAutoCheckpoint  int
}

func (c Config) String() string {
	return fmt.Sprintf("ps=%d av=%d min=%d trunc=%d ci=%s maxb=%d appac=%d", c.PageSize, c.AutoVacuum, c.MinCheckpointPageN, c.TruncatePageN,
		c.CheckpointInterval, c.MaxSyncWALBytes, c.AppAutoCheckpoint)
}

func randConfig(r *rand.Rand) Config {
	pss := []int{512, 1024, 4096, 4096, 8192, 65536}
	mins := []int{1, 1, 2, 5, 1000}
	truncs := []int{0, 2, 3, 20, 121359}
	cis := []time.Duration{0, time.Nanosecond, time.Hour}
	c := Config{
		PageSize:           pss[r.Intn(len(pss))],
		AutoVacuum:         r.Intn(3),
		MinCheckpointPageN: mins[r.Intn(len(mins))],
		TruncatePageN:      truncs[r.Intn(len(truncs))],
		CheckpointInterval: cis[r.Intn(len(cis))],
		AppAutoCheckpoint:  []int{0, 0, 1000, 4}[r.Intn(4)],
	}
	mbs := []int64{0, 0, 1, int64(3 * (c.PageSize + 24)), 1 << 20}
	c.MaxSyncWALBytes = mbs[r.Intn(len(mbs))]
	return c
}

// Step is one step of a history. App steps carry everything they need (no
// randomness at execution time), so both runs execute identical statements.
type Step struct {
	App  bool
	Kind string
	SQL  []string // app: statements, run in one transaction when Tx
	Args [][]any
	Tx   string // "", "commit", "rollback"
	// litestream steps: an injected fault on litestream's own staging files (nil: none)
	Fault *FaultSpec
}

// FaultSpec: while the litestream operation runs, the application commits its
// next step when the k-th LTX staging file is opened (k in Pull), and the
// FailAt-th staging file fails (Kind 0: open ENOSPC, 1: write ENOSPC, 2: Sync EIO, 3: Close EIO).
type FaultSpec struct {
	Pull   [4]bool
	FailAt int
	Kind   int
}

func (f *FaultSpec) String() string {
	if f == nil {
		return ""
	}
	p := ""
	for k := 1; k <= 3; k++ {
		if f.Pull[k] {
			p += fmt.Sprint(k)
		}
	}
	return fmt.Sprintf("[pull@%s fail@%d kind%d]", p, f.FailAt, f.Kind)
}

func (s Step) String() string { return s.Kind + s.Fault.String() }

func blob(r *rand.Rand, n int) []byte {
	b := make([]byte, n)
	r.Read(b)
	return b
}

type histGen struct {
	r       *rand.Rand
	cfg     Config
	ntables int
	live    []int // extra tables alive
}

func (g *histGen) blobSize() int {
	ps := g.cfg.PageSize
	if ps > 8192 {
		return 10 + g.r.Intn(3000)
	}
	switch g.r.Intn(4) {
	case 0:
		return 1 + g.r.Intn(40)
	case 1:
		return ps + g.r.Intn(2*ps) // overflow pages
	}
	return 10 + g.r.Intn(ps)
}

func (g *histGen) appStep() Step {
	r := g.r
	switch k := r.Intn(100); {
	case k < 40: // insert transaction
		n := 1 + r.Intn(4)
		st := Step{App: true, Kind: "INS", Tx: "commit"}
		for i := 0; i < n; i++ {
			tbl := []string{"t", "u"}[r.Intn(2)]
			st.SQL = append(st.SQL, "INSERT INTO "+tbl+"(v, n) VALUES (?, ?)")
			st.Args = append(st.Args, []any{blob(r, g.blobSize()), r.Int63n(1000)})
		}
		st.SQL = append(st.SQL, "UPDATE ver SET n = n + 1")
		st.Args = append(st.Args, nil)
		return st
	case k < 52:
		m := 2 + r.Intn(3)
		return Step{App: true, Kind: "UPD", SQL: []string{"UPDATE t SET v = ?, n = n + 1 WHERE id % ? = ?"},
			Args: [][]any{{blob(r, g.blobSize()), m, r.Intn(m)}}}
	case k < 62:
		m := 2 + r.Intn(3)
		st := Step{App: true, Kind: "DEL", SQL: []string{"DELETE FROM " + []string{"t", "u"}[r.Intn(2)] + " WHERE id % ? = ?"}, Args: [][]any{{m, r.Intn(m)}}}
		if g.cfg.AutoVacuum == 2 && r.Intn(2) == 0 {
			st.SQL = append(st.SQL, fmt.Sprintf("PRAGMA incremental_vacuum(%d)", r.Intn(5)))
			st.Args = append(st.Args, nil)
		}
		return st
	case k < 72: // DDL
		switch r.Intn(4) {
		case 0:
			if len(g.live) > 0 {
				i := r.Intn(len(g.live))
				n := g.live[i]
				g.live = append(g.live[:i], g.live[i+1:]...)
				return Step{App: true, Kind: "DDL-DROP", SQL: []string{fmt.Sprintf("DROP TABLE x%d", n)}, Args: [][]any{nil}}
			}
			fallthrough
		case 1:
			if len(g.live) > 0 {
				n := g.live[r.Intn(len(g.live))]
				g.ntables++
				return Step{App: true, Kind: "DDL-ALTER", SQL: []string{fmt.Sprintf("ALTER TABLE x%d ADD COLUMN c%d INTEGER DEFAULT %d", n, g.ntables, r.Intn(9))}, Args: [][]any{nil}}
			}
			fallthrough
		default:
			g.ntables++
			n := g.ntables
			g.live = append(g.live, n)
			return Step{App: true, Kind: "DDL-CREATE", Tx: "commit", SQL: []string{
				fmt.Sprintf("CREATE TABLE x%d(a INTEGER PRIMARY KEY, b TEXT)", n),
				fmt.Sprintf("CREATE INDEX ix%d ON x%d(b)", n, n),
				fmt.Sprintf("INSERT INTO x%d(b) VALUES (?), (?)", n),
				fmt.Sprintf("CREATE VIEW vx%d AS SELECT count(*) AS c FROM x%d", n, n),
			}, Args: [][]any{nil, nil, {fmt.Sprintf("r%d", r.Intn(1000)), hex.EncodeToString(blob(r, 20))}, nil}}
		}
	case k < 78:
		if g.cfg.PageSize >= 65536 && r.Intn(2) == 0 {
			return Step{App: true, Kind: "NOP", SQL: []string{"SELECT 1"}, Args: [][]any{nil}}
		}
		return Step{App: true, Kind: "VACUUM", SQL: []string{"VACUUM"}, Args: [][]any{nil}}
	case k < 86:
		return Step{App: true, Kind: "RB", Tx: "rollback", SQL: []string{"INSERT INTO t(v, n) VALUES (?, ?)", "UPDATE ver SET n = -1", "DELETE FROM u"},
			Args: [][]any{{blob(r, g.blobSize()), 7}, nil, nil}}
	case k < 94:
		mode := []string{"PASSIVE", "FULL", "RESTART", "TRUNCATE"}[r.Intn(4)]
		return Step{App: true, Kind: "ACKPT-" + mode, SQL: []string{"PRAGMA wal_checkpoint(" + mode + ")"}, Args: [][]any{nil}}
	default:
		return Step{App: true, Kind: "AOC"}
	}
}

var lsKinds = []string{"SYNC", "SYNC", "SYNC", "RSYNC", "CK-PASSIVE", "CK-FULL", "CK-RESTART", "CK-TRUNCATE", "SNAP", "CMP", "REOPEN"}

func genHistory(r *rand.Rand, cfg Config, steps int) []Step {
	g := &histGen{r: r, cfg: cfg}
	var out []Step
	for i := 0; i < steps; i++ {
		if r.Intn(100) < 55 {
			out = append(out, g.appStep())
		} else {
			st := Step{Kind: lsKinds[r.Intn(len(lsKinds))]}
			if k := r.Intn(100); k < 35 && (st.Kind == "SYNC" || strings.HasPrefix(st.Kind, "CK-")) {
				f := &FaultSpec{FailAt: r.Intn(5), Kind: r.Intn(4)}
				for j := 1; j <= 3; j++ {
					f.Pull[j] = r.Intn(2) == 0
				}
				st.Fault = f
			}
			out = append(out, st)
		}
	}
	return out
}

type world struct {
	dir     string
	path    string
	cfg     Config
	app     *sql.DB
	ldb     *litestream.DB
	replica string
	probe   *sql.DB // busy_timeout(0): is SQLite's write lock free?
}

// lockFree reports whether a writer could start right now (nobody holds the write lock).
func (w *world) lockFree() bool {
	if w.probe == nil {
		db, err := sql.Open("sqlite", "file:"+w.path+"?_pragma=busy_timeout(0)")
		if err != nil {
			return true
		}
		db.SetMaxOpenConns(1)
		w.probe = db
	}
	if _, err := w.probe.Exec("BEGIN IMMEDIATE"); err != nil {
		return errClass(err) != "busy"
	}
	w.probe.Exec("ROLLBACK")
	return true
}

func opClass(kind string) string {
	switch {
	case strings.HasPrefix(kind, "CK-"):
		return "checkpoint"
	case strings.HasPrefix(kind, "SYNC"):
		return "sync"
	}
	return strings.ToLower(kind)
}

func (w *world) openApp(first bool) error {
	db, err := sql.Open("sqlite", "file:"+w.path+"?_pragma=busy_timeout(3000)")
	if err != nil {
		return err
	}
	db.SetMaxOpenConns(1)
	if first {
		for _, s := range []string{
			fmt.Sprintf("PRAGMA page_size=%d", w.cfg.PageSize),
			fmt.Sprintf("PRAGMA auto_vacuum=%d", w.cfg.AutoVacuum),
			"PRAGMA journal_mode=wal",
			"CREATE TABLE t(id INTEGER PRIMARY KEY, v BLOB, n INTEGER)",
			"CREATE TABLE u(id INTEGER PRIMARY KEY AUTOINCREMENT, v BLOB, n INTEGER)",
			"CREATE INDEX t_n ON t(n)",
			"CREATE TABLE ver(id INTEGER PRIMARY KEY, n INTEGER)",
			"INSERT INTO ver VALUES (1, 0)",
			"CREATE TRIGGER u_ai AFTER INSERT ON u BEGIN UPDATE ver SET n = n + 1000 WHERE id = 1; END",
		} {
			if _, err := db.Exec(s); err != nil {
				db.Close()
				return fmt.Errorf("%s: %w", s, err)
			}
		}
	}
	// the application does not wait for the disk (both runs alike; no effect on what it reads)
	for _, s := range []string{fmt.Sprintf("PRAGMA wal_autocheckpoint=%d", w.cfg.AppAutoCheckpoint), "PRAGMA synchronous=OFF"} {
		if _, err := db.Exec(s); err != nil {
			db.Close()
			return err
		}
	}
	w.app = db
	return nil
}

func errClass(err error) string {
	if err == nil {
		return ""
	}
	s := err.Error()
	switch {
	case strings.Contains(s, "locked"), strings.Contains(s, "busy"), strings.Contains(s, "BUSY"):
		return "busy"
	}
	return "err:" + s
}

// runApp executes one application step; the outcome class is part of what the two runs must agree on.
func (w *world) runApp(st Step) string {
	if st.Kind == "AOC" {
		w.app.Close()
		return errClass(w.openApp(false))
	}
	if st.Tx == "" {
		for i, q := range st.SQL {
			if strings.HasPrefix(q, "PRAGMA") {
				rows, err := w.app.Query(q)
				if err != nil {
					return errClass(err)
				}
				for rows.Next() {
				}
				rows.Close()
				continue
			}
			if _, err := w.app.Exec(q, st.Args[i]...); err != nil {
				return errClass(err)
			}
		}
		return ""
	}
	tx, err := w.app.Begin()
	if err != nil {
		return errClass(err)
	}
	for i, q := range st.SQL {
		if _, err := tx.Exec(q, st.Args[i]...); err != nil {
			tx.Rollback()
			return errClass(err)
		}
	}
	if st.Tx == "rollback" {
		return errClass(tx.Rollback())
	}
	return errClass(tx.Commit())
}

func (w *world) newLitestream() *litestream.DB {
	db := litestream.NewDB(w.path)
	db.MonitorInterval = 0
	db.MinCheckpointPageN = w.cfg.MinCheckpointPageN
	db.TruncatePageN = w.cfg.TruncatePageN
	db.CheckpointInterval = w.cfg.CheckpointInterval
	db.MaxSyncWALBytes = w.cfg.MaxSyncWALBytes
	db.ShutdownSyncTimeout = 0
	db.BusyTimeout = 200 * time.Millisecond
	db.Logger = QuietLogger()
	c := file.NewReplicaClient(w.replica)
	db.Replica = litestream.NewReplicaWithClient(db, c)
	db.Replica.MonitorEnabled = false
	c.Replica = db.Replica
	return db
}

type fileStamp struct {
	size  int64
	mtime time.Time
	sum   [32]byte
}

func stamp(path string) fileStamp {
	var s fileStamp
	if fi, err := os.Stat(path); err == nil {
		s.size, s.mtime = fi.Size(), fi.ModTime()
	}
	if b, err := os.ReadFile(path); err == nil {
		s.sum = sha256.Sum256(b)
	}
	return s
}

// may the operation run a SQLite checkpoint (the only way litestream's process changes the database file)?
func mayCheckpoint(kind string) bool {
	return kind == "SYNC" || strings.HasPrefix(kind, "CK-") || kind == "REOPEN" || kind == "CLOSE" || kind == "OPEN"
}

func (w *world) runLS(rc *Recorder, kind string) (err error) {
	defer func() {
		if r := recover(); r != nil {
			err = fmt.Errorf("panic: %v", r)
		}
	}()
	ctx, cancel := context.WithTimeout(ctxb, 60*time.Second)
	defer cancel()
	switch kind {
	case "SYNC":
		_ = w.ldb.Sync(ctx)
	case "RSYNC":
		_ = w.ldb.Replica.Sync(ctx)
	case "CK-PASSIVE", "CK-FULL", "CK-RESTART", "CK-TRUNCATE":
		_ = w.ldb.Checkpoint(ctx, strings.TrimPrefix(kind, "CK-"))
	case "SNAP":
		_, _ = w.ldb.Snapshot(ctx)
	case "CMP":
		_, _ = w.ldb.Compact(ctx, 1)
	case "REOPEN":
		_ = w.ldb.Close(ctx)
		w.ldb = w.newLitestream()
		return w.ldb.Open()
	case "CLOSE":
		_ = w.ldb.Close(ctx)
	default:
		return fmt.Errorf("unknown litestream op %q", kind)
	}
	return nil
}

type point struct {
	digest  []byte
	summary string
}

// runEnsureExists: litestream is started the way the daemon starts it (EnsureExists, then Open) over a
// database path at which the application has (a) a database with rows, (b) a file it has just created and
// not written yet (zero bytes), (c) nothing — while the replica holds an EARLIER backup of another
// database. Only in (c) may the backup be restored; in (a) and (b) the application's file is the source
// and what the application does next must read exactly as in the litestream-free control (seed C14e).
func runEnsureExists(rc *Recorder, base string, seed int64) {
	rng := NewRand(seed*7919 + 17)
	for _, variant := range []string{"existing-rows", "zero-length", "missing"} {
		dir := filepath.Join(base, "ensure-"+variant)
		os.RemoveAll(dir)
		os.MkdirAll(dir, 0o755)
		cfg := randConfig(rng)
		w := &world{dir: dir, path: filepath.Join(dir, "db"), replica: filepath.Join(dir, "replica"), cfg: cfg}
		replay := map[string]any{"part": "ensure-exists", "variant": variant, "seed": seed}
		fail := func(sig, detail string) { rc.violate(sig, detail, replay) }
		// an earlier life of the path: rows 'old-*', replicated, litestream closed, database removed
		if err := w.openApp(true); err != nil {
			fail("harness/setup", err.Error())
			continue
		}
		for i := 0; i < 3; i++ {
			_, _ = w.app.Exec("INSERT INTO t(v, n) VALUES (?, ?)", []byte(fmt.Sprintf("old-%d", i)), i)
		}
		w.ldb = w.newLitestream()
		ctx := context.Background()
		if err := w.ldb.Open(); err != nil {
			fail("harness/setup", err.Error())
			continue
		}
		if err := w.ldb.SyncAndWait(ctx); err != nil {
			fail("harness/setup", err.Error())
			continue
		}
		_ = w.ldb.Close(ctx)
		w.app.Close()
		for _, sfx := range []string{"", "-wal", "-shm"} {
			os.Remove(w.path + sfx)
		}
		os.RemoveAll(filepath.Join(dir, ".db-litestream"))
		// the application's new life at the path
		var app *sql.DB
		switch variant {
		case "existing-rows":
			if err := w.openApp(true); err != nil {
				fail("harness/setup", err.Error())
				continue
			}
			app = w.app
			_, _ = app.Exec("INSERT INTO t(v, n) VALUES (?, 100)", []byte("new-0"))
		case "zero-length":
			f, err := os.Create(w.path) // what opening a connection before the first statement leaves
			if err != nil {
				fail("harness/setup", err.Error())
				continue
			}
			f.Close()
		}
		ldb := w.newLitestream()
		e1 := ldb.EnsureExists(ctx)
		if variant != "existing-rows" {
			first := variant == "zero-length"
			if variant == "missing" {
				first = false // the restored backup has the schema
			}
			if err := w.openApp(first); err != nil {
				if variant == "zero-length" {
					fail("C14/source-replaced-by-restore", "EnsureExists over a zero-length database file: the application can no longer initialise its database: "+err.Error())
				} else {
					fail("harness/setup", err.Error())
				}
				continue
			}
			app = w.app
		}
		e2 := ldb.Open()
		for i := 0; i < 4; i++ {
			_, _ = app.Exec("INSERT INTO t(v, n) VALUES (?, ?)", []byte(fmt.Sprintf("new-%d", i+1)), 101+i)
		}
		_ = ldb.Sync(ctx)
		var nOld, nNew int
		_ = app.QueryRow("SELECT COUNT(*) FROM t WHERE CAST(v AS TEXT) LIKE 'old-%'").Scan(&nOld)
		_ = app.QueryRow("SELECT COUNT(*) FROM t WHERE CAST(v AS TEXT) LIKE 'new-%'").Scan(&nNew)
		ok, why := integrityOK(app)
		_ = ldb.Close(ctx)
		app.Close()
		rc.cw.Classes["ensure-exists/"+variant]++
		wantOld, wantNew := 0, 4
		if variant == "existing-rows" {
			wantNew = 5
		}
		if variant == "missing" {
			wantOld = 3
		}
		if e1 != nil || e2 != nil || !ok || nOld != wantOld || nNew != wantNew {
			sig := "C14/source-replaced-by-restore"
			if variant == "missing" {
				sig = "C14/ensure-exists-did-not-restore-a-missing-database"
			}
			fail(sig, fmt.Sprintf("variant %s: EnsureExists=%v Open=%v integrity=%v (%s); rows of the earlier backup %d (want %d), rows the application wrote %d (want %d)",
				variant, e1, e2, ok, why, nOld, wantOld, nNew, wantNew))
		}
		os.RemoveAll(dir)
	}
}

func runHistory(rc *Recorder, base string, seed int64, index int, steps int) error {
	rng := NewRand(seed*1000003 + int64(index))
	cfg := randConfig(rng)
	hist := genHistory(rng, cfg, steps)
	var trace []string
	for _, s := range hist {
		trace = append(trace, s.String())
	}
	replay := map[string]any{"seed": seed, "index": index, "config": cfg.String(), "history": strings.Join(trace, " "), "part": "differential-replay"}
	classes := rc.cw.Classes
	classes[fmt.Sprintf("ps=%d", cfg.PageSize)]++
	classes[fmt.Sprintf("av=%d", cfg.AutoVacuum)]++
	classes[fmt.Sprintf("min=%d", cfg.MinCheckpointPageN)]++
	classes[fmt.Sprintf("trunc=%d", cfg.TruncatePageN)]++

	// ---- control run: the application alone
	cdir := filepath.Join(base, fmt.Sprintf("h%d-control", index))
	os.MkdirAll(cdir, 0o755)
	defer os.RemoveAll(cdir)
	cw := &world{dir: cdir, path: filepath.Join(cdir, "db"), cfg: cfg}
	if err := cw.openApp(true); err != nil {
		return err
	}
	var ctrl []point // after k application steps
	var ctrlOut []string
	d0, s0, err := userView(cw.app)
	if err != nil {
		cw.app.Close()
		return err
	}
	ctrl = append(ctrl, point{d0, s0})
	for _, st := range hist {
		if !st.App {
			continue
		}
		ctrlOut = append(ctrlOut, cw.runApp(st))
		d, s, err := userView(cw.app)
		if err != nil {
			cw.app.Close()
			return fmt.Errorf("control dump: %w", err)
		}
		ctrl = append(ctrl, point{d, s})
	}
	cw.app.Close()

	// ---- the same history with litestream replicating the database
	wdir := filepath.Join(base, fmt.Sprintf("h%d-with", index))
	os.MkdirAll(wdir, 0o755)
	defer os.RemoveAll(wdir)
	w := &world{dir: wdir, path: filepath.Join(wdir, "db"), cfg: cfg, replica: filepath.Join(wdir, "replica")}
	if err := w.openApp(true); err != nil {
		return err
	}
	defer func() { w.app.Close() }()
	w.ldb = w.newLitestream()
	if err := w.ldb.Open(); err != nil {
		return err
	}
	napp := 0
	initialised := false
	diverged := false
	check := func(after string, full bool) {
		dw, sw, err := userView(w.app)
		if err != nil {
			rc.violate("C14/source-unreadable", fmt.Sprintf("after %s the application cannot read its database: %v", after, err), replay)
			return
		}
		lock := lockCount(w.app)
		jm := journalMode(w.app)
		objs, _ := internalObjects(w.app)
		integ, integMsg := true, "ok"
		if full {
			integ, integMsg = integrityOK(w.app)
		}
		if len(objs) == 2 {
			initialised = true
		}
		eq := hex.EncodeToString(dw) == hex.EncodeToString(ctrl[napp].digest)
		at := map[string]any{"after_step": after, "app_steps_done": napp}
		for k, v := range replay {
			at[k] = v
		}
		if !eq {
			rc.violate("C14/user-view-differs-from-control",
				fmt.Sprintf("after %s (application step %d) the user-visible schema/rows differ from the run without litestream: with=%s control=%s", after, napp, sw, ctrl[napp].summary), at)
		}
		if lock > 0 {
			rc.violate("C14/lock-table-not-empty", fmt.Sprintf("after %s: SELECT count(*) FROM _litestream_lock = %d", after, lock), at)
		}
		if !integ {
			rc.violate("C14/integrity-check-fails", fmt.Sprintf("after %s: PRAGMA integrity_check = %s", after, integMsg), at)
		}
		if jm != "wal" {
			rc.violate("C14/journal-mode-not-wal", fmt.Sprintf("after %s: PRAGMA journal_mode = %s", after, jm), at)
		}
		for _, o := range objs {
			if o != "_litestream_seq" && o != "_litestream_lock" {
				rc.violate("C14/unexpected-internal-object", fmt.Sprintf("after %s: sqlite_master contains %s", after, o), at)
			}
		}
		rc.cw.Add("stmts_diff_ok", L(SxBytes(dw), SxBytes(ctrl[napp].digest), I(lock), B(integ), B(jm == "wal"), namesSx(objs)), I(1),
			"point:"+strings.SplitN(after, "-", 2)[0], initialised)
		rc.extra["quiescent_points"]++
	}
	check("OPEN", true)
	appIdx := 0
	done := make([]bool, len(hist))
	leaked := false
	defer func() {
		if w.probe != nil {
			w.probe.Close()
		}
	}()
	// runs the application's next step (the first one not yet executed after position from)
	execNextApp := func(from int) {
		for j := from; j < len(hist); j++ {
			if !hist[j].App || done[j] {
				continue
			}
			done[j] = true
			out := w.runApp(hist[j])
			if out != ctrlOut[appIdx] {
				// the application's own statement ended differently (lock contention with the
				// replicator): the two runs are no longer the same history
				diverged = true
				rc.extra["histories_diverged_on_app_outcome"]++
				rc.extra["diverged:"+hist[j].Kind+":"+out+"/"+ctrlOut[appIdx]]++
				return
			}
			appIdx++
			napp++
			rc.extra["app_steps"]++
			return
		}
	}
	for i, st := range hist {
		if diverged {
			break
		}
		if st.App {
			if !done[i] {
				execNextApp(i)
			}
			continue
		}
		var fs *faultState
		if st.Fault != nil {
			i := i
			fs = installFault(w, st.Fault, func() {
				// a concurrent application commit lands while litestream is staging a file
				// (only when litestream does not hold the write lock at this moment)
				if !diverged && w.lockFree() {
					execNextApp(i + 1)
					rc.extra["app_steps_during_litestream_op"]++
				}
			})
		}
		before := stamp(w.path)
		if err := w.runLS(rc, st.Kind); err != nil {
			rc.violate("harness/litestream-op", fmt.Sprintf("%s: %v", st.Kind, err), replay)
			break
		}
		fired := clearFault(w, fs)
		if fired {
			rc.extra["faults_fired"]++
			rc.extra["fault_fired_in:"+st.Kind]++
		}
		after := stamp(w.path)
		rc.extra["ls:"+st.Kind]++
		// no litestream operation may return holding SQLite's write lock
		if !w.lockFree() {
			sig := "C14/write-lock-held-after-" + opClass(st.Kind)
			if fired {
				sig = "C14/write-lock-leaked-after-failed-" + opClass(st.Kind)
			}
			rc.violate(sig, fmt.Sprintf("after %s%s returned, a writer with busy_timeout(0) gets SQLITE_BUSY: litestream still holds the write lock, "+
				"every application write fails from here on", st.Kind, st.Fault.String()), replay)
			leaked = true
			break
		}
		if before.sum != after.sum || before.size != after.size {
			rc.extra["dbfile_changed_by:"+st.Kind]++
			if !mayCheckpoint(st.Kind) {
				rc.violate("C14/db-file-changed-outside-checkpoint",
					fmt.Sprintf("%s changed the database file (size %d -> %d) although it runs no SQLite checkpoint", st.Kind, before.size, after.size), replay)
			}
		} else if !before.mtime.Equal(after.mtime) && !mayCheckpoint(st.Kind) {
			rc.violate("C14/db-file-touched-outside-checkpoint", fmt.Sprintf("%s changed the database file's mtime", st.Kind), replay)
		}
		check(st.Kind, true)
	}
	if leaked {
		rc.extra["histories_aborted_on_lock_leak"]++
		_ = w.runLS(rc, "CLOSE")
		return nil
	}
	if !diverged {
		before := stamp(w.path)
		_ = w.runLS(rc, "CLOSE")
		_ = before
		check("CLOSE", true)
		rc.extra["histories_completed"]++
	} else {
		_ = w.runLS(rc, "CLOSE")
	}
	return nil
}

func main() {
	slog.SetDefault(QuietLogger())
	out := flag.String("out", "", "work directory")
	n := flag.Int("n", 20, "number of histories")
	steps := flag.Int("steps", 45, "steps per history")
	seed := flag.Int64("seed", 1, "PRNG seed")
	stmtsPath := flag.String("stmts", "", "regenerated statement list (coq/Gen/stmts.json)")
	only := flag.Int("only", -1, "run only the history with this index (replay); -2-k: only fault scenario k")
	scen := flag.Int("scenarios", 1, "systematic fault scenarios: 0 none, 1 one fault kind per scenario, 2 every kind")
	shard := flag.Int("shard", 0, "this process runs the histories with index % shards == shard")
	shards := flag.Int("shards", 1, "number of parallel harness processes")
	flag.Parse()
	if *out == "" {
		fmt.Fprintln(os.Stderr, "-out required")
		os.Exit(2)
	}
	cw, err := NewCaseWriter(filepath.Join(*out, "cases.txt"))
	if err != nil {
		fmt.Fprintln(os.Stderr, err)
		os.Exit(3)
	}
	rc := &Recorder{cw: cw, extra: map[string]int{}}
	base := filepath.Join(*out, "tmp")
	os.RemoveAll(base)
	if err := os.MkdirAll(base, 0o755); err != nil {
		fmt.Fprintln(os.Stderr, err)
		os.Exit(3)
	}
	defer os.RemoveAll(base)
	if *stmtsPath != "" && *only == -1 && *shard == 0 {
		if err := runStatementReplay(rc, *stmtsPath, base, NewRand(*seed)); err != nil {
			rc.violations = append(rc.violations, ImplViolation{Signature: "harness/statement-replay", Detail: err.Error()})
		}
	}
	if *only == -1 && *shard == 0 {
		runEnsureExists(rc, base, *seed)
	}
	if *only == -1 && *scen != 0 {
		runFaultScenarios(rc, base, *seed, *shard, *shards, *scen, -1)
	} else if *only <= -2 {
		runFaultScenarios(rc, base, *seed, 0, 1, 2, -*only-2)
	}
	for i := 0; i < *n; i++ {
		if (*only >= 0 && i != *only) || (*only == -1 && i%*shards != *shard) || *only <= -2 {
			continue
		}
		if err := runHistory(rc, base, *seed, i, *steps); err != nil {
			rc.violations = append(rc.violations, ImplViolation{Signature: "harness/setup", Detail: err.Error(),
				Replay: map[string]any{"seed": *seed, "index": i}})
		}
	}
	cw.Close()
	st := cw.Stats()
	st.ImplViolations = rc.violations
	st.Extra = map[string]any{}
	for k, v := range rc.extra {
		st.Extra[k] = v
	}
	st.Extra["histories"] = *n
	st.Extra["fault_injection"] = faultInjection
	if err := WriteJSON(filepath.Join(*out, "stats.json"), st); err != nil {
		fmt.Fprintln(os.Stderr, err)
		os.Exit(3)
	}
	os.RemoveAll(base)
}
