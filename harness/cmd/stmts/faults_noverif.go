//go:build !verif

package main

// Built without the verif tag (the hook file /repo/export_verif_stmts.go does not
// compile against the current tree): no fault injection, the rest of the
// differential replay is unchanged.
const faultInjection = 0

type faultState struct{}

func installFault(w *world, f *FaultSpec, pull func()) *faultState { return nil }
func clearFault(w *world, fs *faultState) bool                     { return false }
func runFaultScenarios(rc *Recorder, base string, seed int64, shard, shards, level, only int) {
	rc.extra["fault_scenarios_unavailable"]++
}
