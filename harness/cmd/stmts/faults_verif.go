//go:build verif

package main

import (
	"database/sql"
	"encoding/hex"
	"fmt"
	"os"
	"path/filepath"
	"strings"
	"syscall"
	"time"

	"github.com/benbjohnson/litestream"

	. "verifharness/hx"
)

// Fault injection on litestream's own LTX staging files, through the
// unexported openLTXFile hook exported by /repo/export_verif_stmts.go.
const faultInjection = 1

type faultState struct {
	spec  *FaultSpec
	opens int
	fired bool
}

type faultyFile struct {
	f    litestream.VerifStagingFile
	kind int
}

func (ff *faultyFile) Write(p []byte) (int, error) {
	if ff.kind == 1 {
		return 0, syscall.ENOSPC
	}
	return ff.f.Write(p)
}
func (ff *faultyFile) Sync() error {
	if ff.kind == 2 {
		return syscall.EIO
	}
	return ff.f.Sync()
}
func (ff *faultyFile) Close() error {
	err := ff.f.Close()
	if ff.kind == 3 {
		return syscall.EIO
	}
	return err
}

func installFault(w *world, f *FaultSpec, pull func()) *faultState {
	fs := &faultState{spec: f}
	w.ldb.VerifSetOpenLTXFile(func(name string, flag int, perm os.FileMode) (litestream.VerifStagingFile, error) {
		if !strings.HasSuffix(name, ".tmp") {
			return litestream.VerifDefaultOpenLTXFile(name, flag, perm)
		}
		fs.opens++
		if fs.opens <= 3 && f.Pull[fs.opens] && pull != nil {
			pull()
		}
		if fs.opens == f.FailAt {
			fs.fired = true
			if f.Kind == 0 {
				return nil, syscall.ENOSPC
			}
			file, err := litestream.VerifDefaultOpenLTXFile(name, flag, perm)
			if err != nil {
				return nil, err
			}
			return &faultyFile{f: file, kind: f.Kind}, nil
		}
		return litestream.VerifDefaultOpenLTXFile(name, flag, perm)
	})
	return fs
}

func clearFault(w *world, fs *faultState) bool {
	if fs == nil {
		return false
	}
	if w.ldb != nil {
		w.ldb.VerifSetOpenLTXFile(nil)
	}
	return fs.fired
}

// ---- systematic scenarios ------------------------------------------------------------
//
// A short fixed application history (inserts/updates on t and u) against each
// litestream operation that stages LTX files, for every subset of the first
// three staging opens at which a concurrent application commit lands and every
// position (1..4) of the failing staging file.  After the faulted call: the
// write lock must be free, every further application write must succeed, and
// after a clean Sync and Close the user view must equal the control run's.

var scenarioOps = []string{"CK-PASSIVE", "CK-FULL", "CK-RESTART", "CK-TRUNCATE", "SYNC/min=1", "SYNC/trunc=1"}

func scenarioQueue(id int) []Step {
	var q []Step
	for k := 0; k < 8; k++ {
		switch k {
		case 3:
			q = append(q, Step{App: true, Kind: "UPD", SQL: []string{"UPDATE t SET n = n + 1 WHERE id % 2 = ?"}, Args: [][]any{{id % 2}}})
		case 5:
			q = append(q, Step{App: true, Kind: "DEL", SQL: []string{"DELETE FROM u WHERE id % 3 = 0"}, Args: [][]any{nil}})
		default:
			b := make([]byte, 40+(id*7+k*13)%900)
			for i := range b {
				b[i] = byte(id*31 + k*17 + i)
			}
			tbl := []string{"t", "u"}[(id+k)%2]
			q = append(q, Step{App: true, Kind: "INS", Tx: "commit", SQL: []string{"INSERT INTO " + tbl + "(v, n) VALUES (?, ?)", "UPDATE ver SET n = n + 1"},
				Args: [][]any{{b, id*100 + k}, nil}})
		}
	}
	return q
}

func runFaultScenarios(rc *Recorder, base string, seed int64, shard, shards, level, only int) {
	id := 0
	for _, op := range scenarioOps {
		for mask := 0; mask < 8; mask++ {
			for failAt := 1; failAt <= 4; failAt++ {
				for kind := 0; kind < 4; kind++ {
					if level < 2 && only < 0 && kind != (id/4+mask+failAt)%4 {
						id++
						continue
					}
					me := id
					id++
					if (only >= 0 && me != only) || (only < 0 && me%shards != shard) {
						continue
					}
					f := &FaultSpec{FailAt: failAt, Kind: kind}
					for k := 1; k <= 3; k++ {
						f.Pull[k] = mask&(1<<(k-1)) != 0
					}
					if err := runFaultScenario(rc, base, me, op, f); err != nil {
						rc.violate("harness/fault-scenario", fmt.Sprintf("scenario %d (%s %s): %v", me, op, f, err), map[string]any{"scenario": me})
					}
				}
			}
		}
	}
}

func runFaultScenario(rc *Recorder, base string, id int, op string, f *FaultSpec) error {
	cfg := Config{PageSize: 4096, MinCheckpointPageN: 1000, TruncatePageN: 121359, CheckpointInterval: 0}
	kind := op
	switch op {
	case "SYNC/min=1":
		cfg.MinCheckpointPageN, kind = 1, "SYNC"
	case "SYNC/trunc=1":
		cfg.TruncatePageN, kind = 1, "SYNC"
	}
	q := scenarioQueue(id)
	replay := map[string]any{"part": "fault-scenario", "scenario": id, "operation": op, "fault": f.String(), "config": cfg.String(),
		"history": "OPEN SYNC INS " + op + f.String() + " <rest of the application queue> SYNC CLOSE INS"}
	rc.cw.Classes["scenario:"+op]++

	// control
	cdir := filepath.Join(base, fmt.Sprintf("s%d-control", id))
	os.MkdirAll(cdir, 0o755)
	defer os.RemoveAll(cdir)
	cw := &world{dir: cdir, path: filepath.Join(cdir, "db"), cfg: cfg}
	if err := cw.openApp(true); err != nil {
		return err
	}
	for _, st := range q {
		if out := cw.runApp(st); out != "" {
			cw.app.Close()
			return fmt.Errorf("control step %s: %s", st.Kind, out)
		}
	}
	want, wantSum, err := userView(cw.app)
	cw.app.Close()
	if err != nil {
		return err
	}

	// with litestream and the fault
	wdir := filepath.Join(base, fmt.Sprintf("s%d-with", id))
	os.MkdirAll(wdir, 0o755)
	defer os.RemoveAll(wdir)
	w := &world{dir: wdir, path: filepath.Join(wdir, "db"), cfg: cfg, replica: filepath.Join(wdir, "replica")}
	if err := w.openApp(true); err != nil {
		return err
	}
	defer func() {
		w.app.Close()
		if w.probe != nil {
			w.probe.Close()
		}
	}()
	w.ldb = w.newLitestream()
	if err := w.ldb.Open(); err != nil {
		return err
	}
	next := 0
	appFailed := false
	runNext := func(where string) bool {
		if next >= len(q) {
			return true
		}
		st := q[next]
		next++
		if out := w.runApp(st); out != "" {
			appFailed = true
			rc.violate("C14/application-write-fails-after-litestream-fault",
				fmt.Sprintf("application step %d (%s) %s fails with %q; the same step succeeds without litestream (%s %s)", next, st.Kind, where, out, op, f), replay)
			return false
		}
		rc.extra["app_steps"]++
		return true
	}
	_ = w.runLS(rc, "SYNC")
	if !runNext("before the faulted call") { // pending frames
		return nil
	}
	fs := installFault(w, f, func() {
		if w.lockFree() {
			runNext("during the litestream call")
			rc.extra["app_steps_during_litestream_op"]++
		}
	})
	_ = w.runLS(rc, kind)
	fired := clearFault(w, fs)
	rc.extra["fault_scenarios"]++
	if fired {
		rc.extra["faults_fired"]++
		rc.extra["fault_fired_in:"+op]++
	}
	leakCheck := func(after string, failed bool) bool {
		if w.lockFree() {
			return true
		}
		sig := "C14/write-lock-held-after-" + opClass(after)
		if failed {
			sig = "C14/write-lock-leaked-after-failed-" + opClass(after)
		}
		rc.violate(sig, fmt.Sprintf("after %s%s returned, a writer with busy_timeout(0) gets SQLITE_BUSY: litestream still holds SQLite's write lock "+
			"(staging files opened: %d), every application write fails from here on", after, f, fs.opens), replay)
		return false
	}
	if !leakCheck(kind, fired) || appFailed {
		_ = w.runLS(rc, "CLOSE")
		return nil
	}
	for next < len(q)-1 {
		if !runNext("after the faulted call") {
			_ = w.runLS(rc, "CLOSE")
			return nil
		}
	}
	_ = w.runLS(rc, "SYNC")
	if !leakCheck("SYNC", false) {
		return nil
	}
	_ = w.runLS(rc, "CLOSE")
	if !leakCheck("CLOSE", false) {
		return nil
	}
	if !runNext("after Close") {
		return nil
	}
	got, gotSum, err := userView(w.app)
	if err != nil {
		rc.violate("C14/source-unreadable", fmt.Sprintf("scenario %d: %v", id, err), replay)
		return nil
	}
	lock := lockCount(w.app)
	jm := journalMode(w.app)
	objs, _ := internalObjects(w.app)
	integ, integMsg := integrityOK(w.app)
	if hex.EncodeToString(got) != hex.EncodeToString(want) {
		rc.violate("C14/user-view-differs-from-control", fmt.Sprintf("fault scenario %d (%s %s): with=%s control=%s", id, op, f, gotSum, wantSum), replay)
	}
	if lock > 0 {
		rc.violate("C14/lock-table-not-empty", fmt.Sprintf("fault scenario %d (%s %s): count(*) FROM _litestream_lock = %d", id, op, f, lock), replay)
	}
	if !integ {
		rc.violate("C14/integrity-check-fails", fmt.Sprintf("fault scenario %d: %s", id, integMsg), replay)
	}
	if jm != "wal" {
		rc.violate("C14/journal-mode-not-wal", fmt.Sprintf("fault scenario %d: %s", id, jm), replay)
	}
	rc.cw.Add("stmts_diff_ok", L(SxBytes(got), SxBytes(want), I(lock), B(integ), B(jm == "wal"), namesSx(objs)), I(1), "point:scenario-end", fired)
	rc.extra["quiescent_points"]++
	return nil
}

var _ = sql.ErrNoRows
var _ = time.Second
