// Command plan: correspondence cases for the restore planner (C08).
//
// Drives the real litestream.CalcRestorePlan over an in-memory ReplicaClient
// whose LTXFiles returns arbitrary listings, and writes for every
// (file set, target TXID, timestamp) query three cases:
//
//	plan_run          model equality: error class and the (level,min,max) plan
//	plan_valid_ok     spec oracle: a returned plan is a valid chain
//	plan_complete_ok  spec oracle: an error means no valid chain exists (brute
//	                  force), a gap error names a real gap, a latest-mode plan
//	                  ends at the greatest TXID of any file
//
// Times are written as small integers k (CreatedAt = base + k ms, requested
// timestamp likewise, 0 = zero time); only their order matters.
package main

import (
	"context"
	"errors"
	"flag"
	"fmt"
	"math/rand"
	"os"
	"path/filepath"
	"sort"
	"strings"
	"time"

	"github.com/benbjohnson/litestream"
	"github.com/benbjohnson/litestream/file"
	"github.com/benbjohnson/litestream/mock"
	"github.com/superfly/ltx"
	. "verifharness/hx"
)

var baseTime = time.Date(2024, 1, 2, 3, 4, 5, 0, time.UTC)

func tsOf(k int64) time.Time {
	if k == 0 {
		return time.Time{}
	}
	return baseTime.Add(time.Duration(k) * time.Millisecond)
}

func classOf(t time.Time) int64 {
	if t.IsZero() {
		return 0
	}
	return int64(t.Sub(baseTime) / time.Millisecond)
}

type pfile struct {
	level    int
	min, max uint64
	created  int64
}

// orderIter yields the files exactly in the order given (no sorting); used for
// replays and for the "unsorted listing" class.
type orderIter struct {
	a    []*ltx.FileInfo
	init bool
}

func (it *orderIter) Close() error { return nil }
func (it *orderIter) Err() error   { return nil }
func (it *orderIter) Next() bool {
	if !it.init {
		it.init = true
		return len(it.a) > 0
	}
	it.a = it.a[1:]
	return len(it.a) > 0
}
func (it *orderIter) Item() *ltx.FileInfo {
	if len(it.a) == 0 {
		return nil
	}
	return it.a[0]
}

// replica is an in-memory listing per level.
type replica struct {
	byLevel  map[int][]*ltx.FileInfo
	preserve bool // true: iterate in the given order; false: ltx.NewFileInfoSliceIterator (sorts)
}

func newReplica(fs []pfile, preserve bool) *replica {
	r := &replica{byLevel: map[int][]*ltx.FileInfo{}, preserve: preserve}
	for _, f := range fs {
		r.byLevel[f.level] = append(r.byLevel[f.level], &ltx.FileInfo{
			Level: f.level, MinTXID: ltx.TXID(f.min), MaxTXID: ltx.TXID(f.max), CreatedAt: tsOf(f.created), Size: 1,
		})
	}
	return r
}

func (r *replica) iter(level int) ltx.FileIterator {
	a := append([]*ltx.FileInfo(nil), r.byLevel[level]...)
	if r.preserve {
		return &orderIter{a: a}
	}
	return ltx.NewFileInfoSliceIterator(a)
}

func (r *replica) client() litestream.ReplicaClient {
	return &mock.ReplicaClient{
		LTXFilesFunc: func(ctx context.Context, level int, seek ltx.TXID, useMetadata bool) (ltx.FileIterator, error) {
			return r.iter(level), nil
		},
	}
}

// filesSx lists the files in the order the client's iterators return them.
func filesSx(c litestream.ReplicaClient) (Sx, int, error) {
	var out SxList
	for level := litestream.SnapshotLevel; level >= 0; level-- {
		itr, err := c.LTXFiles(context.Background(), level, 0, true)
		if err != nil {
			return nil, 0, err
		}
		for itr.Next() {
			fi := itr.Item()
			out = append(out, L(I(int64(fi.Level)), U(uint64(fi.MinTXID)), U(uint64(fi.MaxTXID)), I(classOf(fi.CreatedAt))))
		}
		if err := itr.Close(); err != nil {
			return nil, 0, err
		}
	}
	return out, len(out), nil
}

var quiet = QuietLogger()

// runPlan calls the implementation; status 0 ok | 1 both | 2 ErrTxNotAvailable | 3 gap | 5 other error | 6 panic
func runPlan(c litestream.ReplicaClient, tgt uint64, ts int64) (status int, plan []*ltx.FileInfo) {
	defer func() {
		if p := recover(); p != nil {
			status, plan = 6, nil
		}
	}()
	p, err := litestream.CalcRestorePlan(context.Background(), c, ltx.TXID(tgt), tsOf(ts), quiet)
	switch {
	case err == nil:
		return 0, p
	case errors.Is(err, litestream.ErrTxNotAvailable):
		return 2, nil
	case strings.Contains(err.Error(), "cannot specify both"):
		return 1, nil
	case strings.Contains(err.Error(), "non-contiguous"):
		return 3, nil
	}
	return 5, nil
}

func plan3(p []*ltx.FileInfo) Sx {
	out := SxList{}
	for _, fi := range p {
		out = append(out, L(I(int64(fi.Level)), U(uint64(fi.MinTXID)), U(uint64(fi.MaxTXID))))
	}
	return out
}

func plan4(p []*ltx.FileInfo) Sx {
	out := SxList{}
	for _, fi := range p {
		out = append(out, L(I(int64(fi.Level)), U(uint64(fi.MinTXID)), U(uint64(fi.MaxTXID)), I(classOf(fi.CreatedAt))))
	}
	return out
}

type query struct {
	tgt uint64
	ts  int64
}

type emitOpts struct {
	runEq    bool // compare with the model (plan_run)
	valid    bool // plan_valid_ok
	complete bool // plan_complete_ok (needs a well-formed, sorted listing)
}

var queriesRun int

// emit runs every query on the replica behind c and writes the cases.
func emit(cw *CaseWriter, c litestream.ReplicaClient, qs []query, class string, o emitOpts) error {
	fsx, nfiles, err := filesSx(c)
	if err != nil {
		return err
	}
	cw.Define("w", fsx)
	w := Ref("w")
	for _, q := range qs {
		st, p := runPlan(c, q.tgt, q.ts)
		queriesRun++
		mode := "latest"
		if q.tgt != 0 && q.ts != 0 {
			mode = "both"
		} else if q.tgt != 0 {
			mode = "txid"
		} else if q.ts != 0 {
			mode = "time"
		}
		res := [...]string{"ok", "both", "notavail", "gap", "?", "error", "panic"}[st]
		cls := class + "/" + mode + "/" + res
		nontriv := nfiles >= 2 && (len(p) >= 2 || st != 0)
		if o.runEq {
			cw.Add("plan_run", L(w, U(q.tgt), I(q.ts)), L(I(int64(st)), plan3(p)), cls, nontriv)
		}
		if o.valid {
			cw.Add("plan_valid_ok", L(w, U(q.tgt), I(q.ts), I(int64(st)), plan4(p)), I(1), cls, nontriv)
		}
		if o.complete {
			cw.Add("plan_complete_ok", L(w, U(q.tgt), I(q.ts), I(int64(st)), plan4(p)), I(1), cls, nontriv)
		}
	}
	return nil
}

var all = emitOpts{true, true, true}

// ---- exhaustive small scopes ---------------------------------------------------

type ufile struct {
	level    int
	min, max uint64
}

// universe: every range 1<=min<=max<=n at each of the levels; snapshots (level 9) only 1..max
func universe(n int, levels []int) []ufile {
	var u []ufile
	for _, l := range levels {
		for lo := 1; lo <= n; lo++ {
			for hi := lo; hi <= n; hi++ {
				if l == litestream.SnapshotLevel && lo != 1 {
					continue
				}
				u = append(u, ufile{l, uint64(lo), uint64(hi)})
			}
		}
	}
	return u
}

// exhaustive enumerates every subset of the universe; with states == 3 every
// present file is either "early" (created 2) or "late" (created 4).
// stride > 1 keeps every stride-th subset (offset by seed) for scopes too large to run in full.
func exhaustive(cw *CaseWriter, n int, levels []int, states int, qs []query, class string, stride, offset uint64) error {
	u := universe(n, levels)
	total := uint64(1)
	for range u {
		total *= uint64(states)
	}
	for code := offset % stride; code < total; code += stride {
		var fs []pfile
		c := code
		for _, f := range u {
			s := c % uint64(states)
			c /= uint64(states)
			switch s {
			case 1:
				fs = append(fs, pfile{f.level, f.min, f.max, 2})
			case 2:
				fs = append(fs, pfile{f.level, f.min, f.max, 4})
			}
		}
		if err := emit(cw, newReplica(fs, false).client(), qs, class, all); err != nil {
			return err
		}
	}
	return nil
}

func txQueries(n int) []query {
	var qs []query
	for t := 0; t <= n+1; t++ {
		qs = append(qs, query{uint64(t), 0})
	}
	return qs
}

// ---- random larger sets ---------------------------------------------------------

// genRealistic: L0 files k..k, compactions into blocks at higher levels, snapshots
// 1..s, retention-like deletions and random holes; created time grows with TXID
// (stamp(k) = 2*(1+k/step), so ties occur), compactions inherit the stamp of
// their max TXID, snapshots are stamped at their position (sometimes later).
func genRealistic(r *rand.Rand) ([]pfile, int) {
	n := 1 + r.Intn(40)
	step := 1 + r.Intn(3)
	stamp := func(k int) int64 { return int64(2 * (1 + k/step)) }
	var fs []pfile
	holeP := []float64{0, 0, 0.05, 0.2}[r.Intn(4)]
	// L0, with a retained suffix
	from := 1
	if r.Intn(2) == 0 {
		from = 1 + r.Intn(n)
	}
	for k := from; k <= n; k++ {
		if r.Float64() < holeP {
			continue
		}
		fs = append(fs, pfile{0, uint64(k), uint64(k), stamp(k)})
	}
	// higher levels: blocks
	nl := r.Intn(4)
	width := 1
	for l := 1; l <= nl; l++ {
		width *= 2 + r.Intn(3)
		level := l
		if r.Intn(4) == 0 {
			level = 1 + r.Intn(8)
		}
		upto := n
		if r.Intn(2) == 0 {
			upto = r.Intn(n + 1)
		}
		start := 1
		if r.Intn(3) == 0 {
			start = 1 + r.Intn(n)
		}
		for lo := start; lo <= upto; {
			w := width
			if r.Intn(3) == 0 {
				w = 1 + r.Intn(width+1)
			}
			hi := lo + w - 1
			if hi > upto {
				hi = upto
			}
			if r.Float64() >= holeP {
				fs = append(fs, pfile{level, uint64(lo), uint64(hi), stamp(hi)})
			}
			lo = hi + 1
		}
	}
	// snapshots
	for i := r.Intn(4); i > 0; i-- {
		s := 1 + r.Intn(n)
		c := stamp(s)
		if r.Intn(3) == 0 {
			c += int64(2 * r.Intn(3))
		}
		fs = append(fs, pfile{litestream.SnapshotLevel, 1, uint64(s), c})
	}
	return dedup(fs), n
}

// genRandom: arbitrary ranges at arbitrary levels with arbitrary times.
func genRandom(r *rand.Rand) ([]pfile, int) {
	n := 1 + r.Intn(40)
	m := r.Intn(30)
	if r.Intn(3) == 0 {
		n = 1 + r.Intn(8)
	}
	var fs []pfile
	for i := 0; i < m; i++ {
		lo := 1 + r.Intn(n)
		span := r.Intn(4)
		if r.Intn(4) == 0 {
			span = r.Intn(n)
		}
		hi := lo + span
		if hi > n {
			hi = n
		}
		level := r.Intn(9)
		if r.Intn(6) == 0 {
			level = litestream.SnapshotLevel
			lo = 1
		}
		fs = append(fs, pfile{level, uint64(lo), uint64(hi), int64(2 * (1 + r.Intn(8)))})
	}
	return dedup(fs), n
}

func dedup(fs []pfile) []pfile {
	seen := map[[3]uint64]bool{}
	var out []pfile
	for _, f := range fs {
		k := [3]uint64{uint64(f.level), f.min, f.max}
		if !seen[k] {
			seen[k] = true
			out = append(out, f)
		}
	}
	return out
}

// queriesFor: every TXID 0..n+1, and timestamps at / just before / just after
// file times (file times are even, so odd values lie between them).
func queriesFor(r *rand.Rand, fs []pfile, n int, maxTs int) []query {
	qs := txQueries(n)
	seen := map[int64]bool{}
	var cand []int64
	for _, f := range fs {
		for _, t := range []int64{f.created - 1, f.created, f.created + 1} {
			if t >= 1 && !seen[t] {
				seen[t] = true
				cand = append(cand, t)
			}
		}
	}
	sort.Slice(cand, func(i, j int) bool { return cand[i] < cand[j] })
	if len(cand) > maxTs {
		r.Shuffle(len(cand), func(i, j int) { cand[i], cand[j] = cand[j], cand[i] })
		cand = cand[:maxTs]
	}
	for _, t := range cand {
		qs = append(qs, query{0, t})
	}
	if r.Intn(4) == 0 && len(cand) > 0 {
		qs = append(qs, query{uint64(1 + r.Intn(n)), cand[0]}) // both given
	}
	return qs
}

// ---- the file client really lists in (min,max) order -------------------------------

func fileClientSet(cw *CaseWriter, r *rand.Rand, dir string, idx int) error {
	fs, n := genRandom(r)
	if idx%2 == 0 {
		fs, n = genRealistic(r)
	}
	root := filepath.Join(dir, fmt.Sprintf("fc%d", idx))
	defer os.RemoveAll(root)
	c := file.NewReplicaClient(root)
	// create in random order so that directory order is not creation order
	r.Shuffle(len(fs), func(i, j int) { fs[i], fs[j] = fs[j], fs[i] })
	for _, f := range fs {
		p := c.LTXFilePath(f.level, ltx.TXID(f.min), ltx.TXID(f.max))
		if err := os.MkdirAll(filepath.Dir(p), 0o755); err != nil {
			return err
		}
		if err := os.WriteFile(p, nil, 0o644); err != nil {
			return err
		}
		if err := os.Chtimes(p, tsOf(f.created), tsOf(f.created)); err != nil {
			return err
		}
	}
	// sortedness of what the client returns
	for level := 0; level <= litestream.SnapshotLevel; level++ {
		itr, err := c.LTXFiles(context.Background(), level, 0, true)
		if err != nil {
			return err
		}
		a, err := ltx.SliceFileIterator(itr)
		if err != nil {
			return err
		}
		for i := 1; i < len(a); i++ {
			if a[i-1].MinTXID > a[i].MinTXID || (a[i-1].MinTXID == a[i].MinTXID && a[i-1].MaxTXID > a[i].MaxTXID) {
				return fmt.Errorf("file client listing of level %d is not sorted by (min,max)", level)
			}
		}
	}
	return emit(cw, c, queriesFor(r, fs, n, 6), "fileclient", all)
}

// ---- main -----------------------------------------------------------------------------

func main() {
	args := os.Args[1:]
	if len(args) > 0 && args[0] == "plan" {
		args = args[1:]
	}
	if err := cmdPlan(args); err != nil {
		fmt.Fprintln(os.Stderr, "harness error:", err)
		os.Exit(3)
	}
}

func cmdPlan(args []string) error {
	fl := flag.NewFlagSet("plan", flag.ContinueOnError)
	out := fl.String("out", "", "work directory")
	n := fl.Int("n", 300, "number of random file sets")
	seed := fl.Int64("seed", 1, "PRNG seed")
	exh := fl.Int("exh", 1, "exhaustive scope: 0 none, 1 quick, 2 thorough")
	replay := fl.String("replay", "", "case file whose inputs are re-run on the implementation")
	if err := fl.Parse(args); err != nil {
		return err
	}
	if *out == "" {
		return fmt.Errorf("-out is required")
	}
	if *replay != "" {
		return replayPlan(*replay, *out)
	}
	r := NewRand(*seed)
	cw, err := NewCaseWriter(filepath.Join(*out, "cases.txt"))
	if err != nil {
		return err
	}
	cw.Add("plan_consts", L(), L(I(int64(litestream.SnapshotLevel))), "consts", false)

	L0129 := []int{0, 1, 2, litestream.SnapshotLevel}
	tsQs := []query{{0, 1}, {0, 2}, {0, 3}, {0, 4}, {0, 5}}
	if *exh >= 1 {
		// N=2, levels {0,1,2,9}, every subset; every TXID and the timestamps around the single file time 2
		if err := exhaustive(cw, 2, L0129, 2, append(txQueries(2), query{0, 1}, query{0, 2}, query{0, 3}, query{1, 3}), "exh/N2-L0129", 1, 0); err != nil {
			return err
		}
		// N=2, levels {0,1,9}, absent/early/late: timestamps before, at, between, at, after
		if err := exhaustive(cw, 2, []int{0, 1, litestream.SnapshotLevel}, 3, append([]query{{0, 0}}, tsQs...), "exh/N2-L019-times", 1, 0); err != nil {
			return err
		}
	}
	if *exh == 1 {
		// N=3, levels {0,1,9}: every subset (2^15), every TXID
		if err := exhaustive(cw, 3, []int{0, 1, litestream.SnapshotLevel}, 2, txQueries(3), "exh/N3-L019", 1, 0); err != nil {
			return err
		}
		// N=3, levels {0,1,2,9}: 2^21 subsets, every 257th (offset by seed)
		if err := exhaustive(cw, 3, L0129, 2, append(txQueries(3), query{0, 3}), "exh/N3-L0129-sampled", 257, uint64(*seed)); err != nil {
			return err
		}
	}
	if *exh >= 2 {
		// N=3, levels {0,1,9}: every subset, every TXID
		if err := exhaustive(cw, 3, []int{0, 1, litestream.SnapshotLevel}, 2, txQueries(3), "exh/N3-L019", 1, 0); err != nil {
			return err
		}
		// N=3, levels {0,1,2,9}: 2^21 subsets, every 16th (offset by seed)
		if err := exhaustive(cw, 3, L0129, 2, append(txQueries(3), query{0, 3}), "exh/N3-L0129-sampled", 16, uint64(*seed)); err != nil {
			return err
		}
		// N=3, levels {0,9} with times: 3^9
		if err := exhaustive(cw, 3, []int{0, litestream.SnapshotLevel}, 3, append([]query{{0, 0}}, tsQs...), "exh/N3-L09-times", 1, 0); err != nil {
			return err
		}
		// N=4, levels {0,1,9}: 2^24 subsets, every 389th
		if err := exhaustive(cw, 4, []int{0, 1, litestream.SnapshotLevel}, 2, txQueries(4), "exh/N4-L019-sampled", 389, uint64(*seed)); err != nil {
			return err
		}
	}

	for i := 0; i < *n; i++ {
		var fs []pfile
		var nn int
		class := "rand/realistic"
		if i%2 == 0 {
			fs, nn = genRealistic(r)
		} else {
			fs, nn = genRandom(r)
			class = "rand/ranges"
		}
		if err := emit(cw, newReplica(fs, false).client(), queriesFor(r, fs, nn, 8), class, all); err != nil {
			return err
		}
		switch i % 10 {
		case 3:
			// a listing the client returns in arbitrary order: soundness must still hold
			// (completeness assumes the iterator order, so it is not asked)
			r.Shuffle(len(fs), func(a, b int) { fs[a], fs[b] = fs[b], fs[a] })
			if err := emit(cw, newReplica(fs, true).client(), queriesFor(r, fs, nn, 4), "rand/unsorted-listing", emitOpts{true, true, false}); err != nil {
				return err
			}
		case 7:
			// documented boundary: a snapshot-level file that does not start at TXID 1
			// (plan_nonmin1_snapshot_refuted); only model equality is asked
			lo := uint64(2 + r.Intn(3))
			fs2 := append(append([]pfile(nil), fs...), pfile{litestream.SnapshotLevel, lo, lo + uint64(r.Intn(5)), 2})
			if err := emit(cw, newReplica(dedup(fs2), false).client(), queriesFor(r, fs2, nn, 3), "rand/snapshot-not-from-1", emitOpts{true, false, false}); err != nil {
				return err
			}
		}
	}
	nfc := *n / 6
	if nfc < 4 {
		nfc = 4
	}
	for i := 0; i < nfc; i++ {
		if err := fileClientSet(cw, r, *out, i); err != nil {
			return err
		}
	}
	if err := cw.Close(); err != nil {
		return err
	}
	st := cw.Stats()
	st.Extra = map[string]any{"queries_run_on_implementation": queriesRun}
	return WriteJSON(filepath.Join(*out, "stats.json"), st)
}

// replayPlan re-runs the implementation on the inputs of a case file (the
// listing is served in exactly the recorded order) and writes a fresh case
// file with the newly observed outputs.
func replayPlan(path, out string) error {
	cases, err := ReadCases(path)
	if err != nil {
		return err
	}
	cw, err := NewCaseWriter(filepath.Join(out, "cases.txt"))
	if err != nil {
		return err
	}
	for _, c := range cases {
		if c.Entry == "plan_consts" {
			cw.Add("plan_consts", L(), L(I(int64(litestream.SnapshotLevel))), "replay", false)
			continue
		}
		var fs []pfile
		for _, f := range c.In.At(0).List {
			fs = append(fs, pfile{int(f.At(0).Int()), f.At(1).Uint(), f.At(2).Uint(), f.At(3).Int()})
		}
		q := query{c.In.At(1).Uint(), c.In.At(2).Int()}
		o := emitOpts{c.Entry == "plan_run", c.Entry == "plan_valid_ok", c.Entry == "plan_complete_ok"}
		if err := emit(cw, newReplica(fs, true).client(), []query{q}, "replay", o); err != nil {
			return err
		}
	}
	return cw.Close()
}
