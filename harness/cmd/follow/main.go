// Command follow: correspondence cases and implementation-level oracles for
// follow-mode restore (C16).
//
// Three generators:
//
//	hist  REAL primary histories (real DB + SQLite writes, growth / shrink /
//	      VACUUM, db.Compact(1..3), snapshots, L0 retention, L1 retention) against
//	      a file replica, with a REAL follower (Replica.Restore with Follow) whose
//	      polls are released one at a time through a gating ReplicaClient wrapper
//	      (the wrapper blocks the follower's level-0 listing, i.e. the first call of
//	      applyNewLTXFiles, until the harness lets one poll through). After every
//	      poll: follower bytes (masking page-1 bytes 18-19, 24-27) vs an ordinary
//	      Restore(TXID = sidecar); sidecar sequence monotone; applied files (the
//	      OpenLTXFile calls of the poll) emitted as cases for the model.
//	syn   small synthetic listings (tiny valid LTX files at arbitrary
//	      (level,min,max), gaps, overlaps, injected open / checksum errors) driven
//	      through the same real loop: function equality of the poll algorithm.
//	kill  the follower as a child process under
//	      strace -f -e inject=<write syscalls>:signal=KILL:when=k, restarted,
//	      converged, compared with an ordinary restore of the latest TXID.
package main

import (
	"sync/atomic"
	"bytes"
	"context"
	"crypto/sha256"
	"database/sql"
	"encoding/json"
	"errors"
	"flag"
	"fmt"
	"io"
	"log/slog"
	"math/rand"
	"os"
	"os/exec"
	"path/filepath"
	"runtime"
	"sort"
	"strconv"
	"strings"
	"sync"
	"time"

	"github.com/benbjohnson/litestream"
	"github.com/benbjohnson/litestream/file"
	"github.com/superfly/ltx"
	_ "modernc.org/sqlite"
	. "verifharness/hx"
)

// ---------------------------------------------------------------------------
// observing / gating replica client

type fkey struct {
	level    int
	min, max uint64
}

type obsClient struct {
	*file.ReplicaClient
	sidecar string

	mu      sync.Mutex
	gating  bool
	opens   []fkey
	outc    []int        // per open: 0 ok, 1 open error, 2 corrupted (applied, Close fails), 3 file does not exist
	bad     map[fkey]int // 1: OpenLTXFile fails; 2: trailer checksum corrupted
	// race hook: runs inside the follower's OpenLTXFile call, before the file is
	// opened (idx = number of opens so far in this poll); the harness uses it to run
	// primary-side operations between the follower's listing and its opens
	beforeOpen   func(idx int, k fkey)
	opDone       bool // beforeOpen did something in this poll
	listAfterOp  bool // a listing happened after that in the same poll
	lastOutc     []int
	lastListAfterOp bool
	arrive  chan struct{}
	release chan struct{}
}

func newObsClient(dir, sidecar string) *obsClient {
	return &obsClient{ReplicaClient: file.NewReplicaClient(dir), sidecar: sidecar, gating: true,
		arrive: make(chan struct{}), release: make(chan struct{})}
}

func (c *obsClient) LTXFiles(ctx context.Context, level int, seek ltx.TXID, useMetadata bool) (ltx.FileIterator, error) {
	if level == 0 && seek > 0 && c.gating {
		// A level-0 listing with a seek position while the sidecar exists is the first
		// action of a poll (the restore plan and the resume validation list with seek 0).
		if _, err := os.Stat(c.sidecar); err == nil {
			select {
			case c.arrive <- struct{}{}:
			case <-ctx.Done():
				return nil, ctx.Err()
			}
			select {
			case <-c.release:
			case <-ctx.Done():
				return nil, ctx.Err()
			}
		}
	}
	c.mu.Lock()
	if c.opDone {
		c.listAfterOp = true
	}
	c.mu.Unlock()
	return c.ReplicaClient.LTXFiles(ctx, level, seek, useMetadata)
}

func (c *obsClient) OpenLTXFile(ctx context.Context, level int, minTXID, maxTXID ltx.TXID, offset, size int64) (io.ReadCloser, error) {
	k := fkey{level, uint64(minTXID), uint64(maxTXID)}
	c.mu.Lock()
	idx := len(c.opens)
	c.opens = append(c.opens, k)
	c.outc = append(c.outc, 0)
	bad := c.bad[k]
	hook := c.beforeOpen
	c.mu.Unlock()
	setOutc := func(o int) {
		c.mu.Lock()
		if idx < len(c.outc) {
			c.outc[idx] = o
		}
		c.mu.Unlock()
	}
	if hook != nil {
		hook(idx, k)
	}
	if bad == 1 {
		setOutc(1)
		return nil, errors.New("injected open failure")
	}
	rc, err := c.ReplicaClient.OpenLTXFile(ctx, level, minTXID, maxTXID, offset, size)
	if err != nil {
		if errors.Is(err, os.ErrNotExist) || os.IsNotExist(err) {
			setOutc(3)
		} else {
			setOutc(1)
		}
		return rc, err
	}
	if bad != 2 {
		return rc, err
	}
	setOutc(2)
	b, err := io.ReadAll(rc)
	_ = rc.Close()
	if err != nil {
		return nil, err
	}
	if len(b) > 0 {
		b[len(b)-1] ^= 0x5a // file checksum in the trailer: detected by Decoder.Close
	}
	return io.NopCloser(bytes.NewReader(b)), nil
}

func (c *obsClient) takeOpens() []fkey {
	c.mu.Lock()
	defer c.mu.Unlock()
	o := c.opens
	c.opens = nil
	c.lastOutc = c.outc
	c.outc = nil
	c.lastListAfterOp = c.listAfterOp
	c.opDone, c.listAfterOp = false, false
	return o
}

// ---------------------------------------------------------------------------
// one follower life (a Restore call with Follow) that can be stepped poll by poll

type session struct {
	oc     *obsClient
	out    string
	cancel context.CancelFunc
	done   chan error
	ended  bool
	endErr error
}

func startSession(repDir, out string, bad map[fkey]int) *session {
	oc := newObsClient(repDir, out+"-txid")
	oc.bad = bad
	r := litestream.NewReplicaWithClient(nil, oc)
	ctx, cancel := context.WithCancel(context.Background())
	s := &session{oc: oc, out: out, cancel: cancel, done: make(chan error, 1)}
	go func() {
		var err error
		defer func() {
			if p := recover(); p != nil {
				err = fmt.Errorf("PANIC: %v", p)
			}
			s.done <- err
		}()
		err = r.Restore(ctx, litestream.RestoreOptions{OutputPath: out, Follow: true, FollowInterval: 200 * time.Microsecond})
	}()
	return s
}

// await blocks until the follower stands at the gate (true) or Restore returned (false).
func (s *session) await() bool {
	if s.ended {
		return false
	}
	select {
	case <-s.oc.arrive:
		return true
	case err := <-s.done:
		s.ended, s.endErr = true, err
		return false
	case <-time.After(60 * time.Second):
		s.ended, s.endErr = true, errors.New("HANG: follower neither polled nor returned within 60 s")
		return false
	}
}

// poll lets exactly one poll run (precondition: at the gate) and waits for the
// next one to arrive, which implies the poll and its sidecar write are complete.
func (s *session) poll() (opens []fkey, ok bool) {
	s.oc.takeOpens()
	s.oc.release <- struct{}{}
	ok = s.await()
	return s.oc.takeOpens(), ok
}

func (s *session) stop() error {
	if s.ended {
		return s.endErr
	}
	s.cancel()
	select {
	case err := <-s.done:
		s.ended, s.endErr = true, err
	case <-time.After(30 * time.Second):
		s.ended, s.endErr = true, errors.New("HANG: follower did not stop")
	}
	return s.endErr
}

// refusal class of a Restore error in follow mode
func errClass(err error) int {
	if err == nil {
		return 0
	}
	m := err.Error()
	switch {
	case strings.Contains(m, "no -txid file found"):
		return 1
	case strings.Contains(m, "replica history has been pruned"):
		return 2
	case strings.Contains(m, "ahead of latest snapshot"), strings.Contains(m, "is ahead of the replica"):
		return 3
	case strings.Contains(m, "PANIC"):
		return 8
	}
	return 9
}

func readSidecar(out string) uint64 {
	t, err := litestream.ReadTXIDFile(out)
	if err != nil {
		return ^uint64(0)
	}
	return uint64(t)
}

// ---------------------------------------------------------------------------
// listings

type finfo struct{ min, max uint64 }

// listing[l] = files of level l sorted by (min,max), l = 0..9
func listAll(dir string) [10][]finfo {
	var out [10][]finfo
	c := file.NewReplicaClient(dir)
	for l := 0; l <= 9; l++ {
		itr, err := c.LTXFiles(context.Background(), l, 0, false)
		if err != nil {
			continue
		}
		for itr.Next() {
			i := itr.Item()
			out[l] = append(out[l], finfo{uint64(i.MinTXID), uint64(i.MaxTXID)})
		}
		_ = itr.Close()
	}
	return out
}

func sxListing(ls [10][]finfo, bad map[fkey]int) Sx {
	lv := make(SxList, 0, 9)
	for l := 0; l < 9; l++ {
		fs := make(SxList, 0, len(ls[l]))
		for _, f := range ls[l] {
			fs = append(fs, L(U(f.min), U(f.max), I(int64(bad[fkey{l, f.min, f.max}]))))
		}
		lv = append(lv, fs)
	}
	return lv
}

func sxOpens(o []fkey) Sx {
	out := make(SxList, 0, len(o))
	for _, k := range o {
		out = append(out, L(I(int64(k.level)), U(k.min), U(k.max)))
	}
	return out
}

func maxTXID(ls [10][]finfo, uptoLevel int) uint64 {
	var m uint64
	for l := 0; l <= uptoLevel; l++ {
		for _, f := range ls[l] {
			if f.max > m {
				m = f.max
			}
		}
	}
	return m
}

// ---------------------------------------------------------------------------
// byte comparison

func maskDB(b []byte) []byte {
	c := append([]byte(nil), b...)
	for _, i := range []int{18, 19, 24, 25, 26, 27} {
		if i < len(c) {
			c[i] = 0
		}
	}
	return c
}

func diffDB(a, b []byte, ps int) string {
	a, b = maskDB(a), maskDB(b)
	if bytes.Equal(a, b) {
		return ""
	}
	if ps <= 0 {
		ps = 4096
	}
	var pg []string
	n := len(a)
	if len(b) < n {
		n = len(b)
	}
	for off := 0; off < n; off += ps {
		e := off + ps
		if e > n {
			e = n
		}
		if !bytes.Equal(a[off:e], b[off:e]) {
			pg = append(pg, strconv.Itoa(off/ps+1))
			if len(pg) >= 8 {
				pg = append(pg, "...")
				break
			}
		}
	}
	return fmt.Sprintf("size %d vs %d bytes, differing pages [%s]", len(a), len(b), strings.Join(pg, " "))
}

func restoreTo(repDir string, txid uint64, out string) error {
	_ = os.Remove(out)
	r := litestream.NewReplicaWithClient(nil, file.NewReplicaClient(repDir))
	return r.Restore(context.Background(), litestream.RestoreOptions{OutputPath: out, TXID: ltx.TXID(txid)})
}

// ---------------------------------------------------------------------------
// primary

type primary struct {
	dir, dbPath, repDir, archDir string
	db                           *litestream.DB
	client                       *file.ReplicaClient
	sq                           *sql.DB
	ps                           int
	refs                         map[uint64][]byte
	archived                     map[finfo]bool
	log                          []string
}

func openPrimary(dir string, ps int, l0ret time.Duration) (*primary, error) {
	p := &primary{dir: dir, dbPath: filepath.Join(dir, "db"), repDir: filepath.Join(dir, "replica"),
		archDir: filepath.Join(dir, "archive"), ps: ps, refs: map[uint64][]byte{}, archived: map[finfo]bool{}}
	sq, err := sql.Open("sqlite", p.dbPath)
	if err != nil {
		return nil, err
	}
	sq.SetMaxOpenConns(1)
	p.sq = sq
	for _, q := range []string{
		fmt.Sprintf("PRAGMA page_size=%d", ps), "PRAGMA journal_mode=WAL", "PRAGMA wal_autocheckpoint=0",
		"CREATE TABLE t(id INTEGER PRIMARY KEY, v BLOB)", "CREATE TABLE u(id INTEGER PRIMARY KEY, v BLOB)",
		"CREATE INDEX ti ON t(v)"} {
		if _, err := sq.Exec(q); err != nil {
			return nil, fmt.Errorf("%s: %w", q, err)
		}
	}
	db := litestream.NewDB(p.dbPath)
	db.MonitorInterval = 0
	db.Logger = QuietLogger()
	db.L0Retention = l0ret
	c := file.NewReplicaClient(p.repDir)
	db.Replica = litestream.NewReplicaWithClient(db, c)
	db.Replica.MonitorEnabled = false
	c.Replica = db.Replica
	if err := db.Open(); err != nil {
		return nil, err
	}
	p.db, p.client = db, c
	return p, nil
}

func (p *primary) close() {
	_ = p.sq.Close()
	_ = p.db.Close(context.Background())
}

func (p *primary) sync() error {
	ctx := context.Background()
	if err := p.db.Sync(ctx); err != nil {
		return fmt.Errorf("db.Sync: %w", err)
	}
	if err := p.db.Replica.Sync(ctx); err != nil {
		return fmt.Errorf("replica.Sync: %w", err)
	}
	// archive every new level-0 file (complete L0 chain = reference for any TXID)
	ls := listAll(p.repDir)
	for _, f := range ls[0] {
		if p.archived[f] {
			continue
		}
		src := p.client.LTXFilePath(0, ltx.TXID(f.min), ltx.TXID(f.max))
		dst := file.NewReplicaClient(p.archDir).LTXFilePath(0, ltx.TXID(f.min), ltx.TXID(f.max))
		b, err := os.ReadFile(src)
		if err != nil {
			return err
		}
		if err := os.MkdirAll(filepath.Dir(dst), 0o755); err != nil {
			return err
		}
		if err := os.WriteFile(dst, b, 0o644); err != nil {
			return err
		}
		p.archived[f] = true
	}
	return nil
}

func (p *primary) pos() uint64 {
	pos, err := p.db.Pos()
	if err != nil {
		return 0
	}
	return uint64(pos.TXID)
}

// ref returns the bytes of an ordinary Restore(TXID=t) over the archived L0 chain.
func (p *primary) ref(t uint64) ([]byte, error) {
	if b, ok := p.refs[t]; ok {
		return b, nil
	}
	out := filepath.Join(p.dir, "ref.db")
	if err := restoreTo(p.archDir, t, out); err != nil {
		return nil, fmt.Errorf("reference Restore(TXID=%d): %w", t, err)
	}
	b, err := os.ReadFile(out)
	_ = os.Remove(out)
	if err != nil {
		return nil, err
	}
	p.refs[t] = b
	return b, nil
}

func (p *primary) appOp(r *rand.Rand) (string, error) {
	var q string
	switch k := r.Intn(10); {
	case k < 4:
		n := 1 + r.Intn(12)
		q = fmt.Sprintf("WITH RECURSIVE c(x) AS (SELECT 1 UNION ALL SELECT x+1 FROM c WHERE x<%d) INSERT INTO t(v) SELECT randomblob(%d) FROM c", n, 20+r.Intn(p.ps))
	case k < 5:
		q = fmt.Sprintf("INSERT INTO u(v) VALUES (randomblob(%d))", 10+r.Intn(3*p.ps))
	case k < 7:
		q = fmt.Sprintf("UPDATE t SET v=randomblob(%d) WHERE id%%%d=0", 10+r.Intn(200), 2+r.Intn(5))
	case k < 8:
		q = fmt.Sprintf("DELETE FROM t WHERE id%%%d=0", 2+r.Intn(3))
	case k < 9:
		if _, err := p.sq.Exec("DELETE FROM t WHERE id > (SELECT coalesce(min(id),0) FROM t) + 2"); err != nil {
			return "", err
		}
		q = "VACUUM"
	default:
		q = "DELETE FROM u"
	}
	_, err := p.sq.Exec(q)
	return strings.SplitN(q, " ", 2)[0], err
}

// ---------------------------------------------------------------------------
// reporting

type report struct {
	cw    *CaseWriter
	viol  []ImplViolation
	extra map[string]int
	seen  map[string]bool
}

func (rp *report) violate(sig, detail string, replay any) {
	if rp.seen[sig] {
		rp.extra["repeat:"+sig]++
		return
	}
	rp.seen[sig] = true
	rp.viol = append(rp.viol, ImplViolation{Signature: sig, Detail: detail, Replay: replay})
}

// emitPoll writes the model case and the spec-oracle case of one poll.
//
// opens = every OpenLTXFile call of the poll, outc = its outcome (0 ok, 1 open
// error, 2 corrupted, 3 not-exist). The model case carries the attempted
// sequence; the oracle gets what was ACTUALLY applied (a file that could not be
// opened was not applied) and whether anything failed.
func (rp *report) emitPoll(ls [10][]finfo, bad map[fkey]int, t uint64, opens []fkey, outc []int, t2 uint64, class string, modelCase bool) []fkey {
	bad2 := map[fkey]int{}
	for k, v := range bad {
		bad2[k] = v
	}
	var actual []fkey
	failed := 0
	for i, k := range opens {
		o := 0
		if i < len(outc) {
			o = outc[i]
		}
		if o != 0 {
			failed = 1
		}
		if o == 3 {
			rp.extra["opens_of_vanished_files"]++
		}
		if (o == 1 || o == 3) && bad2[k] == 0 {
			bad2[k] = o
		}
		if o == 0 || o == 2 {
			actual = append(actual, k)
		}
	}
	lst := sxListing(ls, bad2)
	nontrivial := len(opens) > 0
	if modelCase {
		rp.cw.Add("follow_poll", L(lst, U(t)), L(sxOpens(opens), U(t2)), class, nontrivial)
	}
	rp.cw.Add("follow_applied_ok", L(lst, U(t), sxOpens(actual), U(t2), I(0), I(int64(failed))), I(1), class+"/oracle", nontrivial)
	bridged := false
	for _, k := range opens {
		if k.level > 0 {
			bridged = true
		}
	}
	if bridged {
		rp.extra["polls_bridging_from_higher_levels"]++
	}
	if len(opens) > 0 {
		rp.extra["polls_applying_files"]++
	} else {
		rp.extra["polls_idle"]++
	}
	return actual
}

func (rp *report) emitQuiescent(ls [10][]finfo, bad map[fkey]int, t0 uint64, all []fkey, t2 uint64, class string) {
	rp.cw.Add("follow_applied_ok", L(sxListing(ls, bad), U(t0), sxOpens(all), U(t2), I(1), I(0)), I(1), class+"/quiescent", len(all) > 0)
}

// ---------------------------------------------------------------------------
// hist generator

type histReplay struct {
	Kind string `json:"kind"`
	Seed int64  `json:"seed"`
	Idx  int    `json:"idx"`
	Log  string `json:"ops"`
	How  string `json:"how"`
}

func runHistory(seed int64, idx int, work string, rp *report) error {
	r := NewRand(seed*1000003 + int64(idx)*7919 + 17)
	dir := filepath.Join(work, fmt.Sprintf("h%d", idx))
	_ = os.RemoveAll(dir)
	if err := os.MkdirAll(dir, 0o755); err != nil {
		return err
	}
	defer os.RemoveAll(dir)
	ps := []int{512, 1024, 4096}[r.Intn(3)]
	l0ret := time.Duration(0)
	switch r.Intn(3) {
	case 0:
		l0ret = time.Hour // L0 kept
	default:
		l0ret = time.Nanosecond // every compacted L0 file but the newest is deleted
	}
	p, err := openPrimary(dir, ps, l0ret)
	if err != nil {
		return err
	}
	defer p.close()
	var ops []string
	rep := func() histReplay {
		return histReplay{"hist", seed, idx, strings.Join(ops, " "), fmt.Sprintf("h_follow follow -out <dir> -hist-seed %d -hist-idx %d", seed, idx)}
	}
	note := func(s string) { ops = append(ops, s) }
	class := fmt.Sprintf("hist/ps%d/l0ret=%v", ps, l0ret != time.Hour)

	out := filepath.Join(dir, "follower.db")
	var ses *session
	var lastSide uint64 // last sidecar value observed for the current follower files (0 = no follower files)
	snapshots := 0

	dropFollower := func() {
		if ses != nil {
			_ = ses.stop()
			ses = nil
		}
		_ = os.Remove(out)
		_ = os.Remove(out + "-txid")
		_ = os.Remove(out + ".tmp")
		lastSide = 0
	}
	// checkContent compares the follower file with an ordinary restore of its sidecar TXID
	checkContent := func(when string) {
		side := readSidecar(out)
		if side == ^uint64(0) || side == 0 {
			rp.violate("C16/sidecar-unreadable", fmt.Sprintf("%s: sidecar missing or unreadable while the follower is running", when), rep())
			return
		}
		if side < lastSide {
			rp.violate("C16/sidecar-regressed", fmt.Sprintf("%s: sidecar went from %d to %d", when, lastSide, side), rep())
		}
		lastSide = side
		got, err := os.ReadFile(out)
		if err != nil {
			rp.violate("C16/follower-file-unreadable", err.Error(), rep())
			return
		}
		want, err := p.ref(side)
		if err != nil {
			rp.extra["ref_unavailable"]++
			return
		}
		rp.extra["content_comparisons"]++
		if d := diffDB(got, want, ps); d != "" {
			rp.violate("C16/follower-differs-from-restore-of-sidecar-txid",
				fmt.Sprintf("%s: follower content != Restore(TXID=%d): %s", when, side, d), rep())
		}
	}
	startFollower := func() bool {
		resume := lastSide != 0
		ls := listAll(p.repDir)
		ses = startSession(p.repDir, out, nil)
		if !ses.await() {
			cl := errClass(ses.endErr)
			ses = nil
			if resume && cl == 3 {
				var smax uint64
				if n := len(ls[9]); n > 0 {
					smax = ls[9][n-1].max
				}
				rp.extra["resume_refused_class3"]++
				if lastSide > maxTXID(ls, 8) && lastSide > smax {
					// cannot happen for a follower that only applied replica files
					rp.extra["resume_refused_beyond_replica"]++
				}
				rp.violate("C16/resume-refused-sidecar-ahead-of-latest-snapshot",
					fmt.Sprintf("follower stopped with sidecar TXID %d (content = restore of %d); latest level-9 snapshot is 1..%d; "+
						"restarting Restore(Follow) fails with %q instead of resuming", lastSide, lastSide, smax, ses2str(cl)), rep())
				dropFollower()
				return false
			}
			rp.violate(fmt.Sprintf("C16/follower-start-failed-class-%d", cl),
				fmt.Sprintf("Restore(Follow) returned before the first poll (resume=%v, sidecar=%d): class %d", resume, lastSide, cl), rep())
			dropFollower()
			return false
		}
		if resume {
			rp.extra["resumes"]++
			if n := len(ls[9]); n > 0 && lastSide > ls[9][n-1].max {
				rp.extra["resumes_ahead_of_latest_snapshot"]++
			}
		} else {
			rp.extra["fresh_restores"]++
		}
		checkContent("after start")
		return true
	}
	pollOnce := func() (progress bool, ok bool) {
		ls := listAll(p.repDir)
		t := readSidecar(out)
		opens, alive := ses.poll()
		if !alive {
			rp.violate("C16/follower-died", fmt.Sprintf("Restore(Follow) returned during a poll: %v", errClass(ses.endErr)), rep())
			ses = nil
			dropFollower()
			return false, false
		}
		t2 := readSidecar(out)
		rp.emitPoll(ls, nil, t, opens, ses.oc.lastOutc, t2, class, true)
		checkContent(fmt.Sprintf("after poll from %d", t))
		return t2 != t, true
	}
	converge := func(final bool) {
		if ses == nil {
			return
		}
		ls := listAll(p.repDir)
		t0 := readSidecar(out)
		var all []fkey
		for i := 0; i < 200; i++ {
			before := len(rp.cw.Samples)
			_ = before
			t := readSidecar(out)
			opens, alive := ses.poll()
			if !alive {
				rp.violate("C16/follower-died", fmt.Sprintf("Restore(Follow) returned during a poll: class %d", errClass(ses.endErr)), rep())
				ses = nil
				dropFollower()
				return
			}
			t2 := readSidecar(out)
			all = append(all, rp.emitPoll(ls, nil, t, opens, ses.oc.lastOutc, t2, class, true)...)
			checkContent(fmt.Sprintf("after poll from %d", t))
			if t2 == t {
				break
			}
		}
		tEnd := readSidecar(out)
		rp.emitQuiescent(ls, nil, t0, all, tEnd, class)
		// the property's own statement: replica static => content equals an ordinary restore of the latest TXID
		latest := maxTXID(ls, 8)
		if tEnd != latest {
			rp.violate("C16/follower-did-not-converge",
				fmt.Sprintf("replica static, latest TXID %d, follower stopped making progress at %d (started at %d)", latest, tEnd, t0), rep())
			return
		}
		tmp := filepath.Join(dir, "latest.db")
		if err := restoreTo(p.repDir, 0, tmp); err != nil {
			rp.extra["latest_restore_failed"]++
			return
		}
		want, _ := os.ReadFile(tmp)
		_ = os.Remove(tmp)
		got, _ := os.ReadFile(out)
		rp.extra["converged_comparisons"]++
		if d := diffDB(got, want, ps); d != "" {
			rp.violate("C16/converged-follower-differs-from-latest-restore",
				fmt.Sprintf("replica static at TXID %d: follower != Restore(latest): %s", latest, d), rep())
		}
	}

	// initial content
	for i := 0; i < 2; i++ {
		if _, err := p.appOp(r); err != nil {
			return err
		}
	}
	if err := p.sync(); err != nil {
		return err
	}
	nops := 25 + r.Intn(25)
	for i := 0; i < nops; i++ {
		k := r.Intn(100)
		switch {
		case k < 38: // application writes + sync
			n := 1 + r.Intn(3)
			for j := 0; j < n; j++ {
				nm, err := p.appOp(r)
				if err != nil {
					return fmt.Errorf("app op %s: %w", nm, err)
				}
				note(nm)
				if r.Intn(3) > 0 {
					if err := p.sync(); err != nil {
						return err
					}
					note(fmt.Sprintf("sync@%d", p.pos()))
				}
			}
			if r.Intn(6) == 0 {
				_, _ = p.sq.Exec("PRAGMA wal_checkpoint(TRUNCATE)")
				note("ckpt")
			}
			if err := p.sync(); err != nil {
				return err
			}
			note(fmt.Sprintf("sync@%d", p.pos()))
		case k < 52: // compaction
			lv := 1
			if x := r.Intn(10); x >= 8 {
				lv = 3
			} else if x >= 5 {
				lv = 2
			}
			_, err := p.db.Compact(context.Background(), lv)
			note(fmt.Sprintf("compact%d(%v)", lv, err == nil))
		case k < 56:
			if _, err := p.db.Snapshot(context.Background()); err == nil {
				snapshots++
			}
			note("snapshot")
		case k < 60: // L1/L2 retention below the newest TXID of the next level
			lv := 1 + r.Intn(2)
			ls := listAll(p.repDir)
			var m uint64
			for _, f := range ls[lv+1] {
				if f.max > m {
					m = f.max
				}
			}
			if m > 0 {
				_ = p.db.EnforceRetentionByTXID(context.Background(), lv, ltx.TXID(m))
				note(fmt.Sprintf("retain%d<%d", lv, m))
			}
		case k < 70:
			if ses == nil {
				note("follower-start")
				startFollower()
			}
		case k < 88:
			if ses != nil {
				note("poll")
				pollOnce()
			}
		case k < 93:
			if ses != nil {
				note("follower-stop")
				if err := ses.stop(); err != nil {
					rp.violate("C16/follower-stop-error", fmt.Sprintf("Restore(Follow) returned %v on cancellation", err), rep())
				}
				ses = nil
				// a clean stop keeps content = restore(sidecar)
				checkContent("after clean stop")
			}
		default:
			if ses != nil {
				note("converge")
				converge(false)
			}
		}
	}
	if ses == nil {
		note("follower-start")
		startFollower()
	}
	note("converge")
	converge(true)
	if ses != nil {
		_ = ses.stop()
	}
	rp.extra["histories"]++
	if snapshots > 0 {
		rp.extra["histories_with_snapshots"]++
	}
	return nil
}

func ses2str(cl int) string {
	switch cl {
	case 1:
		return "database exists but no -txid file found"
	case 2:
		return "replica history has been pruned"
	case 3:
		return "saved TXID is ahead of latest snapshot"
	}
	return "class " + strconv.Itoa(cl)
}


// ---------------------------------------------------------------------------
// race generator: the primary compacts / deletes BETWEEN the follower's listing
// and one of its OpenLTXFile calls (list/open race). Enumerated: which listed
// file disappears (first / middle / all but the newest; from L0 while L1 covers
// it, from L1 while L2 covers it), through direct deletion or through the real
// retention paths, with the operation placed before the first or the second open.

type raceSpec struct {
	level  int    // level whose listed files disappear
	which  string // first | middle | allbutnewest | retention
	atOpen int    // the operation runs before this open of the poll
}

func raceSpecs() []raceSpec {
	var out []raceSpec
	for _, lv := range []int{0, 1} {
		for _, w := range []string{"first", "middle", "allbutnewest", "retention"} {
			for _, k := range []int{0, 1} {
				out = append(out, raceSpec{lv, w, k})
			}
		}
	}
	return out
}

func runRace(seed int64, idx int, spec raceSpec, work string, rp *report) error {
	r := NewRand(seed*131 + int64(idx)*17 + 9)
	dir := filepath.Join(work, fmt.Sprintf("race%d", idx))
	_ = os.RemoveAll(dir)
	if err := os.MkdirAll(dir, 0o755); err != nil {
		return err
	}
	defer os.RemoveAll(dir)
	ps := []int{512, 1024, 4096}[idx%3]
	p, err := openPrimary(dir, ps, time.Hour)
	if err != nil {
		return err
	}
	defer p.close()
	ctx := context.Background()
	class := fmt.Sprintf("race/L%d/%s/open%d", spec.level, spec.which, spec.atOpen)
	rpl := map[string]any{"kind": "race", "seed": seed, "idx": idx, "level": spec.level, "which": spec.which, "at_open": spec.atOpen,
		"how": fmt.Sprintf("h_follow follow -out <dir> -race-seed %d -race-idx %d", seed, idx)}
	step := func(n int) error {
		for i := 0; i < n; i++ {
			if _, err := p.appOp(r); err != nil {
				return err
			}
			if err := p.sync(); err != nil {
				return err
			}
		}
		return nil
	}
	if err := step(3); err != nil {
		return err
	}
	out := filepath.Join(dir, "follower.db")
	ses := startSession(p.repDir, out, nil)
	if !ses.await() {
		return fmt.Errorf("race: follower did not start: %v", ses.endErr)
	}
	// the follower now lags: stop it, let the primary move on, restart it (resume)
	if err := ses.stop(); err != nil {
		return fmt.Errorf("race: stop: %v", err)
	}
	if err := step(4 + r.Intn(2)); err != nil {
		return err
	}
	if spec.level == 1 {
		// L0 compacted away (only the newest kept): the follower has to bridge from two or three L1 files
		p.db.L0Retention = time.Nanosecond
		if _, err := p.db.Compact(ctx, 1); err != nil {
			return fmt.Errorf("race: compact1: %w", err)
		}
		for i := 0; i < 2; i++ {
			if err := step(2); err != nil {
				return err
			}
			if _, err := p.db.Compact(ctx, 1); err != nil {
				return fmt.Errorf("race: compact1: %w", err)
			}
		}
		if err := step(1); err != nil {
			return err
		}
	}
	ses = startSession(p.repDir, out, nil)
	if !ses.await() {
		cl := errClass(ses.endErr)
		sig := fmt.Sprintf("C16/follower-start-failed-class-%d", cl)
		if cl == 3 {
			sig = "C16/resume-refused-sidecar-ahead-of-latest-snapshot"
		}
		rp.violate(sig, fmt.Sprintf("%s: the lagging follower (sidecar %d) could not be restarted: %s", class, readSidecar(out), ses2str(cl)), rpl)
		return nil
	}
	defer func() { _ = ses.stop() }()
	t0 := readSidecar(out)
	del := func(level int, fs []finfo) {
		var a []*ltx.FileInfo
		for _, f := range fs {
			a = append(a, &ltx.FileInfo{Level: level, MinTXID: ltx.TXID(f.min), MaxTXID: ltx.TXID(f.max)})
		}
		_ = p.client.DeleteLTXFiles(ctx, a)
	}
	var opErr error
	ses.oc.beforeOpen = func(i int, k fkey) {
		if i != spec.atOpen || ses.oc.opDone {
			return
		}
		ses.oc.mu.Lock()
		ses.oc.opDone = true
		ses.oc.mu.Unlock()
		ls := listAll(p.repDir)
		var cand []finfo // listed files of the level the follower still has to open
		for _, f := range ls[spec.level] {
			if f.max > t0 {
				cand = append(cand, f)
			}
		}
		if spec.level == 0 {
			if spec.which == "retention" {
				p.db.L0Retention = time.Nanosecond // Compact(1) + EnforceL0RetentionByTime
			}
			if _, err := p.db.Compact(ctx, 1); err != nil {
				opErr = fmt.Errorf("race op compact1: %w", err)
				return
			}
		} else {
			if _, err := p.db.Compact(ctx, 2); err != nil {
				opErr = fmt.Errorf("race op compact2: %w", err)
				return
			}
			if spec.which == "retention" {
				l2 := listAll(p.repDir)[2]
				if len(l2) > 0 {
					_ = p.db.EnforceRetentionByTXID(ctx, 1, ltx.TXID(l2[len(l2)-1].max))
				}
			}
		}
		if len(cand) == 0 {
			return
		}
		switch spec.which {
		case "first":
			del(spec.level, cand[:1])
		case "middle":
			if len(cand) >= 3 {
				del(spec.level, cand[len(cand)/2:len(cand)/2+1])
			} else if len(cand) == 2 {
				del(spec.level, cand[:1])
			}
		case "allbutnewest":
			del(spec.level, cand[:len(cand)-1])
		}
	}
	// the racing poll
	ls := listAll(p.repDir)
	opens, alive := ses.poll()
	ses.oc.beforeOpen = nil
	if opErr != nil {
		return opErr
	}
	if !alive {
		rp.violate("C16/follower-died", fmt.Sprintf("%s: Restore(Follow) returned during the racing poll: class %d", class, errClass(ses.endErr)), rpl)
		return nil
	}
	rp.extra["race_polls"]++
	t1 := readSidecar(out)
	// the model case is exact only if the follower listed nothing after the primary's operation
	rp.emitPoll(ls, nil, t0, opens, ses.oc.lastOutc, t1, class, !ses.oc.lastListAfterOp)
	check := func(when string) {
		side := readSidecar(out)
		got, err := os.ReadFile(out)
		if err != nil {
			return
		}
		want, err := p.ref(side)
		if err != nil {
			rp.extra["ref_unavailable"]++
			return
		}
		rp.extra["content_comparisons"]++
		if d := diffDB(got, want, ps); d != "" {
			rp.violate("C16/follower-differs-from-restore-of-sidecar-txid",
				fmt.Sprintf("%s, %s (files vanished between the follower's listing and its open): follower content != Restore(TXID=%d): %s", class, when, side, d), rpl)
		}
	}
	raceFailed := false
	for _, o := range ses.oc.lastOutc {
		if o != 0 {
			raceFailed = true
		}
	}
	if raceFailed {
		rp.extra["race_polls_with_failed_open"]++
		if t1 != t0 {
			rp.violate("C16/sidecar-advanced-by-a-failed-poll", fmt.Sprintf("%s: an OpenLTXFile of the poll failed (file vanished) but the sidecar went %d -> %d", class, t0, t1), rpl)
		}
	} else {
		check("after the racing poll")
	}
	// let it settle
	for i := 0; i < 50; i++ {
		ls := listAll(p.repDir)
		t := readSidecar(out)
		opens, alive := ses.poll()
		if !alive {
			rp.violate("C16/follower-died", fmt.Sprintf("%s: Restore(Follow) returned: class %d", class, errClass(ses.endErr)), rpl)
			return nil
		}
		t2 := readSidecar(out)
		rp.emitPoll(ls, nil, t, opens, ses.oc.lastOutc, t2, class, true)
		if t2 < t {
			rp.violate("C16/sidecar-regressed", fmt.Sprintf("%s: sidecar %d -> %d", class, t, t2), rpl)
		}
		settled := true
		for _, o := range ses.oc.lastOutc {
			if o != 0 {
				settled = false
			}
		}
		if settled {
			check(fmt.Sprintf("after poll from %d", t))
		}
		if t2 == t {
			break
		}
	}
	latest := maxTXID(listAll(p.repDir), 8)
	if tEnd := readSidecar(out); tEnd != latest {
		rp.violate("C16/follower-did-not-converge", fmt.Sprintf("%s: replica static, latest %d, follower stopped at %d", class, latest, tEnd), rpl)
		return nil
	}
	tmp := filepath.Join(dir, "latest.db")
	if err := restoreTo(p.repDir, 0, tmp); err == nil {
		want, _ := os.ReadFile(tmp)
		got, _ := os.ReadFile(out)
		rp.extra["converged_comparisons"]++
		if d := diffDB(got, want, ps); d != "" {
			rp.violate("C16/converged-follower-differs-from-latest-restore", fmt.Sprintf("%s: follower != Restore(latest): %s", class, d), rpl)
		}
	}
	return nil
}

// ---------------------------------------------------------------------------
// resume generator: a real follower stopped with its sidecar AHEAD of the newest
// level-9 snapshot, at several distances, restarted against a replica where
// (l0) level 0 is intact, (trimmed) level 0 was compacted away so fillFollowGap
// is needed, (atmax) nothing new exists (sidecar = replica maximum), (beyond) the
// sidecar claims more than any level holds - the only case that must be refused.

type resumeSpec struct {
	dist  int
	shape string
}

func resumeSpecs() []resumeSpec {
	var out []resumeSpec
	for _, d := range []int{1, 3, 6} {
		for _, sh := range []string{"l0", "trimmed", "atmax", "beyond"} {
			out = append(out, resumeSpec{d, sh})
		}
	}
	return out
}

func runResume(seed int64, idx int, spec resumeSpec, work string, rp *report) error {
	r := NewRand(seed*257 + int64(idx)*13 + 5)
	dir := filepath.Join(work, fmt.Sprintf("resume%d", idx))
	_ = os.RemoveAll(dir)
	if err := os.MkdirAll(dir, 0o755); err != nil {
		return err
	}
	defer os.RemoveAll(dir)
	ps := []int{1024, 4096, 512}[idx%3]
	p, err := openPrimary(dir, ps, time.Hour)
	if err != nil {
		return err
	}
	defer p.close()
	ctx := context.Background()
	class := fmt.Sprintf("resume/%s/dist%d", spec.shape, spec.dist)
	rpl := map[string]any{"kind": "resume", "seed": seed, "idx": idx, "shape": spec.shape, "dist": spec.dist,
		"how": fmt.Sprintf("h_follow follow -out <dir> -resume-seed %d -resume-idx %d", seed, idx)}
	step := func(n int) error {
		for i := 0; i < n; i++ {
			if _, err := p.appOp(r); err != nil {
				return err
			}
			if err := p.sync(); err != nil {
				return err
			}
		}
		return nil
	}
	if err := step(2); err != nil {
		return err
	}
	if _, err := p.db.Snapshot(ctx); err != nil {
		return fmt.Errorf("resume: snapshot: %w", err)
	}
	if err := step(spec.dist); err != nil {
		return err
	}
	out := filepath.Join(dir, "follower.db")
	check := func(when string) {
		side := readSidecar(out)
		got, err := os.ReadFile(out)
		if err != nil {
			return
		}
		want, err := p.ref(side)
		if err != nil {
			rp.extra["ref_unavailable"]++
			return
		}
		rp.extra["content_comparisons"]++
		if d := diffDB(got, want, ps); d != "" {
			rp.violate("C16/follower-differs-from-restore-of-sidecar-txid", fmt.Sprintf("%s, %s: follower content != Restore(TXID=%d): %s", class, when, side, d), rpl)
		}
	}
	settle := func(ses *session) bool {
		for i := 0; i < 60; i++ {
			ls := listAll(p.repDir)
			t := readSidecar(out)
			opens, alive := ses.poll()
			if !alive {
				rp.violate("C16/follower-died", fmt.Sprintf("%s: Restore(Follow) returned: class %d", class, errClass(ses.endErr)), rpl)
				return false
			}
			t2 := readSidecar(out)
			rp.emitPoll(ls, nil, t, opens, ses.oc.lastOutc, t2, class, true)
			check(fmt.Sprintf("after poll from %d", t))
			if t2 == t {
				break
			}
		}
		latest := maxTXID(listAll(p.repDir), 8)
		if tEnd := readSidecar(out); tEnd != latest {
			rp.violate("C16/follower-did-not-converge", fmt.Sprintf("%s: replica static, latest %d, follower stopped at %d", class, latest, tEnd), rpl)
			return false
		}
		return true
	}
	ses := startSession(p.repDir, out, nil)
	if !ses.await() {
		return fmt.Errorf("resume: follower did not start: %v", ses.endErr)
	}
	if !settle(ses) {
		_ = ses.stop()
		return nil
	}
	if err := ses.stop(); err != nil {
		return fmt.Errorf("resume: stop: %v", err)
	}
	side := readSidecar(out)
	switch spec.shape {
	case "l0":
		if err := step(3); err != nil {
			return err
		}
	case "trimmed":
		if err := step(3); err != nil {
			return err
		}
		p.db.L0Retention = time.Nanosecond
		if _, err := p.db.Compact(ctx, 1); err != nil {
			return fmt.Errorf("resume: compact1: %w", err)
		}
		if err := step(1); err != nil {
			return err
		}
	case "atmax":
	case "beyond":
		side = maxTXID(listAll(p.repDir), 9) + 1 + uint64(r.Intn(3))
		if err := litestream.WriteTXIDFile(out, ltx.TXID(side)); err != nil {
			return err
		}
	}
	ls := listAll(p.repDir)
	snaps := make(SxList, 0)
	var smax uint64
	for _, f := range ls[9] {
		snaps = append(snaps, L(U(f.min), U(f.max)))
		smax = f.max
	}
	ses = startSession(p.repDir, out, nil)
	alive := ses.await()
	decision := 0
	if !alive {
		decision = errClass(ses.endErr)
	}
	rp.cw.Add("follow_resume", L(snaps, U(side), sxListing(ls, nil)), I(int64(decision)), class, true)
	rp.extra["resume_real_scenarios"]++
	if spec.shape == "beyond" {
		if alive {
			_ = ses.stop()
			rp.violate("C16/resume-accepted-sidecar-beyond-replica",
				fmt.Sprintf("%s: sidecar %d is beyond every level of the replica (max %d) but Restore(Follow) resumes", class, side, maxTXID(ls, 9)), rpl)
		} else if decision != 3 {
			rp.violate(fmt.Sprintf("C16/follower-start-failed-class-%d", decision), fmt.Sprintf("%s: unexpected refusal class %d", class, decision), rpl)
		}
		return nil
	}
	if !alive {
		sig := fmt.Sprintf("C16/follower-start-failed-class-%d", decision)
		if decision == 3 {
			sig = "C16/resume-refused-sidecar-ahead-of-latest-snapshot"
		}
		rp.violate(sig, fmt.Sprintf("%s: follower stopped cleanly with sidecar TXID %d (content = restore of %d), latest level-9 snapshot ends at %d, "+
			"levels 0..8 reach %d; restarting Restore(Follow) fails with %q instead of resuming", class, side, side, smax, maxTXID(ls, 8), ses2str(decision)), rpl)
		return nil
	}
	defer func() { _ = ses.stop() }()
	rp.extra["resumes"]++
	rp.extra["resumes_ahead_of_latest_snapshot"]++
	check("after resume")
	if !settle(ses) {
		return nil
	}
	tmp := filepath.Join(dir, "latest.db")
	if err := restoreTo(p.repDir, 0, tmp); err == nil {
		want, _ := os.ReadFile(tmp)
		got, _ := os.ReadFile(out)
		rp.extra["converged_comparisons"]++
		if d := diffDB(got, want, ps); d != "" {
			rp.violate("C16/converged-follower-differs-from-latest-restore", fmt.Sprintf("%s: follower != Restore(latest): %s", class, d), rpl)
		}
	}
	return nil
}

// ---------------------------------------------------------------------------
// syn generator: arbitrary small listings with tiny real LTX files

const synPS = 512

func tinyLTX(min, max uint64, pgnos []uint32, fill byte) []byte {
	var buf bytes.Buffer
	enc, _ := ltx.NewEncoder(&buf)
	must(enc.EncodeHeader(ltx.Header{Version: ltx.Version, Flags: ltx.HeaderFlagNoChecksum, PageSize: synPS, Commit: 2,
		MinTXID: ltx.TXID(min), MaxTXID: ltx.TXID(max), Timestamp: 1700000000000 + int64(max)}))
	for _, pg := range pgnos {
		data := bytes.Repeat([]byte{fill}, synPS)
		if pg == 1 {
			data[16], data[17] = synPS>>8, synPS&0xff
		}
		must(enc.EncodePage(ltx.PageHeader{Pgno: pg}, data))
	}
	must(enc.Close())
	return buf.Bytes()
}

func must(err error) {
	if err != nil {
		panic(err)
	}
}

type synCase struct {
	levels [10][]finfo
	bad    map[fkey]int
	t      uint64 // sidecar TXID, 0 = no sidecar file
}

func genSyn(r *rand.Rand) synCase {
	var sc synCase
	sc.bad = map[fkey]int{}
	sc.t = 1 + uint64(r.Intn(4))
	if r.Intn(40) == 0 {
		sc.t = 0
	}
	U_ := uint64(5 + r.Intn(5)) // TXID universe 1..U_
	nlev := 1 + r.Intn(3)
	if r.Intn(8) == 0 {
		nlev = 1 + r.Intn(8)
	}
	add := func(l int, f finfo) {
		for _, g := range sc.levels[l] {
			if g == f {
				return
			}
		}
		sc.levels[l] = append(sc.levels[l], f)
	}
	// level 0: mostly unit files, a random subset
	for x := uint64(1); x <= U_; x++ {
		if r.Intn(100) < 45 {
			add(0, finfo{x, x})
		}
	}
	if r.Intn(6) == 0 {
		a := 1 + uint64(r.Intn(int(U_)))
		add(0, finfo{a, a + uint64(r.Intn(3))})
	}
	for l := 1; l <= nlev; l++ {
		switch r.Intn(3) {
		case 0: // contiguous partition of a prefix, some pieces dropped
			x := uint64(1 + r.Intn(3))
			for x <= U_ {
				w := uint64(r.Intn(4))
				if r.Intn(4) > 0 {
					add(l, finfo{x, x + w})
				}
				x += w + 1
			}
		default: // arbitrary intervals (gaps, overlaps)
			n := r.Intn(4)
			for i := 0; i < n; i++ {
				a := 1 + uint64(r.Intn(int(U_)))
				add(l, finfo{a, a + uint64(r.Intn(4))})
			}
		}
	}
	if r.Intn(2) == 0 { // level-9 snapshots, only read by the resume validation
		n := 1 + r.Intn(2)
		for i := 0; i < n; i++ {
			a := uint64(1)
			if r.Intn(4) == 0 {
				a = 1 + uint64(r.Intn(4))
			}
			add(9, finfo{a, a + uint64(r.Intn(6))})
		}
	}
	if n9 := len(sc.levels[9]); n9 > 0 && r.Intn(3) > 0 {
		// place the sidecar relative to the newest snapshot and to the replica maximum
		last := sc.levels[9][0]
		for _, f := range sc.levels[9] {
			if f.min > last.min || (f.min == last.min && f.max > last.max) {
				last = f
			}
		}
		rm := maxTXID(sc.levels, 8)
		switch r.Intn(6) {
		case 0:
			sc.t = last.max
		case 1:
			sc.t = last.max + 1
		case 2:
			sc.t = last.max + 2 + uint64(r.Intn(3))
		case 3:
			if rm > 0 {
				sc.t = rm
			}
		case 4:
			sc.t = rm + 1
			if last.max+1 > sc.t {
				sc.t = last.max + 1
			}
		default:
			if rm > last.max+1 {
				sc.t = last.max + 1 + uint64(r.Intn(int(rm-last.max)))
			}
		}
		if sc.t == 0 {
			sc.t = 1
		}
	}
	for l := range sc.levels {
		sort.Slice(sc.levels[l], func(i, j int) bool {
			a, b := sc.levels[l][i], sc.levels[l][j]
			return a.min < b.min || (a.min == b.min && a.max < b.max)
		})
	}
	if r.Intn(5) == 0 {
		for l := 0; l < 9; l++ {
			for _, f := range sc.levels[l] {
				if r.Intn(5) == 0 {
					sc.bad[fkey{l, f.min, f.max}] = 1 + r.Intn(2)
				}
			}
		}
	}
	return sc
}

func runSyn(sc synCase, work string, rp *report, class string) error {
	dir := filepath.Join(work, "syn")
	_ = os.RemoveAll(dir)
	repDir := filepath.Join(dir, "replica")
	if err := os.MkdirAll(repDir, 0o755); err != nil {
		return err
	}
	defer os.RemoveAll(dir)
	c := file.NewReplicaClient(repDir)
	ctx := context.Background()
	for l := 0; l <= 9; l++ {
		for _, f := range sc.levels[l] {
			pg := []uint32{1 + uint32((f.max+uint64(l))%2)}
			if f.min == 1 {
				pg = []uint32{1, 2}
			}
			if _, err := c.WriteLTXFile(ctx, l, ltx.TXID(f.min), ltx.TXID(f.max), bytes.NewReader(tinyLTX(f.min, f.max, pg, byte(16*l)+byte(f.max)))); err != nil {
				return fmt.Errorf("write synthetic ltx: %w", err)
			}
		}
	}
	out := filepath.Join(dir, "follower.db")
	dbb := bytes.Repeat([]byte{0xee}, 2*synPS)
	dbb[16], dbb[17] = synPS>>8, synPS&0xff
	if err := os.WriteFile(out, dbb, 0o644); err != nil {
		return err
	}
	if sc.t != 0 {
		if err := litestream.WriteTXIDFile(out, ltx.TXID(sc.t)); err != nil {
			return err
		}
	}
	snaps := make(SxList, 0)
	for _, f := range sc.levels[9] {
		snaps = append(snaps, L(U(f.min), U(f.max)))
	}
	ses := startSession(repDir, out, sc.bad)
	alive := ses.await()
	decision := 0
	if !alive {
		decision = errClass(ses.endErr)
	}
	rp.cw.Add("follow_resume", L(snaps, U(sc.t), sxListing(sc.levels, nil)), I(int64(decision)), class+"/resume", decision != 0 || len(snaps) > 0)
	if len(sc.levels[9]) > 0 && sc.t != 0 {
		last := sc.levels[9][len(sc.levels[9])-1]
		rm := maxTXID(sc.levels, 8)
		switch {
		case sc.t < last.min:
			rp.extra["resume_syn_behind_snapshot"]++
		case sc.t <= last.max:
			rp.extra["resume_syn_within_snapshot"]++
		case sc.t <= rm:
			rp.extra["resume_syn_ahead_of_snapshot_within_replica"]++
			if decision != 0 {
				rp.violate("C16/resume-refused-sidecar-ahead-of-latest-snapshot",
					fmt.Sprintf("synthetic listing: sidecar %d, latest snapshot %d..%d, levels 0..8 reach %d: Restore(Follow) refuses to resume (class %d)", sc.t, last.min, last.max, rm, decision),
					map[string]any{"case_lines": []string{"follow_resume\t" + SxString(L(snaps, U(sc.t), sxListing(sc.levels, nil))) + "\t0"}})
			}
		default:
			rp.extra["resume_syn_beyond_replica"]++
			if decision == 0 {
				rp.violate("C16/resume-accepted-sidecar-beyond-replica",
					fmt.Sprintf("synthetic listing: sidecar %d is beyond the snapshot (%d) and every level (%d) but Restore(Follow) resumes", sc.t, last.max, rm),
					map[string]any{"case_lines": []string{"follow_resume\t" + SxString(L(snaps, U(sc.t), sxListing(sc.levels, nil))) + "\t3"}})
			}
		}
	}
	if !alive {
		return nil
	}
	defer ses.stop()
	t0 := sc.t
	var all []fkey
	hasBad := len(sc.bad) > 0
	maxPolls := 12
	if hasBad {
		maxPolls = 3
	}
	quiet := false
	for i := 0; i < maxPolls; i++ {
		t := readSidecar(out)
		opens, ok := ses.poll()
		if !ok {
			rp.violate("C16/follower-died", fmt.Sprintf("Restore(Follow) returned during a poll of a synthetic listing: class %d", errClass(ses.endErr)),
				map[string]any{"case_lines": []string{"follow_poll\t" + SxString(L(sxListing(sc.levels, sc.bad), U(t))) + "\t()"}})
			return nil
		}
		t2 := readSidecar(out)
		all = append(all, rp.emitPoll(sc.levels, sc.bad, t, opens, ses.oc.lastOutc, t2, class, true)...)
		if t2 < t {
			rp.violate("C16/sidecar-regressed", fmt.Sprintf("synthetic listing: sidecar %d -> %d", t, t2), nil)
		}
		if t2 == t {
			quiet = true
			break
		}
	}
	if quiet && !hasBad {
		rp.emitQuiescent(sc.levels, sc.bad, t0, all, readSidecar(out), class)
	}
	return nil
}

// ---------------------------------------------------------------------------
// kill sweep

const injectSet = "write,pwrite64,ftruncate,fsync,fdatasync,renameat,renameat2,rename,unlinkat,unlink"

// childMain: follow until the sidecar reaches target, then stop cleanly.
// exit 0 converged, 3 Restore refused/failed (class printed), 4 timeout.
func childMain(repDir, out string, target uint64) int {
	runtime.LockOSThread()
	ctx, cancel := context.WithCancel(context.Background())
	timedOut := false
	go func() {
		deadline := time.Now().Add(60 * time.Second)
		for {
			if readSidecar(out) == target {
				cancel()
				return
			}
			if time.Now().After(deadline) {
				timedOut = true
				cancel()
				return
			}
			time.Sleep(300 * time.Microsecond)
		}
	}()
	r := litestream.NewReplicaWithClient(nil, file.NewReplicaClient(repDir))
	r.Client.(*file.ReplicaClient).SetLogger(QuietLogger())
	opt := litestream.RestoreOptions{OutputPath: out, Follow: true, FollowInterval: 300 * time.Microsecond}
	if os.Getenv("VERIF_FOLLOW_INTEGRITY") == "1" {
		// restore -f -integrity-check quick: the option concerns the initial restore; a RESUMED follower repairs a
		// database torn by a kill inside an apply by re-applying from its sidecar, whatever the option (seed C16g)
		opt.IntegrityCheck = litestream.IntegrityCheckQuick
	}
	err := r.Restore(ctx, opt)
	if err != nil {
		fmt.Printf("CLASS %d %v\n", errClass(err), err)
		return 3
	}
	if timedOut {
		return 4
	}
	return 0
}

type killScenario struct {
	name    string
	repDir  string // static replica the follower runs against
	baseDir string // follower files to start from ("" = fresh restore)
	target  uint64
	refs    map[uint64][]byte // ordinary restores of every TXID in [base sidecar, target]
	latest  []byte            // ordinary Restore (latest) of repDir
	ps      int
	baseT   uint64
}

func copyFile(src, dst string) error {
	b, err := os.ReadFile(src)
	if err != nil {
		return err
	}
	return os.WriteFile(dst, b, 0o644)
}

func copyDir(src, dst string) error {
	return filepath.Walk(src, func(p string, fi os.FileInfo, err error) error {
		if err != nil {
			return err
		}
		rel, _ := filepath.Rel(src, p)
		d := filepath.Join(dst, rel)
		if fi.IsDir() {
			return os.MkdirAll(d, 0o755)
		}
		if err := copyFile(p, d); err != nil {
			return err
		}
		return os.Chtimes(d, fi.ModTime(), fi.ModTime())
	})
}

// childIntegrity: the next child runs Restore(Follow) with IntegrityCheck = quick
var childIntegrity atomic.Bool

func runChild(self string, straceArgs []string, repDir, out string, target uint64) (code int, killed bool, outp string) {
	args := []string{"follow", "-child", "-replica", repDir, "-db", out, "-target", strconv.FormatUint(target, 10)}
	var cmd *exec.Cmd
	if straceArgs != nil {
		cmd = exec.Command("strace", append(append(straceArgs, self), args...)...)
	} else {
		cmd = exec.Command(self, args...)
	}
	cmd.Env = append(os.Environ(), "GOMAXPROCS=2")
	if childIntegrity.Load() {
		cmd.Env = append(cmd.Env, "VERIF_FOLLOW_INTEGRITY=1")
	}
	b, err := cmd.CombinedOutput()
	if err == nil {
		return 0, false, string(b)
	}
	var ee *exec.ExitError
	if errors.As(err, &ee) {
		st := ee.ProcessState
		if !st.Exited() || st.ExitCode() == 137 || strings.Contains(string(b), "killed by SIGKILL") {
			return -1, true, string(b)
		}
		return st.ExitCode(), false, string(b)
	}
	return -2, false, err.Error()
}

// buildKillScenarios runs one primary history in two phases and returns the
// scenarios (fresh start, resume with L0 intact, resume needing bridging).
func buildKillScenarios(seed int64, work string, self string) ([]killScenario, func(), error) {
	r := NewRand(seed*31 + 5)
	dir := filepath.Join(work, "killprim")
	_ = os.RemoveAll(dir)
	if err := os.MkdirAll(dir, 0o755); err != nil {
		return nil, nil, err
	}
	cleanup := func() { os.RemoveAll(dir) }
	ps := 1024
	p, err := openPrimary(dir, ps, time.Nanosecond)
	if err != nil {
		return nil, cleanup, err
	}
	defer p.close()
	step := func(n int) error {
		for i := 0; i < n; i++ {
			if _, err := p.appOp(r); err != nil {
				return err
			}
			if err := p.sync(); err != nil {
				return err
			}
		}
		return nil
	}
	if err := step(2); err != nil {
		return nil, cleanup, err
	}
	// a level-9 snapshot older than every sidecar of the sweep: each restart resumes AHEAD of the newest snapshot
	if _, err := p.db.Snapshot(context.Background()); err != nil {
		return nil, cleanup, fmt.Errorf("snapshot: %w", err)
	}
	if err := step(2); err != nil {
		return nil, cleanup, err
	}
	t0 := p.pos()
	rep1 := filepath.Join(dir, "rep1")
	if err := copyDir(p.repDir, rep1); err != nil {
		return nil, cleanup, err
	}
	// base follower at t0
	base := filepath.Join(dir, "base")
	_ = os.MkdirAll(base, 0o755)
	if code, _, o := runChild(self, nil, rep1, filepath.Join(base, "f.db"), t0); code != 0 {
		return nil, cleanup, fmt.Errorf("base follower did not converge: exit %d %s", code, o)
	}
	// phase 2: more transactions incl. shrink + regrow, L0 intact
	if err := step(3); err != nil {
		return nil, cleanup, err
	}
	if _, err := p.sq.Exec("DELETE FROM t WHERE id > (SELECT min(id) FROM t) + 1"); err != nil {
		return nil, cleanup, err
	}
	if _, err := p.sq.Exec("VACUUM"); err != nil {
		return nil, cleanup, err
	}
	if err := p.sync(); err != nil {
		return nil, cleanup, err
	}
	if err := step(3); err != nil {
		return nil, cleanup, err
	}
	rep2 := filepath.Join(dir, "rep2")
	if err := copyDir(p.repDir, rep2); err != nil {
		return nil, cleanup, err
	}
	t2 := p.pos()
	// phase 3: compaction with L0 retention -> gaps bridged from L1/L2
	if _, err := p.db.Compact(context.Background(), 1); err != nil {
		return nil, cleanup, fmt.Errorf("compact 1: %w", err)
	}
	if err := step(2); err != nil {
		return nil, cleanup, err
	}
	if _, err := p.db.Compact(context.Background(), 1); err != nil {
		return nil, cleanup, fmt.Errorf("compact 1: %w", err)
	}
	if _, err := p.db.Compact(context.Background(), 2); err != nil {
		return nil, cleanup, fmt.Errorf("compact 2: %w", err)
	}
	if err := step(2); err != nil {
		return nil, cleanup, err
	}
	rep3 := filepath.Join(dir, "rep3")
	if err := copyDir(p.repDir, rep3); err != nil {
		return nil, cleanup, err
	}
	t3 := p.pos()
	mk := func(name, rep, baseDir string, baseT, target uint64) (killScenario, error) {
		sc := killScenario{name: name, repDir: rep, baseDir: baseDir, target: target, ps: ps, baseT: baseT, refs: map[uint64][]byte{}}
		lo := baseT
		if lo == 0 {
			lo = 1
		}
		for v := lo; v <= target; v++ {
			b, err := p.ref(v)
			if err != nil {
				return sc, err
			}
			sc.refs[v] = b
		}
		tmp := filepath.Join(dir, "latest.db")
		if err := restoreTo(rep, 0, tmp); err != nil {
			return sc, err
		}
		sc.latest, _ = os.ReadFile(tmp)
		_ = os.Remove(tmp)
		return sc, nil
	}
	var out []killScenario
	for _, a := range []struct {
		name, rep, base string
		bt, tg          uint64
	}{{"fresh", rep1, "", 0, t0}, {"resume-l0", rep2, base, t0, t2}, {"resume-bridge", rep3, base, t0, t3}} {
		sc, err := mk(a.name, a.rep, a.base, a.bt, a.tg)
		if err != nil {
			return nil, cleanup, err
		}
		out = append(out, sc)
	}
	return out, cleanup, nil
}

func pageSet(refs map[uint64][]byte, from uint64, ps int) map[int]map[[32]byte]bool {
	m := map[int]map[[32]byte]bool{}
	for v, b := range refs {
		if v < from {
			continue
		}
		b = maskDB(b)
		for off := 0; off+ps <= len(b); off += ps {
			pg := off/ps + 1
			if m[pg] == nil {
				m[pg] = map[[32]byte]bool{}
			}
			m[pg][sha256.Sum256(b[off:off+ps])] = true
		}
	}
	return m
}

func runKillSweep(seed int64, work string, rp *report, budget int, all bool) error {
	self, err := os.Executable()
	if err != nil {
		return err
	}
	if _, err := exec.LookPath("strace"); err != nil {
		rp.extra["kill_sweep_skipped_no_strace"]++
		return nil
	}
	scs, cleanup, err := buildKillScenarios(seed, work, self)
	if cleanup != nil {
		defer cleanup()
	}
	if err != nil {
		return fmt.Errorf("kill scenarios: %w", err)
	}
	r := NewRand(seed*77 + 3)
	kdir := filepath.Join(work, "kill")
	for _, sc := range scs {
		prep := func() (string, error) {
			_ = os.RemoveAll(kdir)
			if err := os.MkdirAll(kdir, 0o755); err != nil {
				return "", err
			}
			out := filepath.Join(kdir, "f.db")
			if sc.baseDir != "" {
				if err := copyFile(filepath.Join(sc.baseDir, "f.db"), out); err != nil {
					return "", err
				}
				if err := copyFile(filepath.Join(sc.baseDir, "f.db-txid"), out+"-txid"); err != nil {
					return "", err
				}
			}
			return out, nil
		}
		// count the injectable syscalls of an undisturbed run
		out, err := prep()
		if err != nil {
			return err
		}
		trace := filepath.Join(kdir, "trace.txt")
		code, _, o := runChild(self, []string{"-f", "-o", trace, "-e", "trace=" + injectSet}, sc.repDir, out, sc.target)
		if code != 0 {
			rpl := map[string]any{"kind": "kill", "seed": seed, "scenario": sc.name, "k": 0}
			if strings.Contains(o, "CLASS 3") {
				rp.violate("C16/resume-refused-sidecar-ahead-of-latest-snapshot",
					fmt.Sprintf("kill scenario %s, undisturbed run: follower files at sidecar TXID %d (ahead of the level-9 snapshot taken earlier), "+
						"Restore(Follow) refuses to resume: %s", sc.name, sc.baseT, strings.TrimSpace(o)), rpl)
			} else {
				rp.violate("C16/follower-child-failed", fmt.Sprintf("kill scenario %s: undisturbed traced run exit %d: %s", sc.name, code, strings.TrimSpace(o)), rpl)
			}
			continue
		}
		tb, _ := os.ReadFile(trace)
		_ = os.WriteFile(filepath.Join(filepath.Dir(work), "trace_"+sc.name+".txt"), tb, 0o644)
		// the main thread is the first pid in the trace; strace counts when= per
		// syscall name and per thread, so a kill point is (syscall name, ordinal)
		type kpoint struct {
			name string
			ord  int
			seq  int
		}
		var mainPid string
		var points []kpoint
		perName := map[string]int{}
		for _, ln := range strings.Split(string(tb), "\n") {
			f := strings.Fields(ln)
			if len(f) < 2 || strings.HasPrefix(f[1], "---") || strings.HasPrefix(f[1], "+++") || strings.HasPrefix(f[1], "<...") {
				continue
			}
			i := strings.Index(f[1], "(")
			if i <= 0 {
				continue
			}
			if mainPid == "" {
				mainPid = f[0]
			}
			if f[0] == mainPid {
				nm := f[1][:i]
				perName[nm]++
				points = append(points, kpoint{nm, perName[nm], len(points) + 1})
			}
		}
		total := len(points)
		rp.extra["kill_syscalls_"+sc.name] = total
		got, _ := os.ReadFile(out)
		if d := diffDB(got, sc.latest, sc.ps); d != "" {
			rp.violate("C16/converged-follower-differs-from-latest-restore",
				fmt.Sprintf("kill scenario %s, undisturbed child run: %s", sc.name, d), map[string]any{"kind": "kill", "seed": seed, "scenario": sc.name, "k": 0})
		}
		var ks []kpoint
		if all || total <= budget {
			ks = points
		} else {
			seen := map[int]bool{}
			// always: the syscall right after every rename (publish boundaries), first and last
			for _, pt := range points {
				if strings.HasPrefix(pt.name, "rename") && pt.seq < total {
					seen[pt.seq+1] = true
				}
			}
			for _, k := range []int{1, total} {
				if k >= 1 && k <= total {
					seen[k] = true
				}
			}
			if sc.baseDir == "" {
				// initial restore: every syscall from the fsync of <out>.tmp on (sidecar
				// publish, database publish, directory syncs) is a kill point
				from := 0
				for _, pt := range points {
					if pt.name == "fsync" {
						from = pt.seq
						break
					}
				}
				for _, pt := range points {
					if from > 0 && pt.seq >= from {
						seen[pt.seq] = true
					}
				}
			}
			for n0 := len(seen); len(seen) < n0+budget && len(seen) < total; {
				seen[1+r.Intn(total)] = true
			}
			for _, pt := range points {
				if seen[pt.seq] {
					ks = append(ks, pt)
				}
			}
		}
		for _, pt := range ks {
			k := pt.seq
			out, err := prep()
			if err != nil {
				return err
			}
			rpl := map[string]any{"kind": "kill", "seed": seed, "scenario": sc.name, "k": k, "syscall": pt.name, "ordinal": pt.ord,
				"how": fmt.Sprintf("h_follow follow -out <dir> -seed %d -n 0 -nsyn 0 -kills -1 (scenario %s, SIGKILL on entry of %s #%d = injectable syscall %d)", seed, sc.name, pt.name, pt.ord, k)}
			_, killed, o := runChild(self, []string{"-f", "-o", "/dev/null", "-e", "trace=" + pt.name,
				"-e", fmt.Sprintf("inject=%s:signal=KILL:when=%d", pt.name, pt.ord)}, sc.repDir, out, sc.target)
			if !killed {
				rp.extra["kill_points_not_reached"]++
				_ = o
				continue
			}
			rp.extra["kill_points"]++
			rp.extra["kill_points_"+sc.name]++
			// state left behind
			_, dbErr := os.Stat(out)
			side := readSidecar(out)
			if side == ^uint64(0) {
				rp.violate("C16/sidecar-corrupt-after-kill", fmt.Sprintf("scenario %s k=%d: sidecar unparsable after SIGKILL", sc.name, k), rpl)
				continue
			}
			if dbErr == nil && side != 0 {
				if side < sc.baseT {
					rp.violate("C16/sidecar-regressed", fmt.Sprintf("scenario %s k=%d: sidecar %d below the starting sidecar %d", sc.name, k, side, sc.baseT), rpl)
				}
				// sidecar never ahead of content: every page is a version from a TXID >= sidecar
				got, _ := os.ReadFile(out)
				got = maskDB(got)
				vers := pageSet(sc.refs, side, sc.ps)
				zero := sha256.Sum256(make([]byte, sc.ps))
				for off := 0; off+sc.ps <= len(got); off += sc.ps {
					pg := off/sc.ps + 1
					h := sha256.Sum256(got[off : off+sc.ps])
					if !vers[pg][h] && h != zero {
						rp.violate("C16/sidecar-ahead-of-content",
							fmt.Sprintf("scenario %s k=%d: after SIGKILL the sidecar says %d but page %d holds a version older than TXID %d "+
								"(not equal to that page in any restore of TXID %d..%d)", sc.name, k, side, pg, side, side, sc.target), rpl)
						break
					}
				}
				rp.extra["sidecar_vs_content_checks"]++
			}
			// restart, converge (every second kill point with -integrity-check quick)
			// (only when the restart RESUMES: in a fresh restore the option runs its check after the sidecar is
			// written, and this harness stops the child as soon as the sidecar reaches the target)
			withCheck := k%2 == 0 && side > 0 && dbErr == nil
			childIntegrity.Store(withCheck)
			code, _, o2 := runChild(self, nil, sc.repDir, out, sc.target)
			childIntegrity.Store(false)
			if withCheck {
				rp.extra["restarts_with_integrity_check_option"]++
			}
			if code != 0 {
				if dbErr == nil && side == 0 && strings.Contains(o2, "CLASS 1") {
					rp.extra["kill_before_first_sidecar"]++
					rp.violate("C16/kill-between-initial-restore-and-first-sidecar-is-unresumable",
						fmt.Sprintf("scenario %s k=%d: SIGKILL after the restored database was renamed into place and before the first "+
							"-txid sidecar was written; every restart of Restore(Follow) now fails with %q until the file is deleted by hand",
							sc.name, k, ses2str(1)), rpl)
					continue
				}
				rp.violate("C16/restart-after-kill-failed", fmt.Sprintf("scenario %s k=%d (sidecar %d): restart exit %d: %s", sc.name, k, side, code, strings.TrimSpace(o2)), rpl)
				continue
			}
			if s2 := readSidecar(out); s2 != sc.target || s2 < side {
				rp.violate("C16/sidecar-regressed", fmt.Sprintf("scenario %s k=%d: sidecar %d at kill, %d after restart (target %d)", sc.name, k, side, s2, sc.target), rpl)
			}
			got, _ := os.ReadFile(out)
			rp.extra["kill_restart_comparisons"]++
			if d := diffDB(got, sc.latest, sc.ps); d != "" {
				rp.violate("C16/restarted-follower-differs-from-latest-restore",
					fmt.Sprintf("scenario %s, SIGKILL before injectable syscall %d (sidecar then %d), restarted and converged to %d: %s",
						sc.name, k, side, sc.target, d), rpl)
			}
		}
	}
	_ = os.RemoveAll(kdir)
	return nil
}

// ---------------------------------------------------------------------------

func main() {
	if len(os.Args) > 1 && os.Args[1] == "follow" {
		os.Args = append(os.Args[:1], os.Args[2:]...)
	}
	fl := flag.NewFlagSet("follow", flag.ContinueOnError)
	out := fl.String("out", "", "work directory")
	n := fl.Int("n", 20, "number of real histories")
	nsyn := fl.Int("nsyn", -1, "number of synthetic listings (default 12*n)")
	seed := fl.Int64("seed", 1, "PRNG seed")
	kills := fl.Int("kills", 8, "kill points per scenario (0 = no kill sweep, -1 = all)")
	replay := fl.String("replay", "", "case file whose follow_poll inputs are re-run on the implementation")
	histSeed := fl.Int64("hist-seed", 0, "re-run one history: seed")
	histIdx := fl.Int("hist-idx", -1, "re-run one history: index")
	raceSeed := fl.Int64("race-seed", 0, "re-run one list/open race: seed")
	raceIdx := fl.Int("race-idx", -1, "re-run one list/open race: index")
	races := fl.Int("races", 1, "0 = skip the list/open race and resume-distance enumerations")
	resumeSeed := fl.Int64("resume-seed", 0, "re-run one resume-distance scenario: seed")
	resumeIdx := fl.Int("resume-idx", -1, "re-run one resume-distance scenario: index")
	child := fl.Bool("child", false, "internal: follower child process")
	crep := fl.String("replica", "", "child: replica dir")
	cdb := fl.String("db", "", "child: follower database path")
	ctarget := fl.Uint64("target", 0, "child: stop when the sidecar reaches this TXID")
	if err := fl.Parse(os.Args[1:]); err != nil {
		os.Exit(2)
	}
	slog.SetDefault(QuietLogger())
	if *child {
		os.Exit(childMain(*crep, *cdb, *ctarget))
	}
	if *raceIdx >= 0 {
		*histSeed, *histIdx = *raceSeed, -2-*raceIdx
	}
	if *resumeIdx >= 0 {
		*histSeed, *histIdx = *resumeSeed, -1000-*resumeIdx
	}
	if *races == 0 {
		skipRaces = true
	}
	if err := run(*out, *n, *nsyn, *seed, *kills, *replay, *histSeed, *histIdx); err != nil {
		fmt.Fprintln(os.Stderr, "harness error:", err)
		os.Exit(3)
	}
}

var skipRaces bool

func run(out string, n, nsyn int, seed int64, kills int, replay string, histSeed int64, histIdx int) error {
	if out == "" {
		return errors.New("-out required")
	}
	if err := os.MkdirAll(out, 0o755); err != nil {
		return err
	}
	cw, err := NewCaseWriter(filepath.Join(out, "cases.txt"))
	if err != nil {
		return err
	}
	rp := &report{cw: cw, extra: map[string]int{}, seen: map[string]bool{}}
	work := filepath.Join(out, "tmp")
	_ = os.RemoveAll(work)
	if err := os.MkdirAll(work, 0o755); err != nil {
		return err
	}
	defer os.RemoveAll(work)
	finish := func() error {
		if err := cw.Close(); err != nil {
			return err
		}
		st := cw.Stats()
		st.ImplViolations = rp.viol
		st.Extra = map[string]any{}
		for k, v := range rp.extra {
			st.Extra[k] = v
		}
		return WriteJSON(filepath.Join(out, "stats.json"), st)
	}
	switch {
	case replay != "":
		cases, err := ReadCases(replay)
		if err != nil {
			return err
		}
		for _, c := range cases {
			if c.Entry != "follow_poll" && c.Entry != "follow_applied_ok" {
				continue
			}
			var sc synCase
			sc.bad = map[fkey]int{}
			for l, lv := range c.In.At(0).List {
				if l > 8 {
					break
				}
				for _, f := range lv.List {
					fi := finfo{f.At(0).Uint(), f.At(1).Uint()}
					sc.levels[l] = append(sc.levels[l], fi)
					if b := f.At(2).Int(); b != 0 {
						sc.bad[fkey{l, fi.min, fi.max}] = int(b)
					}
				}
			}
			sc.t = c.In.At(1).Uint()
			if err := runSyn(sc, work, rp, "replay"); err != nil {
				return err
			}
		}
		return finish()
	case histIdx >= 0:
		if err := runHistory(histSeed, histIdx, work, rp); err != nil {
			return err
		}
		return finish()
	case histIdx <= -1000:
		i := -1000 - histIdx
		sp := resumeSpecs()
		if err := runResume(histSeed, i, sp[i%len(sp)], work, rp); err != nil {
			return err
		}
		return finish()
	case histIdx <= -2:
		i := -2 - histIdx
		sp := raceSpecs()
		if err := runRace(histSeed, i, sp[i%len(sp)], work, rp); err != nil {
			return err
		}
		return finish()
	}
	r := NewRand(seed)
	if nsyn < 0 {
		nsyn = 12 * n
	}
	for i := 0; i < nsyn; i++ {
		if err := runSyn(genSyn(r), work, rp, "syn"); err != nil {
			return err
		}
	}
	for i := 0; i < n; i++ {
		if err := runHistory(seed, i, work, rp); err != nil {
			return fmt.Errorf("history %d: %w", i, err)
		}
	}
	if !skipRaces {
		for i, sp := range resumeSpecs() {
			if err := runResume(seed, i, sp, work, rp); err != nil {
				return fmt.Errorf("resume %d (%+v): %w", i, sp, err)
			}
		}
		for i, sp := range raceSpecs() {
			if err := runRace(seed, i, sp, work, rp); err != nil {
				return fmt.Errorf("race %d (%+v): %w", i, sp, err)
			}
		}
	}
	if kills != 0 {
		if err := runKillSweep(seed, work, rp, kills, kills < 0); err != nil {
			return err
		}
	}
	b, _ := json.Marshal(rp.extra)
	fmt.Println("follow:", cw.N, "cases,", len(rp.viol), "impl violations,", string(b))
	return finish()
}
