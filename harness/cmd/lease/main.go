// Command lease: correspondence cases for the S3 leaser (C20).
//
// The REAL s3.Leaser (one per client) runs over an in-memory S3API stub with
// S3's conditional-request semantics. Every storage request of every client
// parks on a scheduler; a schedule (list of client indices) says whose parked
// request is executed next. All schedules of small client/program scopes are
// enumerated (stateless DFS: each execution is one complete schedule). For each
// schedule the harness writes
//
//	lease_run            input (clients, schedule)  observed (call results in completion order, final store)
//	lease_mutex_ok       input (observed call results)  expected 1   (spec oracle)
//	lease_gen_strict_ok  input (observed call results)  expected 1   (spec oracle)
//
// Clock: the whole run executes inside a testing/synctest bubble, so time.Now()
// (the only clock the Leaser reads) is a fake clock that stands still while code
// runs and advances exactly by the scheduler's "tick" steps. The remaining
// validity of a lease at the moment of any request is therefore exact, down to
// 1 ns, and runs are deterministic. Times are reported in ns since the start of
// the schedule.
package main

import (
	"bytes"
	"context"
	"crypto/md5"
	"encoding/hex"
	"encoding/json"
	"errors"
	"flag"
	"fmt"
	"io"
	"os"
	"path/filepath"
	"sort"
	"strings"
	"testing"
	"testing/synctest"
	"time"

	"github.com/aws/aws-sdk-go-v2/service/s3"
	"github.com/aws/smithy-go"
	"github.com/benbjohnson/litestream"
	lss3 "github.com/benbjohnson/litestream/s3"
	. "verifharness/hx"
)

// ---- in-memory conditional object store ---------------------------------------

// apiError implements smithy.APIError (ErrorCode/ErrorMessage/ErrorFault).
type apiError struct{ code string }

func (e *apiError) Error() string                 { return "api error " + e.code }
func (e *apiError) ErrorCode() string             { return e.code }
func (e *apiError) ErrorMessage() string          { return e.code }
func (e *apiError) ErrorFault() smithy.ErrorFault { return smithy.FaultClient }

type memStore struct {
	objs map[string][]byte
}

func etagOf(b []byte) string { s := md5.Sum(b); return hex.EncodeToString(s[:]) }

func skey(b, k *string) string {
	bs, ks := "", ""
	if b != nil {
		bs = *b
	}
	if k != nil {
		ks = *k
	}
	return bs + "/" + ks
}

// the three requests; each runs atomically (the scheduler lets one client run at a time)
func (m *memStore) get(in *s3.GetObjectInput) (*s3.GetObjectOutput, error) {
	b, ok := m.objs[skey(in.Bucket, in.Key)]
	if !ok {
		return nil, &apiError{"NoSuchKey"}
	}
	et := etagOf(b)
	return &s3.GetObjectOutput{Body: io.NopCloser(bytes.NewReader(append([]byte(nil), b...))), ETag: &et}, nil
}

func (m *memStore) put(in *s3.PutObjectInput) (*s3.PutObjectOutput, error) {
	k := skey(in.Bucket, in.Key)
	cur, ok := m.objs[k]
	if in.IfNoneMatch != nil && *in.IfNoneMatch == "*" && ok {
		return nil, &apiError{"PreconditionFailed"}
	}
	if in.IfMatch != nil {
		if !ok {
			return nil, &apiError{"NoSuchKey"}
		}
		if *in.IfMatch != etagOf(cur) {
			return nil, &apiError{"PreconditionFailed"}
		}
	}
	var body []byte
	if in.Body != nil {
		var err error
		if body, err = io.ReadAll(in.Body); err != nil {
			return nil, err
		}
	}
	m.objs[k] = body
	et := etagOf(body)
	return &s3.PutObjectOutput{ETag: &et}, nil
}

func (m *memStore) del(in *s3.DeleteObjectInput) (*s3.DeleteObjectOutput, error) {
	k := skey(in.Bucket, in.Key)
	cur, ok := m.objs[k]
	if in.IfMatch != nil {
		if !ok {
			return nil, &apiError{"NoSuchKey"}
		}
		if *in.IfMatch != etagOf(cur) {
			return nil, &apiError{"PreconditionFailed"}
		}
	}
	delete(m.objs, k)
	return &s3.DeleteObjectOutput{}, nil
}

// ---- scheduler ----------------------------------------------------------------

type clientSpec struct {
	owner int   // 1.. ; owner string = "A","B",...
	ttl   int64 // Leaser.TTL in ns (any sign; negative: the lease is born expired)
	prog  []int // 0 acquire, 1 renew, 2 release
}

// step of a schedule: execute the parked request of a client, or advance the clock
type step struct {
	tick   bool
	client int
	d      int64 // ns
}

type event struct {
	client, op int
	res        Sx
	ok         bool
	at         int64 // ns since the start of the schedule
}

type runClient struct {
	idx      int
	spec     clientSpec
	status   chan bool // true: parked on a request; false: program finished
	resume   chan struct{}
	parked   bool
	requests int
}

type world struct {
	store  *memStore
	cls    []*runClient
	events []event
	t0     time.Time
}

// gate is the stub each Leaser talks to: it parks the calling client, then runs the request.
type gate struct {
	w *world
	c *runClient
}

func (g *gate) park() {
	g.c.requests++
	g.c.status <- true
	<-g.c.resume
}

func (g *gate) GetObject(ctx context.Context, in *s3.GetObjectInput, _ ...func(*s3.Options)) (*s3.GetObjectOutput, error) {
	g.park()
	return g.w.store.get(in)
}
func (g *gate) PutObject(ctx context.Context, in *s3.PutObjectInput, _ ...func(*s3.Options)) (*s3.PutObjectOutput, error) {
	g.park()
	return g.w.store.put(in)
}
func (g *gate) DeleteObject(ctx context.Context, in *s3.DeleteObjectInput, _ ...func(*s3.Options)) (*s3.DeleteObjectOutput, error) {
	g.park()
	return g.w.store.del(in)
}

func ownerName(id int) string { return string(rune('A' + id - 1)) }
func ownerID(s string) int64 {
	if s == "" {
		return 0
	}
	if len(s) == 1 && s[0] >= 'A' && s[0] <= 'Z' {
		return int64(s[0]-'A') + 1
	}
	return 99
}

func (w *world) rel(t time.Time) Sx { return I(int64(t.Sub(w.t0))) }

func (w *world) errSx(err error) Sx {
	var le *litestream.LeaseExistsError
	switch {
	case errors.As(err, &le):
		if le.Owner == "" && le.ExpiresAt.IsZero() {
			return L(I(1), I(0), I(0))
		}
		return L(I(1), I(ownerID(le.Owner)), w.rel(le.ExpiresAt))
	case errors.Is(err, lss3.ErrLeaseRequired):
		return L(I(2))
	case errors.Is(err, lss3.ErrLeaseETagRequired):
		return L(I(3))
	case errors.Is(err, litestream.ErrLeaseNotHeld):
		return L(I(4))
	case errors.Is(err, lss3.ErrLeaseAlreadyReleased):
		return L(I(5))
	}
	return L(I(6))
}

func (w *world) leaseSx(l *litestream.Lease) Sx {
	return L(I(0), I(l.Generation), I(ownerID(l.Owner)), w.rel(l.ExpiresAt))
}

// one call of the real leaser; panics of the code under test become result (7)
func (w *world) doCall(l *lss3.Leaser, op int, held **litestream.Lease) (res Sx, ok bool) {
	defer func() {
		if r := recover(); r != nil {
			res, ok = L(I(7)), false
		}
	}()
	ctx := context.Background()
	switch op {
	case 0:
		nl, err := l.AcquireLease(ctx)
		if err != nil {
			return w.errSx(err), false
		}
		if nl == nil {
			return L(I(8)), false
		}
		*held = nl
		return w.leaseSx(nl), true
	case 1:
		nl, err := l.RenewLease(ctx, *held)
		if err != nil {
			return w.errSx(err), false
		}
		if nl == nil {
			return L(I(8)), false
		}
		*held = nl
		return w.leaseSx(nl), true
	default:
		if err := l.ReleaseLease(ctx, *held); err != nil {
			return w.errSx(err), false
		}
		*held = nil
		return L(I(0)), true
	}
}

func (w *world) clientMain(c *runClient) {
	l := lss3.NewLeaser()
	l.SetLogger(QuietLogger())
	l.SetClient(&gate{w, c})
	l.Owner = ownerName(c.spec.owner)
	l.Bucket = "b"
	l.TTL = time.Duration(c.spec.ttl)
	var held *litestream.Lease
	for _, op := range c.spec.prog {
		res, ok := w.doCall(l, op, &held)
		// only one client runs at a time, so this append is ordered by completion
		w.events = append(w.events, event{c.idx, op, res, ok, int64(time.Since(w.t0))})
	}
	c.status <- false
}

type runResult struct {
	taken    []step  // the complete schedule that was executed
	parked   [][]int // parked[j]: clients parked at position j (nil inside the given prefix)
	events   []event
	final    Sx
	requests []int
}

// runSchedule executes the clients under the given schedule prefix; once the
// prefix is used up the lowest-index parked client runs (no further ticks). A
// choice naming a client that is not parked is skipped (and not recorded in
// taken); so is a tick with d < 0. Must be called inside the synctest bubble.
func runSchedule(specs []clientSpec, prefix []step) runResult {
	w := &world{store: &memStore{objs: map[string][]byte{}}, t0: time.Now()}
	for i, sp := range specs {
		w.cls = append(w.cls, &runClient{idx: i, spec: sp, status: make(chan bool), resume: make(chan struct{})})
	}
	// clients start one after the other: each runs to its first request (or to its end)
	for _, c := range w.cls {
		go w.clientMain(c)
		c.parked = <-c.status
	}
	var rr runResult
	run := func(i int) {
		c := w.cls[i]
		c.resume <- struct{}{}
		c.parked = <-c.status
	}
	for _, st := range prefix {
		if st.tick {
			if st.d < 0 {
				continue
			}
			rr.taken = append(rr.taken, st)
			rr.parked = append(rr.parked, nil)
			if st.d > 0 {
				time.Sleep(time.Duration(st.d)) // every client is blocked on a channel: the fake clock jumps
			}
			continue
		}
		if st.client < 0 || st.client >= len(w.cls) || !w.cls[st.client].parked {
			continue
		}
		rr.taken = append(rr.taken, st)
		rr.parked = append(rr.parked, nil) // alternatives inside the prefix belong to other executions
		run(st.client)
	}
	for {
		var pk []int
		for i, c := range w.cls {
			if c.parked {
				pk = append(pk, i)
			}
		}
		if len(pk) == 0 {
			break
		}
		rr.taken = append(rr.taken, step{client: pk[0]})
		rr.parked = append(rr.parked, pk)
		run(pk[0])
	}
	rr.events = w.events
	rr.final = L()
	if b, ok := w.store.objs["b/lock.json"]; ok {
		var l litestream.Lease
		if err := json.Unmarshal(b, &l); err != nil {
			rr.final = L(I(-1))
		} else {
			rr.final = L(I(l.Generation), I(ownerID(l.Owner)), w.rel(l.ExpiresAt))
		}
	}
	if _, ok := w.store.objs["b/lock.json"]; len(w.store.objs) > 1 || (len(w.store.objs) == 1 && !ok) {
		rr.final = L(I(-2)) // an object under an unexpected key
	}
	for _, c := range w.cls {
		rr.requests = append(rr.requests, c.requests)
	}
	return rr
}

// ---- case emission ------------------------------------------------------------------

func specsSx(specs []clientSpec) Sx {
	out := SxList{}
	for _, sp := range specs {
		p := SxList{}
		for _, o := range sp.prog {
			p = append(p, I(int64(o)))
		}
		out = append(out, L(I(int64(sp.owner)), I(sp.ttl), p))
	}
	return out
}

func stepsSx(xs []step) Sx {
	out := SxList{}
	for _, x := range xs {
		if x.tick {
			out = append(out, L(I(x.d)))
		} else {
			out = append(out, I(int64(x.client)))
		}
	}
	return out
}

func eventsSx(evs []event) Sx {
	out := SxList{}
	for _, e := range evs {
		out = append(out, L(I(int64(e.client)), I(int64(e.op)), e.res, I(e.at)))
	}
	return out
}

type counters struct {
	schedules, configs int
	maxRequests        int
	ticked             int
}

func emit(cw *CaseWriter, specs []clientSpec, sched []step, rr runResult, class string, cnt *counters) {
	evs := eventsSx(rr.events)
	active, okCalls, tot := 0, 0, 0
	for _, n := range rr.requests {
		if n > 0 {
			active++
		}
		tot += n
	}
	for _, e := range rr.events {
		if e.ok {
			okCalls++
		}
	}
	cnt.schedules++
	if tot > cnt.maxRequests {
		cnt.maxRequests = tot
	}
	for _, s := range sched {
		if s.tick {
			cnt.ticked++
			break
		}
	}
	nontriv := active >= 2 && okCalls >= 1
	cw.Add("lease_run", L(specsSx(specs), stepsSx(sched)), L(evs, rr.final), class, nontriv)
	cw.Add("lease_mutex_ok", L(evs), I(1), class+"/oracle", false)
	cw.Add("lease_gen_strict_ok", L(evs), I(1), class+"/oracle", false)
}

// explore enumerates every complete schedule of the clients exactly once:
// every interleaving of their requests and, if maxTicks > 0, every placement of
// up to maxTicks clock ticks (durations from ticks) between two requests.
func explore(cw *CaseWriter, specs []clientSpec, class string, cnt *counters, budget int, ticks []int64, maxTicks int) {
	stack := [][]step{{}}
	for len(stack) > 0 {
		if budget > 0 && cnt.schedules >= budget {
			return
		}
		prefix := stack[len(stack)-1]
		stack = stack[:len(stack)-1]
		rr := runSchedule(specs, prefix)
		emit(cw, specs, rr.taken, rr, class, cnt)
		nt := 0
		for _, s := range prefix {
			if s.tick {
				nt++
			}
		}
		for j := len(prefix); j < len(rr.taken); j++ {
			for _, a := range rr.parked[j] {
				if a != rr.taken[j].client {
					np := append(append([]step(nil), rr.taken[:j]...), step{client: a})
					stack = append(stack, np)
				}
			}
			// a tick before request j (not before the first request, not right after another tick)
			if nt < maxTicks && j > 0 && !rr.taken[j-1].tick {
				for _, d := range ticks {
					np := append(append([]step(nil), rr.taken[:j]...), step{tick: true, d: d})
					stack = append(stack, np)
				}
			}
		}
	}
}

func programs(maxLen int) [][]int {
	var out [][]int
	var rec func(cur []int)
	rec = func(cur []int) {
		if len(cur) > 0 {
			out = append(out, append([]int(nil), cur...))
		}
		if len(cur) == maxLen {
			return
		}
		for o := 0; o < 3; o++ {
			rec(append(cur, o))
		}
	}
	rec(nil)
	return out
}

type cfg struct {
	prog []int
	ttl  int64
}

func ttlName(t int64) string {
	switch {
	case t == int64(time.Hour):
		return "+"
	case t == -int64(time.Hour):
		return "-"
	}
	return time.Duration(t).String()
}

func cfgKey(c cfg) string {
	s := ttlName(c.ttl) + ":"
	for _, o := range c.prog {
		s += string(rune('0' + o))
	}
	return s
}

func allCfgs(maxLen int, ttls []int64) []cfg {
	var out []cfg
	for _, p := range programs(maxLen) {
		for _, t := range ttls {
			out = append(out, cfg{p, t})
		}
	}
	sort.Slice(out, func(i, j int) bool { return cfgKey(out[i]) < cfgKey(out[j]) })
	return out
}

func maxLenOf(cs []cfg) int {
	m := 0
	for _, c := range cs {
		if len(c.prog) > m {
			m = len(c.prog)
		}
	}
	return m
}

func classOf(scope string, cs []cfg) string {
	s := ""
	for i, c := range cs {
		if i > 0 && len(ttlName(c.ttl)) > 1 {
			s += ","
		}
		s += ttlName(c.ttl)
	}
	return fmt.Sprintf("%s/%dclients/len%d/ttl%s", scope, len(cs), maxLenOf(cs), s)
}

func toSpecs(cs []cfg) []clientSpec {
	var out []clientSpec
	for i, c := range cs {
		out = append(out, clientSpec{owner: i + 1, ttl: c.ttl, prog: c.prog})
	}
	return out
}

// a program that never acquires can never issue a request
func hasAcquire(c cfg) bool {
	for _, o := range c.prog {
		if o == 0 {
			return true
		}
	}
	return false
}

const (
	ns  = int64(time.Nanosecond)
	ms  = int64(time.Millisecond)
	sec = int64(time.Second)
	hr  = int64(time.Hour)
)

// boundaryTicks: elapsed times after which a lease written with TTL 10 s has,
// in this order, 10s-1ns, 2s+1ns, 2s, 1s, 1ms, 1ns, 0 ns left, or expired 1 ns ago.
var boundaryTicks = []int64{1 * ns, 8*sec - 1*ns, 8 * sec, 9 * sec, 10*sec - 1*ms, 10*sec - 1*ns, 10 * sec, 10*sec + 1*ns}

func main() {
	args := os.Args[1:]
	if len(args) > 0 && args[0] == "lease" {
		args = args[1:]
	}
	// The work runs as the body of a synthetic test so that testing/synctest can
	// give it a fake clock; testing.Main parses os.Args itself, so hide ours.
	os.Args = os.Args[:1]
	var runErr error
	testing.Main(func(pat, str string) (bool, error) { return true, nil },
		[]testing.InternalTest{{Name: "lease", F: func(t *testing.T) {
			synctest.Test(t, func(t *testing.T) { runErr = cmdLease(args) })
			if runErr != nil {
				fmt.Fprintln(os.Stderr, "harness error:", runErr)
				t.Fatal(runErr)
			}
		}}}, nil, nil)
}

func cmdLease(args []string) error {
	fl := flag.NewFlagSet("lease", flag.ContinueOnError)
	out := fl.String("out", "", "work directory")
	n := fl.Int("n", 0, "budget (schedules) of each sampled scope; 0 = default of the tier")
	seed := fl.Int64("seed", 1, "PRNG seed (sampled scopes)")
	tier := fl.String("tier", "quick", "quick | thorough")
	deep := fl.Bool("deep", false, "boundary scope with two ticks also in the quick tier (used when the takeover guard in the source changed)")
	replay := fl.String("replay", "", "case file whose lease_run inputs are re-run on the implementation")
	countOnly := fl.Bool("count", false, "also print the scope sizes")
	part := fl.Int("part", 0, "process only the client configurations with index %% parts == part")
	parts := fl.Int("parts", 1, "number of parts the enumeration is split into (one case file each)")
	if err := fl.Parse(args); err != nil {
		return err
	}
	if *replay != "" {
		return replayLease(*replay, *out)
	}
	if *out == "" {
		return fmt.Errorf("-out is required")
	}
	if *parts < 1 || *part < 0 || *part >= *parts {
		return fmt.Errorf("bad -part/-parts")
	}
	thorough := *tier == "thorough"
	cfgIdx := 0
	mine := func() bool { cfgIdx++; return (cfgIdx-1)%*parts == *part }
	cw, err := NewCaseWriter(filepath.Join(*out, "cases.txt"))
	if err != nil {
		return err
	}
	r := NewRand(*seed)
	cnt := &counters{}
	extra := map[string]any{}
	scope := func(name string, before, cfgs int, exhaustive bool) {
		extra["scope_"+name+"_schedules"] = cnt.schedules - before
		extra["scope_"+name+"_configs"] = cfgs
		extra["scope_"+name+"_exhaustive"] = exhaustive
	}

	// scope 1 (exhaustive): 2 clients, every pair of (program of length 1..L, TTL +1h / -1h),
	// up to exchanging the two clients; every interleaving of their requests; no tick.
	L2 := 3
	if thorough {
		L2 = 4
	}
	cs := allCfgs(L2, []int64{-hr, hr})
	before, ncfg := cnt.schedules, 0
	for i := 0; i < len(cs); i++ {
		for j := i; j < len(cs); j++ {
			pair := []cfg{cs[i], cs[j]}
			if !mine() {
				continue
			}
			ncfg++
			explore(cw, toSpecs(pair), classOf("s1", pair), cnt, 0, nil, 0)
		}
	}
	extra["scope_2clients_maxlen"] = L2
	scope("2clients", before, ncfg, true)

	// scope 2: 3 clients, programs of length <= 2 that contain an acquire, TTL +1h / -1h, no tick.
	// thorough: every triple exhaustively; quick: seeded sample of triples, each explored depth-first.
	cs3 := []cfg{}
	for _, c := range allCfgs(2, []int64{-hr, hr}) {
		if hasAcquire(c) {
			cs3 = append(cs3, c)
		}
	}
	before, ncfg = cnt.schedules, 0
	if thorough {
		for i := 0; i < len(cs3); i++ {
			for j := i; j < len(cs3); j++ {
				for k := j; k < len(cs3); k++ {
					tr := []cfg{cs3[i], cs3[j], cs3[k]}
					if !mine() {
						continue
					}
					ncfg++
					explore(cw, toSpecs(tr), classOf("s2", tr), cnt, 0, nil, 0)
				}
			}
		}
	} else if *part == 0 {
		budget := 10000
		if *n > 0 {
			budget = *n
		}
		start := cnt.schedules
		perTriple := 500
		for cnt.schedules-start < budget {
			tr := []cfg{cs3[r.Intn(len(cs3))], cs3[r.Intn(len(cs3))], cs3[r.Intn(len(cs3))]}
			ncfg++
			lim := cnt.schedules + perTriple
			if lim > start+budget {
				lim = start + budget
			}
			explore(cw, toSpecs(tr), classOf("s2", tr), cnt, lim, nil, 0)
		}
	}
	scope("3clients", before, ncfg, thorough)

	// scope 3 (exhaustive, the boundary scope): 2 clients, both TTL 10 s, programs of length 1..2
	// (thorough: also length 3 with one tick), every interleaving, and every placement of up to
	// K clock ticks between two requests with the boundary durations: each acquire / renew /
	// release request is thereby issued with 10s, 10s-1ns, 2s+1ns, 2s, 1s, 1ms, 1ns, 0 ns of
	// validity left on the current lease, and 1 ns after its expiry.
	K := 1
	if thorough || *deep {
		K = 2
	}
	before, ncfg = cnt.schedules, 0
	cb := allCfgs(2, []int64{10 * sec})
	for i := 0; i < len(cb); i++ {
		for j := i; j < len(cb); j++ {
			pair := []cfg{cb[i], cb[j]}
			if !hasAcquire(cb[i]) && !hasAcquire(cb[j]) {
				continue
			}
			if !mine() {
				continue
			}
			ncfg++
			explore(cw, toSpecs(pair), classOf("s3", pair), cnt, 0, boundaryTicks, K)
		}
	}
	if thorough {
		cb3 := allCfgs(3, []int64{10 * sec})
		for i := 0; i < len(cb3); i++ {
			for j := i; j < len(cb3); j++ {
				if len(cb3[i].prog) < 3 && len(cb3[j].prog) < 3 {
					continue
				}
				if !hasAcquire(cb3[i]) || !hasAcquire(cb3[j]) {
					continue
				}
				pair := []cfg{cb3[i], cb3[j]}
				if !mine() {
					continue
				}
				ncfg++
				explore(cw, toSpecs(pair), classOf("s3", pair), cnt, 0, boundaryTicks, 1)
			}
		}
	}
	extra["scope_boundary_max_ticks"] = K
	extra["scope_boundary_tick_durations_ns"] = boundaryTicks
	scope("boundary", before, ncfg, true)

	// scope 4 (sampled): 2..3 clients, TTLs from a mixed set, programs of length 1..3, a random
	// schedule with up to 4 ticks; one execution per sample.
	before = cnt.schedules
	budget4 := 10000
	if thorough {
		budget4 = 300000 / *parts
	}
	if *n > 0 {
		budget4 = *n
	}
	ttls := []int64{10 * sec, 10 * sec, 3 * sec, 2 * sec, 1 * sec, 1 * ns, 0, -1 * ns, -hr, hr}
	tickSet := append(append([]int64(nil), boundaryTicks...), 1*ms, 1*sec, 2*sec, 2*sec+1*ns, 3*sec, 3*sec-1*ns, 7*sec, 0)
	progs := programs(3)
	for k := 0; k < budget4; k++ {
		nc := 2 + r.Intn(2)
		var cfgs []cfg
		for i := 0; i < nc; i++ {
			cfgs = append(cfgs, cfg{progs[r.Intn(len(progs))], ttls[r.Intn(len(ttls))]})
		}
		var sched []step
		nticks := r.Intn(5)
		ln := 4 + r.Intn(16)
		for i := 0; i < ln; i++ {
			if nticks > 0 && r.Intn(4) == 0 {
				sched = append(sched, step{tick: true, d: tickSet[r.Intn(len(tickSet))]})
				nticks--
			} else {
				sched = append(sched, step{client: r.Intn(nc)})
			}
		}
		specs := toSpecs(cfgs)
		rr := runSchedule(specs, sched)
		// the input is the schedule as generated (the model skips and completes it the same way)
		emit(cw, specs, sched, rr, fmt.Sprintf("s4/%dclients/random", nc), cnt)
	}
	scope("random", before, budget4, false)

	extra["schedules"] = cnt.schedules
	extra["schedules_with_ticks"] = cnt.ticked
	extra["max_requests_in_a_schedule"] = cnt.maxRequests
	extra["part"] = fmt.Sprintf("%d/%d", *part, *parts)
	extra["clock"] = "testing/synctest fake clock (exact, advanced only by the schedule's ticks)"

	if err := cw.Close(); err != nil {
		return err
	}
	st := cw.Stats()
	st.Extra = extra
	if *countOnly {
		fmt.Println(extra)
	}
	return WriteJSON(filepath.Join(*out, "stats.json"), st)
}

// replayLease re-runs the schedules of the lease_run cases of a case file on the
// implementation and writes fresh cases (same inputs, newly observed outputs).
func replayLease(path, out string) error {
	cases, err := ReadCases(path)
	if err != nil {
		return err
	}
	cw, err := NewCaseWriter(filepath.Join(out, "cases.txt"))
	if err != nil {
		return err
	}
	for _, c := range cases {
		if c.Entry != "lease_run" {
			continue
		}
		var specs []clientSpec
		for _, x := range c.In.At(0).List {
			sp := clientSpec{owner: int(x.At(0).Int()), ttl: x.At(1).Int()}
			for _, o := range x.At(2).List {
				sp.prog = append(sp.prog, int(o.Int()))
			}
			specs = append(specs, sp)
		}
		var sched []step
		for _, x := range c.In.At(1).List {
			if x.IsL {
				sched = append(sched, step{tick: true, d: x.At(0).Int()})
			} else {
				sched = append(sched, step{client: int(x.Int())})
			}
		}
		rr := runSchedule(specs, sched)
		evs := eventsSx(rr.events)
		cw.Add("lease_run", L(specsSx(specs), stepsSx(sched)), L(evs, rr.final), "replay", true)
		cw.Add("lease_mutex_ok", L(evs), I(1), "replay", true)
		cw.Add("lease_gen_strict_ok", L(evs), I(1), "replay", true)
		fmt.Printf("replayed %s schedule %s: events %s final %s\n", strings.TrimSpace(SxString(specsSx(specs))), SxString(stepsSx(sched)), SxString(evs), SxString(rr.final))
	}
	return cw.Close()
}
