// Command lease: correspondence cases for the S3 leaser (C20).
//
// The REAL s3.Leaser (one per client) runs over an in-memory S3API stub with
// S3's conditional-request semantics. Every storage request of every client
// parks on a scheduler; a schedule (list of client indices) says whose parked
// request is executed next. All schedules of small client/program scopes are
// enumerated (stateless DFS: each execution is one complete schedule). For each
// schedule the harness writes
//
//	lease_run            input (clients, schedule)  observed (call results in completion order, final store)
//	lease_mutex_ok       input (observed call results)  expected 1   (spec oracle)
//	lease_gen_strict_ok  input (observed call results)  expected 1   (spec oracle)
//
// Timestamps never leave the harness: a lease is reported as live / expired only.
package main

import (
	"bytes"
	"context"
	"crypto/md5"
	"encoding/hex"
	"encoding/json"
	"errors"
	"flag"
	"fmt"
	"io"
	"os"
	"path/filepath"
	"sort"
	"strings"
	"time"

	"github.com/aws/aws-sdk-go-v2/service/s3"
	"github.com/aws/smithy-go"
	"github.com/benbjohnson/litestream"
	lss3 "github.com/benbjohnson/litestream/s3"
	. "verifharness/hx"
)

// ---- in-memory conditional object store ---------------------------------------

// apiError implements smithy.APIError (ErrorCode/ErrorMessage/ErrorFault).
type apiError struct{ code string }

func (e *apiError) Error() string                 { return "api error " + e.code }
func (e *apiError) ErrorCode() string             { return e.code }
func (e *apiError) ErrorMessage() string          { return e.code }
func (e *apiError) ErrorFault() smithy.ErrorFault { return smithy.FaultClient }

type memStore struct {
	objs map[string][]byte
}

func etagOf(b []byte) string { s := md5.Sum(b); return hex.EncodeToString(s[:]) }

func skey(b, k *string) string {
	bs, ks := "", ""
	if b != nil {
		bs = *b
	}
	if k != nil {
		ks = *k
	}
	return bs + "/" + ks
}

// the three requests; each runs atomically (the scheduler lets one client run at a time)
func (m *memStore) get(in *s3.GetObjectInput) (*s3.GetObjectOutput, error) {
	b, ok := m.objs[skey(in.Bucket, in.Key)]
	if !ok {
		return nil, &apiError{"NoSuchKey"}
	}
	et := etagOf(b)
	return &s3.GetObjectOutput{Body: io.NopCloser(bytes.NewReader(append([]byte(nil), b...))), ETag: &et}, nil
}

func (m *memStore) put(in *s3.PutObjectInput) (*s3.PutObjectOutput, error) {
	k := skey(in.Bucket, in.Key)
	cur, ok := m.objs[k]
	if in.IfNoneMatch != nil && *in.IfNoneMatch == "*" && ok {
		return nil, &apiError{"PreconditionFailed"}
	}
	if in.IfMatch != nil {
		if !ok {
			return nil, &apiError{"NoSuchKey"}
		}
		if *in.IfMatch != etagOf(cur) {
			return nil, &apiError{"PreconditionFailed"}
		}
	}
	var body []byte
	if in.Body != nil {
		var err error
		if body, err = io.ReadAll(in.Body); err != nil {
			return nil, err
		}
	}
	m.objs[k] = body
	et := etagOf(body)
	return &s3.PutObjectOutput{ETag: &et}, nil
}

func (m *memStore) del(in *s3.DeleteObjectInput) (*s3.DeleteObjectOutput, error) {
	k := skey(in.Bucket, in.Key)
	cur, ok := m.objs[k]
	if in.IfMatch != nil {
		if !ok {
			return nil, &apiError{"NoSuchKey"}
		}
		if *in.IfMatch != etagOf(cur) {
			return nil, &apiError{"PreconditionFailed"}
		}
	}
	delete(m.objs, k)
	return &s3.DeleteObjectOutput{}, nil
}

// ---- scheduler ----------------------------------------------------------------

type clientSpec struct {
	owner int   // 1.. ; owner string = "A","B",...
	live  bool  // TTL = +1h (true) or -1h (false: the lease is born expired)
	prog  []int // 0 acquire, 1 renew, 2 release
}

type event struct {
	client, op int
	res        Sx
	ok         bool
}

type runClient struct {
	idx      int
	spec     clientSpec
	status   chan bool // true: parked on a request; false: program finished
	resume   chan struct{}
	parked   bool
	requests int
}

type world struct {
	store  *memStore
	cls    []*runClient
	events []event
}

// gate is the stub each Leaser talks to: it parks the calling client, then runs the request.
type gate struct {
	w *world
	c *runClient
}

func (g *gate) park() {
	g.c.requests++
	g.c.status <- true
	<-g.c.resume
}

func (g *gate) GetObject(ctx context.Context, in *s3.GetObjectInput, _ ...func(*s3.Options)) (*s3.GetObjectOutput, error) {
	g.park()
	return g.w.store.get(in)
}
func (g *gate) PutObject(ctx context.Context, in *s3.PutObjectInput, _ ...func(*s3.Options)) (*s3.PutObjectOutput, error) {
	g.park()
	return g.w.store.put(in)
}
func (g *gate) DeleteObject(ctx context.Context, in *s3.DeleteObjectInput, _ ...func(*s3.Options)) (*s3.DeleteObjectOutput, error) {
	g.park()
	return g.w.store.del(in)
}

func ownerName(id int) string { return string(rune('A' + id - 1)) }
func ownerID(s string) int64 {
	if s == "" {
		return 0
	}
	if len(s) == 1 && s[0] >= 'A' && s[0] <= 'Z' {
		return int64(s[0]-'A') + 1
	}
	return 99
}

func liveBit(t time.Time) Sx { return B(time.Until(t) > 0) }

func errSx(err error) Sx {
	var le *litestream.LeaseExistsError
	switch {
	case errors.As(err, &le):
		return L(I(1), I(ownerID(le.Owner)), liveBit(le.ExpiresAt))
	case errors.Is(err, lss3.ErrLeaseRequired):
		return L(I(2))
	case errors.Is(err, lss3.ErrLeaseETagRequired):
		return L(I(3))
	case errors.Is(err, litestream.ErrLeaseNotHeld):
		return L(I(4))
	case errors.Is(err, lss3.ErrLeaseAlreadyReleased):
		return L(I(5))
	}
	return L(I(6))
}

func leaseSx(l *litestream.Lease) Sx {
	return L(I(0), I(l.Generation), I(ownerID(l.Owner)), liveBit(l.ExpiresAt))
}

// one call of the real leaser; panics of the code under test become result (7)
func doCall(l *lss3.Leaser, op int, held **litestream.Lease) (res Sx, ok bool) {
	defer func() {
		if r := recover(); r != nil {
			res, ok = L(I(7)), false
		}
	}()
	ctx := context.Background()
	switch op {
	case 0:
		nl, err := l.AcquireLease(ctx)
		if err != nil {
			return errSx(err), false
		}
		if nl == nil {
			return L(I(8)), false
		}
		*held = nl
		return leaseSx(nl), true
	case 1:
		nl, err := l.RenewLease(ctx, *held)
		if err != nil {
			return errSx(err), false
		}
		if nl == nil {
			return L(I(8)), false
		}
		*held = nl
		return leaseSx(nl), true
	default:
		if err := l.ReleaseLease(ctx, *held); err != nil {
			return errSx(err), false
		}
		*held = nil
		return L(I(0)), true
	}
}

func (w *world) clientMain(c *runClient) {
	l := lss3.NewLeaser()
	l.SetLogger(QuietLogger())
	l.SetClient(&gate{w, c})
	l.Owner = ownerName(c.spec.owner)
	l.Bucket = "b"
	if c.spec.live {
		l.TTL = time.Hour
	} else {
		l.TTL = -time.Hour
	}
	var held *litestream.Lease
	for _, op := range c.spec.prog {
		res, ok := doCall(l, op, &held)
		// only one client runs at a time, so this append is ordered by completion
		w.events = append(w.events, event{c.idx, op, res, ok})
	}
	c.status <- false
}

type runResult struct {
	taken    []int   // the complete schedule that was executed
	alts     [][]int // alts[j]: clients parked at position j other than the one taken
	events   []event
	final    Sx
	requests []int
}

// runSchedule executes the clients under the given schedule prefix; once the
// prefix is used up the lowest-index parked client runs. A choice naming a
// client that is not parked is skipped (and not recorded in taken).
func runSchedule(specs []clientSpec, prefix []int) runResult {
	w := &world{store: &memStore{objs: map[string][]byte{}}}
	for i, sp := range specs {
		w.cls = append(w.cls, &runClient{idx: i, spec: sp, status: make(chan bool), resume: make(chan struct{})})
	}
	// clients start one after the other: each runs to its first request (or to its end)
	for _, c := range w.cls {
		go w.clientMain(c)
		c.parked = <-c.status
	}
	var rr runResult
	step := func(i int) {
		c := w.cls[i]
		c.resume <- struct{}{}
		c.parked = <-c.status
	}
	for _, i := range prefix {
		if i < 0 || i >= len(w.cls) || !w.cls[i].parked {
			continue
		}
		rr.taken = append(rr.taken, i)
		rr.alts = append(rr.alts, nil) // alternatives inside the prefix belong to other executions
		step(i)
	}
	for {
		first := -1
		var others []int
		for i, c := range w.cls {
			if c.parked {
				if first < 0 {
					first = i
				} else {
					others = append(others, i)
				}
			}
		}
		if first < 0 {
			break
		}
		rr.taken = append(rr.taken, first)
		rr.alts = append(rr.alts, others)
		step(first)
	}
	rr.events = w.events
	rr.final = L()
	if b, ok := w.store.objs["b/lock.json"]; ok {
		var l litestream.Lease
		if err := json.Unmarshal(b, &l); err != nil {
			rr.final = L(I(-1))
		} else {
			rr.final = L(I(l.Generation), I(ownerID(l.Owner)), liveBit(l.ExpiresAt))
		}
	}
	if _, ok := w.store.objs["b/lock.json"]; len(w.store.objs) > 1 || (len(w.store.objs) == 1 && !ok) {
		rr.final = L(I(-2)) // an object under an unexpected key
	}
	for _, c := range w.cls {
		rr.requests = append(rr.requests, c.requests)
	}
	return rr
}

// ---- case emission ------------------------------------------------------------------

func specsSx(specs []clientSpec) Sx {
	out := SxList{}
	for _, sp := range specs {
		p := SxList{}
		for _, o := range sp.prog {
			p = append(p, I(int64(o)))
		}
		out = append(out, L(I(int64(sp.owner)), B(sp.live), p))
	}
	return out
}

func intsSx(xs []int) Sx {
	out := SxList{}
	for _, x := range xs {
		out = append(out, I(int64(x)))
	}
	return out
}

func eventsSx(evs []event) Sx {
	out := SxList{}
	for _, e := range evs {
		out = append(out, L(I(int64(e.client)), I(int64(e.op)), e.res))
	}
	return out
}

type counters struct {
	schedules, configs int
	maxRequests        int
}

func emit(cw *CaseWriter, specs []clientSpec, rr runResult, class string) {
	evs := eventsSx(rr.events)
	active, okCalls := 0, 0
	for _, n := range rr.requests {
		if n > 0 {
			active++
		}
	}
	for _, e := range rr.events {
		if e.ok {
			okCalls++
		}
	}
	nontriv := active >= 2 && okCalls >= 1
	cw.Add("lease_run", L(specsSx(specs), intsSx(rr.taken)), L(evs, rr.final), class, nontriv)
	cw.Add("lease_mutex_ok", L(evs), I(1), class+"/oracle", false)
	cw.Add("lease_gen_strict_ok", L(evs), I(1), class+"/oracle", false)
}

// explore enumerates every complete schedule of the clients exactly once.
func explore(cw *CaseWriter, specs []clientSpec, class string, cnt *counters, budget int) {
	stack := [][]int{{}}
	for len(stack) > 0 {
		if budget > 0 && cnt.schedules >= budget {
			return
		}
		prefix := stack[len(stack)-1]
		stack = stack[:len(stack)-1]
		rr := runSchedule(specs, prefix)
		cnt.schedules++
		tot := 0
		for _, n := range rr.requests {
			tot += n
		}
		if tot > cnt.maxRequests {
			cnt.maxRequests = tot
		}
		emit(cw, specs, rr, class)
		for j := len(prefix); j < len(rr.taken); j++ {
			for _, a := range rr.alts[j] {
				np := append(append([]int(nil), rr.taken[:j]...), a)
				stack = append(stack, np)
			}
		}
	}
}

func programs(maxLen int) [][]int {
	var out [][]int
	var rec func(cur []int)
	rec = func(cur []int) {
		if len(cur) > 0 {
			out = append(out, append([]int(nil), cur...))
		}
		if len(cur) == maxLen {
			return
		}
		for o := 0; o < 3; o++ {
			rec(append(cur, o))
		}
	}
	rec(nil)
	return out
}

type cfg struct {
	prog []int
	live bool
}

func cfgKey(c cfg) string {
	s := "-"
	if c.live {
		s = "+"
	}
	for _, o := range c.prog {
		s += string(rune('0' + o))
	}
	return s
}

func allCfgs(maxLen int) []cfg {
	var out []cfg
	for _, p := range programs(maxLen) {
		out = append(out, cfg{p, false}, cfg{p, true})
	}
	sort.Slice(out, func(i, j int) bool { return cfgKey(out[i]) < cfgKey(out[j]) })
	return out
}

func maxLenOf(cs []cfg) int {
	m := 0
	for _, c := range cs {
		if len(c.prog) > m {
			m = len(c.prog)
		}
	}
	return m
}

func classOf(cs []cfg) string {
	s := ""
	for _, c := range cs {
		if c.live {
			s += "+"
		} else {
			s += "-"
		}
	}
	return fmt.Sprintf("%dclients/len%d/ttl%s", len(cs), maxLenOf(cs), s)
}

func toSpecs(cs []cfg) []clientSpec {
	var out []clientSpec
	for i, c := range cs {
		out = append(out, clientSpec{owner: i + 1, live: c.live, prog: c.prog})
	}
	return out
}

// useful: a program that can never issue a request (starts with renew/release and never acquires) adds nothing
func hasAcquire(c cfg) bool {
	for _, o := range c.prog {
		if o == 0 {
			return true
		}
	}
	return false
}

func main() {
	args := os.Args[1:]
	if len(args) > 0 && args[0] == "lease" {
		args = args[1:]
	}
	if err := cmdLease(args); err != nil {
		fmt.Fprintln(os.Stderr, "harness error:", err)
		os.Exit(3)
	}
}

func cmdLease(args []string) error {
	fl := flag.NewFlagSet("lease", flag.ContinueOnError)
	out := fl.String("out", "", "work directory")
	n := fl.Int("n", 0, "cap on the number of sampled (non-exhaustive) schedules of the larger scopes")
	seed := fl.Int64("seed", 1, "PRNG seed (sampling of the larger scopes)")
	tier := fl.String("tier", "quick", "quick | thorough")
	replay := fl.String("replay", "", "case file whose lease_run inputs are re-run on the implementation")
	countOnly := fl.Bool("count", false, "also print the scope sizes")
	part := fl.Int("part", 0, "process only the client configurations with index %% parts == part")
	parts := fl.Int("parts", 1, "number of parts the enumeration is split into (one case file each)")
	if err := fl.Parse(args); err != nil {
		return err
	}
	if *replay != "" {
		return replayLease(*replay, *out)
	}
	if *out == "" {
		return fmt.Errorf("-out is required")
	}
	if *parts < 1 || *part < 0 || *part >= *parts {
		return fmt.Errorf("bad -part/-parts")
	}
	cfgIdx := 0
	mine := func() bool { cfgIdx++; return (cfgIdx-1)%*parts == *part }
	cw, err := NewCaseWriter(filepath.Join(*out, "cases.txt"))
	if err != nil {
		return err
	}
	r := NewRand(*seed)
	cnt := &counters{}
	extra := map[string]any{}

	// scope 1 (exhaustive): 2 clients, every pair of (program of length 1..L, TTL sign),
	// up to exchanging the two clients; every interleaving of their requests.
	L2 := 3
	if *tier == "thorough" {
		L2 = 4
	}
	cs := allCfgs(L2)
	before := cnt.schedules
	for i := 0; i < len(cs); i++ {
		for j := i; j < len(cs); j++ {
			pair := []cfg{cs[i], cs[j]}
			if !mine() {
				continue
			}
			cnt.configs++
			explore(cw, toSpecs(pair), classOf(pair), cnt, 0)
		}
	}
	extra["scope_2clients_maxlen"] = L2
	extra["scope_2clients_configs"] = cnt.configs
	extra["scope_2clients_schedules"] = cnt.schedules - before
	extra["scope_2clients_exhaustive"] = true

	// scope 2: 3 clients. thorough: exhaustive for programs of length <= 2 that contain an
	// acquire; quick: a seeded sample of such triples, each explored exhaustively.
	cs3 := []cfg{}
	for _, c := range allCfgs(2) {
		if hasAcquire(c) {
			cs3 = append(cs3, c)
		}
	}
	before = cnt.schedules
	cfg3 := 0
	if *tier == "thorough" {
		for i := 0; i < len(cs3); i++ {
			for j := i; j < len(cs3); j++ {
				for k := j; k < len(cs3); k++ {
					tr := []cfg{cs3[i], cs3[j], cs3[k]}
					if !mine() {
						continue
					}
					cfg3++
					explore(cw, toSpecs(tr), classOf(tr), cnt, 0)
				}
			}
		}
		extra["scope_3clients_exhaustive"] = true
	} else {
		budget := *n
		if budget <= 0 {
			budget = 20000
		}
		start := cnt.schedules
		perTriple := 500 // a triple is explored depth-first up to this many schedules, so that many triples are seen
		for cnt.schedules-start < budget {
			tr := []cfg{cs3[r.Intn(len(cs3))], cs3[r.Intn(len(cs3))], cs3[r.Intn(len(cs3))]}
			cfg3++
			lim := cnt.schedules + perTriple
			if lim > start+budget {
				lim = start + budget
			}
			explore(cw, toSpecs(tr), classOf(tr), cnt, lim)
		}
		extra["scope_3clients_exhaustive"] = false
	}
	extra["scope_3clients_configs"] = cfg3
	extra["scope_3clients_schedules"] = cnt.schedules - before
	extra["schedules"] = cnt.schedules
	extra["part"] = fmt.Sprintf("%d/%d", *part, *parts)
	extra["max_requests_in_a_schedule"] = cnt.maxRequests

	if err := cw.Close(); err != nil {
		return err
	}
	st := cw.Stats()
	st.Extra = extra
	if *countOnly {
		fmt.Println(extra)
	}
	return WriteJSON(filepath.Join(*out, "stats.json"), st)
}

// replayLease re-runs the schedules of the lease_run cases of a case file on the
// implementation and writes fresh cases (same inputs, newly observed outputs).
func replayLease(path, out string) error {
	cases, err := ReadCases(path)
	if err != nil {
		return err
	}
	cw, err := NewCaseWriter(filepath.Join(out, "cases.txt"))
	if err != nil {
		return err
	}
	for _, c := range cases {
		if c.Entry != "lease_run" {
			continue
		}
		var specs []clientSpec
		for _, x := range c.In.At(0).List {
			sp := clientSpec{owner: int(x.At(0).Int()), live: x.At(1).Int() != 0}
			for _, o := range x.At(2).List {
				sp.prog = append(sp.prog, int(o.Int()))
			}
			specs = append(specs, sp)
		}
		var sched []int
		for _, x := range c.In.At(1).List {
			sched = append(sched, int(x.Int()))
		}
		rr := runSchedule(specs, sched)
		// keep the input schedule as given (the model skips and completes it the same way)
		evs := eventsSx(rr.events)
		cw.Add("lease_run", L(specsSx(specs), intsSx(sched)), L(evs, rr.final), "replay", true)
		cw.Add("lease_mutex_ok", L(evs), I(1), "replay", true)
		cw.Add("lease_gen_strict_ok", L(evs), I(1), "replay", true)
		fmt.Printf("replayed %s schedule %v: events %s final %s\n", strings.TrimSpace(SxString(specsSx(specs))), sched, SxString(evs), SxString(rr.final))
	}
	return cw.Close()
}
