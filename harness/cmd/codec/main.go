// Command codec: correspondence cases for the Codec layer (LTX byte layout,
// coq/Codec/*.v) and byte-level C10 oracles.
//
// Files come from the real ltx.Encoder (random abstract files: snapshots and
// incremental files, page sizes 512/1024, page numbers next to the lock page,
// empty page lists, checksum-tracking and NoChecksum headers) and from real
// litestream replicas (L0, compacted and snapshot files of a real database).
// Every file is decoded with the real ltx.Decoder the way ltx.Compactor and
// Decoder.Verify drive it (DecodeHeader, DecodePage until io.EOF with one
// reused buffer, Close), with ltx.Compactor itself, and — snapshots — through
// Replica.Restore, for the original, for truncation lengths and for bit flips.
//
// LZ4 and CRC-64 are abstract in the model: the harness records what the real
// lz4.UncompressBlock answered for every block the decoder hands it, and the
// CRC of the hashed stream it assembles itself from the parsed segments.
package main

import (
	"bytes"
	"context"
	"database/sql"
	"encoding/binary"
	"errors"
	"flag"
	"fmt"
	"hash/crc64"
	"io"
	"math/rand"
	"os"
	"path/filepath"
	"sort"
	"strings"
	"sync"

	"github.com/benbjohnson/litestream"
	"github.com/benbjohnson/litestream/file"
	"github.com/pierrec/lz4/v4"
	"github.com/superfly/ltx"
	_ "modernc.org/sqlite"
	. "verifharness/hx"
)

const sigF7 = "C10/ltx-decoder-close-panics-on-truncation-within-8-bytes-after-page-block-end"

// ---- abstract files ---------------------------------------------------------

type pageIn struct {
	pgno uint32
	data []byte
}

type absFile struct {
	hdr   ltx.Header
	pages []pageIn
	post  ltx.Checksum
	note  string
}

func hdrValues(h ltx.Header) Sx {
	return L(U(uint64(h.Flags)), U(uint64(h.PageSize)), U(uint64(h.Commit)), U(uint64(h.MinTXID)), U(uint64(h.MaxTXID)),
		U(uint64(h.Timestamp)), U(uint64(h.PreApplyChecksum)), U(uint64(h.WALOffset)), U(uint64(h.WALSize)),
		U(uint64(h.WALSalt1)), U(uint64(h.WALSalt2)), U(h.NodeID))
}

func encodeReal(f absFile) (out []byte, err error) {
	defer func() {
		if p := recover(); p != nil {
			err = fmt.Errorf("panic: %v", p)
		}
	}()
	var buf bytes.Buffer
	enc, err := ltx.NewEncoder(&buf)
	if err != nil {
		return nil, err
	}
	if err := enc.EncodeHeader(f.hdr); err != nil {
		return nil, err
	}
	for _, p := range f.pages {
		if err := enc.EncodePage(ltx.PageHeader{Pgno: p.pgno}, p.data); err != nil {
			return nil, err
		}
	}
	enc.SetPostApplyChecksum(f.post)
	if err := enc.Close(); err != nil {
		return nil, err
	}
	return buf.Bytes(), nil
}

func compressedLen(d []byte) int {
	var c lz4.Compressor
	buf := make([]byte, lz4.CompressBlockBound(len(d))+16)
	n, err := c.CompressBlock(d, buf)
	if err != nil {
		return 0
	}
	return n
}

func pageData(r *rand.Rand, ps int) []byte {
	b := make([]byte, ps)
	switch r.Intn(6) {
	case 0: // zero page
	case 1:
		c := byte(1 + r.Intn(255))
		for i := range b {
			b[i] = c
		}
	case 2:
		var pat [4]byte
		r.Read(pat[:])
		for i := range b {
			b[i] = pat[i%4]
		}
	case 3:
		r.Read(b)
	case 4:
		r.Read(b[:ps/4])
	default: // sqlite-like: small header, zeros, cell content at the end
		r.Read(b[:16])
		r.Read(b[ps-40-r.Intn(60):])
	}
	return b
}

func rolling(ps uint32, pages []pageIn) ltx.Checksum {
	c := ltx.ChecksumFlag
	for _, p := range pages {
		if p.pgno != ltx.LockPgno(ps) {
			c = ltx.ChecksumFlag | (c ^ ltx.ChecksumPage(p.pgno, p.data))
		}
	}
	return c
}

func genValid(r *rand.Rand, thorough bool) absFile {
	sizes := []uint32{512, 1024}
	if thorough {
		sizes = []uint32{512, 1024, 2048, 4096, 8192}
	}
	ps := sizes[r.Intn(len(sizes))]
	h := ltx.Header{Version: ltx.Version, Flags: ltx.HeaderFlagNoChecksum, PageSize: ps, Timestamp: r.Int63n(1 << 50), NodeID: r.Uint64()}
	tracking := r.Intn(5) == 0
	if tracking {
		h.Flags = 0
	}
	if r.Intn(2) == 0 {
		h.WALOffset = 32 + int64(r.Intn(1<<20))
		h.WALSize = int64(r.Intn(1 << 20))
		h.WALSalt1, h.WALSalt2 = r.Uint32(), r.Uint32()
	}
	f := absFile{}
	lock := ltx.LockPgno(ps)
	if r.Intn(5) < 2 { // snapshot
		h.MinTXID, h.MaxTXID = 1, ltx.TXID(1+r.Intn(5))
		h.Commit = uint32(1 + r.Intn(6))
		f.note = "snapshot"
		if r.Intn(8) == 0 {
			f.note = "snapshot-no-pages"
		} else {
			for p := uint32(1); p <= h.Commit; p++ {
				f.pages = append(f.pages, pageIn{p, pageData(r, int(ps))})
			}
		}
		if tracking && r.Intn(4) == 0 {
			h.Commit, f.pages, f.note = 0, nil, "deletion-file"
		}
	} else {
		h.MinTXID = ltx.TXID(2 + r.Intn(1000))
		h.MaxTXID = h.MinTXID + ltx.TXID(r.Intn(3))
		f.note = "incremental"
		var cand []uint32
		if r.Intn(4) == 0 {
			h.Commit = lock + uint32(r.Intn(3))
			cand = []uint32{1, 2, lock - 2, lock - 1, lock + 1, lock + 2}
			f.note = "incremental-lock-adjacent"
		} else {
			h.Commit = uint32(1 + r.Intn(12))
			for p := uint32(1); p <= h.Commit; p++ {
				cand = append(cand, p)
			}
		}
		for _, p := range cand {
			if p <= h.Commit && p != lock && r.Intn(3) != 0 && len(f.pages) < 6 {
				f.pages = append(f.pages, pageIn{p, pageData(r, int(ps))})
			}
		}
		if len(f.pages) == 0 {
			f.note += "-no-pages"
		}
	}
	if tracking {
		f.note += "+checksums"
		if h.MinTXID == 1 {
			f.post = rolling(ps, f.pages)
		} else {
			h.PreApplyChecksum = ltx.ChecksumFlag | ltx.Checksum(r.Uint64())
			f.post = ltx.ChecksumFlag | ltx.Checksum(r.Uint64())
		}
	}
	f.hdr = h
	return f
}

// genInvalid breaks one encoder rule of a valid abstract file.
func genInvalid(r *rand.Rand, thorough bool) absFile {
	f := genValid(r, thorough)
	for len(f.pages) < 2 || f.hdr.MinTXID == 1 {
		f = genValid(r, thorough)
	}
	f.hdr.Flags, f.hdr.PreApplyChecksum, f.post = ltx.HeaderFlagNoChecksum, 0, 0
	ps := f.hdr.PageSize
	k := r.Intn(22)
	f.note = fmt.Sprintf("invalid-%d", k)
	switch k {
	case 0:
		f.hdr.Commit = ltx.LockPgno(ps) + 1
		f.pages = append(f.pages, pageIn{ltx.LockPgno(ps), pageData(r, int(ps))})
	case 1:
		f.pages[0], f.pages[1] = f.pages[1], f.pages[0]
	case 2:
		f.pages[len(f.pages)-1].pgno = f.hdr.Commit + 1
	case 3:
		f.pages[0].pgno = 0
	case 4:
		f.pages[0].data = f.pages[0].data[:ps/2]
	case 5: // snapshot not starting at page 1
		f.hdr.MinTXID, f.hdr.MaxTXID = 1, 3
		f.pages = []pageIn{{2, pageData(r, int(ps))}}
		f.hdr.Commit = 2
	case 6: // snapshot with a gap
		f.hdr.MinTXID, f.hdr.MaxTXID = 1, 3
		f.pages = []pageIn{{1, pageData(r, int(ps))}, {3, pageData(r, int(ps))}}
		f.hdr.Commit = 3
	case 7:
		f.hdr.PageSize = 1000
	case 8:
		f.hdr.MinTXID = 0
	case 9:
		f.hdr.MaxTXID = f.hdr.MinTXID - 1
	case 10:
		f.hdr.WALOffset, f.hdr.WALSize, f.hdr.WALSalt1 = 0, 0, 7
	case 11:
		f.hdr.WALOffset, f.hdr.WALSize, f.hdr.WALSalt1, f.hdr.WALSalt2 = 0, 9, 0, 0
	case 12:
		f.hdr.WALOffset = -5
	case 13:
		f.hdr.Flags = 1
	case 14:
		f.hdr.Flags = 6
	case 15:
		f.hdr.PreApplyChecksum = ltx.ChecksumFlag | 5
	case 16:
		f.hdr.Flags = 0 // tracking, pre-apply missing
		f.post = ltx.ChecksumFlag | 9
	case 17:
		f.hdr.Flags, f.hdr.PreApplyChecksum = 0, 77 // no flag bit
		f.post = ltx.ChecksumFlag | 9
	case 18:
		f.post = ltx.ChecksumFlag | 3 // not allowed with NoChecksum
	case 19:
		f.hdr.Flags, f.hdr.PreApplyChecksum = 0, ltx.ChecksumFlag|1
		f.post = 0
	case 20:
		f.hdr.Commit, f.pages = 0, nil
	default:
		f.hdr.WALSize = -1
		f.hdr.WALOffset = 40
	}
	return f
}

// ---- segments of a well-formed file -------------------------------------------

type frame struct {
	off  int
	phb  []byte
	szb  []byte
	blk  []byte
	data []byte
	pgno uint32
}

type segs struct {
	frames  []frame
	endOff  int // offset right after the zero page header
	idxLen  int // index incl. its 8-byte length
	trailer []byte
}

func parseSegments(b []byte, ps int) (*segs, error) {
	s := &segs{}
	off := ltx.HeaderSize
	for {
		if off+6 > len(b) {
			return nil, fmt.Errorf("short page header at %d", off)
		}
		phb := b[off : off+6]
		if bytes.Equal(phb, make([]byte, 6)) {
			off += 6
			break
		}
		if off+10 > len(b) {
			return nil, fmt.Errorf("short size at %d", off)
		}
		n := int(binary.BigEndian.Uint32(b[off+6:]))
		if off+10+n > len(b) {
			return nil, fmt.Errorf("short block at %d", off)
		}
		data := make([]byte, ps)
		if m, err := lz4.UncompressBlock(b[off+10:off+10+n], data); err != nil || m != ps {
			return nil, fmt.Errorf("block at %d: n=%d err=%v", off, m, err)
		}
		s.frames = append(s.frames, frame{off: off, phb: phb, szb: b[off+6 : off+10], blk: b[off+10 : off+10+n], data: data,
			pgno: binary.BigEndian.Uint32(phb)})
		off += 10 + n
	}
	s.endOff = off
	s.idxLen = len(b) - ltx.TrailerSize - off
	if s.idxLen < 9 {
		return nil, fmt.Errorf("no room for index")
	}
	s.trailer = b[len(b)-ltx.TrailerSize:]
	return s, nil
}

// hashedStream: what the file checksum covers according to the model (Codec.v stream):
// header, page headers, size prefixes, UNCOMPRESSED data, end marker, index, first trailer half.
func hashedStream(b []byte, s *segs) []byte {
	var st []byte
	st = append(st, b[:ltx.HeaderSize]...)
	for _, f := range s.frames {
		st = append(st, f.phb...)
		st = append(st, f.szb...)
		st = append(st, f.data...)
	}
	st = append(st, b[s.endOff-6:len(b)-8]...)
	return st
}

func crcFlag(b []byte) uint64 {
	h := crc64.New(crc64.MakeTable(crc64.ISO))
	_, _ = h.Write(b)
	return uint64(ltx.ChecksumFlag) | h.Sum64()
}

func wsum(b []byte) uint64 {
	var acc uint64
	for i, c := range b {
		acc = (acc + uint64(i+1)*uint64(c)) % (1 << 32)
	}
	return acc
}

// ---- the real decoder ---------------------------------------------------------------

type decPage struct {
	pgno uint32
	data []byte
}

type decRes struct {
	class, code int64
	hdr         ltx.Header
	pages       []decPage
	trailer     ltx.Trailer
	index       map[uint32]ltx.PageIndexElem
	panicMsg    string
}

func hdrErrCode(err error) int64 {
	if errors.Is(err, io.EOF) || errors.Is(err, io.ErrUnexpectedEOF) {
		return 1
	}
	if errors.Is(err, ltx.ErrInvalidFile) {
		return 2
	}
	s := err.Error()
	for _, m := range []struct {
		t string
		c int64
	}{{"invalid flags", 3}, {"invalid page size", 4}, {"minimum transaction id required", 5}, {"maximum transaction id required", 6},
		{"transaction ids out of order", 7}, {"wal offset cannot be negative", 8}, {"wal size cannot be negative", 9},
		{"wal offset required if salt", 10}, {"wal offset required if wal size", 11}, {"pre-apply checksum must be zero on snapshots", 12},
		{"pre-apply checksum not allowed", 13}, {"pre-apply checksum required", 14}, {"invalid pre-apply checksum format", 15}} {
		if strings.Contains(s, m.t) {
			return m.c
		}
	}
	return 50
}

// oldFormatAt: does the k-th frame of b (walking size-prefixed frames) lack PageHeaderFlagSize?
func oldFormatAt(b []byte, k int) bool {
	off := ltx.HeaderSize
	for i := 0; ; i++ {
		if off+6 > len(b) {
			return false
		}
		flags := binary.BigEndian.Uint16(b[off+4:])
		if i == k {
			return flags&1 == 0 && !bytes.Equal(b[off:off+6], make([]byte, 6))
		}
		if flags&1 == 0 || off+10 > len(b) {
			return false
		}
		off += 10 + int(binary.BigEndian.Uint32(b[off+6:]))
	}
}

func pageErrCode(err error, b []byte, k int) int64 {
	s := err.Error()
	switch {
	case strings.Contains(s, "read data size"):
		return 23
	case strings.Contains(s, "read compressed data"):
		return 24
	case strings.Contains(s, "decompress block"):
		return 25
	case strings.Contains(s, "page number required"):
		return 21
	case strings.Contains(s, "invalid page header flags"):
		return 22
	}
	if oldFormatAt(b, k) {
		return 26
	}
	if errors.Is(err, io.EOF) || errors.Is(err, io.ErrUnexpectedEOF) {
		return 20
	}
	return 51
}

func closeErrCode(err error, b []byte, k int) int64 {
	s := err.Error()
	switch {
	case strings.Contains(s, "cannot close"):
		// DecodePage returned a bare io.EOF from the page-header read (input ended at a frame
		// boundary); the callers take it for the end of the page block and Close refuses
		if oldFormatAt(b, k) {
			return 26
		}
		return 20
	case strings.Contains(s, "read page index"):
		return 30
	case errors.Is(err, ltx.ErrChecksumMismatch):
		return 32
	case strings.Contains(s, "post-apply checksum in trailer"):
		return 33
	case errors.Is(err, io.EOF) || errors.Is(err, io.ErrUnexpectedEOF):
		return 31
	}
	return 52
}

// runDecoder: DecodeHeader, DecodePage until io.EOF with one reused buffer, Close —
// the call sequence of ltx.Compactor (per input) and Decoder.Verify.
func runDecoder(b []byte) (res decRes) {
	defer func() {
		if p := recover(); p != nil {
			res = decRes{class: 3, panicMsg: fmt.Sprint(p)}
		}
	}()
	dec := ltx.NewDecoder(bytes.NewReader(b))
	if err := dec.DecodeHeader(); err != nil {
		return decRes{class: 2, code: hdrErrCode(err)}
	}
	res.hdr = dec.Header()
	data := make([]byte, res.hdr.PageSize)
	for {
		var ph ltx.PageHeader
		err := dec.DecodePage(&ph, data)
		if err == io.EOF {
			break
		} else if err != nil {
			return decRes{class: 2, code: pageErrCode(err, b, len(res.pages))}
		}
		res.pages = append(res.pages, decPage{ph.Pgno, append([]byte(nil), data...)})
	}
	if err := dec.Close(); err != nil {
		return decRes{class: 2, code: closeErrCode(err, b, len(res.pages))}
	}
	res.trailer = dec.Trailer()
	res.index = dec.PageIndex()
	return res
}

func sameDecode(a, b *decRes) bool {
	if a.hdr != b.hdr || a.trailer != b.trailer || len(a.pages) != len(b.pages) {
		return false
	}
	for i := range a.pages {
		if a.pages[i].pgno != b.pages[i].pgno || !bytes.Equal(a.pages[i].data, b.pages[i].data) {
			return false
		}
	}
	return true
}

// runCompactor: the file as the single input of ltx.Compactor (what Replica.Restore and
// Compactor.Compact build); class 0 ok / 2 error / 3 panic, and the output.
func runCompactor(b []byte, flags uint32) (class int64, out []byte) {
	defer func() {
		if p := recover(); p != nil {
			class, out = 3, nil
		}
	}()
	var buf bytes.Buffer
	c, err := ltx.NewCompactor(&buf, []io.Reader{bytes.NewReader(b)})
	if err != nil {
		return 2, nil
	}
	c.HeaderFlags = flags
	if err := c.Compact(context.Background()); err != nil {
		return 2, nil
	}
	return 0, buf.Bytes()
}

// ---- LZ4 oracle ------------------------------------------------------------------------

type lz4Table struct {
	seen map[string]bool
	rows SxList
}

// record walks the frames of b exactly as the decoder does and records every call it makes
// to lz4.UncompressBlock(block, buffer) with its result.
func (t *lz4Table) record(b []byte) {
	if len(b) < ltx.HeaderSize {
		return
	}
	var h ltx.Header
	if err := h.UnmarshalBinary(b[:ltx.HeaderSize]); err != nil || h.Validate() != nil {
		return
	}
	buf := make([]byte, h.PageSize)
	off := ltx.HeaderSize
	for {
		if off+6 > len(b) {
			return
		}
		pgno := binary.BigEndian.Uint32(b[off:])
		flags := binary.BigEndian.Uint16(b[off+4:])
		if (pgno == 0 && flags == 0) || pgno == 0 || flags&^1 != 0 || flags&1 == 0 || off+10 > len(b) {
			return
		}
		n := int(binary.BigEndian.Uint32(b[off+6:]))
		if n > len(b)-(off+10) {
			return
		}
		blk := b[off+10 : off+10+n]
		before := append([]byte(nil), buf...)
		m, err := lz4.UncompressBlock(blk, buf)
		var key string
		var row Sx
		switch {
		case err != nil:
			key, row = "0"+string(blk), L(SxBytes(blk), I(0), L(), L())
		case m == len(buf):
			key, row = "1"+string(blk), L(SxBytes(blk), I(1), SxBytes(append([]byte(nil), buf...)), L())
		default:
			key, row = "2"+string(blk)+string(before), L(SxBytes(blk), I(2), SxBytes(append([]byte(nil), buf...)), SxBytes(before))
		}
		if !t.seen[key] {
			t.seen[key] = true
			t.rows = append(t.rows, row)
		}
		if err != nil {
			return
		}
		off += 10 + n
	}
}

func (t *lz4Table) merge(o *lz4Table) {
	for _, row := range o.rows {
		k := SxString(row)
		if !t.seen[k] {
			t.seen[k] = true
			t.rows = append(t.rows, row)
		}
	}
}

// ---- mutations -------------------------------------------------------------------------------

type mutation struct {
	kind int // 0 truncate to a; 1 xor byte a with b; 2 append byte b
	a, b int
	zone string
}

func (m mutation) apply(src []byte) []byte {
	switch m.kind {
	case 0:
		return append([]byte(nil), src[:m.a]...)
	case 1:
		out := append([]byte(nil), src...)
		out[m.a] ^= byte(m.b)
		return out
	default:
		return append(append([]byte(nil), src...), byte(m.b))
	}
}

func zoneOf(s *segs, n, off int) string {
	switch {
	case off < ltx.HeaderSize:
		return "header"
	case off >= n-8:
		return "trailer-filechecksum"
	case off >= n-16:
		return "trailer-postapply"
	case off >= s.endOff:
		return "index"
	case off >= s.endOff-6:
		return "endmarker"
	}
	for _, f := range s.frames {
		if off >= f.off && off < f.off+6 {
			return "pagehdr"
		} else if off >= f.off+6 && off < f.off+10 {
			return "sizeprefix"
		} else if off >= f.off+10 && off < f.off+10+len(f.blk) {
			return "compressed"
		}
	}
	return "?"
}

func topSizeByte(s *segs, off int) bool {
	for _, f := range s.frames {
		if off == f.off+6 {
			return true
		}
	}
	return false
}

func mutations(r *rand.Rand, b []byte, s *segs, thorough bool) []mutation {
	n := len(b)
	var ms []mutation
	full := 2200
	flipsData := 48
	if thorough {
		full, flipsData = 20000, 600
	}
	// truncations
	if n <= full {
		for k := 0; k < n; k++ {
			ms = append(ms, mutation{0, k, 0, "trunc"})
		}
	} else {
		seen := map[int]bool{}
		add := func(k int) {
			if k >= 0 && k < n && !seen[k] {
				seen[k] = true
				ms = append(ms, mutation{0, k, 0, "trunc"})
			}
		}
		bounds := []int{0, ltx.HeaderSize, s.endOff - 6, s.endOff, n - 16, n - 8, n}
		for _, f := range s.frames {
			bounds = append(bounds, f.off, f.off+6, f.off+10)
		}
		for _, x := range bounds {
			for d := -3; d <= 3; d++ {
				add(x + d)
			}
		}
		for d := -4; d < 12; d++ {
			add(s.endOff + d)
		}
		for i := 0; i < 400; i++ {
			add(r.Intn(n))
		}
		sort.Slice(ms, func(i, j int) bool { return ms[i].a < ms[j].a })
	}
	// every single-bit flip of header, page headers, size prefixes, end marker, index, trailer
	for off := 0; off < n; off++ {
		z := zoneOf(s, n, off)
		if z == "compressed" {
			continue
		}
		for bit := 0; bit < 8; bit++ {
			if z == "sizeprefix" && topSizeByte(s, off) && bit > 0 && !(thorough && bit < 4) {
				// the decoder allocates the announced size before reading: 32 MiB .. 2 GiB per flip
				continue
			}
			ms = append(ms, mutation{1, off, 1 << bit, z})
		}
	}
	// sampled flips inside compressed data (+ every bit of the first 3 bytes of each block)
	for _, f := range s.frames {
		for i := 0; i < 3 && i < len(f.blk); i++ {
			for bit := 0; bit < 8; bit++ {
				ms = append(ms, mutation{1, f.off + 10 + i, 1 << bit, "compressed"})
			}
		}
	}
	var comp []int
	for _, f := range s.frames {
		for i := range f.blk {
			comp = append(comp, f.off+10+i)
		}
	}
	for i := 0; i < flipsData && len(comp) > 0; i++ {
		ms = append(ms, mutation{1, comp[r.Intn(len(comp))], 1 << r.Intn(8), "compressed"})
	}
	// whole-byte changes at a few places, and bytes appended after the trailer
	for i := 0; i < 24; i++ {
		off := r.Intn(n)
		if topSizeByte(s, off) {
			continue
		}
		ms = append(ms, mutation{1, off, 1 + r.Intn(255), zoneOf(s, n, off)})
	}
	ms = append(ms, mutation{2, 0, 0, "append"}, mutation{2, 0, r.Intn(256), "append"})
	return ms
}

// ---- emitter ------------------------------------------------------------------------------------

type emitter struct {
	cw       *CaseWriter
	viol     []ImplViolation
	outcomes map[string]int
	thorough bool
	tmp      string
	restores int
}

func (e *emitter) violation(sig, detail string, replay any) {
	for _, v := range e.viol {
		if v.Signature == sig {
			return
		}
	}
	e.viol = append(e.viol, ImplViolation{Signature: sig, Detail: detail, Replay: replay})
}

func indexSx(idx map[uint32]ltx.PageIndexElem) Sx {
	ks := make([]uint32, 0, len(idx))
	for k := range idx {
		ks = append(ks, k)
	}
	sort.Slice(ks, func(i, j int) bool { return idx[ks[i]].Offset < idx[ks[j]].Offset })
	l := SxList{}
	for _, k := range ks {
		l = append(l, L(U(uint64(k)), U(uint64(idx[k].Offset)), U(uint64(idx[k].Size))))
	}
	return l
}

// decodeCase: one file, its mutations, everything observed on the real decoder.
func (e *emitter) decodeCase(b []byte, ms []mutation, s *segs, label string, snapshotImage []byte) {
	ref := runDecoder(b)
	tbl := &lz4Table{seen: map[string]bool{}}
	tbl.record(b)
	var cks SxList
	var info Sx
	if ref.class != 0 || s == nil {
		info = L(I(ref.class), I(ref.code))
		if ref.class == 3 {
			info = L(I(3), I(0))
		}
	} else {
		st := hashedStream(b, s)
		sum := crcFlag(st)
		if sum != uint64(ref.trailer.FileChecksum) {
			e.violation("C10/codec-file-checksum-does-not-cover-the-modelled-byte-ranges",
				fmt.Sprintf("%s: CRC-64 over header+page headers+size prefixes+uncompressed data+end marker+index+first trailer half = %016x, trailer says %016x",
					label, sum, uint64(ref.trailer.FileChecksum)), map[string]any{"file_hex": fmt.Sprintf("%x", b)})
		}
		cks = append(cks, L(SxBytes(st), U(sum)))
		if ref.hdr.IsSnapshot() && !ref.hdr.NoChecksum() {
			for _, f := range s.frames {
				if f.pgno != ltx.LockPgno(ref.hdr.PageSize) {
					key := append(binary.BigEndian.AppendUint32(nil, f.pgno), f.data...)
					cks = append(cks, L(SxBytes(key), U(uint64(ltx.ChecksumPage(f.pgno, f.data)))))
				}
			}
		}
		pg := SxList{}
		for _, p := range ref.pages {
			pg = append(pg, U(uint64(p.pgno)))
		}
		info = L(I(0), hdrValues(ref.hdr), pg, U(uint64(ref.trailer.PostApplyChecksum)), U(uint64(ref.trailer.FileChecksum)),
			indexSx(ref.index), I(int64(s.endOff)), I(int64(len(st))), U(wsum(st)))
	}
	refComp, refCompOut := runCompactor(b, ref.hdr.Flags)
	if ref.class == 0 && refComp != 0 {
		e.outcomes["original/compactor-rejects"]++
	}
	type mres struct {
		res  decRes
		cc   int64
		cout []byte
		tbl  *lz4Table
	}
	results := make([]mres, len(ms))
	workers := 12
	var wg sync.WaitGroup
	for w := 0; w < workers; w++ {
		wg.Add(1)
		go func(w int) {
			defer wg.Done()
			for i := w; i < len(ms); i += workers {
				mb := ms[i].apply(b)
				t := &lz4Table{seen: map[string]bool{}}
				t.record(mb)
				res := runDecoder(mb)
				if res.class == 0 && !(ref.class == 0 && sameDecode(&res, &ref)) {
					res.class = 1
				}
				cc, cout := runCompactor(mb, ref.hdr.Flags)
				results[i] = mres{res, cc, cout, t}
			}
		}(w)
	}
	wg.Wait()
	msx, obs := SxList{}, SxList{}
	for i, m := range ms {
		res, cc, cout := results[i].res, results[i].cc, results[i].cout
		tbl.merge(results[i].tbl)
		msx = append(msx, L(I(int64(m.kind)), I(int64(m.a)), I(int64(m.b))))
		obs = append(obs, L(I(res.class), I(res.code)))
		name := [...]string{"ok-identical", "ok-DIFFERENT", "error", "panic"}[res.class]
		e.outcomes[m.zone+"/"+name]++
		rp := map[string]any{"file": label, "file_hex": fmt.Sprintf("%x", b), "mutation": fmt.Sprintf("kind=%d a=%d b=%d zone=%s", m.kind, m.a, m.b, m.zone)}
		switch res.class {
		case 1:
			e.violation("C10/corrupted-ltx-file-decodes-to-a-different-file",
				fmt.Sprintf("%s (%d bytes) with %s at %d (mask/byte %d) passes ltx.Decoder (header, pages, Close) and yields a different header/page set/trailer",
					label, len(b), [...]string{"truncation", "byte change", "appended byte"}[m.kind], m.a, m.b), rp)
		case 3:
			if s != nil && m.kind == 0 && m.a >= s.endOff && m.a < s.endOff+8 && strings.Contains(res.panicMsg, "slice bounds out of range") {
				e.violation(sigF7, fmt.Sprintf("%s (%d bytes) truncated to %d bytes (page block ends at %d): ltx.Decoder.Close panics: %s",
					label, len(b), m.a, s.endOff, res.panicMsg), rp)
			} else {
				e.violation("C10/ltx-decoder-panics-outside-the-close-window",
					fmt.Sprintf("%s: %s at %d: panic %s", label, m.zone, m.a, res.panicMsg), rp)
			}
		}
		// the same bytes as the single input of ltx.Compactor
		want := res.class
		if want == 1 {
			want = 0
		}
		if ref.class == 0 && refComp == 0 && (cc != want || (cc == 0 && res.class == 0 && !bytes.Equal(cout, refCompOut))) {
			e.violation("C10/compactor-and-decoder-disagree-on-a-corrupted-input",
				fmt.Sprintf("%s: %s at %d: decoder class %d, ltx.Compactor class %d (0 ok, 2 error, 3 panic)", label, m.zone, m.a, res.class, cc), rp)
		}
		// Replica.Restore on a one-snapshot replica (never inside the panic window: the panic
		// happens in Restore's own goroutine and cannot be recovered here)
		if snapshotImage != nil && res.class != 3 && e.restores < e.restoreBudget() &&
			(m.kind != 0 || m.a%5 == 0 || (s != nil && m.a >= s.endOff-8)) && (m.kind != 1 || m.b == 1 || m.zone == "compressed") {
			e.restoreCheck(m.apply(b), ref.hdr, res.class, snapshotImage, rp)
		}
	}
	in := L(SxBytes(b), tbl.rows, cks, msx)
	e.cw.Add("codec_decode", in, L(info, obs), label, true)
}

func (e *emitter) restoreCheck(mb []byte, h ltx.Header, decClass int64, image []byte, rp map[string]any) {
	e.restores++
	root := filepath.Join(e.tmp, "replica")
	_ = os.RemoveAll(root)
	fc := file.NewReplicaClient(root)
	p := fc.LTXFilePath(litestream.SnapshotLevel, h.MinTXID, h.MaxTXID)
	if err := os.MkdirAll(filepath.Dir(p), 0o755); err != nil {
		return
	}
	if err := os.WriteFile(p, mb, 0o644); err != nil {
		return
	}
	out := filepath.Join(e.tmp, "out.db")
	_ = os.Remove(out)
	_ = os.Remove(out + ".tmp")
	rep := litestream.NewReplicaWithClient(nil, fc)
	opt := litestream.NewRestoreOptions()
	opt.OutputPath = out
	err := rep.Restore(context.Background(), opt)
	got, rerr := os.ReadFile(out)
	_, tmpErr := os.Stat(out + ".tmp")
	switch {
	case err == nil && (rerr != nil || !bytes.Equal(got, image)):
		e.violation("C10/restore-of-corrupted-snapshot-yields-a-different-database",
			fmt.Sprintf("Replica.Restore returned nil on a damaged snapshot file but the output differs from the snapshot's image (decoder class %d)", decClass), rp)
	case err == nil && decClass != 0:
		e.outcomes["restore/ok-although-decoder-rejects"]++
		e.violation("C10/restore-accepts-a-file-the-decoder-rejects",
			fmt.Sprintf("Replica.Restore returned nil (identical image) on bytes ltx.Decoder rejects with class %d", decClass), rp)
	case err != nil && decClass == 0:
		e.violation("C10/restore-rejects-an-undamaged-equivalent-file",
			fmt.Sprintf("Replica.Restore failed (%v) on bytes that decode to the identical file", err), rp)
	case err != nil && (rerr == nil || tmpErr == nil):
		e.violation("C10/restore-error-leaves-output-behind",
			fmt.Sprintf("Replica.Restore failed (%v) but left the output or its .tmp sibling behind", err), rp)
	}
	if err == nil {
		e.outcomes["restore/ok-identical"]++
	} else {
		e.outcomes["restore/error"]++
	}
}

// layoutCase: abstract file -> what the real encoder did with it.
func (e *emitter) layoutCase(f absFile, b []byte, encErr error, s *segs, label string) {
	pl := SxList{}
	for _, p := range f.pages {
		pl = append(pl, L(U(uint64(p.pgno)), SxBytes(p.data), I(int64(compressedLen(p.data)))))
	}
	in := L(hdrValues(f.hdr), pl, U(uint64(f.post)))
	if encErr != nil {
		e.cw.Add("codec_encode_layout", in, L(I(0)), label+"/rejected", true)
		return
	}
	idx := SxList{}
	verb := SxList{L(I(0), I(100))}
	repl := SxList{}
	for _, fr := range s.frames {
		idx = append(idx, L(U(uint64(fr.pgno)), I(int64(fr.off)), I(int64(10+len(fr.blk)))))
		verb = append(verb, L(I(int64(fr.off)), I(10)))
		repl = append(repl, L(I(int64(fr.off+10)), I(int64(len(fr.blk)))))
	}
	verb = append(verb, L(I(int64(s.endOff-6)), I(int64(6+s.idxLen+8))))
	obs := L(I(1), I(int64(s.endOff)), I(int64(len(b))), idx, I(int64(s.idxLen)), verb, repl, I(int64(len(hashedStream(b, s)))))
	e.cw.Add("codec_encode_layout", in, obs, label+"/accepted", len(f.pages) > 0)
}

func (e *emitter) oneFile(r *rand.Rand, f absFile, label string) {
	b, err := encodeReal(f)
	if err != nil {
		e.layoutCase(f, nil, err, nil, label)
		return
	}
	s, perr := parseSegments(b, int(f.hdr.PageSize))
	if perr != nil {
		e.violation("C10/codec-encoder-output-not-in-the-modelled-layout", label+": "+perr.Error(), map[string]any{"file_hex": fmt.Sprintf("%x", b)})
		return
	}
	e.layoutCase(f, b, nil, s, label)
	var image []byte
	if f.hdr.MinTXID == 1 && f.hdr.Commit > 0 && int(f.hdr.Commit) == len(f.pages) && f.hdr.NoChecksum() {
		for _, p := range f.pages {
			image = append(image, p.data...)
		}
	}
	e.decodeCase(b, mutations(r, b, s, e.thorough), s, label, image)
}

func (e *emitter) restoreBudget() int {
	if e.thorough {
		return 200000
	}
	return 300
}

// ---- files of a real replica ----------------------------------------------------------------

func realReplicaFiles(dir string, ps int, seed int64) (map[string][]byte, error) {
	if err := os.MkdirAll(dir, 0o755); err != nil {
		return nil, err
	}
	path := filepath.Join(dir, "db")
	sqldb, err := sql.Open("sqlite", path)
	if err != nil {
		return nil, err
	}
	defer sqldb.Close()
	sqldb.SetMaxOpenConns(1)
	for _, q := range []string{fmt.Sprintf("PRAGMA page_size=%d", ps), "PRAGMA journal_mode=wal", "PRAGMA wal_autocheckpoint=0",
		"CREATE TABLE t(id INTEGER PRIMARY KEY, v BLOB)"} {
		if _, err := sqldb.Exec(q); err != nil {
			return nil, fmt.Errorf("%s: %w", q, err)
		}
	}
	db := litestream.NewDB(path)
	db.MonitorInterval = 0
	db.Logger = QuietLogger()
	root := filepath.Join(dir, "replica")
	fc := file.NewReplicaClient(root)
	db.Replica = litestream.NewReplicaWithClient(db, fc)
	db.Replica.MonitorEnabled = false
	if err := db.Open(); err != nil {
		return nil, err
	}
	ctx := context.Background()
	r := NewRand(seed)
	for i := 0; i < 4; i++ {
		if _, err := sqldb.Exec("INSERT INTO t(v) VALUES (randomblob(?))", 1+r.Intn(ps)); err != nil {
			return nil, err
		}
		if err := db.Sync(ctx); err != nil {
			return nil, err
		}
		if err := db.Replica.Sync(ctx); err != nil {
			return nil, err
		}
		if i == 1 {
			if _, err := db.Compact(ctx, 1); err != nil {
				return nil, err
			}
		}
		if i == 2 {
			if _, err := db.Snapshot(ctx); err != nil {
				return nil, err
			}
		}
	}
	db.Replica = nil
	_ = db.Close(ctx)
	out := map[string][]byte{}
	err = filepath.Walk(root, func(p string, info os.FileInfo, err error) error {
		if err == nil && !info.IsDir() && strings.HasSuffix(p, ".ltx") {
			b, rerr := os.ReadFile(p)
			if rerr != nil {
				return rerr
			}
			rel, _ := filepath.Rel(root, p)
			out[rel] = b
		}
		return err
	})
	return out, err
}

func (e *emitter) realFiles(r *rand.Rand, dir string, ps int, seed int64) error {
	files, err := realReplicaFiles(dir, ps, seed)
	if err != nil {
		return fmt.Errorf("real replica (page size %d): %w", ps, err)
	}
	names := make([]string, 0, len(files))
	for k := range files {
		names = append(names, k)
	}
	sort.Strings(names)
	if len(names) == 0 {
		return fmt.Errorf("real replica (page size %d) produced no LTX files", ps)
	}
	for _, name := range names {
		b := files[name]
		ref := runDecoder(b)
		label := fmt.Sprintf("realdb-ps%d-level%s", ps, strings.Split(filepath.ToSlash(name), "/")[1])
		if ref.class != 0 {
			e.violation("C10/codec-real-replica-file-rejected-by-decoder", fmt.Sprintf("%s: class %d code %d", name, ref.class, ref.code), nil)
			continue
		}
		s, perr := parseSegments(b, int(ref.hdr.PageSize))
		if perr != nil {
			e.violation("C10/codec-encoder-output-not-in-the-modelled-layout", name+": "+perr.Error(), map[string]any{"file_hex": fmt.Sprintf("%x", b)})
			continue
		}
		f := absFile{hdr: ref.hdr, post: ref.trailer.PostApplyChecksum}
		f.hdr.Version = ltx.Version
		for _, p := range ref.pages {
			f.pages = append(f.pages, pageIn{p.pgno, p.data})
		}
		e.layoutCase(f, b, nil, s, label)
		var image []byte
		if ref.hdr.MinTXID == 1 && int(ref.hdr.Commit) == len(ref.pages) {
			for _, p := range ref.pages {
				image = append(image, p.data...)
			}
		}
		e.decodeCase(b, mutations(r, b, s, e.thorough), s, label, image)
	}
	return nil
}

// ---- main -------------------------------------------------------------------------------------

func main() {
	if err := run(os.Args[1:]); err != nil {
		fmt.Fprintln(os.Stderr, "harness error:", err)
		os.Exit(3)
	}
}

func run(args []string) error {
	if len(args) > 0 && args[0] == "codec" {
		args = args[1:]
	}
	fl := flag.NewFlagSet("codec", flag.ContinueOnError)
	out := fl.String("out", "", "work directory")
	n := fl.Int("n", 24, "number of generated abstract files")
	seed := fl.Int64("seed", 1, "PRNG seed")
	thorough := fl.Bool("thorough", false, "more page sizes, more flips")
	replay := fl.String("replay", "", "case file whose inputs are re-run on the implementation")
	if err := fl.Parse(args); err != nil {
		return err
	}
	if *out == "" {
		return fmt.Errorf("-out required")
	}
	cw, err := NewCaseWriter(filepath.Join(*out, "cases.txt"))
	if err != nil {
		return err
	}
	e := &emitter{cw: cw, outcomes: map[string]int{}, thorough: *thorough, tmp: filepath.Join(*out, "tmp")}
	if err := os.MkdirAll(e.tmp, 0o755); err != nil {
		return err
	}
	defer os.RemoveAll(e.tmp)
	r := NewRand(*seed)
	if *replay != "" {
		if err := e.replayCases(r, *replay); err != nil {
			return err
		}
	} else {
		sizes := []int{512}
		if *thorough {
			sizes = []int{512, 4096}
		}
		for _, ps := range sizes {
			if err := e.realFiles(r, filepath.Join(e.tmp, fmt.Sprintf("real%d", ps)), ps, *seed+int64(ps)); err != nil {
				return err
			}
		}
		for i := 0; i < *n; i++ {
			f := genValid(r, *thorough)
			e.oneFile(r, f, f.note)
		}
		for i := 0; i < 3**n; i++ {
			f := genInvalid(r, *thorough)
			e.oneFile(r, f, f.note)
		}
	}
	if err := cw.Close(); err != nil {
		return err
	}
	st := cw.Stats()
	st.ImplViolations = e.viol
	st.Extra = map[string]any{"outcomes": e.outcomes, "restores": e.restores}
	return WriteJSON(filepath.Join(*out, "stats.json"), st)
}

// replayCases re-runs the inputs of a case file on the implementation.
func (e *emitter) replayCases(r *rand.Rand, path string) error {
	cases, err := ReadCases(path)
	if err != nil {
		return err
	}
	for _, c := range cases {
		switch c.Entry {
		case "codec_decode":
			b := c.In.At(0).AsBytes()
			var ms []mutation
			for _, m := range c.In.At(3).List {
				ms = append(ms, mutation{int(m.At(0).Int()), int(m.At(1).Int()), int(m.At(2).Int()), "replay"})
			}
			var s *segs
			if ref := runDecoder(b); ref.class == 0 {
				s, _ = parseSegments(b, int(ref.hdr.PageSize))
			}
			e.decodeCase(b, ms, s, "replay", nil)
		case "codec_encode_layout":
			v := c.In.At(0)
			f := absFile{hdr: ltx.Header{Version: ltx.Version, Flags: uint32(v.At(0).Uint()), PageSize: uint32(v.At(1).Uint()), Commit: uint32(v.At(2).Uint()),
				MinTXID: ltx.TXID(v.At(3).Uint()), MaxTXID: ltx.TXID(v.At(4).Uint()), Timestamp: int64(v.At(5).Uint()),
				PreApplyChecksum: ltx.Checksum(v.At(6).Uint()), WALOffset: int64(v.At(7).Uint()), WALSize: int64(v.At(8).Uint()),
				WALSalt1: uint32(v.At(9).Uint()), WALSalt2: uint32(v.At(10).Uint()), NodeID: v.At(11).Uint()},
				post: ltx.Checksum(c.In.At(2).Uint())}
			for _, p := range c.In.At(1).List {
				f.pages = append(f.pages, pageIn{uint32(p.At(0).Uint()), p.At(1).AsBytes()})
			}
			b, err := encodeReal(f)
			var s *segs
			if err == nil {
				if s, err = parseSegments(b, int(f.hdr.PageSize)); err != nil {
					return err
				}
			}
			e.layoutCase(f, b, err, s, "replay")
		}
	}
	return nil
}
