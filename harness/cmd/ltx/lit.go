package main

import (
	"bytes"
	"context"
	"fmt"
	"io"
	"log/slog"
	"os"
	"path/filepath"
	"sort"
	"time"

	"github.com/benbjohnson/litestream"
	"github.com/superfly/ltx"
	. "verifharness/hx"
)

// ---- an in-memory replica client (litestream.ReplicaClient) ---------------------

type memFile struct {
	info ltx.FileInfo
	data []byte
}

type memClient struct {
	levels map[int][]*memFile
}

func newMemClient() *memClient { return &memClient{levels: map[int][]*memFile{}} }

func (c *memClient) Type() string                   { return "mem" }
func (c *memClient) Init(ctx context.Context) error { return nil }
func (c *memClient) SetLogger(l *slog.Logger)       {}

func (c *memClient) LTXFiles(ctx context.Context, level int, seek ltx.TXID, useMetadata bool) (ltx.FileIterator, error) {
	var infos []*ltx.FileInfo
	for _, f := range c.levels[level] {
		if f.info.MinTXID < seek {
			continue
		}
		fi := f.info
		infos = append(infos, &fi)
	}
	return ltx.NewFileInfoSliceIterator(infos), nil
}

func (c *memClient) find(level int, min, max ltx.TXID) *memFile {
	for _, f := range c.levels[level] {
		if f.info.MinTXID == min && f.info.MaxTXID == max {
			return f
		}
	}
	return nil
}

func (c *memClient) OpenLTXFile(ctx context.Context, level int, min, max ltx.TXID, offset, size int64) (io.ReadCloser, error) {
	f := c.find(level, min, max)
	if f == nil {
		return nil, os.ErrNotExist
	}
	b := f.data
	if offset > int64(len(b)) {
		offset = int64(len(b))
	}
	b = b[offset:]
	if size > 0 && size < int64(len(b)) {
		b = b[:size]
	}
	return io.NopCloser(bytes.NewReader(b)), nil
}

func (c *memClient) WriteLTXFile(ctx context.Context, level int, min, max ltx.TXID, rd io.Reader) (*ltx.FileInfo, error) {
	b, err := io.ReadAll(rd)
	if err != nil {
		return nil, err
	}
	hdr, _, err := ltx.PeekHeader(bytes.NewReader(b))
	if err != nil {
		return nil, err
	}
	info := ltx.FileInfo{Level: level, MinTXID: min, MaxTXID: max, Size: int64(len(b)), CreatedAt: time.UnixMilli(hdr.Timestamp).UTC()}
	if old := c.find(level, min, max); old != nil {
		old.info, old.data = info, b
	} else {
		c.levels[level] = append(c.levels[level], &memFile{info, b})
		sort.Slice(c.levels[level], func(i, j int) bool { return c.levels[level][i].info.MinTXID < c.levels[level][j].info.MinTXID })
	}
	return &info, nil
}

func (c *memClient) DeleteLTXFiles(ctx context.Context, a []*ltx.FileInfo) error {
	for _, d := range a {
		var keep []*memFile
		for _, f := range c.levels[d.Level] {
			if !(f.info.MinTXID == d.MinTXID && f.info.MaxTXID == d.MaxTXID) {
				keep = append(keep, f)
			}
		}
		c.levels[d.Level] = keep
	}
	return nil
}

func (c *memClient) DeleteAll(ctx context.Context) error {
	c.levels = map[int][]*memFile{}
	return nil
}

// viaLitestream drives the same chain through litestream's own code: the
// level-0 files are stored in a replica, Compactor.Compact builds level 1 and
// Replica.Restore rebuilds the database from whatever plan it chooses.
func (e *emitter) viaLitestream(ch chain, raw [][]byte) {
	ctx := context.Background()
	client := newMemClient()
	l0, l0raw := ch.files, raw
	if ch.base.size > 0 {
		sd := snapshotOf(ch.ps, ch.base, ch.baseMax)
		b, err := encodeFile(sd)
		if err != nil {
			panic(err)
		}
		if _, err := client.WriteLTXFile(ctx, litestream.SnapshotLevel, ltx.TXID(sd.min), ltx.TXID(sd.max), bytes.NewReader(b)); err != nil {
			panic(err)
		}
	} else {
		f := ch.files[0]
		if _, err := client.WriteLTXFile(ctx, litestream.SnapshotLevel, ltx.TXID(f.min), ltx.TXID(f.max), bytes.NewReader(raw[0])); err != nil {
			panic(err)
		}
		l0, l0raw = ch.files[1:], raw[1:]
	}
	for i, f := range l0 {
		if _, err := client.WriteLTXFile(ctx, 0, ltx.TXID(f.min), ltx.TXID(f.max), bytes.NewReader(l0raw[i])); err != nil {
			panic(err)
		}
	}
	if len(l0) > 0 {
		obs := func() (o Sx) {
			defer func() {
				if p := recover(); p != nil {
					o = L(I(9), L())
				}
			}()
			comp := litestream.NewCompactor(client, QuietLogger())
			info, err := comp.Compact(ctx, 1)
			if err != nil {
				return L(I(classify(err)), L())
			}
			f := client.find(1, info.MinTXID, info.MaxTXID)
			if f == nil {
				return L(I(52), L())
			}
			c, err := decodeFile(f.data)
			if err != nil {
				return L(I(51), L())
			}
			return L(I(0), c.sx())
		}()
		e.cw.Add("ltx_compact", L(filesSx(l0)), obs, "via-litestream/compact", true)
	}
	// restore (the planner is free to use level 1, level 0 or a mix)
	dir := filepath.Join(e.tmp, "restore")
	_ = os.RemoveAll(dir)
	if err := os.MkdirAll(dir, 0o755); err != nil {
		panic(err)
	}
	outPath := filepath.Join(dir, "out.db")
	obs := func() (o Sx) {
		defer func() {
			if p := recover(); p != nil {
				o = L(I(9), L())
			}
		}()
		rep := litestream.NewReplicaWithClient(nil, client)
		opt := litestream.NewRestoreOptions()
		opt.OutputPath = outPath
		if err := rep.Restore(ctx, opt); err != nil {
			e.extra["via-litestream-restore-error:"+fmt.Sprint(classify(err))]++
			return L(I(classify(err)), L())
		}
		b, err := os.ReadFile(outPath)
		if err != nil {
			return L(I(53), L())
		}
		return imageOf(ch.ps, b).sx()
	}()
	e.cw.Add("ltx_apply", L(ch.base.sx(), filesSx(ch.files)), obs, "via-litestream/restore", true)
	_ = os.RemoveAll(dir)
}
