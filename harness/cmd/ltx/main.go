// Command ltx: correspondence cases for the LTX layer.
//
//	-mode c06  abstract file lists encoded with the real ltx.Encoder, merged with the
//	           real ltx.Compactor (directly, and through litestream's Compactor.Compact
//	           and Replica.Restore over an in-memory replica client), decoded with the
//	           real ltx.Decoder.
//	-mode c17  lock-page arithmetic and encoder rule, and sparse > 1 GiB SQLite
//	           databases driven through DB.Sync / Snapshot / Compact / Restore (sparse.go).
package main

import (
	"bytes"
	"context"
	"crypto/sha256"
	"encoding/binary"
	"flag"
	"fmt"
	"io"
	"log/slog"
	"math/rand"
	"os"
	"path/filepath"
	"sort"
	"strings"

	"github.com/superfly/ltx"
	. "verifharness/hx"
)

// ---- abstract files ---------------------------------------------------------

type pg struct {
	no uint32
	c  uint64 // content id; >= 1<<32: page bytes that are not a synthetic pattern
}

type absFile struct {
	ps       uint32
	min, max uint64
	commit   uint32
	ts       int64
	pages    []pg
}

type absImage struct {
	size  uint32
	pages []pg // non-zero pages, sorted
}

func (f absFile) sx() Sx {
	ps := make(SxList, 0, len(f.pages))
	for _, p := range f.pages {
		ps = append(ps, L(U(uint64(p.no)), U(p.c)))
	}
	return L(U(uint64(f.ps)), U(f.min), U(f.max), U(uint64(f.commit)), I(f.ts), ps)
}

func filesSx(fs []absFile) Sx {
	l := make(SxList, 0, len(fs))
	for _, f := range fs {
		l = append(l, f.sx())
	}
	return l
}

func (d absImage) sx() Sx {
	ps := make(SxList, 0, len(d.pages))
	for _, p := range d.pages {
		ps = append(ps, L(U(uint64(p.no)), U(p.c)))
	}
	return L(U(uint64(d.size)), ps)
}

func sameFile(a, b absFile) bool {
	if a.ps != b.ps || a.min != b.min || a.max != b.max || a.commit != b.commit || a.ts != b.ts || len(a.pages) != len(b.pages) {
		return false
	}
	for i := range a.pages {
		if a.pages[i] != b.pages[i] {
			return false
		}
	}
	return true
}

func sameImage(a, b absImage) bool {
	if a.size != b.size || len(a.pages) != len(b.pages) {
		return false
	}
	for i := range a.pages {
		if a.pages[i] != b.pages[i] {
			return false
		}
	}
	return true
}

// synthetic page data: id 0 is the zero page; any other id fills the page with
// an id-dependent pattern so that a mix-up of pages cannot go unnoticed.
func pageBytes(ps uint32, id uint32) []byte {
	b := make([]byte, ps)
	if id == 0 {
		return b
	}
	for i := 0; i+4 <= len(b); i += 4 {
		binary.BigEndian.PutUint32(b[i:], id+uint32(i/4)*2654435761)
	}
	return b
}

func pageID(b []byte) uint64 {
	id := binary.BigEndian.Uint32(b)
	if bytes.Equal(b, pageBytes(uint32(len(b)), id)) {
		return uint64(id)
	}
	h := sha256.Sum256(b)
	return 1<<32 + uint64(binary.BigEndian.Uint32(h[:4]))
}

// ---- the real encoder / decoder / compactor -----------------------------------

// error classes shared with coq/Ltx/Compact.v and Apply.v
func classify(err error) int64 {
	if err == nil {
		return 0
	}
	s := err.Error()
	has := func(t string) bool { return strings.Contains(s, t) }
	switch {
	case has("at least one input reader required"):
		return 1
	case has("mismatched page sizes"):
		return 3
	case has("non-contiguous transaction ids"):
		return 4
	case has("cannot encode lock page"):
		return 5
	case has("snapshot transaction file must start"), has("nonsequential page numbers"):
		return 6
	case has("post-apply checksum must be empty"):
		return 7
	case has("out-of-order page numbers"), has("out-of-bounds for commit size"), has("page number required"):
		return 8
	case has("cannot decode non-snapshot"):
		return 20
	case has("unexpected pgno while decoding"):
		return 21
	case has("unexpected page"):
		return 22
	case has("decode page"): // EOF before the commit size was reached
		return 21
	case has("decode header"), has("invalid page size"), has("transaction id"):
		return 2
	}
	return 50
}

func encodeFile(f absFile) (out []byte, err error) {
	defer func() {
		if p := recover(); p != nil {
			err = fmt.Errorf("panic: %v", p)
		}
	}()
	var buf bytes.Buffer
	enc, err := ltx.NewEncoder(&buf)
	if err != nil {
		return nil, err
	}
	if err := enc.EncodeHeader(ltx.Header{
		Version: ltx.Version, Flags: ltx.HeaderFlagNoChecksum, PageSize: f.ps, Commit: f.commit,
		MinTXID: ltx.TXID(f.min), MaxTXID: ltx.TXID(f.max), Timestamp: f.ts,
	}); err != nil {
		return nil, err
	}
	for _, p := range f.pages {
		if err := enc.EncodePage(ltx.PageHeader{Pgno: p.no}, pageBytes(f.ps, uint32(p.c))); err != nil {
			return nil, err
		}
	}
	if err := enc.Close(); err != nil {
		return nil, err
	}
	return buf.Bytes(), nil
}

func decodeFile(b []byte) (f absFile, err error) {
	defer func() {
		if p := recover(); p != nil {
			err = fmt.Errorf("panic: %v", p)
		}
	}()
	dec := ltx.NewDecoder(bytes.NewReader(b))
	if err = dec.DecodeHeader(); err != nil {
		return f, err
	}
	h := dec.Header()
	f = absFile{ps: h.PageSize, min: uint64(h.MinTXID), max: uint64(h.MaxTXID), commit: h.Commit, ts: h.Timestamp}
	data := make([]byte, h.PageSize)
	for {
		var ph ltx.PageHeader
		if err = dec.DecodePage(&ph, data); err == io.EOF {
			break
		} else if err != nil {
			return f, err
		}
		f.pages = append(f.pages, pg{ph.Pgno, pageID(data)})
	}
	return f, dec.Close()
}

// compactReal: ltx.Compactor used as compactor.go:160 and replica.go:741 use it.
func compactReal(raw [][]byte) (st int64, out []byte) {
	defer func() {
		if p := recover(); p != nil {
			st, out = 9, nil
		}
	}()
	rdrs := make([]io.Reader, len(raw))
	for i := range raw {
		rdrs[i] = bytes.NewReader(raw[i])
	}
	var buf bytes.Buffer
	comp, err := ltx.NewCompactor(&buf, rdrs)
	if err != nil {
		return 50, nil
	}
	comp.HeaderFlags = ltx.HeaderFlagNoChecksum
	if err := comp.Compact(context.Background()); err != nil {
		return classify(err), nil
	}
	return 0, buf.Bytes()
}

func imageOf(ps uint32, b []byte) absImage {
	d := absImage{size: uint32(len(b) / int(ps))}
	for i := uint32(0); i < d.size; i++ {
		if id := pageID(b[int(i)*int(ps) : int(i+1)*int(ps)]); id != 0 {
			d.pages = append(d.pages, pg{i + 1, id})
		}
	}
	return d
}

// restoreReal: the compactor piped into DecodeDatabaseTo, as replica.go Restore does.
func restoreReal(raw [][]byte, ps uint32) (st int64, img absImage) {
	defer func() {
		if p := recover(); p != nil {
			st = 9
		}
	}()
	rdrs := make([]io.Reader, len(raw))
	for i := range raw {
		rdrs[i] = bytes.NewReader(raw[i])
	}
	pr, pw := io.Pipe()
	go func() {
		defer func() {
			if p := recover(); p != nil {
				_ = pw.CloseWithError(fmt.Errorf("panic in compactor: %v", p))
			}
		}()
		c, err := ltx.NewCompactor(pw, rdrs)
		if err != nil {
			_ = pw.CloseWithError(err)
			return
		}
		c.HeaderFlags = ltx.HeaderFlagNoChecksum
		_ = pw.CloseWithError(c.Compact(context.Background()))
	}()
	var out bytes.Buffer
	dec := ltx.NewDecoder(pr)
	err := dec.DecodeDatabaseTo(&out)
	_ = pr.CloseWithError(io.ErrClosedPipe)
	if err != nil {
		return classify(err), absImage{}
	}
	return 0, imageOf(ps, out.Bytes())
}


// ---- generator --------------------------------------------------------------------

type chain struct {
	ps      uint32
	base    absImage
	baseMax uint64 // MaxTXID of the snapshot that materialises the base (0: empty base)
	files   []absFile
	gc      bool // growth-closed and strictly TXID-contiguous by construction
	near    bool // page numbers around the lock page (no materialised snapshot)
	class   string
}

var allPageSizes = []uint32{512, 1024, 2048, 4096, 8192, 16384, 32768, 65536}

func randContent(r *rand.Rand) uint64 {
	if r.Intn(5) == 0 {
		return 0
	}
	return uint64(1 + r.Intn(1<<20))
}

func genChain(r *rand.Rand) chain {
	ch := chain{ps: 512, gc: true, class: "chain"}
	near := r.Intn(5) == 0
	var off uint32 // page numbers of interest are 1,2 and off+1..off+10
	if near {
		ch.ps = allPageSizes[r.Intn(len(allPageSizes))]
		if ch.ps > 4096 && r.Intn(2) == 0 {
			ch.ps = 512 << uint(r.Intn(4))
		}
		off = ltx.LockPgno(ch.ps) - 3 - uint32(r.Intn(4))
		ch.near = true
		ch.class = "near-lock"
	} else if r.Intn(6) == 0 {
		ch.ps = 1024
	}
	lock := ltx.LockPgno(ch.ps)
	// one structural mutation per chain, most chains none
	mut := ""
	switch k := r.Intn(24); k {
	case 0, 1:
		mut = "drop-growth"
	case 2:
		mut = "txid-gap"
	case 3:
		mut = "txid-overlap"
	case 4:
		mut = "ps-mismatch"
	case 5:
		mut = "swap"
	case 6:
		mut = "short-snapshot"
	case 7, 8:
		mut = "drop-growth-late"
	}
	emptyBase := !near && (mut == "short-snapshot" || (mut == "drop-growth" && r.Intn(2) == 0))
	// current database state
	state := map[uint32]uint64{}
	var size uint32
	if near {
		size = off + uint32(r.Intn(8))
		for i := 0; i < 4; i++ {
			p := off + 1 + uint32(r.Intn(8))
			if p <= size && p != lock {
				state[p] = randContent(r)
			}
		}
		state[1] = randContent(r)
	} else {
		size = uint32(r.Intn(7))
		if emptyBase {
			size = 0
		}
		for p := uint32(1); p <= size; p++ {
			state[p] = randContent(r)
		}
	}
	for p, c := range state {
		if c == 0 {
			delete(state, p)
		}
	}
	ch.base.size = size
	for p, c := range state {
		ch.base.pages = append(ch.base.pages, pg{p, c})
	}
	sort.Slice(ch.base.pages, func(i, j int) bool { return ch.base.pages[i].no < ch.base.pages[j].no })
	next := uint64(1)
	if size > 0 {
		ch.baseMax = uint64(1 + r.Intn(5))
		next = ch.baseMax + 1
	}
	nfiles := 1 + r.Intn(6)
	ts := int64(1000 + r.Intn(1000))
	mutAt := r.Intn(nfiles)
	for i := 0; i < nfiles; i++ {
		newSize := size
		switch r.Intn(4) {
		case 0:
			newSize = size + uint32(1+r.Intn(3))
		case 1:
			if size > 1 {
				newSize = size - uint32(1+r.Intn(int(minU32(size-1, 3))))
			}
		}
		if near && newSize <= off {
			newSize = off + 1
		}
		if newSize == 0 {
			newSize = uint32(1 + r.Intn(4))
		}
		if newSize == lock && r.Intn(2) == 0 {
			newSize++ // SQLite never ends a database at the lock page; keep the other half for the model
		}
		set := map[uint32]uint64{}
		full := (i == 0 && size == 0 && next == 1) || (!near && r.Intn(7) == 0)
		if full {
			for p := uint32(1); p <= newSize; p++ {
				if p != lock {
					if c, ok := state[p]; ok && p <= size && r.Intn(2) == 0 {
						set[p] = c
					} else {
						set[p] = randContent(r)
					}
				}
			}
		} else {
			nt := r.Intn(5)
			for j := 0; j < nt; j++ {
				var p uint32
				if near && r.Intn(4) != 0 {
					p = off + 1 + uint32(r.Intn(int(newSize-off)))
				} else if near {
					p = 1 + uint32(r.Intn(2))
				} else {
					p = 1 + uint32(r.Intn(int(newSize)))
				}
				if p != lock && p <= newSize {
					set[p] = randContent(r)
				}
			}
			dropG := (mut == "drop-growth" && i >= mutAt) || (mut == "drop-growth-late" && i == nfiles-1)
			if !dropG {
				for p := size + 1; p <= newSize; p++ {
					if p != lock {
						if _, ok := set[p]; !ok {
							set[p] = randContent(r)
						}
					}
				}
			} else if newSize > size {
				ch.gc = false
			}
		}
		if mut == "short-snapshot" && i == 0 && size == 0 && newSize > 1 {
			for p := newSize - uint32(r.Intn(2)); p <= newSize; p++ {
				delete(set, p)
			}
			ch.gc = false
		}
		f := absFile{ps: ch.ps, min: next, max: next + uint64(r.Intn(6)/5*(1+r.Intn(3))), commit: newSize, ts: ts}
		if i == mutAt {
			switch mut {
			case "txid-gap":
				if i > 0 {
					f.min += uint64(1 + r.Intn(2))
					f.max = f.min + uint64(r.Intn(2))
					ch.gc = false
				}
			case "txid-overlap":
				if i > 0 && f.min > 2 {
					f.min -= 1
					if r.Intn(2) == 0 {
						f.max = f.min // IsContiguous then fails: max > prevMax does not hold
					}
					ch.gc = false
				}
			case "ps-mismatch":
				if i > 0 {
					f.ps = ch.ps * 2
					if f.ps > 65536 {
						f.ps = 512
					}
					ch.gc = false
				}
			}
		}
		for p, c := range set {
			f.pages = append(f.pages, pg{p, c})
		}
		sort.Slice(f.pages, func(a, b int) bool { return f.pages[a].no < f.pages[b].no })
		ch.files = append(ch.files, f)
		next = f.max + 1
		// timestamps are not monotone on purpose: the output must carry the LAST input's stamp
		ts += int64(r.Intn(2000)) - 300
		if ts < 1 {
			ts = 1
		}
		// apply to the state
		for p := range state {
			if p > newSize {
				delete(state, p)
			}
		}
		for p, c := range set {
			if c == 0 {
				delete(state, p)
			} else {
				state[p] = c
			}
		}
		size = newSize
	}
	if mut == "swap" && nfiles > 1 {
		a := r.Intn(nfiles - 1)
		ch.files[a], ch.files[a+1] = ch.files[a+1], ch.files[a]
		ch.gc = false
	}
	if mut != "" {
		ch.class += "+" + mut
	}
	return ch
}

func minU32(a, b uint32) uint32 {
	if a < b {
		return a
	}
	return b
}

// snapshotOf materialises an image as a snapshot file 1..max.
func snapshotOf(ps uint32, d absImage, max uint64) absFile {
	f := absFile{ps: ps, min: 1, max: max, commit: d.size, ts: 500}
	m := map[uint32]uint64{}
	for _, p := range d.pages {
		m[p.no] = p.c
	}
	lock := ltx.LockPgno(ps)
	for p := uint32(1); p <= d.size; p++ {
		if p != lock {
			f.pages = append(f.pages, pg{p, m[p]})
		}
	}
	return f
}

// ---- case emission --------------------------------------------------------------------

type emitter struct {
	cw    *CaseWriter
	viol  []ImplViolation
	extra map[string]int
	tmp   string
}

func (e *emitter) violation(sig, detail string, replay any) {
	if len(e.viol) < 20 {
		e.viol = append(e.viol, ImplViolation{Signature: sig, Detail: detail, Replay: replay})
	}
}

func encodeAll(fs []absFile) ([][]byte, error) {
	raw := make([][]byte, len(fs))
	for i, f := range fs {
		b, err := encodeFile(f)
		if err != nil {
			return nil, fmt.Errorf("file %d: %w", i, err)
		}
		raw[i] = b
	}
	return raw, nil
}

// obsCompact runs the real compactor over the encoded files and returns the
// observed [status; file].
func obsCompact(raw [][]byte) (int64, absFile, Sx) {
	st, out := compactReal(raw)
	if st != 0 {
		return st, absFile{}, L(I(st), L())
	}
	c, err := decodeFile(out)
	if err != nil {
		return 51, absFile{}, L(I(51), L())
	}
	return 0, c, L(I(0), c.sx())
}

func obsRestore(raw [][]byte, ps uint32) (int64, absImage, Sx) {
	st, img := restoreReal(raw, ps)
	if st != 0 {
		return st, img, L(I(st), L())
	}
	return 0, img, L(I(0), img.sx())
}

func (e *emitter) emitChain(r *rand.Rand, ch chain, idx int) {
	cw := e.cw
	raw, err := encodeAll(ch.files)
	if err != nil {
		// the generator produced a file the encoder refuses; the encoder rule has its own cases
		cw.Classes["unencodable:"+ch.class]++
		return
	}
	nontriv := len(ch.files) > 1
	filesIn := filesSx(ch.files)
	// 1. compaction
	st, c, obs := obsCompact(raw)
	cw.Add("ltx_compact", L(filesIn), obs, ch.class, nontriv)
	// 2. the property on the implementation's output
	if st == 0 {
		cw.Add("ltx_compact_equiv_ok", L(ch.base.sx(), filesIn, c.sx()), I(1), ch.class+"/equiv", nontriv)
	}
	// 3. restore of base snapshot + files, and of base snapshot + compacted file
	if !ch.near {
		plan := ch.files
		planRaw := raw
		var sd absFile
		var sdRaw []byte
		if ch.base.size > 0 {
			sd = snapshotOf(ch.ps, ch.base, ch.baseMax)
			sdRaw, err = encodeFile(sd)
			if err != nil {
				panic(err)
			}
			plan = append([]absFile{sd}, ch.files...)
			planRaw = append([][]byte{sdRaw}, raw...)
		}
		rst, img, robs := obsRestore(planRaw, ch.ps)
		cw.Add("ltx_restore", L(filesSx(plan)), robs, ch.class+"/restore", true)
		if ch.base.size > 0 && idx%4 == 1 {
			_, _, nobs := obsRestore(raw, ch.ps)
			cw.Add("ltx_restore", L(filesIn), nobs, ch.class+"/restore-without-snapshot", true)
		}
		if rst == 0 && ch.gc {
			// sequential application (model) vs the real restore
			cw.Add("ltx_apply", L(ch.base.sx(), filesIn), img.sx(), ch.class+"/apply", true)
		}
		if st == 0 && ch.base.size > 0 {
			plan2 := []absFile{sd, c}
			craw, err := encodeFile(c)
			if err == nil {
				rst2, img2, robs2 := obsRestore([][]byte{sdRaw, craw}, ch.ps)
				cw.Add("ltx_restore", L(filesSx(plan2)), robs2, ch.class+"/restore-compacted", true)
				if ch.gc && (rst != rst2 || !sameImage(img, img2)) {
					e.violation("C06/restore-differs-after-compaction",
						fmt.Sprintf("restore of snapshot+inputs gives status %d image %s, restore of snapshot+compacted file gives status %d image %s",
							rst, SxString(img.sx()), rst2, SxString(img2.sx())),
						map[string]any{"case_lines": []string{"ltx_restore\t" + SxString(L(filesSx(plan))) + "\t" + SxString(robs),
							"ltx_restore\t" + SxString(L(filesSx(plan2))) + "\t" + SxString(robs2)}})
				}
			}
		}
	}
	// 4. compaction of compacted pieces
	if len(ch.files) >= 2 {
		var cs []absFile
		var csRaw [][]byte
		ok := true
		for i := 0; i < len(ch.files); {
			n := 1 + r.Intn(len(ch.files)-i)
			if i == 0 && n == len(ch.files) {
				n = len(ch.files) - 1
			}
			pst, pout := compactReal(raw[i : i+n])
			if pst != 0 {
				ok = false
				break
			}
			pc, err := decodeFile(pout)
			if err != nil {
				ok = false
				break
			}
			cs = append(cs, pc)
			csRaw = append(csRaw, pout)
			i += n
		}
		if ok {
			st2, c2, obs2 := obsCompact(csRaw)
			cw.Add("ltx_compact", L(filesSx(cs)), obs2, ch.class+"/pieces", true)
			if ch.gc && st == 0 && (st2 != 0 || !sameFile(c, c2)) {
				e.violation("C06/compaction-not-associative",
					fmt.Sprintf("compacting %d compacted pieces gives status %d file %s; compacting the %d originals gives %s",
						len(cs), st2, SxString(c2.sx()), len(ch.files), SxString(c.sx())),
					map[string]any{"case_lines": []string{"ltx_compact\t" + SxString(L(filesIn)) + "\t" + SxString(obs),
						"ltx_compact\t" + SxString(L(filesSx(cs))) + "\t" + SxString(obs2)}})
			}
		}
	}
	// 5. the same chain through litestream's own Compactor.Compact and Replica.Restore
	if ch.gc && !ch.near && idx%3 == 0 {
		e.viaLitestream(ch, raw)
	}
}

// refutedWitness replays the witness of Proofs.compact_needs_growth_closed_refuted on
// the implementation: grow, shrink, grow without the growth page.
func (e *emitter) refutedWitness() {
	base := absImage{size: 2, pages: []pg{{1, 11}, {2, 12}}}
	fs := []absFile{
		{ps: 512, min: 5, max: 5, commit: 3, ts: 10, pages: []pg{{3, 33}}},
		{ps: 512, min: 6, max: 6, commit: 2, ts: 11, pages: []pg{{1, 14}}},
		{ps: 512, min: 7, max: 7, commit: 3, ts: 12, pages: []pg{{1, 15}}},
	}
	raw, err := encodeAll(fs)
	if err != nil {
		panic(err)
	}
	st, c, obs := obsCompact(raw)
	e.cw.Add("ltx_compact", L(filesSx(fs)), obs, "refuted-witness", true)
	if st == 0 {
		e.cw.Add("ltx_compact_equiv_raw", L(base.sx(), filesSx(fs), c.sx()), L(I(0), I(0)), "refuted-witness", true)
	}
}

func main() {
	if err := run(os.Args[1:]); err != nil {
		fmt.Fprintln(os.Stderr, "harness error:", err)
		os.Exit(3)
	}
}

func run(args []string) error {
	if len(args) > 0 && args[0] == "ltx" {
		args = args[1:]
	}
	fl := flag.NewFlagSet("ltx", flag.ContinueOnError)
	out := fl.String("out", "", "work directory")
	n := fl.Int("n", 300, "number of generated chains / sequences")
	seed := fl.Int64("seed", 1, "PRNG seed")
	mode := fl.String("mode", "c06", "c06 | c17")
	tier := fl.String("tier", "quick", "quick | thorough (c17: which page sizes get a sparse database)")
	sparse := fl.Bool("sparse", true, "c17: build sparse >1 GiB databases and drive the real DB/Replica code")
	replay := fl.String("replay", "", "case file whose inputs are re-run on the implementation")
	if err := fl.Parse(args); err != nil {
		return err
	}
	if *out == "" {
		return fmt.Errorf("-out required")
	}
	if *replay != "" {
		return replayCases(*replay, *out)
	}
	slog.SetDefault(QuietLogger()) // a Replica without a DB logs through the default logger
	r := NewRand(*seed)
	cw, err := NewCaseWriter(filepath.Join(*out, "cases.txt"))
	if err != nil {
		return err
	}
	e := &emitter{cw: cw, extra: map[string]int{}, tmp: filepath.Join(*out, "tmp")}
	defer os.RemoveAll(e.tmp)
	switch *mode {
	case "c06":
		e.refutedWitness()
		_, _, eobs := obsCompact(nil)
		cw.Add("ltx_compact", L(L()), eobs, "no-input", true)
		for i := 0; i < *n; i++ {
			e.emitChain(r, genChain(r), i)
		}
	case "c17":
		e.lockArithmetic()
		e.encoderRule(r, *n, *tier)
		if err := e.walGrid(r, filepath.Join(*out, "grid")); err != nil {
			return err
		}
		if err := e.dbGrid(filepath.Join(*out, "grid"), *tier, *seed); err != nil {
			return err
		}
		_ = os.RemoveAll(filepath.Join(*out, "grid"))
		if *sparse {
			if err := e.sparseDatabases(r, filepath.Join(*out, "sparse"), *tier); err != nil {
				return err
			}
		}
	default:
		return fmt.Errorf("unknown mode %q", *mode)
	}
	if err := cw.Close(); err != nil {
		return err
	}
	st := cw.Stats()
	st.ImplViolations = e.viol
	st.Extra = map[string]any{}
	for k, v := range e.extra {
		st.Extra[k] = v
	}
	return WriteJSON(filepath.Join(*out, "stats.json"), st)
}

// ---- replay -------------------------------------------------------------------------

func nodeFile(n *Node) absFile {
	f := absFile{ps: uint32(n.At(0).Uint()), min: n.At(1).Uint(), max: n.At(2).Uint(), commit: uint32(n.At(3).Uint()), ts: n.At(4).Int()}
	for _, p := range n.At(5).List {
		f.pages = append(f.pages, pg{uint32(p.At(0).Uint()), p.At(1).Uint()})
	}
	return f
}

func nodeFiles(n *Node) []absFile {
	var fs []absFile
	for _, c := range n.List {
		fs = append(fs, nodeFile(c))
	}
	return fs
}

func nodeImage(n *Node) absImage {
	d := absImage{size: uint32(n.At(0).Uint())}
	for _, p := range n.At(1).List {
		d.pages = append(d.pages, pg{uint32(p.At(0).Uint()), p.At(1).Uint()})
	}
	return d
}

// replayCases re-runs the implementation on the inputs of a case file and
// writes a fresh case file (same inputs, newly observed outputs).
func replayCases(path, out string) error {
	cases, err := ReadCases(path)
	if err != nil {
		return err
	}
	cw, err := NewCaseWriter(filepath.Join(out, "cases.txt"))
	if err != nil {
		return err
	}
	e := &emitter{cw: cw, extra: map[string]int{}}
	for _, c := range cases {
		switch c.Entry {
		case "ltx_compact":
			fs := nodeFiles(c.In.At(0))
			raw, err := encodeAll(fs)
			if err != nil {
				fmt.Println("input not encodable:", err)
				continue
			}
			_, _, obs := obsCompact(raw)
			cw.Add("ltx_compact", L(filesSx(fs)), obs, "replay", true)
		case "ltx_restore":
			fs := nodeFiles(c.In.At(0))
			raw, err := encodeAll(fs)
			if err != nil || len(fs) == 0 {
				fmt.Println("input not encodable:", err)
				continue
			}
			_, _, obs := obsRestore(raw, fs[0].ps)
			cw.Add("ltx_restore", L(filesSx(fs)), obs, "replay", true)
		case "ltx_apply":
			base, fs := nodeImage(c.In.At(0)), nodeFiles(c.In.At(1))
			if len(fs) == 0 {
				continue
			}
			plan := fs
			if base.size > 0 {
				plan = append([]absFile{snapshotOf(fs[0].ps, base, fs[0].min-1)}, fs...)
			}
			raw, err := encodeAll(plan)
			if err != nil {
				fmt.Println("input not encodable:", err)
				continue
			}
			st, img := restoreReal(raw, fs[0].ps)
			if st != 0 {
				fmt.Println("restore status", st)
				continue
			}
			cw.Add("ltx_apply", L(base.sx(), filesSx(fs)), img.sx(), "replay", true)
		case "ltx_compact_equiv_ok", "ltx_compact_equiv_raw":
			base, fs := nodeImage(c.In.At(0)), nodeFiles(c.In.At(1))
			raw, err := encodeAll(fs)
			if err != nil {
				fmt.Println("input not encodable:", err)
				continue
			}
			st, cf, _ := obsCompact(raw)
			if st != 0 {
				fmt.Println("compaction status", st)
				continue
			}
			if c.Entry == "ltx_compact_equiv_ok" {
				cw.Add(c.Entry, L(base.sx(), filesSx(fs), cf.sx()), I(1), "replay", true)
			} else {
				cw.Add(c.Entry, L(base.sx(), filesSx(fs), cf.sx()), L(I(0), I(0)), "replay", true)
			}
		case "ltx_lock_pgno":
			ps := uint32(c.In.At(0).Uint())
			cw.Add(c.Entry, L(U(uint64(ps))), U(uint64(ltx.LockPgno(ps))), "replay", true)
		case "ltx_enc_run":
			snap, ps, commit := c.In.At(0).Int() != 0, uint32(c.In.At(1).Uint()), uint32(c.In.At(2).Uint())
			var rs [][2]uint32
			for _, q := range c.In.At(4).List {
				rs = append(rs, [2]uint32{uint32(q.At(0).Uint()), uint32(q.At(1).Uint())})
			}
			e.encCase(snap, ps, commit, rs, "replay")
		default:
			fmt.Printf("entry %s: replay needs the sparse-database run (./check C17)\n", c.Entry)
		}
	}
	return cw.Close()
}
