package main

import (
	"bytes"
	"context"
	"crypto/sha256"
	"database/sql"
	"encoding/binary"
	"fmt"
	"io"
	"math/rand"
	"os"
	"path/filepath"
	"sort"
	"strings"
	"time"

	"github.com/benbjohnson/litestream"
	"github.com/benbjohnson/litestream/file"
	"github.com/superfly/ltx"
	_ "modernc.org/sqlite"
	. "verifharness/hx"
)

// ---- lock page arithmetic and the encoder's page rule --------------------------------

func (e *emitter) lockArithmetic() {
	for _, ps := range []uint32{512, 1024, 2048, 4096, 8192, 16384, 32768, 65536, 1, 3, 1000, 131072, 1 << 30, 1<<30 + 1, 1 << 31} {
		e.cw.Add("ltx_lock_pgno", L(U(uint64(ps))), U(uint64(ltx.LockPgno(ps))), "lock-pgno", true)
	}
}

func runsSx(rs [][2]uint32) Sx {
	l := make(SxList, 0, len(rs))
	for _, r := range rs {
		l = append(l, L(U(uint64(r[0])), U(uint64(r[1]))))
	}
	return l
}

func toRuns(pgnos []uint32) [][2]uint32 {
	var rs [][2]uint32
	for _, p := range pgnos {
		if n := len(rs); n > 0 && rs[n-1][1]+1 == p {
			rs[n-1][1] = p
		} else {
			rs = append(rs, [2]uint32{p, p})
		}
	}
	return rs
}

// encCase feeds the page numbers of rs (runs, in the given order) to a real
// ltx.Encoder and records the class of the first rejection (0: all accepted).
func (e *emitter) encCase(snap bool, ps, commit uint32, rs [][2]uint32, cls string) {
	st := func() (st int64) {
		defer func() {
			if p := recover(); p != nil {
				st = 9
			}
		}()
		enc, err := ltx.NewEncoder(io.Discard)
		if err != nil {
			return 50
		}
		min := ltx.TXID(2)
		if snap {
			min = 1
		}
		if err := enc.EncodeHeader(ltx.Header{Version: ltx.Version, Flags: ltx.HeaderFlagNoChecksum, PageSize: ps, Commit: commit, MinTXID: min, MaxTXID: min}); err != nil {
			return 2
		}
		data := make([]byte, ps)
		for _, r := range rs {
			for p := r[0]; p <= r[1]; p++ {
				if err := enc.EncodePage(ltx.PageHeader{Pgno: p}, data); err != nil {
					return classify(err)
				}
				if p == r[1] {
					break // r[1] may be MaxUint32
				}
			}
		}
		return 0
	}()
	e.cw.Add("ltx_enc_run", L(B(snap), U(uint64(ps)), U(uint64(commit)), I(0), runsSx(rs)), I(st), cls, true)
}

func (e *emitter) encoderRule(r *rand.Rand, n int, tier string) {
	// non-snapshot files: short sequences around the lock page, any page size
	for i := 0; i < n; i++ {
		ps := allPageSizes[r.Intn(len(allPageSizes))]
		lock := ltx.LockPgno(ps)
		commit := lock - 2 + uint32(r.Intn(7))
		cand := []uint32{1, 2, lock - 2, lock - 1, lock, lock + 1, lock + 2, lock + 3, commit, commit + 1}
		k := 1 + r.Intn(5)
		var seq []uint32
		for j := 0; j < k; j++ {
			seq = append(seq, cand[r.Intn(len(cand))])
		}
		if r.Intn(4) != 0 {
			sort.Slice(seq, func(a, b int) bool { return seq[a] < seq[b] })
		}
		if r.Intn(3) != 0 { // mostly strictly increasing
			var u []uint32
			for _, p := range seq {
				if len(u) == 0 || u[len(u)-1] != p {
					u = append(u, p)
				}
			}
			seq = u
		}
		var rs [][2]uint32
		for _, p := range seq {
			rs = append(rs, [2]uint32{p, p})
		}
		e.encCase(false, ps, commit, rs, "enc/non-snapshot")
	}
	// snapshot files, small commits
	for i := 0; i < n; i++ {
		commit := uint32(1 + r.Intn(8))
		var rs [][2]uint32
		switch r.Intn(5) {
		case 0:
			rs = [][2]uint32{{1, commit}}
		case 1:
			rs = [][2]uint32{{uint32(r.Intn(3)), commit}}
		case 2:
			a := uint32(1 + r.Intn(int(commit)))
			rs = [][2]uint32{{1, a}, {a + uint32(r.Intn(3)), commit + uint32(r.Intn(2))}}
		case 3:
			rs = [][2]uint32{{1, uint32(1 + r.Intn(int(commit)))}}
		default:
			rs = [][2]uint32{{1, commit}, {uint32(1 + r.Intn(int(commit))), commit}}
		}
		e.encCase(true, 512, commit, rs, "enc/snapshot-small")
	}
	// snapshot files that reach the lock page (1 GiB of zero pages each)
	sizes := []uint32{65536}
	if tier == "thorough" {
		sizes = allPageSizes
	}
	for _, ps := range sizes {
		lock := ltx.LockPgno(ps)
		e.encCase(true, ps, lock+2, [][2]uint32{{1, lock - 1}, {lock + 1, lock + 2}}, "enc/snapshot-across-lock")
		e.encCase(true, ps, lock+2, [][2]uint32{{1, lock}}, "enc/snapshot-with-lock-page")
		e.encCase(true, ps, lock+2, [][2]uint32{{1, lock - 1}, {lock + 2, lock + 2}}, "enc/snapshot-skips-too-far")
		e.encCase(true, ps, lock-1, [][2]uint32{{1, lock - 1}}, "enc/snapshot-ends-before-lock")
	}
}

// ---- sparse databases through the real DB / Replica code --------------------------------

// pageIndexPgnos lists the page numbers of an LTX file from its page index
// (what the VFS reads); used for files too large to decode page by page in
// the quick tier.
func pageIndexPgnos(b []byte) ([]uint32, error) {
	if len(b) < ltx.HeaderSize+ltx.TrailerSize+8 {
		return nil, fmt.Errorf("short file")
	}
	szOff := len(b) - ltx.TrailerSize - 8
	sz := int(binary.BigEndian.Uint64(b[szOff:]))
	if sz <= 0 || sz > szOff {
		return nil, fmt.Errorf("bad index size")
	}
	idx, err := ltx.DecodePageIndex(bytes.NewReader(b[szOff-sz:]), 0, 0, 0)
	if err != nil {
		return nil, err
	}
	out := make([]uint32, 0, len(idx))
	for p := range idx {
		out = append(out, p)
	}
	sort.Slice(out, func(i, j int) bool { return out[i] < out[j] })
	return out, nil
}

type ltxObs struct {
	level    int
	hdr      ltx.Header
	pgnos    []uint32
	fullRead bool
}

// observeLTX reads header and page numbers of one LTX file. Page frames are
// decoded one by one with ltx.Decoder (and the file checksum verified) when
// decodeAll is set or the file is small; otherwise the page index is used.
func observeLTX(path string, level int, decodeAll bool) (o ltxObs, err error) {
	defer func() {
		if p := recover(); p != nil {
			err = fmt.Errorf("panic: %v", p)
		}
	}()
	b, err := os.ReadFile(path)
	if err != nil {
		return o, err
	}
	dec := ltx.NewDecoder(bytes.NewReader(b))
	if err := dec.DecodeHeader(); err != nil {
		return o, err
	}
	o.level, o.hdr = level, dec.Header()
	if decodeAll || int64(o.hdr.Commit)*int64(o.hdr.PageSize) <= 64<<20 {
		data := make([]byte, o.hdr.PageSize)
		for {
			var ph ltx.PageHeader
			if err := dec.DecodePage(&ph, data); err == io.EOF {
				break
			} else if err != nil {
				return o, err
			}
			o.pgnos = append(o.pgnos, ph.Pgno)
		}
		o.fullRead = true
		return o, dec.Close()
	}
	o.pgnos, err = pageIndexPgnos(b)
	return o, err
}

// walKeys lists the page numbers of the committed frames of the WAL byte range
// [off, off+size) that are within the commit size (what WALReader.PageMap keeps).
func walKeys(wal []byte, ps uint32, off, size int64, commit uint32) []uint32 {
	fs := int64(24 + ps)
	seen := map[uint32]bool{}
	var txn []uint32
	for o := off; o+fs <= off+size && o+fs <= int64(len(wal)); o += fs {
		pgno := binary.BigEndian.Uint32(wal[o:])
		c := binary.BigEndian.Uint32(wal[o+4:])
		txn = append(txn, pgno)
		if c != 0 {
			for _, p := range txn {
				seen[p] = true
			}
			txn = nil
		}
	}
	var out []uint32
	for p := range seen {
		if p <= commit {
			out = append(out, p)
		}
	}
	sort.Slice(out, func(i, j int) bool { return out[i] < out[j] })
	return out
}

type sparseScenario struct {
	ps      uint32
	delta   int    // initial (first synced) database size = lockPgno + delta pages
	name    string // where the lock page lies relative to the first committed range
	growths []int  // nil: one blob insert; else one transaction per entry growing the database by that many pages, each followed by ONE incremental sync
	follow  bool   // continue with Snapshot, Compact x2, Close, Restore and the image comparison
	must    bool   // runs even when the quick tier's time budget is used up
	walOnly bool   // the growth across the lock page is committed BEFORE the first sync and never checkpointed:
	// the snapshotting first sync and an explicit Snapshot both take pages n0+1.. from the WAL only, while the
	// database file still ends before the lock page (seed C17d: a pre-flight count that forgets the lock page)
}

// boundaryHistories: the previously synced size on each side of the lock page
// (lockPgno-2, lockPgno-1 = exactly 1 GiB, lockPgno, lockPgno+1), each followed
// by growth of 1, 2 and several pages in one incremental sync; chained growths
// reuse the 1 GiB first sync.
// isFull: the file must carry the whole database (MinTXID 1, snapshot level) or does carry it
// (a snapshotting sync in the chain, e.g. after a WAL restart).
func isFull(o ltxObs, lock uint32) bool {
	if o.hdr.MinTXID == 1 || o.level == litestream.SnapshotLevel {
		return true
	}
	n := o.hdr.Commit
	if lock <= o.hdr.Commit {
		n--
	}
	return o.hdr.Commit > 0 && uint32(len(o.pgnos)) == n
}

// srcPage is a self-describing page: kind 1 = "bytes of the database file at offset off",
// kind 2 = "bytes of the WAL at offset off".
func srcPage(ps uint32, kind uint32, off uint64) []byte {
	b := make([]byte, ps)
	copy(b, "VRFS")
	binary.BigEndian.PutUint32(b[4:], kind)
	binary.BigEndian.PutUint64(b[8:], off)
	for i := 16; i+8 <= len(b); i += 8 {
		binary.BigEndian.PutUint64(b[i:], (off+1)*0x9E3779B97F4A7C15+uint64(i)*uint64(kind+7))
	}
	return b
}

// srcOf recognises a self-describing page; (3,0) = all zero, (9,hash) = anything else.
func srcOf(b []byte) (uint32, uint64) {
	if len(b) >= 16 && string(b[:4]) == "VRFS" {
		k, o := binary.BigEndian.Uint32(b[4:]), binary.BigEndian.Uint64(b[8:])
		if bytes.Equal(b, srcPage(uint32(len(b)), k, o)) {
			return k, o
		}
	}
	if bytes.Equal(b, make([]byte, len(b))) {
		return 3, 0
	}
	return 9, pageID(b) & 0xffffffff
}

// ltxPages decodes the given pages of an LTX file through its page index.
func ltxPages(b []byte, want []uint32) (map[uint32][]byte, error) {
	szOff := len(b) - ltx.TrailerSize - 8
	if szOff < ltx.HeaderSize {
		return nil, fmt.Errorf("short file")
	}
	sz := int(binary.BigEndian.Uint64(b[szOff:]))
	if sz <= 0 || sz > szOff {
		return nil, fmt.Errorf("bad index size")
	}
	idx, err := ltx.DecodePageIndex(bytes.NewReader(b[szOff-sz:]), 0, 0, 0)
	if err != nil {
		return nil, err
	}
	out := map[uint32][]byte{}
	for _, p := range want {
		el, ok := idx[p]
		if !ok {
			continue
		}
		if el.Offset < 0 || el.Offset+el.Size > int64(len(b)) {
			return nil, fmt.Errorf("page index entry of page %d out of range", p)
		}
		_, data, err := ltx.DecodePageData(b[el.Offset : el.Offset+el.Size])
		if err != nil {
			return nil, fmt.Errorf("page %d: %w", p, err)
		}
		out[p] = data
	}
	return out, nil
}

// checkFileContent: every patterned database-file page a full encoding holds must carry the
// bytes of its own file offset.
func (e *emitter) checkFileContent(path string, ps uint32, patterned map[uint32]bool) string {
	if len(patterned) == 0 {
		return ""
	}
	b, err := os.ReadFile(path)
	if err != nil {
		return err.Error()
	}
	var want []uint32
	for p := range patterned {
		want = append(want, p)
	}
	sort.Slice(want, func(i, j int) bool { return want[i] < want[j] })
	pages, err := ltxPages(b, want)
	if err != nil {
		return err.Error()
	}
	for _, p := range want {
		data, ok := pages[p]
		if !ok {
			return fmt.Sprintf("page %d (in the database file before the first sync) is missing from the file", p)
		}
		k, o := srcOf(data)
		if k != 1 || o != uint64(p-1)*uint64(ps) {
			desc := "other bytes"
			switch k {
			case 1:
				desc = fmt.Sprintf("the bytes of database-file page %d", o/uint64(ps)+1)
			case 3:
				desc = "an empty page"
			}
			return fmt.Sprintf("page %d holds %s instead of the bytes at its own offset in the database file", p, desc)
		}
		e.extra["database-file pages of full encodings compared content-wise"]++
		if p > ltx.LockPgno(ps) {
			e.extra["... of which beyond the lock page"]++
		}
	}
	return ""
}

func boundaryHistories(ps uint32, followFirst bool) []sparseScenario {
	h := func(delta int, follow bool, g ...int) sparseScenario {
		return sparseScenario{ps, delta, fmt.Sprintf("prev=lock%+d growth=%v", delta, g), g, follow, false, false}
	}
	return []sparseScenario{
		{ps, 4, "first sync with database-file pages beyond the lock page, growth=[1]", []int{1}, false, true, false},
		{ps, -2, "first sync and Snapshot with the growth across the lock page only in the WAL, growth=[1]", []int{1}, false, true, true},
		h(-1, followFirst, 2, 5), // exactly 1 GiB, then across the lock page
		h(-2, false, 1, 1, 1, 2), // lock-2 -> lock-1 -> lock+1 -> lock+2 -> lock+4
		h(-1, false, 5),
		h(-2, false, 2, 2),
		h(0, false, 1, 2),
		h(-2, false, 5),
		h(0, false, 5),
		h(1, false, 5),
		h(0, false, 2),
	}
}

func (e *emitter) sparseDatabases(r *rand.Rand, dir, tier string) error {
	var scs []sparseScenario
	budget := 30 * time.Second
	if tier == "thorough" {
		budget = 24 * time.Hour
		for _, ps := range allPageSizes {
			scs = append(scs, sparseScenario{ps, -3, "lock-beyond-then-inside", nil, true, false, false})
			scs = append(scs, boundaryHistories(ps, ps == 65536 || ps == 4096)...)
			if ps == 65536 || ps == 4096 {
				scs = append(scs, sparseScenario{ps, -1, "lock-next-page-grow-vacuum-write", nil, true, false, false})
				scs = append(scs, sparseScenario{ps, 0, "lock-last-page", nil, true, false, false}, sparseScenario{ps, 2, "lock-inside", nil, true, false, false}, sparseScenario{ps, -1, "lock-next-page", nil, true, false, false})
			}
		}
	} else {
		// in priority order; scenarios that do not fit the time budget of the quick tier are
		// skipped and listed as such in the evidence
		// first: previous synced size exactly 1 GiB (lock page is the next page), growth across
		// the lock page in one incremental sync, then snapshot / compaction / restore
		bh := boundaryHistories(65536, false)
		scs = append(scs, bh[:7]...)
		scs = append(scs, sparseScenario{65536, -1, "lock-next-page-then-inside", nil, true, true, false})
		scs = append(scs, sparseScenario{65536, -1, "lock-next-page-grow-vacuum-write", nil, true, true, false})
		scs = append(scs, bh[7:]...)
		scs = append(scs, boundaryHistories(4096, false)[:3]...)
		scs = append(scs, sparseScenario{65536, 0, "lock-last-page", nil, true, false, false}, sparseScenario{65536, -3, "lock-beyond-then-inside", nil, true, false, false})
		switch os.Getenv("VERIF_LTX_SCENARIO") {
		case "4096":
			scs = []sparseScenario{{4096, -3, "lock-beyond-then-inside", nil, true, true, false}}
		case "last":
			scs = []sparseScenario{{65536, 0, "lock-last-page", nil, true, true, false}}
		case "next":
			scs = []sparseScenario{{65536, -1, "lock-next-page", nil, true, true, false}}
		case "boundary":
			scs = boundaryHistories(65536, true)
		}
	}
	_ = os.RemoveAll(dir)
	defer os.RemoveAll(dir)
	tStart := time.Now()
	for i, sc := range scs {
		if i > 0 && !sc.must && time.Since(tStart) > budget {
			e.extra[fmt.Sprintf("skipped (time budget of the quick tier): ps=%d %s", sc.ps, sc.name)]++
			continue
		}
		t0 := time.Now()
		d := filepath.Join(dir, fmt.Sprintf("s%d", i))
		if err := os.MkdirAll(d, 0o755); err != nil {
			return err
		}
		err := e.sparseOne(r, d, sc, tier == "thorough")
		_ = os.RemoveAll(d)
		cls := fmt.Sprintf("sparse ps=%d %s", sc.ps, sc.name)
		e.extra[cls+" ms"] = int(time.Since(t0).Milliseconds())
		if err != nil {
			sig := sc.name
			if sc.growths != nil {
				sig = "boundary-history"
			}
			e.violation("C17/sparse-database-operation-failed:"+sig,
				fmt.Sprintf("page size %d, first synced size lockPgno%+d pages, scenario %s: %v", sc.ps, sc.delta, sc.name, err),
				map[string]any{"scenario": cls, "how": "./check C17 re-runs the scenario"})
		}
	}
	return nil
}

func (e *emitter) sparseOne(r *rand.Rand, dir string, sc sparseScenario, decodeAll bool) (err error) {
	defer func() {
		if p := recover(); p != nil {
			err = fmt.Errorf("panic: %v", p)
		}
	}()
	ctx := context.Background()
	ps := sc.ps
	lock := ltx.LockPgno(ps)
	cls := fmt.Sprintf("sparse ps=%d %s", ps, sc.name)
	tlast := time.Now()
	lap := func(what string) {
		if os.Getenv("VERIF_LTX_TIMING") != "" {
			fmt.Fprintf(os.Stderr, "%s: %s %d ms\n", cls, what, time.Since(tlast).Milliseconds())
		}
		tlast = time.Now()
	}
	path := filepath.Join(dir, "db")
	n0 := uint32(int64(lock) + int64(sc.delta))

	// 1. a small real database, then its header size field and its file are extended (a hole)
	app, err := sql.Open("sqlite", path)
	if err != nil {
		return err
	}
	app.SetMaxOpenConns(1)
	exec := func(q string, a ...any) error {
		if _, e := app.Exec(q, a...); e != nil {
			return fmt.Errorf("%s: %w", q, e)
		}
		return nil
	}
	if err := exec(fmt.Sprintf("PRAGMA page_size=%d", ps)); err != nil {
		return err
	}
	if err := exec("CREATE TABLE t(id INTEGER PRIMARY KEY, v BLOB)"); err != nil {
		return err
	}
	if err := exec("INSERT INTO t(v) VALUES (randomblob(100))"); err != nil {
		return err
	}
	// litestream's bookkeeping tables, created up front so that opening the DB does not
	// allocate pages and the first synced commit size is exactly n0
	if err := exec("CREATE TABLE IF NOT EXISTS _litestream_seq (id INTEGER PRIMARY KEY, seq INTEGER)"); err != nil {
		return err
	}
	if err := exec("CREATE TABLE IF NOT EXISTS _litestream_lock (id INTEGER)"); err != nil {
		return err
	}
	if err := exec("INSERT INTO _litestream_seq (id, seq) VALUES (1, 1)"); err != nil {
		return err
	}
	if err := app.Close(); err != nil {
		return err
	}
	f, err := os.OpenFile(path, os.O_RDWR, 0)
	if err != nil {
		return err
	}
	hdr := make([]byte, 100)
	if _, err := f.ReadAt(hdr, 0); err != nil {
		return err
	}
	binary.BigEndian.PutUint32(hdr[28:], n0)
	copy(hdr[92:96], hdr[24:28]) // version-valid-for = change counter: the in-header size is trusted
	if _, err := f.WriteAt(hdr[:100], 0); err != nil {
		return err
	}
	if err := f.Truncate(int64(n0) * int64(ps)); err != nil {
		return err
	}
	// self-describing, mutually different pages in the database FILE on both sides of the lock
	// page (never referenced by SQLite, so they stay as written): a full-database encoding must
	// reproduce each of them from its own file offset
	patterned := map[uint32]bool{}
	for p := lock - 3; p <= n0 && p <= lock+8; p++ {
		if p != lock && p > 4 {
			if _, err := f.WriteAt(srcPage(ps, 1, uint64(p-1)*uint64(ps)), int64(p-1)*int64(ps)); err != nil {
				return err
			}
			patterned[p] = true
		}
	}
	if err := f.Close(); err != nil {
		return err
	}

	// 2. litestream + application connection
	rdir := filepath.Join(dir, "replica")
	db := litestream.NewDB(path)
	db.MonitorInterval = 0
	db.Logger = QuietLogger()
	c := file.NewReplicaClient(rdir)
	db.Replica = litestream.NewReplicaWithClient(db, c)
	db.Replica.MonitorEnabled = false
	c.Replica = db.Replica
	if err := db.Open(); err != nil {
		return fmt.Errorf("db open: %w", err)
	}
	closed := false
	defer func() {
		if !closed {
			_ = db.Close(ctx)
		}
	}()
	app, err = sql.Open("sqlite", path)
	if err != nil {
		return err
	}
	defer app.Close()
	app.SetMaxOpenConns(1)
	if err := exec("PRAGMA journal_mode=wal"); err != nil {
		return err
	}
	if err := exec("PRAGMA wal_autocheckpoint=0"); err != nil {
		return err
	}
	// a first small write so that a WAL exists
	if err := exec("INSERT INTO t(v) VALUES (randomblob(50))"); err != nil {
		return err
	}
	if sc.walOnly {
		// growth across the lock page in the WAL before anything was synced
		if err := exec("INSERT INTO t(v) VALUES (randomblob(?))", int(ps)*5+int(ps)/2); err != nil {
			return err
		}
	}
	if err := db.Sync(ctx); err != nil {
		return fmt.Errorf("first sync (snapshot path, commit=lockPgno%+d): %w", sc.delta, err)
	}
	lap("open+first sync")
	var fol *follower
	if sc.follow {
		// a follower (Replica.Restore with Follow) that starts from the snapshot taken at the first
		// synced size and then applies every later level-0 file as it is uploaded
		if err := db.Replica.Sync(ctx); err != nil {
			return fmt.Errorf("replica sync: %w", err)
		}
		fol = startFollower(rdir, filepath.Join(dir, "follow.db"))
		defer fol.stop()
		if err := fol.waitFor(1, 180*time.Second); err != nil {
			return fmt.Errorf("follower: initial restore from the snapshot at lockPgno%+d pages: %w", sc.delta, err)
		}
		fol.start, _ = litestream.ReadTXIDFile(fol.out)
		lap("follower initial restore")
	}
	if sc.growths == nil && strings.HasSuffix(sc.name, "grow-vacuum-write") {
		// inside ONE sync interval: growth across the lock page, a VACUUM that shrinks the database back below it,
		// and one more commit that does not shrink it; the page map must drop the pages beyond the final size
		// (seed C17g: the trim ran only when the LAST transaction of the segment shrank the database)
		if err := exec("INSERT INTO t(v) VALUES (randomblob(?))", int(ps)*5+int(ps)/2); err != nil {
			return err
		}
		if err := exec("VACUUM"); err != nil {
			return fmt.Errorf("VACUUM: %w", err)
		}
		if err := exec("INSERT INTO t(v) VALUES (randomblob(100))"); err != nil {
			return err
		}
		if err := db.Sync(ctx); err != nil {
			return fmt.Errorf("sync after growth across the lock page, VACUUM and one more commit in one sync interval: %w", err)
		}
	} else if sc.growths == nil {
		// growth across the lock page within one sync: overflow pages n0+1 ...
		if err := exec("INSERT INTO t(v) VALUES (randomblob(?))", int(ps)*5+int(ps)/2); err != nil {
			return err
		}
		if err := db.Sync(ctx); err != nil {
			return fmt.Errorf("second sync (incremental path, growth across the lock page): %w", err)
		}
	}
	pageCount := func() int64 {
		var n int64
		_ = app.QueryRow("PRAGMA page_count").Scan(&n)
		return n
	}
	for gi, g := range sc.growths {
		// one transaction that allocates g pages (one root page per table), then ONE incremental sync
		before := pageCount()
		if err := exec("BEGIN"); err != nil {
			return err
		}
		for j := 0; j < g; j++ {
			if err := exec(fmt.Sprintf("CREATE TABLE g%d_%d(a)", gi, j)); err != nil {
				return err
			}
		}
		if err := exec("COMMIT"); err != nil {
			return err
		}
		after := pageCount()
		if err := db.Sync(ctx); err != nil {
			return fmt.Errorf("incremental sync after growth from lockPgno%+d to lockPgno%+d pages in one transaction: %w",
				before-int64(lock), after-int64(lock), err)
		}
	}
	lap("second sync")
	if sc.walOnly {
		if _, err := db.Snapshot(ctx); err != nil {
			return fmt.Errorf("snapshot while the growth across the lock page is only in the WAL (database file = lockPgno%+d pages): %w", sc.delta, err)
		}
		lap("wal-only snapshot")
	}
	wal1, _ := os.ReadFile(path + "-wal")
	if err := db.Replica.Sync(ctx); err != nil {
		return fmt.Errorf("replica sync: %w", err)
	}
	lap("replica sync")
	wal2 := wal1
	if sc.follow {
	// move every page (also those beyond the lock page) into the database FILE and restart the
	// WAL, then one small write: the snapshot below takes page 1.. from the WAL and the grown
	// pages on both sides of the lock page from the file
	if err := db.Checkpoint(ctx, litestream.CheckpointModeTruncate); err != nil {
		return fmt.Errorf("checkpoint (TRUNCATE) before the snapshot: %w", err)
	}
	if err := exec("UPDATE t SET v = randomblob(70) WHERE id = 2"); err != nil {
		return err
	}
	if err := db.Sync(ctx); err != nil {
		return fmt.Errorf("sync after checkpoint: %w", err)
	}
	lap("checkpoint+sync")
	if _, err := db.Snapshot(ctx); err != nil {
		return fmt.Errorf("snapshot: %w", err)
	}
	lap("snapshot")
	if _, err := db.Compact(ctx, 1); err != nil {
		return fmt.Errorf("compact level 1: %w", err)
	}
	lap("compact1")
	// one more incremental write + sync + compaction on top (a level-1 file that does not start at TXID 1)
	if err := exec("UPDATE t SET v = randomblob(60) WHERE id = 1"); err != nil {
		return err
	}
	if err := exec("INSERT INTO t(v) VALUES (randomblob(?))", int(ps)*2); err != nil {
		return err
	}
	if err := db.Sync(ctx); err != nil {
		return fmt.Errorf("third sync: %w", err)
	}
	wal2, _ = os.ReadFile(path + "-wal")
	if err := db.Replica.Sync(ctx); err != nil {
		return fmt.Errorf("replica sync: %w", err)
	}
	if _, err := db.Compact(ctx, 1); err != nil {
		return fmt.Errorf("second compaction of level 1: %w", err)
	}
	}

	lap("third sync+compact2")
	// 3. every LTX file in the replica: header + page numbers
	var obs []ltxObs
	for _, level := range []int{0, 1, litestream.SnapshotLevel} {
		ents, _ := os.ReadDir(c.LTXLevelDir(level))
		for _, en := range ents {
			if _, _, err := ltx.ParseFilename(en.Name()); err != nil {
				continue
			}
			o, err := observeLTX(filepath.Join(c.LTXLevelDir(level), en.Name()), level, decodeAll)
			if err != nil {
				return fmt.Errorf("read ltx file level %d %s: %w", level, en.Name(), err)
			}
			obs = append(obs, o)
			if isFull(o, lock) {
				// only the patterned pages the encoded database still has (a VACUUM may have shrunk it below them)
				within := map[uint32]bool{}
				for p := range patterned {
					if p <= o.hdr.Commit {
						within[p] = true
					}
				}
				if bad := e.checkFileContent(filepath.Join(c.LTXLevelDir(level), en.Name()), ps, within); bad != "" {
					e.violation("C17/full-encoding-page-content-differs",
						fmt.Sprintf("page size %d, scenario %s, level %d file %s (commit %d, lock page %d): %s", ps, sc.name, level, en.Name(), o.hdr.Commit, lock, bad),
						map[string]any{"scenario": cls, "how": "./check C17 re-runs the scenario"})
				}
			}
		}
	}
	commitAt := map[ltx.TXID]uint32{}
	for _, o := range obs {
		if o.level == 0 {
			commitAt[o.hdr.MaxTXID] = o.hdr.Commit
		}
	}
	if sc.follow && len(obs) < 6 {
		return fmt.Errorf("expected at least 6 LTX files in the replica (3 level-0, 2 level-1, 1 snapshot), found %d", len(obs))
	}
	if want := 1 + len(sc.growths); sc.growths != nil && len(commitAt) < want {
		return fmt.Errorf("expected at least %d level-0 files (snapshot + one per growth transaction), found %d", want, len(commitAt))
	}
	walFor := func(h ltx.Header) []byte {
		for _, w := range [][]byte{wal1, wal2} {
			if len(w) >= 32 && binary.BigEndian.Uint32(w[16:]) == h.WALSalt1 && binary.BigEndian.Uint32(w[20:]) == h.WALSalt2 &&
				int64(len(w)) >= h.WALOffset+h.WALSize {
				return w
			}
		}
		return nil
	}
	for _, o := range obs {
		full := isFull(o, lock)
		if full && o.hdr.MinTXID != 1 {
			e.extra["in-chain full encodings (snapshotting sync with MinTXID > 1)"]++
		}
		prev := commitAt[o.hdr.MinTXID-1]
		runs := toRuns(o.pgnos)
		fcls := fmt.Sprintf("%s/level%d", cls, o.level)
		e.cw.Add("ltx_file_ok", L(U(uint64(ps)), B(full), U(uint64(prev)), U(uint64(o.hdr.Commit)), runsSx(runs)), I(1), fcls, true)
		if full {
			e.cw.Add("ltx_snapshot_pgnos", L(U(uint64(ps)), U(uint64(o.hdr.Commit))), L(U(uint64(lock)), runsSx(runs)), fcls+"/full", true)
		} else if wal := walFor(o.hdr); o.level == 0 && wal == nil {
			e.extra["incremental files whose WAL generation was gone when inspected (ltx_file_ok only)"]++
		} else if o.level == 0 {
			keys := walKeys(wal, ps, o.hdr.WALOffset, o.hdr.WALSize, o.hdr.Commit)
			ks := make(SxList, 0, len(keys))
			for _, k := range keys {
				ks = append(ks, U(uint64(k)))
			}
			e.cw.Add("ltx_wal_pgnos", L(U(uint64(ps)), U(uint64(prev)), U(uint64(o.hdr.Commit)), ks), runsSx(runs), fcls+"/incremental", true)
			if d := int64(prev) - int64(lock); d >= -3 && d <= 3 && o.hdr.Commit > prev {
				e.extra[fmt.Sprintf("real incremental syncs: previous size lockPgno%+d, grown by %d pages", d, int64(o.hdr.Commit)-int64(prev))]++
			}
		}
		switch {
		case o.hdr.Commit > lock:
			e.extra["files: lock page inside the committed range"]++
		case o.hdr.Commit == lock:
			e.extra["files: lock page is the last page"]++
		case o.hdr.Commit == lock-1:
			e.extra["files: lock page is the first page beyond"]++
		default:
			e.extra["files: lock page further beyond"]++
		}
	}

	lap("observe files")
	if !sc.follow {
		e.extra["sparse databases synced across the boundary (no restore)"]++
		return nil
	}
	// 4. close (final sync + upload), restore from the replica alone, then compare
	//    with the checkpointed source
	closed = true
	if err := db.Close(ctx); err != nil {
		return fmt.Errorf("db close: %w", err)
	}
	lap("close")
	out := filepath.Join(dir, "restored.db")
	opt := litestream.NewRestoreOptions()
	opt.OutputPath = out
	if err := litestream.NewReplicaWithClient(nil, file.NewReplicaClient(rdir)).Restore(ctx, opt); err != nil {
		return fmt.Errorf("restore: %w", err)
	}
	lap("restore")
	if err := exec("PRAGMA wal_checkpoint(TRUNCATE)"); err != nil {
		return err
	}
	lap("checkpoint")
	diff, diffPgno, err := compareImages(path, out, ps)
	if err != nil {
		return err
	}
	lap("compare")
	if diff != "" {
		diff += pageForensics(path, out, c, ps, diffPgno)
		e.violation("C17/restored-image-differs:"+sc.name, fmt.Sprintf("page size %d: %s", ps, diff),
			map[string]any{"scenario": cls, "how": "./check C17 re-runs the scenario"})
	}
	e.extra["sparse databases restored and compared"]++
	if fol != nil {
		if err := e.checkFollower(fol, c, path, out, ps, sc, cls); err != nil {
			return err
		}
		lap("follower")
	}
	return nil
}

// ---- follow-mode restore -------------------------------------------------------------------

type follower struct {
	out    string
	cancel context.CancelFunc
	done   chan error
	start  ltx.TXID // sidecar TXID after the initial restore
	ended  bool
	endErr error
}

func startFollower(rdir, out string) *follower {
	ctx, cancel := context.WithCancel(context.Background())
	f := &follower{out: out, cancel: cancel, done: make(chan error, 1)}
	go func() {
		var err error
		defer func() {
			if p := recover(); p != nil {
				err = fmt.Errorf("panic: %v", p)
			}
			f.done <- err
		}()
		r := litestream.NewReplicaWithClient(nil, file.NewReplicaClient(rdir))
		err = r.Restore(ctx, litestream.RestoreOptions{OutputPath: out, Follow: true, FollowInterval: 20 * time.Millisecond})
	}()
	return f
}

func (f *follower) stop() {
	if f.ended {
		return
	}
	f.cancel()
	select {
	case f.endErr = <-f.done:
	case <-time.After(60 * time.Second):
		f.endErr = fmt.Errorf("follower did not stop within 60 s of cancellation")
	}
	f.ended = true
}

// waitFor waits until the -txid sidecar reaches target.
func (f *follower) waitFor(target ltx.TXID, timeout time.Duration) error {
	deadline := time.Now().Add(timeout)
	for {
		if t, err := litestream.ReadTXIDFile(f.out); err == nil && t >= target {
			return nil
		}
		select {
		case err := <-f.done:
			f.ended, f.endErr = true, err
			return fmt.Errorf("Restore(Follow) returned before reaching TXID %d: %v", target, err)
		case <-time.After(20 * time.Millisecond):
		}
		if time.Now().After(deadline) {
			t, _ := litestream.ReadTXIDFile(f.out)
			return fmt.Errorf("sidecar TXID %d did not reach %d within %s", t, target, timeout)
		}
	}
}

// normID: content id of a page for the model (0 = empty page); the page-1 header bytes the
// follower rewrites are not part of it.
func normID(pgno uint32, b []byte) uint64 {
	if pgno == 1 && len(b) >= 28 {
		c := append([]byte(nil), b...)
		for _, i := range []int{18, 19, 24, 25, 26, 27} {
			c[i] = 0
		}
		b = c
	}
	if bytes.Equal(b, make([]byte, len(b))) {
		return 0
	}
	h := sha256.Sum256(b)
	return 1<<32 + uint64(binary.BigEndian.Uint32(h[:4]))
}

// checkFollower: the follower must reach the last replicated TXID; its image is then compared
// (1) with the one-shot restore of the same TXID, (2) with the checkpointed source, both page
// for page with the lock page required to be empty, and (3) with the model's sequential
// application (Ltx/Apply.v apply_all) of the level-0 files, on the pages around the lock page.
func (e *emitter) checkFollower(fol *follower, c *file.ReplicaClient, src, oneShot string, ps uint32, sc sparseScenario, cls string) error {
	lock := ltx.LockPgno(ps)
	type l0 struct {
		min, max ltx.TXID
		path     string
	}
	var files []l0
	ents, _ := os.ReadDir(c.LTXLevelDir(0))
	for _, en := range ents {
		if a, b, err := ltx.ParseFilename(en.Name()); err == nil {
			files = append(files, l0{a, b, filepath.Join(c.LTXLevelDir(0), en.Name())})
		}
	}
	sort.Slice(files, func(i, j int) bool { return files[i].min < files[j].min })
	if len(files) == 0 {
		return fmt.Errorf("follower: no level-0 file in the replica")
	}
	target := files[len(files)-1].max
	rep := map[string]any{"scenario": cls, "how": "./check C17 re-runs the scenario"}
	if err := fol.waitFor(target, 180*time.Second); err != nil {
		fol.stop()
		e.violation("C17/follower-stalled", fmt.Sprintf("page size %d, scenario %s: follow-mode restore started at TXID %d: %v", ps, sc.name, fol.start, err), rep)
		return nil
	}
	fol.stop()
	if fol.endErr != nil {
		e.violation("C17/follower-stalled", fmt.Sprintf("page size %d, scenario %s: Restore(Follow) returned %v on cancellation", ps, sc.name, fol.endErr), rep)
	}
	e.extra[fmt.Sprintf("followers: started at TXID %d (snapshot of lockPgno%+d pages), applied level-0 files up to TXID %d", fol.start, sc.delta, target)]++
	if target <= fol.start {
		return fmt.Errorf("follower: no incremental file was applied after the initial restore (start %d, target %d)", fol.start, target)
	}
	for _, cmp := range []struct{ other, what, sig string }{
		{oneShot, "the one-shot restore of the same TXID", "C17/follower-image-differs-from-restore"},
		{src, "the checkpointed source database", "C17/follower-image-differs-from-source"},
	} {
		diff, pg, err := compareImages(cmp.other, fol.out, ps, true)
		if err != nil {
			return err
		}
		if diff != "" {
			diff = strings.ReplaceAll(strings.ReplaceAll(diff, "restored", "followed"), "source", "reference")
			e.violation(cmp.sig, fmt.Sprintf("page size %d, scenario %s, follower started at TXID %d and applied level-0 files up to TXID %d; compared with %s: %s%s",
				ps, sc.name, fol.start, target, cmp.what, diff, pageForensics(cmp.other, fol.out, c, ps, pg)), rep)
		}
	}
	// (3) the model: level-0 files applied in order to the empty database, on a window of pages
	var window []uint32
	for p := uint32(1); p <= 4; p++ {
		window = append(window, p)
	}
	for p := lock - 4; p <= lock+12; p++ {
		window = append(window, p)
	}
	var abs []absFile
	for _, f := range files {
		b, err := os.ReadFile(f.path)
		if err != nil {
			return err
		}
		dec := ltx.NewDecoder(bytes.NewReader(b))
		if err := dec.DecodeHeader(); err != nil {
			return err
		}
		h := dec.Header()
		pages, err := ltxPages(b, window)
		if err != nil {
			return err
		}
		af := absFile{ps: ps, min: uint64(h.MinTXID), max: uint64(h.MaxTXID), commit: h.Commit}
		for _, p := range window {
			if data, ok := pages[p]; ok {
				af.pages = append(af.pages, pg{p, normID(p, data)})
			}
		}
		abs = append(abs, af)
	}
	ff, err := os.Open(fol.out)
	if err != nil {
		return err
	}
	defer ff.Close()
	st, _ := ff.Stat()
	img := absImage{size: uint32(st.Size() / int64(ps))}
	buf := make([]byte, ps)
	for _, p := range window {
		if p <= img.size {
			if _, err := ff.ReadAt(buf, int64(p-1)*int64(ps)); err != nil {
				return err
			}
			if id := normID(p, buf); id != 0 {
				img.pages = append(img.pages, pg{p, id})
			}
		}
	}
	e.cw.Add("ltx_apply", L(absImage{}.sx(), filesSx(abs)), img.sx(), cls+"/follower", true)
	e.extra["follower images compared (one-shot restore, source, model apply_all)"]++
	return nil
}

// compareImages: same size; every page other than the lock page identical; the
// restored lock page (when inside the file) all zero.
// maskHdr: bytes 18,19 (journal mode) and 24..27 (change counter) of page 1 are rewritten by
// Replica.applyLTXFile in follow mode and are not compared.
func compareImages(src, dst string, ps uint32, maskHdr ...bool) (string, uint32, error) {
	a, err := os.Open(src)
	if err != nil {
		return "", 0, err
	}
	defer a.Close()
	b, err := os.Open(dst)
	if err != nil {
		return "", 0, err
	}
	defer b.Close()
	sa, _ := a.Stat()
	sb, _ := b.Stat()
	if sa.Size() != sb.Size() {
		return fmt.Sprintf("source has %d bytes (%d pages), restored file has %d bytes (%d pages)", sa.Size(), sa.Size()/int64(ps), sb.Size(), sb.Size()/int64(ps)), 0, nil
	}
	lock := ltx.LockPgno(ps)
	const stripe = 1 << 20
	per := uint32(stripe / int(ps))
	ba, bb := make([]byte, stripe), make([]byte, stripe)
	zero := make([]byte, ps)
	npages := uint32(sa.Size() / int64(ps))
	for p := uint32(1); p <= npages; p += per {
		n := per
		if p+n-1 > npages {
			n = npages - p + 1
		}
		sz := int(n) * int(ps)
		if _, err := io.ReadFull(io.NewSectionReader(a, int64(p-1)*int64(ps), int64(sz)), ba[:sz]); err != nil {
			return "", 0, err
		}
		if _, err := io.ReadFull(io.NewSectionReader(b, int64(p-1)*int64(ps), int64(sz)), bb[:sz]); err != nil {
			return "", 0, err
		}
		if p == 1 && len(maskHdr) > 0 && maskHdr[0] {
			for _, i := range []int{18, 19, 24, 25, 26, 27} {
				ba[i], bb[i] = 0, 0
			}
		}
		if lock >= p && lock < p+n {
			o := int(lock-p) * int(ps)
			if !bytes.Equal(bb[o:o+int(ps)], zero) {
				return fmt.Sprintf("restored lock page %d is not empty", lock), lock, nil
			}
			copy(ba[o:o+int(ps)], zero)
		}
		if !bytes.Equal(ba[:sz], bb[:sz]) {
			for q := uint32(0); q < n; q++ {
				if !bytes.Equal(ba[int(q)*int(ps):int(q+1)*int(ps)], bb[int(q)*int(ps):int(q+1)*int(ps)]) {
					return fmt.Sprintf("page %d differs between source and restored database (lock page is %d)", p+q, lock), p + q, nil
				}
			}
		}
	}
	return "", 0, nil
}

// pageForensics: which replicated files carry the page, and with which content
func pageForensics(src, dst string, c *file.ReplicaClient, ps, pgno uint32) string {
	if pgno == 0 {
		return ""
	}
	h := func(b []byte) string { return fmt.Sprintf("%016x", pageID(b)) }
	rd := func(path string) string {
		f, err := os.Open(path)
		if err != nil {
			return "?"
		}
		defer f.Close()
		b := make([]byte, ps)
		if _, err := f.ReadAt(b, int64(pgno-1)*int64(ps)); err != nil {
			return "?"
		}
		return h(b)
	}
	out := fmt.Sprintf("; page %d: source %s restored %s", pgno, rd(src), rd(dst))
	for _, level := range []int{0, 1, litestream.SnapshotLevel} {
		ents, _ := os.ReadDir(c.LTXLevelDir(level))
		for _, en := range ents {
			b, err := os.ReadFile(filepath.Join(c.LTXLevelDir(level), en.Name()))
			if err != nil {
				continue
			}
			dec := ltx.NewDecoder(bytes.NewReader(b))
			if dec.DecodeHeader() != nil {
				continue
			}
			data := make([]byte, dec.Header().PageSize)
			for {
				var ph ltx.PageHeader
				if err := dec.DecodePage(&ph, data); err != nil {
					break
				}
				if ph.Pgno == pgno {
					out += fmt.Sprintf("; L%d %s has it as %s", level, en.Name()[:33], h(data))
				}
			}
		}
	}
	return out
}

// ---- the REAL writeLTXFromWAL / writeLTXFromDB on a grid around the lock page -----------
//
// (hook /repo/export_verif_ltx.go) A sparse database file of lockPgno+16 pages
// (a hole) and a one-frame WAL file; the page map is supplied directly, so every
// (previous commit, commit, page map) around the boundary is reachable without
// SQLite having to produce it.

func pgnosOf(b []byte) ([]uint32, error) {
	dec := ltx.NewDecoder(bytes.NewReader(b))
	if err := dec.DecodeHeader(); err != nil {
		return nil, err
	}
	data := make([]byte, dec.Header().PageSize)
	var out []uint32
	for {
		var ph ltx.PageHeader
		if err := dec.DecodePage(&ph, data); err == io.EOF {
			break
		} else if err != nil {
			return nil, err
		}
		out = append(out, ph.Pgno)
	}
	return out, dec.Close()
}

type gridFiles struct {
	ps      uint32
	db, wal *os.File
}

func newGridFiles(dir string, ps uint32) (*gridFiles, error) {
	if err := os.MkdirAll(dir, 0o755); err != nil {
		return nil, err
	}
	dbf, err := os.Create(filepath.Join(dir, fmt.Sprintf("grid%d.db", ps)))
	if err != nil {
		return nil, err
	}
	if err := dbf.Truncate(int64(ltx.LockPgno(ps)+16) * int64(ps)); err != nil {
		return nil, err
	}
	walf, err := os.Create(filepath.Join(dir, fmt.Sprintf("grid%d.wal", ps)))
	if err != nil {
		return nil, err
	}
	if _, err := walf.Write(make([]byte, 32+24+int(ps))); err != nil {
		return nil, err
	}
	return &gridFiles{ps, dbf, walf}, nil
}

func (g *gridFiles) close() {
	n1, n2 := g.db.Name(), g.wal.Name()
	g.db.Close()
	g.wal.Close()
	os.Remove(n1)
	os.Remove(n2)
}

// walGridCase: writeLTXFromWAL(prev, commit, page map with the given keys) into a real encoder.
func (e *emitter) walGridCase(g *gridFiles, prev, commit uint32, keys []uint32, cls string) {
	obs := func() (o Sx) {
		defer func() {
			if p := recover(); p != nil {
				o = L(I(9), L())
			}
		}()
		var buf bytes.Buffer
		enc, err := ltx.NewEncoder(&buf)
		if err != nil {
			return L(I(50), L())
		}
		if err := enc.EncodeHeader(ltx.Header{Version: ltx.Version, Flags: ltx.HeaderFlagNoChecksum, PageSize: g.ps, Commit: commit, MinTXID: 2, MaxTXID: 2}); err != nil {
			return L(I(2), L())
		}
		pm := map[uint32]int64{}
		for _, k := range keys {
			pm[k] = 32
		}
		if err := litestream.WriteLTXFromWALVerif(context.Background(), g.db, g.wal, int(g.ps), enc, prev, commit, pm); err != nil {
			return L(I(classify(err)), L())
		}
		if err := enc.Close(); err != nil {
			return L(I(classify(err)), L())
		}
		pgnos, err := pgnosOf(buf.Bytes())
		if err != nil {
			return L(I(51), L())
		}
		return L(I(0), runsSx(toRuns(pgnos)))
	}()
	ks := make(SxList, 0, len(keys))
	for _, k := range keys {
		ks = append(ks, U(uint64(k)))
	}
	e.cw.Add("ltx_wal_encode", L(U(uint64(g.ps)), U(uint64(prev)), U(uint64(commit)), ks), obs, cls, true)
}

func (e *emitter) walGrid(r *rand.Rand, dir string) error {
	for _, ps := range allPageSizes {
		g, err := newGridFiles(dir, ps)
		if err != nil {
			return err
		}
		lock := ltx.LockPgno(ps)
		for dp := -3; dp <= 2; dp++ {
			prev := uint32(int64(lock) + int64(dp))
			for _, grow := range []int{-2, 0, 1, 2, 3, 6} {
				commit := uint32(int64(prev) + int64(grow))
				var growth []uint32 // the non-lock pages of (prev, commit]
				for p := prev + 1; p <= commit; p++ {
					if p != lock {
						growth = append(growth, p)
					}
				}
				cls := fmt.Sprintf("wal-grid prev=lock%+d", dp)
				// (1) nothing of the growth range in the WAL: every growth page comes from the database file
				e.walGridCase(g, prev, commit, []uint32{1}, cls+"/fill-all")
				// (2) what SQLite does: every newly allocated page has a frame
				e.walGridCase(g, prev, commit, append([]uint32{1}, growth...), cls+"/fill-none")
				// (3) a random part of the growth range and some older pages
				keys := map[uint32]bool{}
				for _, p := range growth {
					if r.Intn(2) == 0 {
						keys[p] = true
					}
				}
				for _, p := range []uint32{1, 2, prev - 1, prev, lock - 1, lock + 1} {
					if p >= 1 && p <= commit && p != lock && r.Intn(2) == 0 {
						keys[p] = true
					}
				}
				var ks []uint32
				for p := range keys {
					ks = append(ks, p)
				}
				sort.Slice(ks, func(i, j int) bool { return ks[i] < ks[j] })
				e.walGridCase(g, prev, commit, ks, cls+"/fill-some")
				// (4) outside the input class (SQLite never writes the lock page): a page map holding it
				if grow == 2 && lock <= commit {
					e.walGridCase(g, prev, commit, []uint32{1, lock}, cls+"/lock-page-in-wal")
				}
			}
		}
		g.close()
	}
	return nil
}

// dbGrid: the REAL writeLTXFromDB for commits around the lock page, on a database file and a
// WAL whose pages are self-describing (srcPage), on both sides of the lock page: observed are
// the emitted page numbers (ltx_db_encode) and, for the patterned pages, WHERE the encoded
// bytes came from (ltx_db_content). 1 GiB of (mostly hole) database per call.
func (e *emitter) dbGrid(dir, tier string, seed int64) error {
	_ = seed
	sizes := []uint32{65536, 4096}
	if tier == "thorough" {
		sizes = allPageSizes
	}
	done := map[uint32]bool{}
	for _, ps := range sizes {
		if done[ps] {
			continue
		}
		done[ps] = true
		t0 := time.Now()
		g, err := newGridFiles(dir, ps)
		if err != nil {
			return err
		}
		lock := ltx.LockPgno(ps)
		filePages := []uint32{1, 2, 3, lock - 3, lock - 2, lock - 1}
		for p := lock + 1; p <= lock+6; p++ {
			filePages = append(filePages, p)
		}
		for _, p := range filePages {
			if _, err := g.db.WriteAt(srcPage(ps, 1, uint64(p-1)*uint64(ps)), int64(p-1)*int64(ps)); err != nil {
				return err
			}
		}
		fs := int64(24 + ps)
		for k := int64(0); k < 6; k++ {
			if _, err := g.wal.WriteAt(srcPage(ps, 2, uint64(32+k*fs+24)), 32+k*fs+24); err != nil {
				return err
			}
		}
		frame := func(k int64) int64 { return 32 + k*fs }
		type dbCase struct {
			snap   bool
			commit uint32
			pm     map[uint32]int64
		}
		cases := []dbCase{
			{true, lock + 6, map[uint32]int64{}},                                                                               // every page from the file
			{true, lock + 6, map[uint32]int64{2: frame(0), lock - 2: frame(1), lock + 2: frame(2), lock + 5: frame(3)}}, // WAL and file on both sides
		}
		if tier == "thorough" || ps == 65536 {
			cases = append(cases, dbCase{false, lock + 3, map[uint32]int64{lock - 1: frame(4), lock + 1: frame(5)}})
		} else {
			cases = cases[1:] // quick, smaller pages: the mixed WAL / file case only
		}
		if tier == "thorough" {
			cases = append(cases, dbCase{true, lock, map[uint32]int64{1: frame(0)}},
				dbCase{true, lock - 1, map[uint32]int64{lock - 1: frame(0)}})
		}
		probes := append(append([]uint32{}, filePages...), lock, lock+7)
		sort.Slice(probes, func(i, j int) bool { return probes[i] < probes[j] })
		for _, c := range cases {
			var pmKeys []uint32
			for k := range c.pm {
				pmKeys = append(pmKeys, k)
			}
			sort.Slice(pmKeys, func(i, j int) bool { return pmKeys[i] < pmKeys[j] })
			pmSx := make(SxList, 0, len(pmKeys))
			for _, k := range pmKeys {
				pmSx = append(pmSx, L(U(uint64(k)), I(c.pm[k])))
			}
			prSx := make(SxList, 0, len(probes))
			for _, p := range probes {
				prSx = append(prSx, U(uint64(p)))
			}
			var obsPg, obsContent Sx
			func() {
				defer func() {
					if p := recover(); p != nil {
						obsPg, obsContent = L(I(9), L()), L(I(9), L())
					}
				}()
				fail := func(st int64) { obsPg, obsContent = L(I(st), L()), L(I(st), L()) }
				var buf bytes.Buffer
				enc, _ := ltx.NewEncoder(&buf)
				min := ltx.TXID(2)
				if c.snap {
					min = 1
				}
				if err := enc.EncodeHeader(ltx.Header{Version: ltx.Version, Flags: ltx.HeaderFlagNoChecksum, PageSize: ps, Commit: c.commit, MinTXID: min, MaxTXID: 2}); err != nil {
					fail(2)
					return
				}
				if err := litestream.WriteLTXFromDBVerif(context.Background(), g.db, g.wal, int(ps), enc, c.commit, c.pm); err != nil {
					fail(classify(err))
					return
				}
				if err := enc.Close(); err != nil {
					fail(classify(err))
					return
				}
				pgnos, err := pageIndexPgnos(buf.Bytes())
				if err != nil {
					fail(51)
					return
				}
				obsPg = L(I(0), runsSx(toRuns(pgnos)))
				pages, err := ltxPages(buf.Bytes(), probes)
				if err != nil {
					obsContent = L(I(51), L())
					return
				}
				l := make(SxList, 0, len(probes))
				for _, p := range probes {
					if data, ok := pages[p]; ok {
						k, o := srcOf(data)
						l = append(l, L(U(uint64(p)), U(uint64(k)), U(o)))
					} else {
						l = append(l, L(U(uint64(p)), I(0), I(0)))
					}
				}
				obsContent = L(I(0), l)
			}()
			e.cw.Add("ltx_db_encode", L(B(c.snap), U(uint64(ps)), U(uint64(c.commit))), obsPg, "db-grid/pgnos", true)
			e.cw.Add("ltx_db_content", L(B(c.snap), U(uint64(ps)), U(uint64(c.commit)), pmSx, prSx), obsContent, "db-grid/content", true)
		}
		// restore grid: the snapshot the REAL writeLTXFromDB wrote for a commit just before / at / just
		// beyond the lock page is published as TXID 1 of a file replica and restored with the REAL
		// Replica.Restore; decode_lock_zero (Properties/C17.v) is evaluated on the restored file: its
		// size is the commit (the lock page is the LAST page when commit = lockPgno), the lock page is
		// zero, every other probed page equals the source's (entry ltx_restore_image_ok)
		var commits []uint32
		if tier == "thorough" {
			commits = []uint32{lock - 1, lock, lock + 1, lock + 6}
		} else if ps == 65536 {
			commits = []uint32{lock, lock + 1}
		}
		for _, commit := range commits {
			if err := e.restoreGridCase(g, dir, ps, commit, probes); err != nil {
				g.close()
				return err
			}
		}
		g.close()
		e.extra[fmt.Sprintf("db-grid ps=%d ms", ps)] = int(time.Since(t0).Milliseconds())
	}
	return nil
}

func (e *emitter) restoreGridCase(g *gridFiles, dir string, ps, commit uint32, probes []uint32) (err error) {
	ctx := context.Background()
	rdir := filepath.Join(dir, fmt.Sprintf("rgrid%d-%d", ps, commit))
	_ = os.RemoveAll(rdir)
	defer os.RemoveAll(rdir)
	if err := os.MkdirAll(rdir, 0o755); err != nil {
		return err
	}
	client := file.NewReplicaClient(filepath.Join(rdir, "replica"))
	pr, pw := io.Pipe()
	go func() {
		werr := func() error {
			enc, err := ltx.NewEncoder(pw)
			if err != nil {
				return err
			}
			if err := enc.EncodeHeader(ltx.Header{Version: ltx.Version, Flags: ltx.HeaderFlagNoChecksum, PageSize: ps, Commit: commit, MinTXID: 1, MaxTXID: 1, Timestamp: time.Now().UnixMilli()}); err != nil {
				return err
			}
			if err := litestream.WriteLTXFromDBVerif(ctx, g.db, g.wal, int(ps), enc, commit, map[uint32]int64{}); err != nil {
				return err
			}
			return enc.Close()
		}()
		pw.CloseWithError(werr)
	}()
	if _, err := client.WriteLTXFile(ctx, 0, 1, 1, pr); err != nil {
		return fmt.Errorf("restore grid: publish snapshot (ps %d, commit %d): %w", ps, commit, err)
	}
	out := filepath.Join(rdir, "restored.db")
	opt := litestream.NewRestoreOptions()
	opt.OutputPath = out
	status := int64(0)
	func() {
		defer func() {
			if p := recover(); p != nil {
				status = 9
			}
		}()
		if err := litestream.NewReplicaWithClient(nil, client).Restore(ctx, opt); err != nil {
			status = int64(classify(err))
			if status == 0 {
				status = 5
			}
		}
	}()
	lock := ltx.LockPgno(ps)
	cls := fmt.Sprintf("restore-grid commit=lock%+d", int64(commit)-int64(lock))
	if status != 0 {
		e.violation("C17/restore-of-snapshot-around-lock-page-failed", fmt.Sprintf("page size %d, commit %d (lock page %d): Restore status %d", ps, commit, lock, status),
			map[string]any{"scenario": cls, "how": "./check C17 re-runs the grid"})
		return nil
	}
	rf, err := os.Open(out)
	if err != nil {
		return err
	}
	defer rf.Close()
	st, err := rf.Stat()
	if err != nil {
		return err
	}
	pageOf := func(f *os.File, size int64, p uint32) (uint32, uint64) {
		off := int64(p-1) * int64(ps)
		if off+int64(ps) > size {
			return 0, 0
		}
		b := make([]byte, ps)
		if _, err := f.ReadAt(b, off); err != nil {
			return 0, 0
		}
		return srcOf(b)
	}
	sst, err := g.db.Stat()
	if err != nil {
		return err
	}
	pl := make(SxList, 0, len(probes))
	for _, p := range append(append([]uint32{}, probes...), commit) {
		sk, so := pageOf(g.db, sst.Size(), p)
		rk, ro := pageOf(rf, st.Size(), p)
		pl = append(pl, L(U(uint64(p)), U(uint64(sk)), U(so), U(uint64(rk)), U(ro)))
	}
	e.cw.Add("ltx_restore_image_ok", L(U(uint64(ps)), U(uint64(commit)), U(uint64(st.Size()/int64(ps))), B(st.Size()%int64(ps) == 0), pl), I(1), cls+"/spec", true)
	return nil
}

