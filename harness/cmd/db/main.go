// Command db: histories over a real litestream.DB and a real SQLite application
// connection (C01, C02, C04). Spec-level oracles are evaluated in Go at every
// acknowledged instant; per-step observations (WAL bytes before a sync, the new
// L0 header and page set) are written as cases for the Coq model (Db layer).
package main

import (
	"sync/atomic"
	"bytes"
	"context"
	"crypto/sha256"
	"database/sql"
	"encoding/binary"
	"encoding/hex"
	"errors"
	"flag"
	"fmt"
	"io"
	"log/slog"
	"math/rand"
	"os"
	"path/filepath"
	"sort"
	"strings"
	"time"

	"github.com/benbjohnson/litestream"
	"github.com/benbjohnson/litestream/file"
	"github.com/superfly/ltx"
	_ "modernc.org/sqlite"

	. "verifharness/hx"
)

// ---- configuration of one history ---------------------------------------------

type Config struct {
	PageSize           int
	AutoVacuum         int // 0 none, 1 full, 2 incremental
	MinCheckpointPageN int
	TruncatePageN      int
	CheckpointInterval time.Duration
	MaxSyncWALBytes    int64
}

func (c Config) String() string {
	return fmt.Sprintf("ps=%d av=%d min=%d trunc=%d ci=%s maxb=%d", c.PageSize, c.AutoVacuum, c.MinCheckpointPageN, c.TruncatePageN, c.CheckpointInterval, c.MaxSyncWALBytes)
}

// forcedConfig, when set (flag -forcecfg), replaces the random configuration (soak runs around one configuration).
var forcedConfig *Config

func randConfig(r *rand.Rand) Config {
	if forcedConfig != nil {
		_ = r.Intn(7) // keep the PRNG stream roughly aligned
		return *forcedConfig
	}
	pss := []int{512, 1024, 1024, 4096, 4096, 8192, 65536}
	mins := []int{1, 2, 5, 10, 1000}
	truncs := []int{0, 3, 20, 121359}
	cis := []time.Duration{0, time.Nanosecond, time.Hour}
	c := Config{
		PageSize:           pss[r.Intn(len(pss))],
		AutoVacuum:         r.Intn(3),
		MinCheckpointPageN: mins[r.Intn(len(mins))],
		TruncatePageN:      truncs[r.Intn(len(truncs))],
		CheckpointInterval: cis[r.Intn(len(cis))],
	}
	mbs := []int64{0, 0, 1, int64(3 * (c.PageSize + 24)), 1 << 20}
	c.MaxSyncWALBytes = mbs[r.Intn(len(mbs))]
	return c
}

// ---- world -----------------------------------------------------------------------

// injectHandler is installed as litestream's logger: it lets the harness commit an
// application transaction at the n-th log record emitted during a litestream
// operation, i.e. BETWEEN the steps of the sync / checkpoint protocols, on the
// goroutine that runs them (deterministic interleavings).
type injectHandler struct{ w *World }

var debugLog = os.Getenv("VERIF_DEBUG") == "2"

func (h injectHandler) Enabled(context.Context, slog.Level) bool { return true }
func (h injectHandler) WithAttrs([]slog.Attr) slog.Handler       { return h }
func (h injectHandler) WithGroup(string) slog.Handler            { return h }
func (h injectHandler) Handle(_ context.Context, r slog.Record) error {
	defer machineOnLog(h.w, r)
	w := h.w
	if debugLog {
		fmt.Fprintf(os.Stderr, "LOG armed=%d %s\n", w.injectIn, r.Message)
	}
	if w.injectIn <= 0 || w.injecting {
		return nil
	}
	w.injectIn--
	if w.injectIn == 0 {
		w.injecting = true
		err := w.injectWrite()
		w.injecting = false
		res := "ok"
		if err != nil {
			res = "busy"
		}
		w.trace = append(w.trace, fmt.Sprintf("INJ[%s:%s]", r.Message, res))
	}
	return nil
}

// injectWrite commits one small transaction through a connection that fails fast
// when litestream holds the write lock (busy_timeout 0), so it can never deadlock
// with the operation it interrupts.
func (w *World) injectWrite() error {
	if w.injConn == nil {
		db, err := sql.Open("sqlite", "file:"+w.dbPath+"?_pragma=busy_timeout(0)")
		if err != nil {
			return err
		}
		db.SetMaxOpenConns(1)
		w.injConn = db
	}
	// a commit that lands while an acknowledged operation is running may or may not be covered by
	// that acknowledgement: remember the state just before it as the alternative reference
	tmp := filepath.Join(w.dir, "tmp-inj")
	os.MkdirAll(tmp, 0o755)
	before, _ := refImage(w.dbPath, tmp)
	defer func() {
		if before != nil && w.injRef == nil {
			w.injRef = before
		}
	}()
	if w.injectOneFrame { // a one-page transaction: exactly one WAL frame
		if w.injectTruncate { // INJT: the application first checkpoints with TRUNCATE (the WAL file is emptied), then commits
			w.closeReader()
			var a, b, c int
			if err := w.injConn.QueryRow("PRAGMA wal_checkpoint(TRUNCATE)").Scan(&a, &b, &c); err != nil {
				return err
			}
			w.trace = append(w.trace, fmt.Sprintf("INJT-ckpt[%d,%d,%d]", a, b, c))
		}
		w.version++
		q := "UPDATE ver SET n=?"
		if w.atPoint && w.hasOnef { // a point injection writes a DIFFERENT page than a log-record injection of the same op
			q = "UPDATE onef SET n=?"
		}
		if _, err := w.injConn.Exec(q, w.version); err != nil {
			w.version--
			return err
		}
		if w.injectComposite && !w.injectTruncate {
			w.closeReader()
			var a, b, c int
			if err := w.injConn.QueryRow("PRAGMA wal_checkpoint(PASSIVE)").Scan(&a, &b, &c); err != nil {
				return err
			}
			w.trace = append(w.trace, fmt.Sprintf("INJX-ckpt[%d,%d,%d]", a, b, c))
		}
		return nil
	}
	if w.injectVersioned { // C02: the injected commit is a version-stamped transaction
		if err := commitVersion(w.injConn, int64(w.version+1)); err != nil {
			return err
		}
		w.version++
		return nil
	}
	tx, err := w.injConn.Begin()
	if err != nil {
		return err
	}
	w.version++
	if _, err := tx.Exec("INSERT INTO u(v) VALUES (randomblob(60))"); err != nil {
		tx.Rollback()
		w.version--
		return err
	}
	if _, err := tx.Exec("UPDATE ver SET n=?", w.version); err != nil {
		tx.Rollback()
		w.version--
		return err
	}
	if err := tx.Commit(); err != nil {
		w.version--
		return err
	}
	return nil
}

type World struct {
	flakyL0Lists int // the next newLitestream gets a client whose first k level-0 listings fail
	raceFetch    bool // newLitestream wraps the client in a racingFetchClient
	racer        *racingFetchClient
	injectTruncate bool // the point injection in progress is INJT (application TRUNCATE checkpoint, then a one-frame commit)
	injectIn         int // commit an application transaction at the n-th next log record (0 = disarmed)
	injecting        bool
	injConn          *sql.DB
	useInject        bool
	injectVersioned  bool
	injectOneFrame   bool
	lsErrs           int    // litestream sync / checkpoint calls that returned an error in this history
	lastFailed       string // mode of the last failed checkpoint call ("SYNC": a failed Sync, whose policy checkpoint may be PASSIVE or TRUNCATE)
	injectPoint      string
	atPoint          bool
	hasOnef          bool
	pointArmed       bool
	holdArmed        bool
	killArmed        bool
	cancelArmed      bool
	curCancel        context.CancelFunc
	suspended        bool
	wtSmall          bool
	injectComposite  bool    // INJX: after the one-frame commit also end the long reader and run an application PASSIVE checkpoint
	wtConn           *sql.DB // connection of the open spilled write transaction (ops WT+ / WT- / WTR)
	wtx              *sql.Tx
	scripted         bool   // explicit op list: no random injection
	scriptInject     int    // script mode: injection point for the next litestream op (0 = none)
	concurrentWriter bool   // C02 thorough tier: a writer goroutine runs concurrently (schedule-dependent)
	injRef           []byte // committed image just before the commit injected during the CURRENT operation (nil: none)
	dir              string
	dbPath           string
	replicaDir       string
	cfg              Config
	app              *sql.DB
	reader           *sql.Conn // long reader, if any
	readerTx         *sql.Tx
	ldb              *litestream.DB
	rng              *rand.Rand
	trace            []string // the history, one token per op
	ntables          int
	version          int // monotone commit counter (C02 logical oracle)
	ledger           map[string]int
	ledgerSeq        []string
	scenario         string // C04: disturbance label appended to violation signatures
}

func newWorld(dir string, cfg Config, rng *rand.Rand) (*World, error) {
	w := &World{dir: dir, dbPath: filepath.Join(dir, "db"), replicaDir: filepath.Join(dir, "replica"), cfg: cfg, rng: rng, ledger: map[string]int{}}
	if err := w.openApp(true); err != nil {
		return nil, err
	}
	return w, nil
}

func (w *World) openApp(first bool) error {
	db, err := sql.Open("sqlite", "file:"+w.dbPath+"?_pragma=busy_timeout(150)")
	if err != nil {
		return err
	}
	db.SetMaxOpenConns(4)
	if first {
		stmts := []string{
			fmt.Sprintf("PRAGMA page_size=%d", w.cfg.PageSize),
			fmt.Sprintf("PRAGMA auto_vacuum=%d", w.cfg.AutoVacuum),
			"PRAGMA journal_mode=wal",
		}
		for _, s := range stmts {
			if _, err := db.Exec(s); err != nil {
				return fmt.Errorf("%s: %w", s, err)
			}
		}
	}
	if _, err := db.Exec("PRAGMA wal_autocheckpoint=0"); err != nil {
		return err
	}
	if first {
		for _, s := range []string{
			"CREATE TABLE t(id INTEGER PRIMARY KEY, v BLOB)",
			"CREATE TABLE u(id INTEGER PRIMARY KEY, v BLOB)",
			"CREATE TABLE ver(id INTEGER PRIMARY KEY, n INTEGER)",
			"INSERT INTO ver VALUES (1, 0)",
		} {
			if _, err := db.Exec(s); err != nil {
				return err
			}
		}
	}
	w.app = db
	return nil
}

func (w *World) newLitestream() *litestream.DB {
	db := litestream.NewDB(w.dbPath)
	db.MonitorInterval = 0
	db.MinCheckpointPageN = w.cfg.MinCheckpointPageN
	db.TruncatePageN = w.cfg.TruncatePageN
	db.CheckpointInterval = w.cfg.CheckpointInterval
	db.MaxSyncWALBytes = w.cfg.MaxSyncWALBytes
	db.ShutdownSyncTimeout = 0
	db.BusyTimeout = 200 * time.Millisecond
	db.Logger = QuietLogger()
	if w.useInject {
		db.Logger = slog.New(injectHandler{w})
	}
	c := file.NewReplicaClient(w.replicaDir)
	if w.raceFetch {
		// the baseline fetch of a run-time reset (OpenLTXFile of a level-0 file) is raced by a sync of the same DB
		rc := &racingFetchClient{ReplicaClient: c, db: db}
		w.racer = rc
		db.Replica = litestream.NewReplicaWithClient(db, rc)
	} else if w.flakyL0Lists > 0 {
		// the replica's level-0 listing fails for the first k calls of this object (a storage outage at start-up)
		n := int32(w.flakyL0Lists)
		w.flakyL0Lists = 0
		db.Replica = litestream.NewReplicaWithClient(db, &flakyListClient{ReplicaClient: c, left: &n})
	} else {
		db.Replica = litestream.NewReplicaWithClient(db, c)
	}
	db.Replica.MonitorEnabled = false
	c.Replica = db.Replica
	return db
}

type racingFetchClient struct {
	*file.ReplicaClient
	db    *litestream.DB
	armed atomic.Bool
	ran   atomic.Bool
}

func (c *racingFetchClient) OpenLTXFile(ctx context.Context, level int, minTXID, maxTXID ltx.TXID, offset, size int64) (io.ReadCloser, error) {
	if level == 0 && c.armed.CompareAndSwap(true, false) {
		// the DB monitor's tick lands while ResetLocalState has cleared the local level-0 directory and is fetching the baseline
		_ = c.db.Sync(context.Background())
		c.ran.Store(true)
	}
	return c.ReplicaClient.OpenLTXFile(ctx, level, minTXID, maxTXID, offset, size)
}

type flakyListClient struct {
	*file.ReplicaClient
	left *int32
}

func (c *flakyListClient) LTXFiles(ctx context.Context, level int, seek ltx.TXID, useMetadata bool) (ltx.FileIterator, error) {
	if level == 0 && atomic.AddInt32(c.left, -1) >= 0 {
		return nil, errors.New("injected: listing unavailable")
	}
	return c.ReplicaClient.LTXFiles(ctx, level, seek, useMetadata)
}

func (w *World) exec(q string, a ...any) error {
	_, err := w.app.Exec(q, a...)
	return err
}

// ---- reference image of the source ---------------------------------------------------

// refImage returns the committed image of (db, -wal) as SQLite itself computes it:
// copy both files, let SQLite recover and checkpoint the copy, read the result.
func refImage(dbPath, tmp string) ([]byte, error) {
	cp := filepath.Join(tmp, "ref.db")
	for _, sfx := range []string{"", "-wal", "-shm"} {
		os.Remove(cp + sfx)
	}
	if err := copyFile(dbPath, cp); err != nil {
		return nil, err
	}
	if _, err := os.Stat(dbPath + "-wal"); err == nil {
		if err := copyFile(dbPath+"-wal", cp+"-wal"); err != nil {
			return nil, err
		}
	}
	db, err := sql.Open("sqlite", "file:"+cp)
	if err != nil {
		return nil, err
	}
	var a, b, c int
	if err := db.QueryRow("PRAGMA wal_checkpoint(TRUNCATE)").Scan(&a, &b, &c); err != nil {
		db.Close()
		return nil, fmt.Errorf("reference checkpoint: %w", err)
	}
	db.Close()
	img, err := os.ReadFile(cp)
	for _, sfx := range []string{"", "-wal", "-shm"} {
		os.Remove(cp + sfx)
	}
	return img, err
}

func copyFile(src, dst string) error {
	b, err := os.ReadFile(src)
	if err != nil {
		return err
	}
	return os.WriteFile(dst, b, 0o644)
}

// seqRootPage returns the root page of _litestream_seq in the image at path (0 if absent).
func tableRoots(path string, names ...string) map[string]int {
	out := map[string]int{}
	db, err := sql.Open("sqlite", "file:"+path+"?mode=ro")
	if err != nil {
		return out
	}
	defer db.Close()
	for _, n := range names {
		var root int
		if err := db.QueryRow("SELECT rootpage FROM sqlite_master WHERE name=?", n).Scan(&root); err == nil {
			out[n] = root
		}
	}
	return out
}

// diffPages compares two images page by page and returns the differing page
// numbers (1-based); a length difference reports page 0.
func diffPages(a, b []byte, ps int) []int {
	var d []int
	if len(a) != len(b) {
		d = append(d, 0)
	}
	n := len(a)
	if len(b) < n {
		n = len(b)
	}
	for off := 0; off+ps <= n; off += ps {
		if !bytes.Equal(a[off:off+ps], b[off:off+ps]) {
			d = append(d, off/ps+1)
		}
	}
	return d
}

// page1OnlyCounters reports whether page 1 of a and b differ only in the
// header fields SQLite updates on every write transaction (change counter 24..27,
// version-valid-for 92..95, library version 96..99).
func page1OnlyCounters(a, b []byte, ps int) bool {
	if len(a) < ps || len(b) < ps {
		return false
	}
	for i := 0; i < ps; i++ {
		if a[i] != b[i] && !((i >= 24 && i < 28) || (i >= 92 && i < 100)) {
			return false
		}
	}
	return true
}

// logicalDump returns a digest of all user-visible tables (everything not named _litestream_*).
func logicalDump(path string) (string, error) {
	db, err := sql.Open("sqlite", "file:"+path+"?mode=ro&_pragma=busy_timeout(2000)")
	if err != nil {
		return "", err
	}
	defer db.Close()
	return dumpDB(db)
}

func dumpDB(db *sql.DB) (string, error) {
	h := sha256.New()
	rows, err := db.Query("SELECT type, name, tbl_name, coalesce(sql,'') FROM sqlite_master WHERE name NOT LIKE '_litestream_%' ORDER BY name")
	if err != nil {
		return "", err
	}
	var tables []string
	for rows.Next() {
		var t, n, tn, s string
		if err := rows.Scan(&t, &n, &tn, &s); err != nil {
			rows.Close()
			return "", err
		}
		fmt.Fprintf(h, "%s|%s|%s|%s\n", t, n, tn, s)
		if t == "table" {
			tables = append(tables, n)
		}
	}
	rows.Close()
	for _, t := range tables {
		r, err := db.Query("SELECT * FROM \"" + t + "\" ORDER BY 1")
		if err != nil {
			return "", err
		}
		cols, _ := r.Columns()
		vals := make([]any, len(cols))
		ptrs := make([]any, len(cols))
		for i := range vals {
			ptrs[i] = &vals[i]
		}
		for r.Next() {
			if err := r.Scan(ptrs...); err != nil {
				r.Close()
				return "", err
			}
			for _, v := range vals {
				switch x := v.(type) {
				case []byte:
					fmt.Fprintf(h, "b:%x|", x)
				default:
					fmt.Fprintf(h, "%v|", x)
				}
			}
			fmt.Fprintln(h)
		}
		r.Close()
	}
	return hex.EncodeToString(h.Sum(nil))[:24], nil
}

// ---- restore ----------------------------------------------------------------------------

func restoreTo(replicaDir, out string, txid ltx.TXID, integrity bool) error {
	for _, sfx := range []string{"", "-wal", "-shm", ".tmp"} {
		os.Remove(out + sfx)
	}
	c := file.NewReplicaClient(replicaDir)
	r := litestream.NewReplicaWithClient(nil, c)
	opt := litestream.NewRestoreOptions()
	opt.OutputPath = out
	opt.TXID = txid
	if integrity {
		opt.IntegrityCheck = litestream.IntegrityCheckFull
	}
	return r.Restore(context.Background(), opt)
}

// ---- violations -------------------------------------------------------------------------

type Recorder struct {
	cw         *CaseWriter
	violations []ImplViolation
	acks       int
	restores   int
	steps      int
	opCounts   map[string]int
}

func (rc *Recorder) violate(sig, detail string, w *World) {
	if w.scenario != "" {
		sig += "@" + w.scenario
	}
	rc.violations = append(rc.violations, ImplViolation{Signature: sig, Detail: detail,
		Replay: map[string]any{"config": w.cfg.String(), "history": strings.Join(w.trace, " ")}})
}

// ackOracle: the C01 statement evaluated on the implementation at an acknowledged instant.
func (w *World) ackOracle(rc *Recorder, what string) {
	rc.acks++
	tmp := filepath.Join(w.dir, "tmp")
	os.MkdirAll(tmp, 0o755)
	ref, err := refImage(w.dbPath, tmp)
	if err != nil {
		rc.violate("harness/ref-image", err.Error(), w)
		return
	}
	out := filepath.Join(tmp, "restored.db")
	if err := restoreTo(w.replicaDir, out, 0, true); err != nil {
		rc.violate("C01/restore-fails-after-ack", fmt.Sprintf("%s acknowledged but restore failed: %v%s", what, err, w.l0Summary()), w)
		return
	}
	rc.restores++
	got, err := os.ReadFile(out)
	if err != nil {
		rc.violate("C01/restore-output-missing", err.Error(), w)
		return
	}
	ps := w.cfg.PageSize
	d := diffPages(ref, got, ps)
	if os.Getenv("VERIF_DEBUG") != "" {
		fmt.Fprintf(os.Stderr, "DBG ack %s: diff pages %v%s\n", what, d, w.l0Summary())
	}
	if len(d) == 0 {
		return
	}
	if w.injRef != nil {
		// an application commit landed while the acknowledged call was running: the state just
		// before that commit is an equally valid "source at that moment"
		if d2 := diffPages(w.injRef, got, ps); len(d2) == 0 {
			return
		} else if acceptableDiff(w, w.injRef, got, d2, tmp) {
			return
		}
	}
	if acceptableDiff(w, ref, got, d, tmp) {
		return
	}
	// only litestream's own sequence row (bumped after its final copy) may differ
	refPath := filepath.Join(tmp, "refimg.db")
	os.WriteFile(refPath, ref, 0o644)
	roots := tableRoots(refPath, "_litestream_seq")
	os.Remove(refPath)
	seq := roots["_litestream_seq"]
	var bad []int
	for _, p := range d {
		switch {
		case p == seq && seq != 0:
		case p == 1 && page1OnlyCounters(ref, got, ps):
		default:
			bad = append(bad, p)
		}
	}
	if len(bad) == 0 {
		return
	}
	// classify: which user-visible content differs?
	refD, _ := func() (string, error) {
		os.WriteFile(refPath, ref, 0o644)
		defer os.Remove(refPath)
		return logicalDump(refPath)
	}()
	gotD, _ := logicalDump(out)
	rc.violate("C01/restore-differs-from-source",
		fmt.Sprintf("%s acknowledged; restored image differs from the source's committed image on pages %v (size ref=%d got=%d, logical dump equal=%v)",
			what, trunc(bad, 12), len(ref), len(got), refD == gotD), w)
}

// acceptableDiff: the differing pages are only litestream's own sequence-row page and the
// page-1 change counters.
func acceptableDiff(w *World, ref, got []byte, d []int, tmp string) bool {
	ps := w.cfg.PageSize
	refPath := filepath.Join(tmp, "refimg2.db")
	os.WriteFile(refPath, ref, 0o644)
	seq := tableRoots(refPath, "_litestream_seq")["_litestream_seq"]
	os.Remove(refPath)
	for _, p := range d {
		switch {
		case p == seq && seq != 0:
		case p == 1 && page1OnlyCounters(ref, got, ps):
		default:
			return false
		}
	}
	return true
}

// l0Summary describes the newest local level-0 files (diagnostics for replay files).
func (w *World) l0Summary() string {
	if w.ldb == nil {
		return ""
	}
	l0 := w.localL0()
	if len(l0) > 5 {
		l0 = l0[len(l0)-5:]
	}
	var b strings.Builder
	b.WriteString("; newest L0 files:")
	for _, t := range l0 {
		if o, err := readL0(w.ldb.LTXPath(0, ltx.TXID(t), ltx.TXID(t))); err == nil {
			fmt.Fprintf(&b, " [txid=%d off=%d size=%d salts=%d/%d commit=%d pgnos=%v]", t, o.walOffset, o.walSize, o.salt1, o.salt2, o.commit, o.pgnos)
		}
	}
	return b.String()
}

func trunc(a []int, n int) []int {
	if len(a) > n {
		return a[:n]
	}
	return a
}

// ---- application operations ------------------------------------------------------------------

func (w *World) appWrite(rc *Recorder) error {
	// every commit bumps ver.n and stamps the same number into t and u (C02's consistency witness)
	tx, err := w.app.Begin()
	if err != nil {
		return err
	}
	w.version++
	v := w.version
	n := 1 + w.rng.Intn(4)
	for i := 0; i < n; i++ {
		tbl := "t"
		if w.rng.Intn(2) == 0 {
			tbl = "u"
		}
		sz := 10 + w.rng.Intn(3*w.cfg.PageSize/2)
		if w.cfg.PageSize > 8192 {
			sz = 10 + w.rng.Intn(2000)
		}
		if _, err := tx.Exec("INSERT INTO "+tbl+"(v) VALUES (randomblob(?))", sz); err != nil {
			tx.Rollback()
			w.version--
			return err
		}
	}
	if _, err := tx.Exec("UPDATE ver SET n=?", v); err != nil {
		tx.Rollback()
		w.version--
		return err
	}
	if err := tx.Commit(); err != nil {
		w.version--
		return err
	}
	return nil
}

func (w *World) appOp(rc *Recorder, op string) error {
	switch op {
	case "W":
		return w.appWrite(rc)
	case "W1": // a one-page transaction on a page no other operation writes: exactly one WAL frame that stays the latest version of its page
		return w.exec("UPDATE onef SET n = n + 1")
	case "U":
		return w.exec("UPDATE t SET v=randomblob(length(v)) WHERE id % 3 = ?", w.rng.Intn(3))
	case "D":
		if err := w.exec("DELETE FROM t WHERE id % 2 = ?", w.rng.Intn(2)); err != nil {
			return err
		}
		if w.cfg.AutoVacuum == 2 {
			return w.exec(fmt.Sprintf("PRAGMA incremental_vacuum(%d)", w.rng.Intn(4)))
		}
		return nil
	case "V":
		return w.exec("VACUUM")
	case "DDL":
		w.ntables++
		if w.ntables%3 == 0 {
			return w.exec(fmt.Sprintf("DROP TABLE IF EXISTS x%d", w.ntables-1))
		}
		if err := w.exec(fmt.Sprintf("CREATE TABLE IF NOT EXISTS x%d(a INTEGER PRIMARY KEY, b TEXT)", w.ntables)); err != nil {
			return err
		}
		return w.exec(fmt.Sprintf("CREATE INDEX IF NOT EXISTS ix%d ON x%d(b)", w.ntables, w.ntables))
	case "RB":
		tx, err := w.app.Begin()
		if err != nil {
			return err
		}
		_, _ = tx.Exec("INSERT INTO t(v) VALUES (randomblob(?))", 100+w.rng.Intn(2*w.cfg.PageSize))
		_, _ = tx.Exec("UPDATE ver SET n=-1")
		return tx.Rollback()
	case "ACK-PASSIVE", "ACK-FULL", "ACK-RESTART", "ACK-TRUNCATE":
		var a, b, c int
		err := w.app.QueryRow("PRAGMA wal_checkpoint("+strings.TrimPrefix(op, "ACK-")+")").Scan(&a, &b, &c)
		if err != nil && strings.Contains(err.Error(), "locked") {
			return nil
		}
		return err
	case "AOC":
		w.closeReader()
		w.closeWT(false)
		if w.wtConn != nil {
			w.wtConn.Close()
			w.wtConn = nil
		}
		w.app.Close()
		return w.openApp(false)
	case "LR+":
		if w.reader != nil {
			return nil
		}
		c, err := w.app.Conn(context.Background())
		if err != nil {
			return err
		}
		tx, err := c.BeginTx(context.Background(), nil)
		if err != nil {
			c.Close()
			return err
		}
		var n int
		_ = tx.QueryRow("SELECT count(*) FROM t").Scan(&n)
		w.reader, w.readerTx = c, tx
		return nil
	case "LR-":
		w.closeReader()
		return nil
	case "WT+": // a write transaction left OPEN after it has spilled dirty pages into the WAL (tiny page cache)
		if w.wtx != nil {
			return nil
		}
		if w.wtConn == nil {
			db, err := sql.Open("sqlite", "file:"+w.dbPath+"?_pragma=busy_timeout(0)&_pragma=cache_size(2)&_pragma=wal_autocheckpoint(0)")
			if err != nil {
				return err
			}
			db.SetMaxOpenConns(1)
			w.wtConn = db
		}
		tx, err := w.wtConn.Begin()
		if err != nil {
			return err
		}
		v := int64(w.version + 1)
		var qs []string
		if w.wtSmall && w.hasOnef {
			qs = []string{"UPDATE onef SET n=n+1"}
		} else if w.injectVersioned {
			qs = append(append([]string{}, versionedTx...), "UPDATE big SET ver=?1, pad=randomblob(length(pad))")
		} else {
			qs = []string{"UPDATE t SET v=randomblob(length(v))", "UPDATE u SET v=randomblob(length(v))", "INSERT INTO t(v) VALUES (randomblob(3000))", "UPDATE ver SET n=?1"}
		}
		for _, q := range qs {
			var err error
			if strings.Contains(q, "?1") {
				_, err = tx.Exec(q, v)
			} else {
				_, err = tx.Exec(q)
			}
			if err != nil {
				tx.Rollback()
				return err
			}
		}
		w.wtx = tx
		return nil
	case "WT-": // ... and committed later
		return w.closeWT(true)
	case "WTR": // ... or rolled back
		return w.closeWT(false)
	}
	return fmt.Errorf("unknown app op %q", op)
}

// closeWT ends the open spilled write transaction, if any.
func (w *World) closeWT(commit bool) error {
	if w.wtx == nil {
		return nil
	}
	tx := w.wtx
	w.wtx = nil
	if !commit {
		return tx.Rollback()
	}
	if err := tx.Commit(); err != nil {
		return err
	}
	w.version++
	return nil
}

func (w *World) closeWTConn() {
	if w.wtConn != nil {
		w.wtConn.Close()
		w.wtConn = nil
	}
}

func (w *World) closeReader() {
	if w.readerTx != nil {
		w.readerTx.Rollback()
		w.readerTx = nil
	}
	if w.reader != nil {
		w.reader.Close()
		w.reader = nil
	}
}

// ---- litestream operations ------------------------------------------------------------------------

var ctxb = context.Background()

func (w *World) lsOp(rc *Recorder, op string) error {
	ctx, cancel := context.WithTimeout(ctxb, 60*time.Second)
	defer cancel()
	w.curCancel = cancel
	defer func() { w.curCancel = nil }()
	w.injRef = nil
	if w.scriptInject > 0 {
		w.injectIn = w.scriptInject
		w.scriptInject = 0
	} else if w.useInject && op != "S1" && w.rng.Intn(2) == 0 && !w.scripted {
		w.injectIn = 1 + w.rng.Intn(30)
	}
	defer func() { w.injectIn = 0; w.injRef = nil }()
	switch op {
	case "S":
		if err := w.ldb.Sync(ctx); err != nil {
			w.lsErrs++
			w.lastFailed = "SYNC"
		}
		return nil
	case "S1": // one verify+sync round, observed for the model
		w.observeSync(rc, func() error { _, err := w.ldb.VerifSyncStep(ctx, w.cfg.MaxSyncWALBytes); return err })
		return nil
	case "RS":
		err := w.ldb.Replica.Sync(ctx)
		if err != nil && !strings.Contains(err.Error(), "wait for data") {
			return nil // not an acknowledgement
		}
		return nil
	case "CK-PASSIVE", "CK-FULL", "CK-RESTART", "CK-TRUNCATE":
		w.observeCheckpoint(rc, strings.TrimPrefix(op, "CK-"), func() error {
			err := w.ldb.Checkpoint(ctx, strings.TrimPrefix(op, "CK-"))
			if err != nil {
				w.lsErrs++ // a checkpoint that fails after its PRAGMA leaves the F9b state behind
				w.lastFailed = strings.TrimPrefix(op, "CK-")
			}
			return err
		})
		return nil
	case "SW":
		if err := w.ldb.SyncAndWait(ctx); err == nil {
			w.ackOracle(rc, "SyncAndWait")
		}
		return nil
	case "SNAP":
		_, _ = w.ldb.Snapshot(ctx)
		return nil
	case "CMP":
		_, _ = w.ldb.Compact(ctx, 1)
		return nil
	case "RESET": // ResetLocalState on the running object (the monitor's auto-recovery after a local LTX error)
		st0 := w.ldb.VerifSyncState()
		if err := w.ldb.ResetLocalState(ctx); err != nil {
			w.lsErrs++
			return nil
		}
		w.observeReset(rc, st0)
		return nil
	}
	return fmt.Errorf("unknown litestream op %q", op)
}

// closeLitestream: Close; a nil return is an acknowledgement.
func (w *World) closeLitestream(rc *Recorder) {
	defer func() { lastTrace = w.cfg.String() + " | " + strings.Join(w.trace, " ") }()
	ctx, cancel := context.WithTimeout(ctxb, 60*time.Second)
	defer cancel()
	// a DB object whose lazy init never succeeded (e.g. the application held the write lock during
	// every sync attempt): Close finds db.db == nil and acknowledges without replicating — the same
	// defect as the close-before-first-sync known finding, reached by a different history
	neverInit := w.ldb.PageSize() == 0
	if err := w.ldb.Close(ctx); err == nil {
		old := w.scenario
		if neverInit && !strings.Contains(old, "close-before-first-sync") {
			w.scenario = "close-never-initialised"
		}
		w.ackOracle(rc, "Close")
		w.scenario = old
	}
}

// ---- per-step observation for the model (Db layer) -----------------------------------------------------

type l0obs struct {
	txid      uint64
	walOffset int64
	walSize   int64
	salt1     uint32
	salt2     uint32
	commit    uint32
	pgnos     []uint32
	digests   []uint64
	minTXID   uint64
}

func digest(b []byte) uint64 {
	h := sha256.Sum256(b)
	return binary.BigEndian.Uint64(h[:8]) >> 16
}

func readL0(path string) (*l0obs, error) {
	f, err := os.Open(path)
	if err != nil {
		return nil, err
	}
	defer f.Close()
	dec := ltx.NewDecoder(f)
	if err := dec.DecodeHeader(); err != nil {
		return nil, err
	}
	h := dec.Header()
	o := &l0obs{txid: uint64(h.MaxTXID), minTXID: uint64(h.MinTXID), walOffset: h.WALOffset, walSize: h.WALSize, salt1: h.WALSalt1, salt2: h.WALSalt2, commit: h.Commit}
	buf := make([]byte, h.PageSize)
	for {
		var ph ltx.PageHeader
		if err := dec.DecodePage(&ph, buf); errors.Is(err, io.EOF) {
			break
		} else if err != nil {
			return nil, err
		}
		o.pgnos = append(o.pgnos, ph.Pgno)
		o.digests = append(o.digests, digest(buf))
	}
	return o, nil
}

func (w *World) localL0() []uint64 {
	dir := w.ldb.LTXLevelDir(0)
	ents, _ := os.ReadDir(dir)
	var out []uint64
	for _, e := range ents {
		if min, max, err := ltx.ParseFilename(e.Name()); err == nil && min == max {
			out = append(out, uint64(max))
		}
	}
	sort.Slice(out, func(i, j int) bool { return out[i] < out[j] })
	return out
}

// observeSync records, for the model (Db layer): everything verify+sync read
// before a Sync call — page size, byte budget, database size, position, the
// previous L0 header with page digests, the in-memory cursor flag, the WAL
// bytes, the digest of the frame just before the cursor — and the first L0 file
// the call produced (or none).
func (w *World) observeSync(rc *Recorder, f func() error) {
	ps := w.ldb.PageSize()
	if ps == 0 { // not initialised yet: init() runs inside the call, nothing to observe before it
		_ = f()
		rc.steps++
		return
	}
	before := w.localL0()
	var prev *l0obs
	var pos uint64
	if len(before) > 0 {
		pos = before[len(before)-1]
		prev, _ = readL0(w.ldb.LTXPath(0, ltx.TXID(pos), ltx.TXID(pos)))
		if prev == nil {
			_ = f()
			return
		}
	}
	wal, werr := os.ReadFile(w.dbPath + "-wal")
	var dbPages int64
	if fi, err := os.Stat(w.dbPath); err == nil {
		dbPages = fi.Size() / int64(ps)
	}
	st := w.ldb.VerifSyncState()
	err := f()
	after := w.localL0()
	rc.steps++
	next := pos + 1
	var first *l0obs
	for _, t := range after {
		if t == next {
			first, _ = readL0(w.ldb.LTXPath(0, ltx.TXID(next), ltx.TXID(next)))
		}
	}
	if err != nil && first == nil {
		return // an error of a later stage (checkpoint) or of the environment: not a statement about verify+sync
	}
	if len(wal) < 32 {
		return // ensureWALExists writes to the WAL inside the call before verify reads it
	}
	prevSx := L(I(0), I(0), I(0), I(0), I(0), L())
	fdigP, fdig := false, uint64(0)
	if prev != nil {
		pd := make(SxList, 0, len(prev.pgnos))
		for i, p := range prev.pgnos {
			pd = append(pd, L(U(uint64(p)), U(prev.digests[i])))
		}
		prevSx = L(I(prev.walOffset), I(prev.walSize), U(uint64(prev.salt1)), U(uint64(prev.salt2)), U(uint64(prev.commit)), pd)
		end := prev.walOffset + prev.walSize
		fs := int64(ps + 24)
		if end-fs >= 32 && end <= int64(len(wal)) {
			fdigP, fdig = true, digest(wal[end-fs+24:end])
		}
	}
	in := L(I(int64(ps)), I(w.cfg.MaxSyncWALBytes), I(dbPages), U(pos), prevSx,
		B(st.SyncedToWALEnd), B(werr == nil), SxBytes(wal), B(fdigP), U(fdig), B(st.ReachedWALEnd))
	obs := L(I(0))
	if first != nil {
		pg := make(SxList, 0, len(first.pgnos))
		for _, p := range first.pgnos {
			pg = append(pg, U(uint64(p)))
		}
		obs = L(I(1), I(first.walOffset), I(first.walSize), U(uint64(first.salt1)), U(uint64(first.salt2)), U(uint64(first.commit)), pg)
	}
	cls := "sync-step/none"
	if first != nil {
		cls = "sync-step/incremental"
		if len(first.pgnos) > 0 && first.walOffset == 32 && uint32(len(first.pgnos)) >= first.commit-1 {
			cls = "sync-step/full"
		}
	}
	rc.cw.Add("db_sync_step", in, obs, cls, first != nil)
	// the abstract machine's verify (the function the whole-history theorems are about) takes the same
	// decision as the byte-level model on this very state (both evaluated in Coq on the same input)
	rc.cw.Add("machine_verify_agrees", in, I(1), "machine-verify/"+strings.TrimPrefix(cls, "sync-step/"), first != nil)
	// the sync state a step that wrote a file leaves behind, against the machine's write_file
	fs := int64(ps + 24)
	if first != nil && err == nil && (int64(len(wal))-32)%fs == 0 && (first.walOffset+first.walSize-32)%fs == 0 {
		st1 := w.ldb.VerifSyncState()
		fr := func(off int64) int64 {
			if off <= 32 {
				return 0
			}
			return (off - 32) / fs
		}
		rc.cw.Add("machine_sync_state",
			L(B(st.SyncedToWALEnd), B(st.ReachedWALEnd), I((int64(len(wal))-32)/fs), I(fr(first.walOffset+first.walSize))),
			L(B(st1.SyncedToWALEnd), B(st1.ReachedWALEnd), I(fr(st1.LastSyncedWALOffset))),
			"machine-sync-state/"+strings.TrimPrefix(cls, "sync-step/"), true)
	}
}

// ---- history generation ----------------------------------------------------------------------------------------

func isAppOp(op string) bool {
	return strings.HasPrefix(op, "ACK") || op == "W" || op == "W1" || op == "U" || op == "D" || op == "V" || op == "DDL" || op == "RB" || op == "AOC" || op == "LR+" || op == "LR-" || op == "WT+" || op == "WT-" || op == "WTR"
}

var appOps = []string{"WT+", "WT-", "WTR", "W", "W", "W", "W", "U", "U", "D", "V", "DDL", "RB", "ACK-PASSIVE", "ACK-FULL", "ACK-RESTART", "ACK-TRUNCATE", "AOC", "LR+", "LR-"}
var lsOps = []string{"S", "S1", "S1", "S1", "RS", "SW", "SW", "SW", "CK-PASSIVE", "CK-FULL", "CK-RESTART", "CK-TRUNCATE", "SNAP", "CMP"}

func (w *World) step(rc *Recorder, op string) {
	w.trace = append(w.trace, op)
	rc.opCounts[strings.SplitN(op, "-", 2)[0]]++
	var err error
	if isAppOp(op) {
		err = w.appOp(rc, op)
		if err != nil && (strings.Contains(err.Error(), "locked") || strings.Contains(err.Error(), "busy")) {
			err = nil
		}
	} else {
		err = w.lsOp(rc, op)
	}
	if err != nil {
		rc.violate("harness/op-error", fmt.Sprintf("op %s: %v", op, err), w)
	}
	if os.Getenv("VERIF_DEBUG") != "" && w.ldb != nil {
		var wsz int64
		var s1, s2 uint32
		if b, e := os.ReadFile(w.dbPath + "-wal"); e == nil {
			wsz = int64(len(b))
			if len(b) >= 32 {
				s1, s2 = binary.BigEndian.Uint32(b[16:]), binary.BigEndian.Uint32(b[20:])
			}
		}
		st := w.ldb.VerifSyncState()
		l0 := w.localL0()
		var last uint64
		if len(l0) > 0 {
			last = l0[len(l0)-1]
		}
		fmt.Fprintf(os.Stderr, "DBG %-12s wal=%d salts=%d/%d committedEnd=%d pos=%d toEnd=%v lastOff=%d ver=%d\n", op, wsz, s1, s2, walEnd(w.dbPath+"-wal"), last, st.SyncedToWALEnd, st.LastSyncedWALOffset, w.version)
	}
}

// runC01 runs one random history over the C01 alphabet (litestream running throughout).
func runC01(rc *Recorder, dir string, rng *rand.Rand, steps int) error {
	cfg := randConfig(rng)
	w, err := newWorld(dir, cfg, rng)
	if err != nil {
		return err
	}
	defer func() { w.closeReader(); w.closeWT(false); w.closeWTConn(); w.app.Close() }()
	w.useInject = rng.Intn(2) == 0
	w.injectOneFrame = w.useInject && rng.Intn(3) == 0
	w.ldb = w.newLitestream()
	if err := w.ldb.Open(); err != nil {
		return err
	}
	defer func() {
		if w.injConn != nil {
			w.injConn.Close()
		}
	}()
	w.trace = append(w.trace, "OPEN")
	nv0 := len(rc.violations)
	// the daemon's monitor syncs right after Open; Close before the very first sync is the
	// separate scenario runCloseBeforeFirstSync
	w.step(rc, "S")
	for i := 0; i < steps; i++ {
		var op string
		if rng.Intn(100) < 55 {
			op = appOps[rng.Intn(len(appOps))]
		} else {
			op = lsOps[rng.Intn(len(lsOps))]
		}
		if cfg.PageSize >= 65536 && (op == "V") && rng.Intn(2) == 0 {
			op = "W"
		}
		w.step(rc, op)
		if len(rc.violations) > nv0 {
			break
		}
	}
	w.closeReader()
	if len(rc.violations) == nv0 {
		// every TXID written so far must restore identically with and without the higher levels
		ctxS, cancelS := context.WithTimeout(ctxb, 60*time.Second)
		if err := w.ldb.SyncAndWait(ctxS); err == nil {
			w.everyTXIDOracle(rc, false)
		}
		cancelS()
	}
	// a backlog of committed, not yet synced transactions at shutdown (more than one sync chunk
	// when MaxSyncWALBytes is small): Close must replicate all of it before acknowledging
	if len(rc.violations) == nv0 && rng.Intn(2) == 0 {
		for k := 1 + rng.Intn(5); k > 0; k-- {
			w.step(rc, "W")
		}
	}
	w.trace = append(w.trace, "CLOSE")
	w.injRef = nil
	if w.useInject && rng.Intn(2) == 0 {
		w.injectIn = 1 + rng.Intn(30)
	}
	w.closeLitestream(rc)
	w.injectIn = 0
	rc.cw.Classes[fmt.Sprintf("ps=%d", cfg.PageSize)]++
	rc.cw.Classes[fmt.Sprintf("av=%d", cfg.AutoVacuum)]++
	rc.cw.Classes[fmt.Sprintf("maxb=%d", cfg.MaxSyncWALBytes)]++
	return nil
}

// lastTrace is the history of the run that just finished (config + op tokens).
var lastTrace string

// runScript runs an explicit op list (replay of minimised histories, known findings).
func runScript(rc *Recorder, dir string, rng *rand.Rand, script, cfgs string) error {
	return runScriptAs(rc, dir, rng, script, cfgs, "script")
}

// ckptWindowScripts: an application commit of ONE frame lands inside a FULL / RESTART
// checkpoint, between its "copy before" and the PRAGMA, while the WAL is fully backfilled and
// litestream reads at mark 0 - the commit restarts the WAL, the checkpoint backfills it and the
// sequence bump overwrites it (Db/Machine.v full_checkpoint_window_refuted; fixed in /repo).
var ckptWindowScripts = func() (l [][2]string) {
	for _, mode := range []string{"FULL", "RESTART"} {
		for _, k := range []int{3, 4, 5} {
			l = append(l, [2]string{"ckpt-window:" + mode,
				fmt.Sprintf("OPEN S W SW REOPEN W W ACK-PASSIVE OPEN S SW INJ1=%d CK-%s SW S SW", k, mode)})
		}
	}
	// ... and the window after the PRAGMA, before the read lock is re-acquired: an appended commit
	// (an application reader blocks the restart), the reader ends, an application checkpoint
	// backfills it; the bump then restarts the WAL over it (Db/Machine.v
	// full_checkpoint_post_pragma_window_refuted; fixed in /repo)
	for _, mode := range []string{"FULL", "RESTART"} {
		for _, k := range []int{4, 5, 6} {
			l = append(l, [2]string{"ckpt-post-pragma-window:" + mode,
				fmt.Sprintf("OPEN S W W SW LR+ INJX=%d CK-%s SW", k, mode)})
		}
	}
	// PASSIVE: the barrier transaction holds the write lock from before the sealing copy until after
	// the PRAGMA, so a commit attempted anywhere in between must fail busy (seed C01: lock insert
	// moved after the seal copy)
	for _, k := range []int{5, 6, 7, 8, 9} {
		l = append(l, [2]string{"passive-barrier-window",
			fmt.Sprintf("OPEN S W W SW INJ=%d CK-PASSIVE SW W SW", k)})
	}
	// run-time ResetLocalState (the monitor's auto-recovery) while the local level-0 chain is ahead of the
	// replica and litestream's own checkpoint has run since: the baseline re-fetched from the replica is older
	// than the in-memory cursor; syncedToWALEnd / reachedWALEnd of the removed files must not be trusted
	// (fixed in /repo: the reset clears the sync state)
	for _, mode := range []string{"TRUNCATE", "PASSIVE", "FULL", "RESTART"} {
		l = append(l, [2]string{"reset-ahead:" + mode,
			fmt.Sprintf("OPEN S W W SW W S CK-%s RESET W SW W SW", mode)})
		l = append(l, [2]string{"reset-ahead:" + mode,
			fmt.Sprintf("OPEN S W W W SW W S W S CK-%s W RESET W SW", mode)})
	}
	// the copy that follows a FULL/RESTART checkpoint must not take a WAL that was TRUNCATED (and written
	// again) since the header re-read for an expected truncation: the process is killed right after that
	// copy (20b75a5 clears syncedToWALEnd for it; seed C03e keeps the flag)
	for _, mode := range []string{"FULL", "RESTART"} {
		for _, k := range []int{2, 3, 4, 5, 6} {
			l = append(l, [2]string{"ckpt-post-copy-truncate-kill:" + mode,
				fmt.Sprintf("OPEN S W W SW LR+ INJX=%d INJT=pt.ckpt.postcopy KILLP=pt.ckpt.postcopied CK-%s OPEN S SW W SW", k, mode)})
		}
	}
	// error exit after the PRAGMA: a commit lands between the pre-checkpoint copy and the PRAGMA, and the
	// sequence bump fails busy (the application holds the write lock with a one-page transaction): the
	// call returns an error; the next sync must not lose the commit (TRUNCATE: fixed in /repo 67a6f3f —
	// syncedToWALEnd stayed set and the truncated WAL was taken for an expected one)
	for _, mode := range []string{"TRUNCATE", "PASSIVE", "FULL", "RESTART"} {
		for _, k := range []int{4, 5} {
			l = append(l, [2]string{"ckpt-error-exit-after-pragma:" + mode,
				fmt.Sprintf("OPEN S W W SW INJ=%d INJW=pt.ckpt.bump CK-%s WT- S SW W SW", k, mode)})
		}
	}
	// a re-opened session catching up in chunks (MaxSyncWALBytes = 1) over a WAL that was fully
	// checkpointed while litestream was away: after the first chunk an application commit restarts the
	// WAL (read mark 0) and the uncopied rest of the old WAL is gone (Db/Machine.v
	// reopen_catchup_restart_refuted, F18; fixed in /repo c55c7c6)
	for _, mode := range []string{"PASSIVE", "FULL", "RESTART"} {
		l = append(l, [2]string{"reopen-catchup-restart#4096,0,1000,0,0,1",
			"OPEN S W SW REOPEN W W ACK-" + mode + " OPEN S1 W SW"})
		l = append(l, [2]string{"reopen-catchup-restart#4096,0,1000,0,0,1",
			"OPEN S W SW REOPEN W W W ACK-" + mode + " OPEN S1 U SW S1 S1 SW"})
	}
	// the long-running read transaction must survive the end of the call that acquired it (every
	// litestream op of this harness runs under its own context, cancelled when the op returns): an
	// unsynced commit, an application checkpoint, another commit, then an acknowledged sync
	// (fixed in /repo: beb697d)
	for _, mode := range []string{"PASSIVE", "FULL", "RESTART", "TRUNCATE"} {
		l = append(l, [2]string{"live-app-checkpoint-after-read-lock-dropped",
			fmt.Sprintf("OPEN S W W W SW W ACK-%s W SW", mode)})
	}
	// ... and a second one-frame commit (another page) that restarts the WAL between the post-PRAGMA
	// header read and the post-checkpoint copy (Db/Machine.v full_checkpoint_post_copy_window_refuted;
	// fixed in /repo)
	for _, mode := range []string{"FULL", "RESTART"} {
		l = append(l, [2]string{"ckpt-post-copy-window:" + mode,
			fmt.Sprintf("OPEN S W W SW LR+ INJX=5 INJP=pt.ckpt.postcopy CK-%s SW", mode)})
	}
	// F21 (Db/MachineFaults.v error_exit_after_release_refuted; fixed in /repo a1345df): FULL / RESTART over a
	// fully backfilled WAL read at mark 0; a one-frame commit restarts the WAL between the pre-checkpoint
	// copy and the PRAGMA, the PRAGMA backfills it, the sequence bump fails busy (the application holds the
	// write lock), the call returns an error; the application's commit restarts the WAL once more; the next
	// sync must not continue from the new header
	for _, mode := range []string{"FULL", "RESTART"} {
		for _, k := range []int{3, 4} {
			l = append(l, [2]string{"ckpt-error-exit-restart-window:" + mode,
				fmt.Sprintf("OPEN S W SW REOPEN W W ACK-PASSIVE OPEN S SW INJ1=%d INJW=pt.ckpt.bump CK-%s WT- S SW W SW", k, mode)})
		}
	}
	// F20 (Db/MachineProofs.v kill_after_lost_post_copy_refuted; fixed in /repo 20b75a5): the F16 interleaving,
	// then the process dies right after the post-checkpoint copy wrote its level-0 file; the next process
	// must not continue incrementally from that file
	for _, mode := range []string{"FULL", "RESTART"} {
		l = append(l, [2]string{"ckpt-kill-after-post-copy:" + mode,
			fmt.Sprintf("OPEN S W W SW LR+ INJX=5 INJP=pt.ckpt.postcopy KILLP=pt.ckpt.postcopied CK-%s OPEN S SW W SW", mode)})
	}
	// error exits at arbitrary points of a checkpoint call: the call's context is cancelled at a trace point
	// (before the PRAGMA, before the post-checkpoint copy, before the bump), with a commit injected earlier in
	// the call, over a WAL that is / is not fully backfilled when the session starts; and process death at
	// the same points
	for _, mode := range []string{"PASSIVE", "FULL", "RESTART", "TRUNCATE"} {
		for _, pt := range []string{"ckpt.run", "pt.ckpt.postcopy", "pt.ckpt.bump"} {
			if pt == "pt.ckpt.postcopy" && (mode == "PASSIVE" || mode == "TRUNCATE") {
				continue
			}
			l = append(l, [2]string{"ckpt-cancelled:" + mode,
				fmt.Sprintf("OPEN S W W SW INJ=4 CANCELP=%s CK-%s W S SW W SW", pt, mode)})
			l = append(l, [2]string{"ckpt-cancelled-mark0:" + mode,
				fmt.Sprintf("OPEN S W SW REOPEN W W ACK-PASSIVE OPEN S SW INJ1=3 CANCELP=%s CK-%s W S SW W SW", pt, mode)})
			l = append(l, [2]string{"ckpt-killed:" + mode,
				fmt.Sprintf("OPEN S W W SW INJ=4 KILLP=%s CK-%s W OPEN S SW W SW", pt, mode)})
		}
	}
	return l
}()

// ckptSweepScripts (thorough tier, -sweep): the error-exit / process-death windows of the checkpoint
// protocol enumerated: an application commit injected at the k-th log record of the call (k = 1..8: before
// the copy, between the copy and the PRAGMA, after it, ...) x the call cancelled / the process killed / the
// bump made busy at each trace point x the four modes x a WAL that is / is not completely backfilled and
// read at mark 0 when the session starts x what follows (a commit that may restart the WAL again, or
// nothing). Every acknowledged sync afterwards must restore to the source.
func ckptSweepScripts() (l [][2]string) {
	pre := []string{"OPEN S W W SW", "OPEN S W SW REOPEN W W ACK-PASSIVE OPEN S SW"}
	for pi, p := range pre {
		for _, mode := range []string{"PASSIVE", "FULL", "RESTART", "TRUNCATE"} {
			for k := 1; k <= 8; k++ {
				inj := fmt.Sprintf("INJ=%d", k)
				if pi == 1 {
					inj = fmt.Sprintf("INJ1=%d", k)
				}
				for _, pt := range []string{"chk.try", "ckpt.run", "pt.ckpt.postcopy", "pt.ckpt.postcopied", "pt.ckpt.bump"} {
					if strings.HasPrefix(pt, "pt.ckpt.postcop") && (mode == "PASSIVE" || mode == "TRUNCATE") {
						continue
					}
					label := fmt.Sprintf("sweep:%s:pre%d", mode, pi)
					l = append(l, [2]string{label + ":cancel", fmt.Sprintf("%s %s CANCELP=%s CK-%s W S SW W SW", p, inj, pt, mode)})
					l = append(l, [2]string{label + ":kill", fmt.Sprintf("%s %s KILLP=%s CK-%s W OPEN S SW W SW", p, inj, pt, mode)})
					if pt == "pt.ckpt.bump" {
						l = append(l, [2]string{label + ":busy", fmt.Sprintf("%s %s INJW=%s CK-%s WT- S SW W SW", p, inj, pt, mode)})
					}
				}
			}
		}
	}
	return l
}

// snapAfterReopenScripts: a snapshot taken by a NEW DB object (nothing synced yet in its session,
// or only a no-op sync) while the WAL holds committed frames beyond the last replicated position:
// the snapshot is labelled with that position and must hold exactly its state.
// stopStartScripts: the SAME DB object is stopped and started again (Close/Open) while the application
// commits, checkpoints (mode) and commits again with a WAL shorter than / as long as litestream's old
// position; every acknowledged sync afterwards must restore to the source.
var stopStartScripts = func() (l []string) {
	for _, mode := range []string{"TRUNCATE", "PASSIVE", "FULL", "RESTART"} {
		l = append(l, "OPEN S W W SW SUSPEND W ACK-"+mode+" W RESUME S SW ORACLE W SW ORACLE")
		l = append(l, "OPEN S W SW SUSPEND W W ACK-"+mode+" W W W RESUME SW ORACLE")
	}
	return l
}()

// (the last two: a one-frame commit restarts the fully checkpointed WAL between the capture of the
// snapshot position and the reader's open of the WAL — Db/MachineSnap.v snapshot_restart_between_refuted,
// F19, fixed in /repo)
// snapAfterFailedCkptScripts: a checkpoint call fails after its PRAGMA (the bump is busy), the
// application commits, and a snapshot is taken before the next sync (F9b; the FULL / RESTART / PASSIVE
// shapes were repaired in /repo 5f481c7, the TRUNCATE shape is a known finding and not scripted here)
var snapAfterFailedCkptScripts = []string{
	"OPEN S W W SW INJ=4 INJW=pt.ckpt.bump CK-FULL WT- SNAP S SW ORACLE W SW ORACLE",
	"OPEN S W W SW INJ=4 INJW=pt.ckpt.bump CK-RESTART WT- SNAP S SW ORACLE W SW ORACLE",
	"OPEN S W W SW INJ=5 INJW=pt.ckpt.bump CK-PASSIVE WT- SNAP S SW ORACLE W SW ORACLE",
	"OPEN S W W SW INJW=pt.ckpt.bump CK-FULL WT- W SNAP S SW ORACLE",
}

var snapAfterReopenScripts = []string{
	"OPEN S W W SW REOPEN ACK-PASSIVE OPEN S INJP=snap.owner SNAP S SW ORACLE",
	"OPEN S W W SW REOPEN ACK-FULL OPEN S INJP=snap.owner SNAP W SW ORACLE",
	"OPEN S W SW REOPEN OPEN S W SNAP ORACLE W S SW ORACLE",
	"OPEN S W SW REOPEN W OPEN SNAP ORACLE S SW ORACLE",
	"OPEN S W SW W REOPEN OPEN W W SNAP ORACLE SW SNAP ORACLE",
	"OPEN S W SW REOPEN OPEN S W W SNAP CMP ORACLE W SW ORACLE",
}

// snapDuringRestartScripts: litestream is attached to a WAL that was completely checkpointed when it took
// its read lock (mark 0: nothing stops a writer from restarting the WAL); while a snapshot is being read
// (after its page map was built) a ONE-frame commit restarts the WAL: the leading frame of the
// snapshot's range is overwritten, its LAST frame stays intact. The snapshot must fail or hold exactly
// the state of its position (482a715 re-reads the header; seed C02f re-reads only the last frame).
var snapDuringRestartScripts = func() (l []string) {
	for k := 1; k <= 6; k++ {
		// the application checkpoints, starts a new WAL generation whose FIRST frame is the only version of its
		// page (W1), writes more, checkpoints again; litestream then attaches at read mark 0
		l = append(l, fmt.Sprintf("OPEN S W W SW REOPEN ACK-PASSIVE W1 W ACK-PASSIVE OPEN S SW INJ1=%d SNAP ORACLE W SW ORACLE", k))
	}
	l = append(l, "OPEN S W W W SW REOPEN ACK-FULL W1 W W ACK-FULL OPEN S SW INJ1=2 SNAP ORACLE W SW ORACLE",
		"OPEN S W W W SW REOPEN ACK-FULL W1 W W ACK-FULL OPEN S SW INJ1=3 SNAP ORACLE W SW ORACLE")
	return l
}()

// killSentinel is the panic value of a simulated process death (KILLP=<trace point>)
type killSentinel struct{ pt string }

// stepOrDie runs one step; a simulated process death inside it unwinds the litestream call (its
// deferred unlocks run, but nothing of the object is used again) and is reported by name
func (w *World) stepOrDie(rc *Recorder, op string) (killed string) {
	defer func() {
		if r := recover(); r != nil {
			k, ok := r.(killSentinel)
			if !ok {
				panic(r)
			}
			killed = k.pt
		}
	}()
	w.step(rc, op)
	return ""
}

func runScriptAs(rc *Recorder, dir string, rng *rand.Rand, script, cfgs, scenario string) error {
	var c Config
	var ci int64
	fmt.Sscanf(cfgs, "%d,%d,%d,%d,%d,%d", &c.PageSize, &c.AutoVacuum, &c.MinCheckpointPageN, &c.TruncatePageN, &ci, &c.MaxSyncWALBytes)
	c.CheckpointInterval = time.Duration(ci)
	w, err := newWorld(dir, c, rng)
	if err != nil {
		return err
	}
	defer func() { w.closeReader(); w.closeWT(false); w.closeWTConn(); w.app.Close() }()
	w.scenario = scenario
	w.scripted = true
	if strings.Contains(script, "INJP=") || strings.Contains(script, "INJW=") || strings.Contains(script, "INJT=") || strings.Contains(script, " W1") {
		// a second one-page table, so that two injected one-frame commits touch different pages
		if _, err := w.app.Exec("CREATE TABLE onef(id INTEGER PRIMARY KEY, n INTEGER)"); err != nil {
			return err
		}
		if _, err := w.app.Exec("INSERT INTO onef VALUES (1, 0)"); err != nil {
			return err
		}
		w.hasOnef = true
	}
	w.useInject = true
	open := func() error {
		if w.ldb != nil {
			return nil
		}
		w.ldb = w.newLitestream()
		w.trace = append(w.trace, "OPEN")
		return w.ldb.Open()
	}
	toks := strings.Fields(script)
	explicitOpen := false
	for _, t := range toks {
		if t == "OPEN" {
			explicitOpen = true
		}
	}
	if !explicitOpen {
		if err := open(); err != nil {
			return err
		}
	}
	nextInject := 0
	nextPoint := false
	nextHold := false
	nextKill := false
	nextCancel := false
	defer func() { litestream.VerifTracePoint = nil }()
	for _, op := range toks {
		switch {
		case op == "CLOSE":
		case op == "OPEN":
			if err := open(); err != nil {
				return err
			}
			continue
		case op == "SUSPEND": // Close of the SAME DB object (IPC stop); acknowledged like any Close
			if w.ldb != nil {
				w.trace = append(w.trace, "SUSPEND")
				w.closeLitestream(rc)
				w.suspended = true
			}
			continue
		case op == "RESUME": // Open of the same object again (IPC start)
			if w.ldb != nil && w.suspended {
				w.trace = append(w.trace, "RESUME")
				if err := w.ldb.Open(); err != nil {
					return err
				}
				w.suspended = false
			}
			continue
		case op == "ORACLE": // C02/C06: every TXID restores identically with and without the higher levels
			w.trace = append(w.trace, "ORACLE")
			w.everyTXIDOracle(rc, false)
			continue
		case op == "REOPEN": // Close (acknowledged) and a NEW DB object, as a process restart
			if w.ldb != nil {
				w.trace = append(w.trace, "REOPEN")
				w.closeLitestream(rc)
				w.ldb = nil
			}
			continue
		case strings.HasPrefix(op, "INJW="): // at a verifTrace point of the NEXT litestream op: open a spilled write transaction (as WT+), so that litestream's next write fails busy
			pt := strings.TrimPrefix(op, "INJW=")
			prevHook := litestream.VerifTracePoint
			fired := false
			litestream.VerifTracePoint = func(o any, ev string) {
				if prevHook != nil {
					prevHook(o, ev)
				}
				if ev != pt || fired || !w.holdArmed {
					return
				}
				fired = true
				res := "ok"
				w.wtSmall = true // hold the write lock with a transaction that touches one page of table onef only
				if err := w.appOp(rc, "WT+"); err != nil {
					res = "busy"
				}
				w.wtSmall = false
				w.trace = append(w.trace, fmt.Sprintf("WT+@%s:%s", ev, res))
			}
			nextHold = true
			continue
		case strings.HasPrefix(op, "INJP="): // composite injection (as INJX) at a verifTrace point of the NEXT litestream op, e.g. INJP=pt.ckpt.bump
			w.injectPoint = strings.TrimPrefix(op, "INJP=")
			w.injectOneFrame, w.injectComposite = true, true
			litestream.VerifTracePoint = func(_ any, ev string) {
				if ev != w.injectPoint || w.injecting || !w.pointArmed {
					return
				}
				w.pointArmed = false
				w.injecting, w.atPoint = true, true
				err := w.injectWrite()
				w.injecting, w.atPoint = false, false
				res := "ok"
				if err != nil {
					res = "busy"
				}
				w.trace = append(w.trace, fmt.Sprintf("INJ@%s:%s", ev, res))
			}
			nextPoint = true
			continue
		case strings.HasPrefix(op, "INJT="): // at a verifTrace point of the NEXT litestream op: the application checkpoints with TRUNCATE and then commits one frame
			tpt := strings.TrimPrefix(op, "INJT=")
			w.injectOneFrame = true
			prevHook := litestream.VerifTracePoint
			tArmed := true
			litestream.VerifTracePoint = func(o any, ev string) {
				if prevHook != nil {
					prevHook(o, ev)
				}
				if ev != tpt || w.injecting || !tArmed || !w.pointArmed {
					return
				}
				tArmed = false
				w.injecting, w.atPoint, w.injectTruncate = true, true, true
				err := w.injectWrite()
				w.injecting, w.atPoint, w.injectTruncate = false, false, false
				res := "ok"
				if err != nil {
					res = "busy"
				}
				w.trace = append(w.trace, fmt.Sprintf("INJT@%s:%s", ev, res))
			}
			nextPoint = true
			continue
		case strings.HasPrefix(op, "CANCELP="): // the context of the NEXT litestream op is cancelled at a verifTrace point: every later step of that call that looks at its context fails and the call returns an error from wherever it stands (an error exit at an arbitrary point)
			cpt := strings.TrimPrefix(op, "CANCELP=")
			prevHook := litestream.VerifTracePoint
			litestream.VerifTracePoint = func(o any, ev string) {
				if prevHook != nil {
					prevHook(o, ev)
				}
				if ev == cpt && w.cancelArmed && w.curCancel != nil {
					w.cancelArmed = false
					w.curCancel()
					w.trace = append(w.trace, "CANCEL@"+ev)
				}
			}
			nextCancel = true
			continue
		case strings.HasPrefix(op, "KILLP="): // the process dies at a verifTrace point of the NEXT litestream op: the call never returns, every lock and handle it held is gone, nothing else is written; the next OPEN is a new process
			kpt := strings.TrimPrefix(op, "KILLP=")
			prevHook := litestream.VerifTracePoint
			litestream.VerifTracePoint = func(o any, ev string) {
				if prevHook != nil {
					prevHook(o, ev)
				}
				if ev == kpt && w.killArmed {
					w.killArmed = false
					panic(killSentinel{kpt})
				}
			}
			nextKill = true
			continue
		case strings.HasPrefix(op, "INJX="): // at the k-th log record: one-frame commit, end the application's long reader, application PASSIVE checkpoint
			fmt.Sscanf(op, "INJX=%d", &nextInject)
			w.injectOneFrame, w.injectComposite = true, true
			continue
		case strings.HasPrefix(op, "INJ1="): // same, but the injected transaction writes a single WAL frame
			fmt.Sscanf(op, "INJ1=%d", &nextInject)
			w.injectOneFrame = true
			continue
		case strings.HasPrefix(op, "INJ="): // commit an application transaction at the k-th log record of the NEXT litestream op
			fmt.Sscanf(op, "INJ=%d", &nextInject)
			continue
		}
		if op == "CLOSE" {
			break
		}
		if w.suspended && !isAppOp(op) {
			continue
		}
		if w.ldb == nil && !isAppOp(op) {
			return fmt.Errorf("litestream op %s before OPEN", op)
		}
		w.scriptInject = nextInject
		nextInject = 0
		w.pointArmed = nextPoint && !isAppOp(op)
		if w.pointArmed {
			nextPoint = false
		}
		w.holdArmed = nextHold && !isAppOp(op)
		if w.holdArmed {
			nextHold = false
		}
		w.killArmed = nextKill && !isAppOp(op)
		if w.killArmed {
			nextKill = false
		}
		w.cancelArmed = nextCancel && !isAppOp(op)
		if w.cancelArmed {
			nextCancel = false
		}
		if killed := w.stepOrDie(rc, op); killed != "" {
			w.trace = append(w.trace, "KILLED@"+killed)
			w.ldb.VerifAbandon()
			w.ldb = nil
			litestream.VerifTracePoint = nil
		}
		w.pointArmed, w.holdArmed, w.killArmed, w.cancelArmed = false, false, false, false
	}
	if w.ldb == nil {
		lastTrace = w.cfg.String() + " | " + strings.Join(w.trace, " ")
		return nil
	}
	w.trace = append(w.trace, "CLOSE")
	w.closeLitestream(rc)
	return nil
}

// runCloseBeforeFirstSync: Open, one application commit, Close — with no sync in between
// (the monitor's first tick has not happened yet).
func runCloseBeforeFirstSync(rc *Recorder, dir string, rng *rand.Rand) error {
	cfg := Config{PageSize: 4096, MinCheckpointPageN: 1000}
	w, err := newWorld(dir, cfg, rng)
	if err != nil {
		return err
	}
	defer func() { w.closeReader(); w.closeWT(false); w.closeWTConn(); w.app.Close() }()
	w.ldb = w.newLitestream()
	if err := w.ldb.Open(); err != nil {
		return err
	}
	w.scenario = "close-before-first-sync"
	w.trace = append(w.trace, "OPEN W CLOSE (no sync in between)")
	if err := w.appWrite(rc); err != nil {
		return err
	}
	w.closeLitestream(rc)
	return nil
}

func main() {
	slog.SetDefault(QuietLogger())
	fl := flag.NewFlagSet("db", flag.ContinueOnError)
	out := fl.String("out", "", "work directory")
	n := fl.Int("n", 20, "number of histories")
	steps := fl.Int("steps", 40, "steps per history")
	seed := fl.Int64("seed", 1, "PRNG seed")
	mode := fl.String("mode", "c01", "c01 | c02 | c04")
	only := fl.Int("only", -1, "run only the history with this index (replay)")
	shardK := fl.Int("shard", 0, "run only histories with index % shards == shard")
	shardN := fl.Int("shards", 1, "number of shards")
	concurrent := fl.Bool("concurrent", false, "mode c02: also run histories with a real concurrent writer goroutine (schedule-dependent, not replayable)")
	forcecfg := fl.String("forcecfg", "", "use this configuration (ps,autovacuum,min,trunc,intervalNs,maxb) instead of a random one")
	script := fl.String("script", "", "mode script: space-separated op tokens to run after OPEN (e.g. 'S CK-RESTART W ACK-TRUNCATE DDL SW')")
	sweep := fl.Bool("sweep", false, "mode c01: append the enumerated error-exit / kill windows of the checkpoint protocol to the scripted histories (thorough tier)")
	scriptCfg := fl.String("cfg", "4096,0,10,0,0,0", "mode script: ps,autovacuum,minCheckpointPageN,truncatePageN,checkpointIntervalNs,maxSyncWALBytes")
	if err := fl.Parse(os.Args[1:]); err != nil {
		os.Exit(2)
	}
	if *out == "" {
		fmt.Fprintln(os.Stderr, "-out required")
		os.Exit(2)
	}
	if *forcecfg != "" {
		var c Config
		var ci int64
		fmt.Sscanf(*forcecfg, "%d,%d,%d,%d,%d,%d", &c.PageSize, &c.AutoVacuum, &c.MinCheckpointPageN, &c.TruncatePageN, &ci, &c.MaxSyncWALBytes)
		c.CheckpointInterval = time.Duration(ci)
		forcedConfig = &c
	}
	if *sweep {
		ckptWindowScripts = append(ckptWindowScripts, ckptSweepScripts()...)
	}
	cw, err := NewCaseWriter(filepath.Join(*out, "cases.txt"))
	if err != nil {
		fmt.Fprintln(os.Stderr, err)
		os.Exit(3)
	}
	rc := &Recorder{cw: cw, opCounts: map[string]int{}}
	base, err := os.MkdirTemp("", "verif-db")
	if err != nil {
		fmt.Fprintln(os.Stderr, err)
		os.Exit(3)
	}
	defer os.RemoveAll(base)
	var histories []string
	distinct := map[[32]byte]bool{}
	nontrivial := 0
	for i := 0; i < *n; i++ {
		if *only >= 0 && i != *only {
			continue
		}
		if i%*shardN != *shardK {
			continue
		}
		// every history has its own PRNG derived from (seed, index) so it replays alone
		rng := NewRand(*seed*1000003 + int64(i))
		dir := filepath.Join(base, fmt.Sprintf("h%d", i))
		os.MkdirAll(dir, 0o755)
		nv := len(rc.violations)
		acksBefore := rc.acks
		lastTrace = ""
		var err error
		switch *mode {
		case "c01":
			if i == 0 {
				err = runCloseBeforeFirstSync(rc, dir, rng)
			} else if i <= len(ckptWindowScripts) {
				sc := ckptWindowScripts[i-1]
				label, cfgs := sc[0], "4096,0,1000,0,0,0"
				if k := strings.Index(label, "#"); k >= 0 { // "label#ps,av,min,trunc,interval,maxb"
					label, cfgs = label[:k], label[k+1:]
				}
				err = runScriptAs(rc, dir, rng, sc[1], cfgs, label)
			} else {
				err = runC01(rc, dir, rng, *steps)
			}
		case "script":
			err = runScript(rc, dir, rng, *script, *scriptCfg)
		case "shrinksnap": // C06: snapshots / compactions around shrinks, every TXID restored both ways
			if i%3 == 2 {
				sc := snapAfterReopenScripts[(i/3)%len(snapAfterReopenScripts)]
				err = runScriptAs(rc, dir, rng, sc, "4096,0,1000,0,0,0", "snapshot-after-reopen")
			} else {
				err = runC02ShrinkSnapshot(rc, dir, rng)
			}
		case "c02":
			if i >= 48 && i < 48+len(snapDuringRestartScripts) {
				// histories 48.. of every run are the directed snapshot-during-restart scripts (fixed indexes: replayable with -only)
				err = runScriptAs(rc, dir, rng, snapDuringRestartScripts[i-48], "4096,0,1000,0,0,0", "snapshot-during-restart")
			} else if i%6 == 3 && (i/6)%2 == 1 {
				sc := snapAfterFailedCkptScripts[(i/12)%len(snapAfterFailedCkptScripts)]
				err = runScriptAs(rc, dir, rng, sc, "4096,0,1000,0,0,0", "snapshot-after-failed-checkpoint")
			} else if i%6 == 4 && (i/6)%2 == 1 {
				sc := stopStartScripts[(i/12)%len(stopStartScripts)]
				err = runScriptAs(rc, dir, rng, sc, "4096,0,1000,0,0,0", "stop-start-app-checkpoint")
			} else if i%6 == 5 && (i/6)%2 == 1 {
				sc := snapAfterReopenScripts[(i/12)%len(snapAfterReopenScripts)]
				err = runScriptAs(rc, dir, rng, sc, "4096,0,1000,0,0,0", "snapshot-after-reopen")
			} else if i%6 == 5 {
				err = runC02ShrinkSnapshot(rc, dir, rng)
			} else if i%3 == 2 {
				err = runC02Preexisting(rc, dir, rng)
			} else if i%3 == 1 || !*concurrent {
				err = runC02Injected(rc, dir, rng, *steps)
			} else {
				err = runC02(rc, dir, rng, *steps)
			}
		case "c04":
			err = runC04(rc, dir, rng, i)
		}
		if err != nil {
			rc.violations = append(rc.violations, ImplViolation{Signature: "harness/setup", Detail: err.Error()})
		}
		for j := nv; j < len(rc.violations); j++ {
			if m, ok := rc.violations[j].Replay.(map[string]any); ok {
				m["seed"], m["index"], m["mode"] = *seed, i, *mode
			}
		}
		if lastTrace != "" {
			h := sha256.Sum256([]byte(lastTrace))
			if !distinct[h] {
				distinct[h] = true
				if rc.acks > acksBefore {
					nontrivial++
				}
			}
			if len(histories) < 3 {
				t := lastTrace
				if len(t) > 700 {
					t = t[:700] + " ..."
				}
				histories = append(histories, fmt.Sprintf("%s#%d: %s", *mode, i, t))
			}
		}
		if os.Getenv("VERIF_KEEP") != "" {
			keep := os.Getenv("VERIF_KEEP")
			os.RemoveAll(keep)
			_ = os.Rename(dir, keep)
			fmt.Fprintln(os.Stderr, "kept", keep)
		}
		os.RemoveAll(dir)
	}
	cw.Close()
	st := cw.Stats()
	st.ImplViolations = rc.violations
	st.Samples = append(st.Samples, histories...)
	st.Extra = map[string]any{"distinct_histories": len(distinct), "nontrivial_histories": nontrivial, "acks": rc.acks, "restores": rc.restores, "sync_steps": rc.steps, "op_counts": rc.opCounts, "histories": *n}
	if err := WriteJSON(filepath.Join(*out, "stats.json"), st); err != nil {
		fmt.Fprintln(os.Stderr, err)
		os.Exit(3)
	}
}

var _ = binary.BigEndian
