// Trace conformance of litestream's checkpoint control flow with the Coq machine
// (coq/Db/Machine.v; entry machine_ck of coq/Db/MachineEntry.v).
//
// One litestream Checkpoint(mode) call is observed through the log records it
// emits (the harness logger sees every record on the goroutine that runs the
// protocol) and through the files:
//
//	hdr  salts of the -wal header before the call                      (= hdr in db.go)
//	wn   second column of the PRAGMA's row, from the "checkpoint" record (= walFrameN)
//	pre  frame count of the last synced offset at that record            (= preCheckpointFrameN)
//	mid  salts of the -wal header after that record was handled, i.e. after
//	     an injected commit at that record and before the read lock is
//	     re-acquired; nothing else runs until db.go reads the header again  (= mid)
//	post salts of the -wal header at the trace point pt.ckpt.bump, i.e. after the
//	     copy that follows a FULL/RESTART checkpoint and before the bump     (= the re-read after that copy)
//	oth  salts of the -wal header after the call                        (= other)
//	c    1 iff a "sync" record appears between the "checkpoint" record and the
//	     trace point pt.ckpt.bump (the copy after a FULL/RESTART checkpoint)
//	d    looking at the "sync" records after pt.ckpt.bump:
//	     0: none (header unchanged, return)
//	     2: one with reason "checkpoint boundary snapshot"
//	     1: any other (re-copy through verify)
//
// The case is `machine_ck [mode hdr1 hdr2 mid1 mid2 post1 post2 oth1 oth2 pre wn] -> [d c]`.
//
// Wiring (two lines in main.go):
//
//	injectHandler.Handle, first statement:   defer machineOnLog(h.w, r)
//	lsOp, case "CK-...":                     w.observeCheckpoint(rc, strings.TrimPrefix(op, "CK-"), func() error { return w.ldb.Checkpoint(ctx, strings.TrimPrefix(op, "CK-")) })
package main

import (
	"encoding/binary"
	"log/slog"
	"os"
	"strconv"
	"strings"

	"github.com/benbjohnson/litestream"
	"github.com/superfly/ltx"

	. "verifharness/hx"
)

type ckObserver struct {
	w        *World
	ps       int64
	before   []uint64 // local level-0 TXIDs before the call
	stateOff int64    // syncState.lastSyncedWALOffset before the call
	sawCkpt  bool
	traceLen int // len(w.trace) once the "checkpoint" record has been handled
	wn       int64
	pre      int64
	mid      [2]uint32
	post     [2]uint32
	bumped   bool // pt.ckpt.bump has fired
	posts    int  // "sync" records after the PRAGMA and before the bump
	syncs    int  // "sync" records after the bump
	boundary bool // one of them is the boundary snapshot
	bad      bool // something could not be observed
	released bool // the trace point inside execCheckpoint was reached: the read lock had been released
	nsync    int  // "sync" records of the call that produced a file or a skip, before any failure
}

var ckObs *ckObserver

func walSalts(path string) ([2]uint32, bool) {
	f, err := os.Open(path)
	if err != nil {
		return [2]uint32{}, false
	}
	defer f.Close()
	var b [32]byte
	if n, _ := f.ReadAt(b[:], 0); n < 32 {
		return [2]uint32{}, false
	}
	return [2]uint32{binary.BigEndian.Uint32(b[16:]), binary.BigEndian.Uint32(b[20:])}, true
}

// machineOnLog must run AFTER the record's injection (if any): call it deferred
// as the first statement of injectHandler.Handle.
func machineOnLog(w *World, r slog.Record) {
	o := ckObs
	if o == nil || o.w != w {
		return
	}
	switch r.Message {
	case "checkpoint":
		if o.sawCkpt { // a second PRAGMA in one call: not the protocol we model
			o.bad = true
			return
		}
		o.sawCkpt = true
		res := ""
		r.Attrs(func(a slog.Attr) bool {
			if a.Key == "result" {
				res = a.Value.String()
			}
			return true
		})
		f := strings.Split(res, ",")
		if len(f) != 3 {
			o.bad = true
			return
		}
		n, err := strconv.ParseInt(f[1], 10, 64)
		if err != nil {
			o.bad = true
			return
		}
		o.wn = n
		// preCheckpointFrameN: exec.state.lastSyncedWALOffset is the end offset of the last
		// level-0 file written during this call, else what the state held before the call
		off := o.stateOff
		last := uint64(0)
		if len(o.before) > 0 {
			last = o.before[len(o.before)-1]
		}
		now := w.localL0()
		if len(now) > 0 && now[len(now)-1] > last {
			t := now[len(now)-1]
			h, err := readL0(w.ldb.LTXPath(0, ltx.TXID(t), ltx.TXID(t)))
			if err != nil || h == nil {
				o.bad = true
				return
			}
			off = h.walOffset + h.walSize
		}
		o.pre = 0
		if off > 32 {
			o.pre = (off - 32) / (o.ps + 24)
		}
		o.mid, _ = walSalts(w.dbPath + "-wal") // unreadable after TRUNCATE: zero salts, not used for that mode
		o.traceLen = len(w.trace)              // the INJ token of this very record (if any) is already appended: this hook runs deferred
	case "sync", "sync: skip":
		o.nsync++
		if r.Message != "sync" {
			return
		}
		if !o.sawCkpt {
			return
		}
		if !o.bumped {
			o.posts++
			return
		}
		o.syncs++
		r.Attrs(func(a slog.Attr) bool {
			if a.Key == "reason" && a.Value.String() == "checkpoint boundary snapshot" {
				o.boundary = true
			}
			return true
		})
	}
}

func ckModeCode(mode string) int64 {
	switch mode {
	case "PASSIVE":
		return 0
	case "FULL":
		return 1
	case "RESTART":
		return 2
	}
	return 3
}

// observeCheckpoint runs one litestream Checkpoint call and, when the whole
// protocol was observable, emits a machine_ck case.
func (w *World) observeCheckpoint(rc *Recorder, mode string, f func() error) {
	ps := int64(0)
	if w.ldb != nil {
		ps = int64(w.ldb.PageSize())
	}
	hdr, hok := walSalts(w.dbPath + "-wal")
	if !w.useInject || ps == 0 || !hok { // no log records reach the harness / not initialised / no WAL header
		_ = f()
		return
	}
	o := &ckObserver{w: w, ps: ps, before: w.localL0(), stateOff: w.ldb.VerifSyncState().LastSyncedWALOffset}
	ckObs = o
	prev := litestream.VerifTracePoint // script mode's INJP uses the hook too: chain
	litestream.VerifTracePoint = func(obj any, ev string) {
		if ev == "ckpt.run" {
			o.released = true
		}
		if ev == "pt.ckpt.bump" && !o.bumped {
			o.bumped = true
			o.post, _ = walSalts(w.dbPath + "-wal") // before any injection armed for this point
		}
		if prev != nil {
			prev(obj, ev)
		}
		if ev == "pt.ckpt.bump" {
			o.traceLen = len(w.trace) // injections up to and including this point precede db.go's read of `other`
		}
	}
	st0 := w.ldb.VerifSyncState()
	err := f()
	litestream.VerifTracePoint = prev
	ckObs = nil
	if err != nil && !o.bad && w.ldb != nil {
		// an error exit: what the call leaves behind against Machine.fail_st. Without a copy of the call
		// having run before the failure the sync state at the exit is the one before the call; once the
		// read lock had been released the flags are cleared whatever the copies did.
		st1 := w.ldb.VerifSyncState()
		_, _, rtx, _ := w.ldb.VerifConcHandles()
		frames := func(off int64) int64 {
			if off > 32 {
				return (off - 32) / (ps + 24)
			}
			return 0
		}
		if o.released || (o.nsync == 0 && len(w.localL0()) == len(o.before)) {
			in := L(B(st0.SyncedToWALEnd), B(st0.ReachedWALEnd), I(frames(st0.LastSyncedWALOffset)), B(o.released))
			if o.released && st1.LastSyncedWALOffset != st0.LastSyncedWALOffset {
				// a copy of this call moved the offset before the failure: compare the flags only
				in = L(B(st0.SyncedToWALEnd), B(st0.ReachedWALEnd), I(frames(st1.LastSyncedWALOffset)), B(o.released))
			}
			out := L(B(st1.SyncedToWALEnd), B(st1.ReachedWALEnd), I(frames(st1.LastSyncedWALOffset)), B(rtx))
			cls := "machine-fail/" + mode + "/before-release"
			if o.released {
				cls = "machine-fail/" + mode + "/after-release"
			}
			rc.cw.Add("machine_fail", in, out, cls, o.released)
		}
		return
	}
	if err != nil || !o.sawCkpt || !o.bumped || o.bad {
		return
	}
	// an injection after the bump may change the header between db.go's last read and ours
	injAfter := 0
	for i, t := range w.trace {
		if i >= o.traceLen && strings.HasPrefix(t, "INJ") {
			injAfter++
		}
	}
	if injAfter > 0 {
		return
	}
	oth, _ := walSalts(w.dbPath + "-wal")
	d := int64(1)
	if o.syncs == 0 {
		d = 0
	} else if o.boundary {
		d = 2
	}
	in := L(I(ckModeCode(mode)), U(uint64(hdr[0])), U(uint64(hdr[1])), U(uint64(o.mid[0])), U(uint64(o.mid[1])),
		U(uint64(o.post[0])), U(uint64(o.post[1])), U(uint64(oth[0])), U(uint64(oth[1])), I(o.pre), I(o.wn))
	cls := "machine-ck/" + mode + "/" + []string{"unchanged", "recopy", "boundary"}[d]
	if hdr != o.mid && mode != "TRUNCATE" {
		cls += "/restarted-before-pragma-returned"
	}
	if o.posts > 0 {
		cls += "/post-copy"
		if o.post != o.mid {
			cls += "/restarted-during-post-copy"
		}
	}
	rc.cw.Add("machine_ck", in, L(I(d), B(o.posts > 0)), cls, d != 0)
}

// observeReset: the sync state after a run-time ResetLocalState against the machine's (entry machine_reset)
func (w *World) observeReset(rc *Recorder, st0 litestream.VerifSyncStateView) {
	ps := int64(w.ldb.PageSize())
	if ps == 0 {
		return
	}
	frames := func(off int64) int64 {
		if off <= 32 {
			return 0
		}
		return (off - 32) / (ps + 24)
	}
	st1 := w.ldb.VerifSyncState()
	rc.cw.Add("machine_reset",
		L(B(st0.SyncedToWALEnd), B(st0.ReachedWALEnd), I(frames(st0.LastSyncedWALOffset))),
		L(B(st1.SyncedToWALEnd), B(st1.ReachedWALEnd), I(frames(st1.LastSyncedWALOffset))),
		"machine-reset", st0.SyncedToWALEnd || st0.ReachedWALEnd)
}
