package main

import (
	"context"
	"database/sql"
	"fmt"
	"math/rand"
	"os"
	"path/filepath"
	"sort"
	"strings"
	"sync"
	"time"

	"github.com/benbjohnson/litestream"
	"github.com/superfly/ltx"
)

// C02: a concurrent application writer (multi-statement transactions, rollbacks)
// against litestream's sync / checkpoint / snapshot / compaction. Afterwards
// every TXID listed at any level is restored twice — with all levels, and from
// the level-0 chain alone — and must (i) be identical both ways, (ii) be a
// consistent committed state (the three version tables agree, never a rolled
// back marker), (iii) be monotone in the TXID; level 0 must be gapless from 1.

func setupVersionTables(db *sql.DB) error {
	for _, s := range []string{
		"CREATE TABLE va(id INTEGER PRIMARY KEY, n INTEGER)", "INSERT INTO va VALUES (1,0)",
		"CREATE TABLE vb(id INTEGER PRIMARY KEY, n INTEGER)", "INSERT INTO vb VALUES (1,0)",
		"CREATE TABLE vc(id INTEGER PRIMARY KEY, n INTEGER)", "INSERT INTO vc VALUES (1,0)",
		// data tables: every committed version v inserts row v into both, so a consistent state has
		// max(ver) = count = v in both tables
		"CREATE TABLE t2(ver INTEGER PRIMARY KEY, payload BLOB)",
		"CREATE TABLE u2(ver INTEGER PRIMARY KEY, payload BLOB)",
		// a pre-populated table spread over several pages: commit v stamps one pseudo-randomly chosen
		// row, so old pages keep changing and max(ver) = v in every committed state
		"CREATE TABLE big(id INTEGER PRIMARY KEY, ver INTEGER, pad BLOB)",
		"WITH RECURSIVE c(x) AS (SELECT 1 UNION ALL SELECT x+1 FROM c WHERE x < 60) INSERT INTO big SELECT x, 0, zeroblob(300) FROM c",
	} {
		if _, err := db.Exec(s); err != nil {
			return err
		}
	}
	return nil
}

type verState struct{ a, b, c, tmax, tcnt, umax, ucnt, bigmax int64 }

func readVersions(path string) (verState, error) {
	db, err := sql.Open("sqlite", "file:"+path+"?mode=ro")
	if err != nil {
		return verState{}, err
	}
	defer db.Close()
	var v verState
	if err := db.QueryRow("SELECT (SELECT n FROM va), (SELECT n FROM vb), (SELECT n FROM vc), "+
		"(SELECT coalesce(max(ver),0) FROM t2), (SELECT count(*) FROM t2), (SELECT coalesce(max(ver),0) FROM u2), (SELECT count(*) FROM u2), (SELECT coalesce(max(ver),0) FROM big)").
		Scan(&v.a, &v.b, &v.c, &v.tmax, &v.tcnt, &v.umax, &v.ucnt, &v.bigmax); err != nil {
		return v, err
	}
	return v, nil
}

// l0Around describes the replica's level-0 files n-2..n+2 (diagnostics).
func (w *World) l0Around(n uint64) string {
	var b []byte
	for t := n - 2; t <= n+2; t++ {
		if t < 1 {
			continue
		}
		p := filepath.Join(w.replicaDir, "ltx", "0", ltx.FormatFilename(ltx.TXID(t), ltx.TXID(t)))
		if o, err := readL0(p); err == nil {
			b = append(b, fmt.Sprintf(" [txid=%d off=%d size=%d salts=%d/%d commit=%d pgnos=%v]", t, o.walOffset, o.walSize, o.salt1, o.salt2, o.commit, o.pgnos)...)
		}
	}
	return string(b)
}

func integrityOf(path string) string {
	db, err := sql.Open("sqlite", "file:"+path+"?mode=ro")
	if err != nil {
		return err.Error()
	}
	defer db.Close()
	var msg string
	if err := db.QueryRow("PRAGMA integrity_check").Scan(&msg); err != nil {
		return err.Error()
	}
	if len(msg) > 200 {
		msg = msg[:200]
	}
	return msg
}

func replicaTXIDs(replicaDir string) (all []uint64, l0 []uint64) {
	seen := map[uint64]bool{}
	levels, _ := os.ReadDir(filepath.Join(replicaDir, "ltx"))
	for _, lv := range levels {
		ents, _ := os.ReadDir(filepath.Join(replicaDir, "ltx", lv.Name()))
		for _, e := range ents {
			if _, max, err := ltx.ParseFilename(e.Name()); err == nil {
				if !seen[uint64(max)] {
					seen[uint64(max)] = true
					all = append(all, uint64(max))
				}
				if lv.Name() == "0" {
					l0 = append(l0, uint64(max))
				}
			}
		}
	}
	sort.Slice(all, func(i, j int) bool { return all[i] < all[j] })
	sort.Slice(l0, func(i, j int) bool { return l0[i] < l0[j] })
	return
}

func copyTree(src, dst string, skip func(rel string) bool) error {
	return filepath.Walk(src, func(p string, fi os.FileInfo, err error) error {
		if err != nil {
			return err
		}
		rel, _ := filepath.Rel(src, p)
		if skip(rel) {
			if fi.IsDir() {
				return filepath.SkipDir
			}
			return nil
		}
		if fi.IsDir() {
			return os.MkdirAll(filepath.Join(dst, rel), 0o755)
		}
		return copyFile(p, filepath.Join(dst, rel))
	})
}

// one application transaction of version ?: three version tables and two data tables on different pages
var versionedTx = []string{"UPDATE va SET n=?1", "INSERT INTO t2(ver, payload) VALUES (?1, randomblob(200))", "UPDATE vb SET n=?1",
	"UPDATE big SET ver=?1 WHERE id = (?1 * 7) % 60 + 1", "INSERT INTO u2(ver, payload) VALUES (?1, randomblob(300))", "UPDATE vc SET n=?1"}

func commitVersion(db *sql.DB, v int64) error {
	tx, err := db.Begin()
	if err != nil {
		return err
	}
	for _, q := range versionedTx {
		if _, err := tx.Exec(q, v); err != nil {
			tx.Rollback()
			return err
		}
	}
	return tx.Commit()
}

// runC02Preexisting: litestream starts on a database whose WAL is already larger
// than the sync budget and whose database file has been checkpointed part-way
// (a reader pinned the WAL), so the first, snapshotting sync and the chunked
// syncs after it must still produce one committed state per TXID.
func runC02Preexisting(rc *Recorder, dir string, rng *rand.Rand) error {
	cfg := Config{PageSize: []int{512, 1024, 4096}[rng.Intn(3)], MinCheckpointPageN: 1000, MaxSyncWALBytes: []int64{1, 2000, 20000}[rng.Intn(3)]}
	w, err := newWorld(dir, cfg, rng)
	if err != nil {
		return err
	}
	defer func() { w.closeReader(); w.closeWT(false); w.closeWTConn(); w.app.Close() }()
	if err := setupVersionTables(w.app); err != nil {
		return err
	}
	// move everything so far into the database file: the WAL that litestream will find does not
	// start at the creation of the database
	var x, y, z int
	if err := w.app.QueryRow("PRAGMA wal_checkpoint(TRUNCATE)").Scan(&x, &y, &z); err != nil {
		return err
	}
	total := 6 + rng.Intn(8)
	pinAt := 2 + rng.Intn(total-3)
	w.trace = append(w.trace, fmt.Sprintf("C02 pre-existing WAL: %d commits, reader pinned after %d, app PASSIVE checkpoint, then litestream with maxb=%d", total, pinAt, cfg.MaxSyncWALBytes))
	for v := 1; v <= total; v++ {
		if err := commitVersion(w.app, int64(v)); err != nil {
			return err
		}
		if v == pinAt {
			if err := w.appOp(rc, "LR+"); err != nil {
				return err
			}
		}
	}
	var a, b, c int
	if err := w.app.QueryRow("PRAGMA wal_checkpoint(PASSIVE)").Scan(&a, &b, &c); err != nil {
		return err
	}
	if rng.Intn(2) == 0 {
		w.closeReader()
	}
	w.ldb = w.newLitestream()
	if err := w.ldb.Open(); err != nil {
		return err
	}
	ctx, cancel := context.WithTimeout(ctxb, 120*time.Second)
	defer cancel()
	// the first sync round, observed for the model, then catch up
	if err := w.ldb.Sync(ctx); err != nil { // initialises (page size) and copies the first chunk(s)
		return err
	}
	for i := 0; i < 3; i++ {
		if err := commitVersion(w.app, int64(total+1+i)); err != nil {
			return err
		}
		w.observeSync(rc, func() error { _, err := w.ldb.VerifSyncStep(ctx, w.cfg.MaxSyncWALBytes); return err })
		_ = w.ldb.Sync(ctx)
	}
	w.closeReader()
	if err := w.ldb.SyncAndWait(ctx); err == nil {
		w.ackOracle(rc, "SyncAndWait (pre-existing WAL)")
	}
	w.everyTXIDOracle(rc, true)
	w.closeLitestream(rc)
	rc.cw.Classes[fmt.Sprintf("c02-preexisting ps=%d maxb=%d", cfg.PageSize, cfg.MaxSyncWALBytes)]++
	return nil
}

// runC02ShrinkSnapshot: snapshots and compactions taken while a shrink of the database exists only
// in the WAL (grow, checkpoint, delete + VACUUM, sync, Snapshot / Compact before any checkpoint) and
// after it was checkpointed; every TXID must restore identically through the snapshot and through
// the level-0 chain.
func runC02ShrinkSnapshot(rc *Recorder, dir string, rng *rand.Rand) error {
	cfg := Config{PageSize: []int{512, 1024, 4096}[rng.Intn(3)], AutoVacuum: rng.Intn(3), MinCheckpointPageN: 100000}
	w, err := newWorld(dir, cfg, rng)
	if err != nil {
		return err
	}
	defer func() { w.closeReader(); w.closeWT(false); w.closeWTConn(); w.app.Close() }()
	w.ldb = w.newLitestream()
	if err := w.ldb.Open(); err != nil {
		return err
	}
	w.trace = append(w.trace, "C02 shrink/snapshot:")
	script := []string{"S", "W", "W", "W", "W", "W", "W", "SW", "CK-TRUNCATE", "S", "D", "V", "S", "SNAP", "SW", "CMP", "W", "S", "SNAP",
		"CK-PASSIVE", "D", "V", "SNAP", "S", "SNAP", "CMP", "SW", "W", "W", "CK-RESTART", "D", "S", "SNAP", "V", "S", "SNAP", "SW"}
	for _, op := range script {
		if rng.Intn(6) == 0 {
			w.step(rc, "W")
		}
		w.step(rc, op)
	}
	w.everyTXIDOracle(rc, false)
	w.closeLitestream(rc)
	rc.cw.Classes[fmt.Sprintf("c02-shrink-snapshot ps=%d av=%d", cfg.PageSize, cfg.AutoVacuum)]++
	return nil
}

// runC02Injected: the deterministic counterpart of runC02 — no writer goroutine; version-stamped
// application transactions are committed between litestream operations and, through the logger
// hook, at the n-th log record INSIDE them (between the steps of the sync / checkpoint / snapshot
// protocols). Replays exactly.
func runC02Injected(rc *Recorder, dir string, rng *rand.Rand, steps int) error {
	cfg := randConfig(rng)
	if cfg.PageSize > 8192 {
		cfg.PageSize = 4096
	}
	w, err := newWorld(dir, cfg, rng)
	if err != nil {
		return err
	}
	defer func() {
		w.closeReader()
		w.app.Close()
		if w.injConn != nil {
			w.injConn.Close()
		}
	}()
	if err := setupVersionTables(w.app); err != nil {
		return err
	}
	w.useInject, w.injectVersioned = true, true
	w.ldb = w.newLitestream()
	if err := w.ldb.Open(); err != nil {
		return err
	}
	w.trace = append(w.trace, "C02 injected commits; ops:")
	ops := []string{"S", "S", "S", "RS", "SW", "CK-PASSIVE", "CK-FULL", "CK-RESTART", "CK-TRUNCATE", "SNAP", "SNAP", "CMP", "APP", "APP", "APP", "LR+", "LR-", "WT+", "WT-", "WTR"}
	for i := 0; i < steps+10; i++ {
		op := ops[rng.Intn(len(ops))]
		if op == "APP" {
			w.trace = append(w.trace, "APP")
			if err := commitVersion(w.app, int64(w.version+1)); err == nil {
				w.version++
			}
			continue
		}
		w.step(rc, op)
	}
	ctx, cancel := context.WithTimeout(ctxb, 120*time.Second)
	defer cancel()
	w.injectIn = 0
	if err := w.ldb.SyncAndWait(ctx); err == nil {
		w.ackOracle(rc, "SyncAndWait (end of injected history)")
	}
	w.everyTXIDOracle(rc, true)
	w.closeLitestream(rc)
	rc.cw.Classes[fmt.Sprintf("c02-injected ps=%d maxb=%d", cfg.PageSize, cfg.MaxSyncWALBytes)]++
	return nil
}

// snapshotOfOtherGeneration: the level-9 file a restore of TXID t starts from names other WAL salts
// in its header than the level-0 file of its own MaxTXID (the F9b shape).
func (w *World) snapshotOfOtherGeneration(t uint64) bool {
	ents, _ := os.ReadDir(filepath.Join(w.replicaDir, "ltx", "9"))
	var best uint64
	var bestName string
	for _, e := range ents {
		if _, max, err := ltx.ParseFilename(e.Name()); err == nil && uint64(max) <= t && uint64(max) >= best {
			best, bestName = uint64(max), e.Name()
		}
	}
	if bestName == "" {
		return false
	}
	snap, err := readL0(filepath.Join(w.replicaDir, "ltx", "9", bestName))
	if err != nil {
		return false
	}
	l0, err := readL0(filepath.Join(w.replicaDir, "ltx", "0", ltx.FormatFilename(ltx.TXID(best), ltx.TXID(best))))
	if err != nil {
		return false
	}
	return snap.salt1 != l0.salt1 || snap.salt2 != l0.salt2
}

// everyTXIDOracle evaluates C02's statement on the replica as it stands.
func (w *World) everyTXIDOracle(rc *Recorder, logical bool) {
	if _, err := os.Stat(w.replicaDir); os.IsNotExist(err) {
		return // nothing was ever uploaded
	}
	all, l0 := replicaTXIDs(w.replicaDir)
	for i, t := range l0 {
		if t != uint64(i)+1 {
			rc.violate("C02/l0-not-gapless-from-1", fmt.Sprintf("level-0 TXIDs %v", l0), w)
			return
		}
	}
	// L0-only copy of the replica
	l0dir := filepath.Join(w.dir, "replica-l0")
	os.RemoveAll(l0dir)
	if err := copyTree(w.replicaDir, l0dir, func(rel string) bool {
		return len(rel) > 4 && rel[:4] == "ltx"+string(filepath.Separator) && rel != filepath.Join("ltx", "0") && filepath.Dir(rel) != filepath.Join("ltx", "0")
	}); err != nil {
		rc.violate("harness/copy-replica", err.Error(), w)
		return
	}
	tmp := filepath.Join(w.dir, "tmp")
	os.MkdirAll(tmp, 0o755)
	var prev int64 = -1
	// bound the quadratic cost: every TXID of a level >= 1 and the newest TXIDs, plus a sample of the rest
	if len(all) > 80 {
		keep := map[uint64]bool{}
		for _, t := range all[len(all)-20:] {
			keep[t] = true
		}
		levels, _ := os.ReadDir(filepath.Join(w.replicaDir, "ltx"))
		for _, lv := range levels {
			if lv.Name() == "0" {
				continue
			}
			ents, _ := os.ReadDir(filepath.Join(w.replicaDir, "ltx", lv.Name()))
			for _, e := range ents {
				if _, max, err := ltx.ParseFilename(e.Name()); err == nil {
					keep[uint64(max)] = true
				}
			}
		}
		for len(keep) < 80 {
			keep[all[w.rng.Intn(len(all))]] = true
		}
		var sel []uint64
		for _, t := range all {
			if keep[t] {
				sel = append(sel, t)
			}
		}
		all = sel
	}
	var l0max uint64
	if len(l0) > 0 {
		l0max = l0[len(l0)-1]
	}
	for _, t := range all {
		if t > l0max {
			// a snapshot uploaded ahead of the level-0 files it covers (the replica sync has not run
			// yet, e.g. it failed busy): nothing to compare it with until they arrive
			continue
		}
		a := filepath.Join(tmp, "all.db")
		b := filepath.Join(tmp, "l0.db")
		errA := restoreTo(w.replicaDir, a, ltx.TXID(t), false)
		errB := restoreTo(l0dir, b, ltx.TXID(t), false)
		rc.restores += 2
		if errA != nil || errB != nil {
			rc.violate("C02/txid-not-restorable", fmt.Sprintf("TXID %d: all-levels err=%v, L0-chain err=%v", t, errA, errB), w)
			return
		}
		ia, _ := os.ReadFile(a)
		ib, _ := os.ReadFile(b)
		if d := diffPages(ia, ib, w.cfg.PageSize); len(d) > 0 {
			// attribute: is it a level-9 snapshot (content ahead of / behind its advertised position) or a compacted file?
			no9 := filepath.Join(w.dir, "replica-no9")
			os.RemoveAll(no9)
			culprit := "unattributed"
			if err := copyTree(w.replicaDir, no9, func(rel string) bool {
				return rel == filepath.Join("ltx", "9") || filepath.Dir(rel) == filepath.Join("ltx", "9")
			}); err == nil {
				c := filepath.Join(tmp, "no9.db")
				if err := restoreTo(no9, c, ltx.TXID(t), false); err == nil {
					ic, _ := os.ReadFile(c)
					if len(diffPages(ic, ib, w.cfg.PageSize)) == 0 {
						culprit = "level9-snapshot-content-differs-from-its-position"
						if w.lsErrs > 0 && w.snapshotOfOtherGeneration(t) {
							// F9b: a sync/checkpoint call failed after its PRAGMA (SQLITE_BUSY on the sequence
							// bump under an open write transaction), the position stayed in the old WAL
							// generation, and the snapshot read the NEW generation up to the stale offset
							culprit = "level9-snapshot-of-other-wal-generation-after-failed-checkpoint(F9b):" + w.lastFailed
						}
					} else {
						culprit = "compacted-file-differs-from-l0-chain"
					}
				}
			}
			os.RemoveAll(no9)
			if strings.Contains(culprit, "(F9b)") {
				// fully attributed already
			} else if w.concurrentWriter {
				// schedule-dependent history with a real concurrent writer: the live form of F9
				culprit += ":live-concurrent-writer"
			} else if len(ia) != len(ib) {
				culprit += ":deterministic:size-differs"
			} else {
				culprit += ":deterministic:same-size"
			}
			rc.violate("C02/txid-state-depends-on-plan:"+culprit, fmt.Sprintf("TXID %d restored with all levels differs from the level-0 chain on pages %v (a mixture of commits); without the level-9 files the restore %s", t, trunc(d, 12),
				map[string]string{"level9": "equals the level-0 chain", "compact": "still differs", "unattri": "could not be evaluated"}[culprit[:7]])+w.l0Summary(), w)
			return
		}
		if logical {
			// every committed state passes SQLite's integrity check; a mixture of commits usually does not
			if msg := integrityOf(b); msg != "ok" {
				rc.violate("C02/txid-not-a-committed-state", fmt.Sprintf("TXID %d restores to a database that fails integrity_check: %s", t, msg), w)
				return
			}
			v, err := readVersions(b)
			if err != nil {
				continue // before the version tables existed
			}
			if v.a != v.b || v.b != v.c || v.a < 0 || v.tmax != v.a || v.tcnt != v.a || v.umax != v.a || v.ucnt != v.a || v.bigmax != v.a {
				rc.violate("C02/txid-not-a-committed-state", fmt.Sprintf("TXID %d is a mixture of commits: version tables va=%d vb=%d vc=%d, data tables t2 max=%d count=%d, u2 max=%d count=%d, big max=%d; L0 files around it:%s",
					t, v.a, v.b, v.c, v.tmax, v.tcnt, v.umax, v.ucnt, v.bigmax, w.l0Around(t)), w)
				return
			}
			if v.a < prev {
				rc.violate("C02/txid-not-monotone", fmt.Sprintf("TXID %d has version %d after version %d", t, v.a, prev), w)
				return
			}
			prev = v.a
		}
	}
	os.RemoveAll(l0dir)
}

func runC02(rc *Recorder, dir string, rng *rand.Rand, steps int) error {
	cfg := randConfig(rng)
	if cfg.PageSize > 8192 {
		cfg.PageSize = 4096
	}
	w, err := newWorld(dir, cfg, rng)
	if err != nil {
		return err
	}
	defer func() { w.closeReader(); w.closeWT(false); w.closeWTConn(); w.app.Close() }()
	if err := setupVersionTables(w.app); err != nil {
		return err
	}
	w.ldb = w.newLitestream()
	if err := w.ldb.Open(); err != nil {
		return err
	}
	w.concurrentWriter = true
	w.trace = append(w.trace, "C02 concurrent writer; litestream ops:")
	var wg sync.WaitGroup
	stop := make(chan struct{})
	wrng := rand.New(rand.NewSource(rng.Int63()))
	wg.Add(1)
	go func() { // the application writer
		defer wg.Done()
		var v int64
		for n := 0; n < 150; n++ { // bounded: every commit becomes a TXID that the oracle restores twice
			select {
			case <-stop:
				return
			default:
			}
			time.Sleep(time.Duration(500+wrng.Intn(2500)) * time.Microsecond)
			tx, err := w.app.Begin()
			if err != nil {
				continue
			}
			rollback := wrng.Intn(5) == 0
			nv := v + 1
			if rollback {
				nv = -1
			}
			ok := true
			for _, q := range versionedTx {
				_, err := tx.Exec(q, nv)
				if err != nil {
					ok = false
					break
				}
				if wrng.Intn(3) == 0 {
					time.Sleep(time.Duration(wrng.Intn(300)) * time.Microsecond)
				}
			}
			if !ok || rollback {
				tx.Rollback()
				continue
			}
			if err := tx.Commit(); err == nil {
				v = nv
			}
		}
	}()
	ctx, cancel := context.WithTimeout(ctxb, 120*time.Second)
	defer cancel()
	ops := []string{"S", "S", "S", "RS", "SW", "CK-PASSIVE", "CK-FULL", "CK-RESTART", "CK-TRUNCATE", "SNAP", "CMP"}
	for i := 0; i < steps; i++ {
		op := ops[rng.Intn(len(ops))]
		w.trace = append(w.trace, op)
		rc.opCounts[op]++
		switch op {
		case "S":
			_ = w.ldb.Sync(ctx)
		case "RS":
			_ = w.ldb.Replica.Sync(ctx)
		case "SW":
			_ = w.ldb.SyncAndWait(ctx)
		case "SNAP":
			_, _ = w.ldb.Snapshot(ctx)
		case "CMP":
			_, _ = w.ldb.Compact(ctx, 1)
		default:
			_ = w.ldb.Checkpoint(ctx, op[3:])
		}
		time.Sleep(time.Duration(rng.Intn(400)) * time.Microsecond)
	}
	close(stop)
	wg.Wait()
	if err := w.ldb.SyncAndWait(ctx); err == nil {
		w.ackOracle(rc, "SyncAndWait (quiesced)")
	}
	w.everyTXIDOracle(rc, true)
	w.closeLitestream(rc)
	rc.cw.Classes[fmt.Sprintf("c02 ps=%d maxb=%d", cfg.PageSize, cfg.MaxSyncWALBytes)]++
	return nil
}

var _ = litestream.CheckpointModePassive
