package main

import (
	"bytes"
	"context"
	"fmt"
	"math/rand"
	"os"
	"path/filepath"
	"strings"
	"time"

	"github.com/benbjohnson/litestream"
	"github.com/superfly/ltx"

	. "verifharness/hx"
)

// C04: disturbance scenarios. Each scenario: open litestream, a few
// acknowledged writes, the disturbance, application activity, then an
// acknowledged sync — after which (a) restore must equal the source (C01's
// statement), (b) replication must not report success while the replica has
// stopped advancing (remote position = local position, and the replica's
// position moved if the source changed).

type scenario struct {
	kind     string // disturbance kind
	mode     string // checkpoint mode used by the application while litestream is away ("" none)
	nBefore  int    // application writes before the checkpoint, while litestream is away
	nAfter   int    // application writes after the checkpoint
	nSynced  int    // acknowledged writes before the disturbance
	touchOld bool
}

var c04Kinds = []string{
	"restart-idle",            // new DB object, nothing happened meanwhile
	"restart-writes",          // new DB object, application wrote meanwhile
	"restart-ckpt",            // new DB object, application wrote, checkpointed (mode), wrote again
	"reopen-ckpt",             // SAME DB object Close/Open (stop/start), application wrote, checkpointed, wrote
	"restart-wal-removed",     // new DB object, application closed its last connection (WAL removed), wrote again
	"restart-db-replaced",     // new DB object, database file replaced by an older copy
	"restart-meta-removed",    // new DB object, meta directory removed offline
	"runtime-reset",           // ResetLocalState on the live object (auto-recover path)
	"restart-db-behind",       // new DB object, database replaced by older copy AND local meta kept (replica ahead)
	"restart-ckpt-twice",      // new DB object; the application restarted the WAL twice, each generation shorter than the one before
	"reopen-ckpt-twice",       // same, through Close/Open of the same DB object
	"restart-recurring-image", // new DB object; the application checkpointed (mode) and refilled the WAL past the old cursor so that the frame AT the old cursor carries the same page number and page image as before (a one-row status toggle), in a new generation
	"reopen-recurring-image",  // same, through Close/Open of the same DB object
	"live-app-ckpt",           // litestream RUNNING: after its own checkpoint (read mark 0) and a sync to the WAL end, the application commits, checkpoints (mode) and commits again
	"restart-meta-removed-listing-fault", // new DB object, meta directory removed offline, AND the replica's level-0 listing fails once when the new process first initialises (the database-behind-replica check cannot run)
	"runtime-reset-racing-sync", // ResetLocalState on the live object while a sync of the same DB (the monitor's tick) lands inside its baseline fetch, after the local level-0 directory was cleared
	"runtime-reset-ahead",     // ResetLocalState on the live object while the local level-0 chain is AHEAD of the replica (a local sync not yet uploaded) and litestream's own checkpoint (mode) has reset the WAL since: the re-fetched baseline is older than the in-memory cursor
}

var ckModes = []string{"PASSIVE", "FULL", "RESTART", "TRUNCATE"}

func pickScenario(rng *rand.Rand, i int) scenario {
	s := scenario{kind: c04Kinds[i%len(c04Kinds)], nSynced: 2 + rng.Intn(3)}
	switch s.kind {
	case "runtime-reset-ahead":
		s.mode = ckModes[(i/len(c04Kinds))%len(ckModes)]
		s.nBefore = 1 + rng.Intn(2)
		s.nAfter = rng.Intn(2)
	case "restart-ckpt", "reopen-ckpt", "live-app-ckpt":
		s.mode = ckModes[(i/len(c04Kinds))%len(ckModes)]
		// relative lengths of the old cursor and the new WAL generation: fewer / same / more
		s.nBefore = 1 + rng.Intn(2)
		switch (i / (len(c04Kinds) * len(ckModes))) % 3 {
		case 0:
			s.nAfter = 1
		case 1:
			s.nAfter = s.nSynced
		default:
			s.nAfter = s.nSynced + 3 + rng.Intn(3)
		}
	case "restart-ckpt-twice", "reopen-ckpt-twice":
		s.mode = ckModes[(i/len(c04Kinds))%len(ckModes)]
		s.nSynced = 5 + rng.Intn(3)
		s.nBefore = 0 // nothing is appended to the generation litestream was reading
		s.nAfter = 1
	case "restart-recurring-image", "reopen-recurring-image":
		s.mode = ckModes[(i/len(c04Kinds))%len(ckModes)]
		s.nBefore = 1 + rng.Intn(2)
	case "restart-writes", "restart-wal-removed":
		s.nBefore = 1 + rng.Intn(3)
		s.nAfter = rng.Intn(3)
	default:
		s.nBefore = rng.Intn(2)
		s.nAfter = rng.Intn(2)
	}
	return s
}

// walEnd returns the end offset of the committed valid prefix of the live WAL.
func walEnd(path string) int64 {
	b, err := os.ReadFile(path)
	if err != nil {
		return 0
	}
	rd, err := litestream.NewWALReader(bytes.NewReader(b), QuietLogger())
	if err != nil {
		return 0
	}
	_, end, _, err := rd.PageMap(context.Background())
	if err != nil {
		return 0
	}
	return end
}

func (w *World) lastCursor() int64 {
	l0 := w.localL0()
	if len(l0) == 0 {
		return 0
	}
	t := l0[len(l0)-1]
	o, err := readL0(w.ldb.LTXPath(0, ltx.TXID(t), ltx.TXID(t)))
	if err != nil {
		return 0
	}
	return o.walOffset + o.walSize
}

func remoteMax(replicaDir string) uint64 {
	ents, _ := os.ReadDir(filepath.Join(replicaDir, "ltx", "0"))
	var m uint64
	for _, e := range ents {
		if _, max, err := ltx.ParseFilename(e.Name()); err == nil && uint64(max) > m {
			m = uint64(max)
		}
	}
	return m
}

// singleWrite: one small transaction touching table u or t only (distinct pages),
// so that a lost transaction is visible in the page image.
func (w *World) singleWrite(tbl string) error {
	w.version++
	tx, err := w.app.Begin()
	if err != nil {
		return err
	}
	if _, err := tx.Exec("INSERT INTO " + tbl + "(v) VALUES (randomblob(40))"); err != nil {
		tx.Rollback()
		return err
	}
	if _, err := tx.Exec("UPDATE ver SET n=?", w.version); err != nil {
		tx.Rollback()
		return err
	}
	return tx.Commit()
}

func runC04(rc *Recorder, dir string, rng *rand.Rand, idx int) error {
	sc := pickScenario(rng, idx)
	cfg := Config{PageSize: []int{512, 1024, 4096}[rng.Intn(3)], MinCheckpointPageN: 1000, TruncatePageN: 0, CheckpointInterval: 0, MaxSyncWALBytes: 0}
	w, err := newWorld(dir, cfg, rng)
	if err != nil {
		return err
	}
	defer func() { w.closeReader(); w.closeWT(false); w.closeWTConn(); w.app.Close() }()
	ctx, cancel := context.WithTimeout(ctxb, 120*time.Second)
	defer cancel()

	w.raceFetch = sc.kind == "runtime-reset-racing-sync"
	w.ldb = w.newLitestream()
	w.raceFetch = false
	if err := w.ldb.Open(); err != nil {
		return err
	}
	w.trace = append(w.trace, fmt.Sprintf("scenario=%s mode=%s synced=%d before=%d after=%d", sc.kind, sc.mode, sc.nSynced, sc.nBefore, sc.nAfter))
	for i := 0; i < sc.nSynced; i++ {
		if err := w.singleWrite("t"); err != nil {
			return err
		}
		if err := w.ldb.SyncAndWait(ctx); err != nil {
			return fmt.Errorf("setup SyncAndWait: %w", err)
		}
	}
	recurring := sc.kind == "restart-recurring-image" || sc.kind == "reopen-recurring-image"
	frameSz := int64(cfg.PageSize + 24)
	// toggle: two one-page, one-frame transactions; the status page image recurs
	oneFrame := func(q string) error {
		before := walEnd(w.dbPath + "-wal")
		if _, err := w.app.Exec(q); err != nil {
			return err
		}
		if after := walEnd(w.dbPath + "-wal"); after != before+frameSz && after != 32+frameSz {
			return fmt.Errorf("recurring-image setup: %q appended %d bytes, not one frame", q, after-before)
		}
		return nil
	}
	toggle := func() error {
		if err := oneFrame("UPDATE st SET s='busy' WHERE id=1"); err != nil {
			return err
		}
		return oneFrame("UPDATE st SET s='idle' WHERE id=1")
	}
	if recurring {
		if _, err := w.app.Exec("CREATE TABLE IF NOT EXISTS st(id INTEGER PRIMARY KEY, s TEXT)"); err != nil {
			return err
		}
		if _, err := w.app.Exec("INSERT OR REPLACE INTO st VALUES(1,'idle')"); err != nil {
			return err
		}
		if err := toggle(); err != nil {
			return err
		}
		if err := w.ldb.SyncAndWait(ctx); err != nil {
			return fmt.Errorf("setup SyncAndWait: %w", err)
		}
	}
	var olderCopy []byte
	if sc.kind == "restart-db-replaced" || sc.kind == "restart-db-behind" {
		// an older consistent version of the database (checkpointed copy)
		tmp := filepath.Join(w.dir, "tmp")
		os.MkdirAll(tmp, 0o755)
		olderCopy, err = refImage(w.dbPath, tmp)
		if err != nil {
			return err
		}
		for i := 0; i < 2; i++ {
			if err := w.singleWrite("t"); err != nil {
				return err
			}
			if err := w.ldb.SyncAndWait(ctx); err != nil {
				return err
			}
		}
	}
	cursor := w.lastCursor()
	remoteBefore := remoteMax(w.replicaDir)
	label := sc.kind
	if sc.mode != "" {
		label += ":" + sc.mode
	}

	away := func() error { // application activity while litestream is not watching
		for i := 0; i < sc.nBefore; i++ {
			if err := w.singleWrite("u"); err != nil {
				return err
			}
		}
		if sc.mode != "" {
			var a, b, c int
			if err := w.app.QueryRow("PRAGMA wal_checkpoint("+sc.mode+")").Scan(&a, &b, &c); err != nil {
				return err
			}
		}
		for i := 0; i < sc.nAfter; i++ {
			if err := w.singleWrite("t"); err != nil {
				return err
			}
		}
		return nil
	}

	twice := func() error { // generation B (medium, never seen by litestream), then generation C (short, current)
		ck := func() error {
			var a, b, c int
			return w.app.QueryRow("PRAGMA wal_checkpoint("+sc.mode+")").Scan(&a, &b, &c)
		}
		if err := ck(); err != nil {
			return err
		}
		for i := 0; i < 3; i++ {
			if err := w.singleWrite("u"); err != nil {
				return err
			}
		}
		if err := ck(); err != nil {
			return err
		}
		return w.singleWrite("t")
	}
	// recurringAway: a lost commit, the checkpoint, then the WAL refilled so that the frame at the old
	// cursor is again the 'idle' image of the status page (new generation), and two frames beyond
	recurringAway := func() error {
		for i := 0; i < sc.nBefore; i++ {
			if err := w.singleWrite("u"); err != nil {
				return err
			}
		}
		var a, b, c int
		if err := w.app.QueryRow("PRAGMA wal_checkpoint("+sc.mode+")").Scan(&a, &b, &c); err != nil {
			return err
		}
		cursorFrames := (cursor - 32) / frameSz
		if cursorFrames%2 == 1 {
			if err := oneFrame("UPDATE ver SET n=n+1000000"); err != nil {
				return err
			}
		}
		for (walEnd(w.dbPath+"-wal")-32)/frameSz < cursorFrames+2 {
			if err := toggle(); err != nil {
				return err
			}
		}
		return nil
	}
	switch sc.kind {
	case "restart-recurring-image":
		if err := w.ldb.Close(ctx); err != nil {
			return fmt.Errorf("close before disturbance: %w", err)
		}
		if err := recurringAway(); err != nil {
			return err
		}
		w.ldb = w.newLitestream()
		if err := w.ldb.Open(); err != nil {
			return fmt.Errorf("reopen: %w", err)
		}
	case "reopen-recurring-image":
		if err := w.ldb.Close(ctx); err != nil {
			return fmt.Errorf("close before disturbance: %w", err)
		}
		if err := recurringAway(); err != nil {
			return err
		}
		if err := w.ldb.Open(); err != nil {
			return fmt.Errorf("reopen same object: %w", err)
		}
	case "live-app-ckpt":
		// litestream checkpoints itself (its read transaction restarts on a fully backfilled WAL), syncs to the end
		if err := w.ldb.Checkpoint(ctx, "PASSIVE"); err != nil {
			w.trace = append(w.trace, "ls-checkpoint-error")
		}
		if err := w.ldb.SyncAndWait(ctx); err != nil {
			return err
		}
		if err := away(); err != nil { // application: commit(s), checkpoint(mode), commit(s) — litestream is running but idle
			if !strings.Contains(err.Error(), "locked") && !strings.Contains(err.Error(), "busy") {
				return err
			}
			w.trace = append(w.trace, "app-checkpoint-busy")
		}
	case "restart-ckpt-twice":
		if err := w.ldb.Close(ctx); err != nil {
			return fmt.Errorf("close before disturbance: %w", err)
		}
		if err := twice(); err != nil {
			return err
		}
		w.ldb = w.newLitestream()
		if err := w.ldb.Open(); err != nil {
			return fmt.Errorf("reopen: %w", err)
		}
	case "reopen-ckpt-twice":
		if err := w.ldb.Close(ctx); err != nil {
			return fmt.Errorf("close before disturbance: %w", err)
		}
		if err := twice(); err != nil {
			return err
		}
		if err := w.ldb.Open(); err != nil {
			return fmt.Errorf("reopen same object: %w", err)
		}
	case "restart-idle", "restart-writes", "restart-ckpt", "restart-wal-removed", "restart-db-replaced", "restart-meta-removed", "restart-meta-removed-listing-fault", "restart-db-behind":
		if err := w.ldb.Close(ctx); err != nil {
			return fmt.Errorf("close before disturbance: %w", err)
		}
		switch sc.kind {
		case "restart-idle":
		case "restart-writes", "restart-ckpt":
			if err := away(); err != nil {
				return err
			}
		case "restart-wal-removed":
			for i := 0; i < sc.nBefore; i++ {
				if err := w.singleWrite("u"); err != nil {
					return err
				}
			}
			w.app.Close() // last connection: SQLite checkpoints and removes the WAL
			if err := w.openApp(false); err != nil {
				return err
			}
			for i := 0; i < sc.nAfter; i++ {
				if err := w.singleWrite("t"); err != nil {
					return err
				}
			}
		case "restart-db-replaced", "restart-db-behind":
			w.app.Close()
			os.Remove(w.dbPath + "-wal")
			os.Remove(w.dbPath + "-shm")
			if err := os.WriteFile(w.dbPath, olderCopy, 0o644); err != nil {
				return err
			}
			if sc.kind == "restart-db-replaced" {
				// the tool that replaces the file also drops litestream's local state? no: keep it (worst case)
			}
			if err := w.openApp(false); err != nil {
				return err
			}
			for i := 0; i < sc.nAfter; i++ {
				if err := w.singleWrite("u"); err != nil {
					return err
				}
			}
		case "restart-meta-removed":
			if err := away(); err != nil {
				return err
			}
			os.RemoveAll(w.ldb.MetaPath())
		case "restart-meta-removed-listing-fault":
			if err := away(); err != nil {
				return err
			}
			os.RemoveAll(w.ldb.MetaPath())
			w.flakyL0Lists = 1
		}
		w.ldb = w.newLitestream()
		if err := w.ldb.Open(); err != nil {
			return fmt.Errorf("reopen: %w", err)
		}
	case "reopen-ckpt":
		if err := w.ldb.Close(ctx); err != nil {
			return fmt.Errorf("close before disturbance: %w", err)
		}
		if err := away(); err != nil {
			return err
		}
		if err := w.ldb.Open(); err != nil { // the same object, as the IPC stop/start path does
			return fmt.Errorf("reopen same object: %w", err)
		}
	case "runtime-reset":
		stR := w.ldb.VerifSyncState()
		if err := w.ldb.ResetLocalState(ctx); err != nil {
			return err
		}
		w.observeReset(rc, stR)
		if err := away(); err != nil {
			return err
		}
	case "runtime-reset-racing-sync":
		if err := w.singleWrite("u"); err != nil {
			return err
		}
		w.racer.armed.Store(true)
		if err := w.ldb.ResetLocalState(ctx); err != nil {
			return err
		}
		if !w.racer.ran.Load() {
			w.trace = append(w.trace, "race-not-reached")
		}
		if err := away(); err != nil {
			return err
		}
	case "runtime-reset-ahead":
		// commits copied into local level-0 files that are never uploaded, then litestream's own
		// checkpoint (its copy + the PRAGMA + the bump: the WAL is reset or restartable), then the reset
		for i := 0; i < sc.nBefore; i++ {
			if err := w.singleWrite("u"); err != nil {
				return err
			}
		}
		if err := w.ldb.Sync(ctx); err != nil {
			return fmt.Errorf("local sync before reset: %w", err)
		}
		if err := w.ldb.Checkpoint(ctx, sc.mode); err != nil {
			w.trace = append(w.trace, "CK-error:"+errClass(err))
		}
		stR := w.ldb.VerifSyncState()
		if err := w.ldb.ResetLocalState(ctx); err != nil {
			return err
		}
		w.observeReset(rc, stR)
		for i := 0; i < sc.nAfter; i++ {
			if err := w.singleWrite("t"); err != nil {
				return err
			}
		}
	}
	newEnd := walEnd(w.dbPath + "-wal")
	rel := "na"
	if (sc.mode != "" && sc.kind != "restart-ckpt-twice" && sc.kind != "reopen-ckpt-twice") || sc.kind == "restart-writes" {
		switch {
		case newEnd < cursor:
			rel = "shorter"
		case newEnd == cursor:
			rel = "equal"
		default:
			rel = "longer"
		}
	}
	w.scenario = label + ":newwal-" + rel
	w.trace = append(w.trace, fmt.Sprintf("cursor=%d newEnd=%d", cursor, newEnd))
	rc.cw.Classes["c04:"+w.scenario]++

	// one more application write, then acknowledged syncs (not in the recurring-image scenarios: the
	// frame at the old cursor must stay the last thing litestream can compare)
	if !recurring {
		if err := w.singleWrite("t"); err != nil {
			return err
		}
	}
	// the first verify+sync after the disturbance, observed for the model (Db/Verify.v, Db/Sync.v)
	if w.ldb.PageSize() != 0 {
		w.observeSync(rc, func() error { _, err := w.ldb.VerifSyncStep(ctx, w.cfg.MaxSyncWALBytes); return err })
	}
	acked := false
	for k := 0; k < 2; k++ {
		if err := w.ldb.SyncAndWait(ctx); err == nil {
			acked = true
		} else {
			w.trace = append(w.trace, "SW-error:"+errClass(err))
		}
	}
	if acked {
		w.ackOracle(rc, "SyncAndWait after "+sc.kind)
		st, err := w.ldb.SyncStatus(ctx)
		if err == nil {
			if st.LocalTXID != st.RemoteTXID {
				rc.violate("C04/acked-while-not-advancing", fmt.Sprintf("SyncAndWait returned nil twice but local TXID=%d remote TXID=%d", st.LocalTXID, st.RemoteTXID), w)
			} else if uint64(st.RemoteTXID) <= remoteBefore {
				rc.violate("C04/acked-without-progress", fmt.Sprintf("source changed, SyncAndWait acknowledged, replica position %d not above %d", st.RemoteTXID, remoteBefore), w)
			}
		}
	}
	ctx2, cancel2 := context.WithTimeout(ctxb, 60*time.Second)
	defer cancel2()
	defer func() { lastTrace = w.cfg.String() + " | " + strings.Join(w.trace, " ") }()
	if err := w.ldb.Close(ctx2); err == nil && acked {
		w.ackOracle(rc, "Close after "+sc.kind)
	}
	return nil
}

func errClass(err error) string {
	s := err.Error()
	if len(s) > 60 {
		s = s[:60]
	}
	return s
}
