// Child side of the crash harness: deterministic scripts over the real
// litestream code. The parent runs this binary with `-child <script>` under
// strace (tracing, or kill injection).
package main

import (
	"context"
	"crypto/sha256"
	"database/sql"
	"encoding/hex"
	"errors"
	"fmt"
	"math/rand"
	"os"
	"path/filepath"
	"runtime"
	"strconv"
	"strings"
	"sync"
	"syscall"
	"io"
	"time"

	"github.com/benbjohnson/litestream"
	"github.com/benbjohnson/litestream/file"
	"github.com/pierrec/lz4/v4"
	"github.com/superfly/ltx"
	_ "modernc.org/sqlite"
	. "verifharness/hx"
)

// layout of a run directory R:
//
//	R/db  (+ -wal, -shm)        application database (SQLite's own files: outside the alphabet)
//	R/.db-litestream/ltx/L/*.ltx local LTX tree (tree 0)
//	R/replica/ltx/L/*.ltx       file replica (tree 1)
//	R/restore/out.db            restore output, R/restore/out.db-txid sidecar
//	R/ACK                       ack marker file: one write per acknowledged name
const (
	ackName     = "ACK"
	dbName      = "db"
	replicaName = "replica"
	restoreDir  = "restore"
	outName     = "out.db"
)

type childEnv struct {
	dir    string
	r      *rand.Rand
	db     *litestream.DB
	client *file.ReplicaClient
	app    *sql.DB
	ack    *os.File
	ctx    context.Context

	lastLocal  ltx.TXID
	lastRemote ltx.TXID
	restoreN   int

	gateWanted bool // script backloggate: the replica client is a gateKillClient
	gate       *gateKillClient
}

// gateKillClient (script backloggate): the process dies at the one instant a kill sweep over system
// calls cannot aim at - while the upload of an EARLIER level-0 file of a backlog has not started to be
// written and the upload of a LATER one has completed. The first level-0 write after arming is held
// back for up to 300 ms; if a write of a later TXID completes meanwhile (uploads of one batch running
// concurrently: seeds C03d, C05f), the process kills itself there. With sequential uploads nothing
// else starts while the first write is held, and the script runs to its end.
type gateKillClient struct {
	*file.ReplicaClient
	mu      sync.Mutex
	armed   bool
	holding bool
	held    ltx.TXID
	done    chan ltx.TXID
}

func (g *gateKillClient) WriteLTXFile(ctx context.Context, level int, minTXID, maxTXID ltx.TXID, r io.Reader) (*ltx.FileInfo, error) {
	if level != 0 {
		return g.ReplicaClient.WriteLTXFile(ctx, level, minTXID, maxTXID, r)
	}
	g.mu.Lock()
	if g.armed && !g.holding {
		g.armed, g.holding, g.held = false, true, minTXID
		g.done = make(chan ltx.TXID, 16)
		done := g.done
		g.mu.Unlock()
		deadline := time.After(300 * time.Millisecond)
	wait:
		for {
			select {
			case t := <-done:
				if t > minTXID {
					_ = syscall.Kill(os.Getpid(), syscall.SIGKILL)
					select {}
				}
			case <-deadline:
				break wait
			}
		}
		g.mu.Lock()
		g.holding = false
		g.mu.Unlock()
		return g.ReplicaClient.WriteLTXFile(ctx, level, minTXID, maxTXID, r)
	}
	holding, done := g.holding, g.done
	g.mu.Unlock()
	info, err := g.ReplicaClient.WriteLTXFile(ctx, level, minTXID, maxTXID, r)
	if holding && err == nil {
		select {
		case done <- minTXID:
		default:
		}
	}
	return info, err
}

func (e *childEnv) dbPath() string  { return filepath.Join(e.dir, dbName) }
func (e *childEnv) outPath() string { return filepath.Join(e.dir, restoreDir, outName) }

func must(err error, what string) {
	if err != nil {
		fmt.Fprintf(os.Stderr, "CHILD-ERROR %s: %v\n", what, err)
		os.Exit(3)
	}
}

// ackf appends one marker line with a single write(2): "A <kind> <txid> <digest> <relative path>\n".
// The call is issued only after the operation that published <path> reported success.
func (e *childEnv) ackf(kind string, txid ltx.TXID, digest, path string) {
	rel, err := filepath.Rel(e.dir, path)
	if err != nil {
		rel = path
	}
	line := fmt.Sprintf("A %s %d %s %s\n", kind, uint64(txid), digest, rel)
	if _, err := e.ack.Write([]byte(line)); err != nil {
		must(err, "ack write")
	}
}

// note records progress that is not an acknowledgement of a name ("N ...").
func (e *childEnv) note(s string) {
	_, _ = e.ack.Write([]byte("N " + s + "\n"))
}

func (e *childEnv) openAck() {
	f, err := os.OpenFile(filepath.Join(e.dir, ackName), os.O_WRONLY|os.O_CREATE|os.O_APPEND, 0o644)
	must(err, "open ack")
	e.ack = f
}

func (e *childEnv) openApp() {
	app, err := sql.Open("sqlite", e.dbPath())
	must(err, "sql.Open")
	app.SetMaxOpenConns(1)
	_, err = app.Exec(`PRAGMA journal_mode=wal`)
	must(err, "journal_mode")
	_, err = app.Exec(`PRAGMA wal_autocheckpoint=0`)
	must(err, "autocheckpoint")
	_, err = app.Exec(`PRAGMA busy_timeout=5000`)
	must(err, "busy_timeout")
	_, err = app.Exec(`CREATE TABLE IF NOT EXISTS t (id INTEGER PRIMARY KEY, v BLOB)`)
	must(err, "create table")
	e.app = app
}

func (e *childEnv) openDB() {
	db := litestream.NewDB(e.dbPath())
	db.MonitorInterval = 0
	db.Logger = QuietLogger()
	c := file.NewReplicaClient(filepath.Join(e.dir, replicaName))
	if e.gateWanted {
		e.gate = &gateKillClient{ReplicaClient: c}
		db.Replica = litestream.NewReplicaWithClient(db, e.gate)
	} else {
		db.Replica = litestream.NewReplicaWithClient(db, c)
	}
	db.Replica.MonitorEnabled = false
	c.Replica = db.Replica
	must(db.Open(), "db.Open")
	e.db, e.client = db, c
}

func (e *childEnv) closeDB() {
	if e.db != nil {
		_ = e.db.Close(e.ctx)
		e.db = nil
	}
}

func (e *childEnv) write(rows, size int) {
	for i := 0; i < rows; i++ {
		b := make([]byte, size)
		e.r.Read(b)
		_, err := e.app.Exec(`INSERT INTO t (v) VALUES (?)`, b)
		must(err, "insert")
	}
}

func (e *childEnv) update(rows int) {
	_, err := e.app.Exec(`UPDATE t SET v = randomblob(40) WHERE id % 3 = ?`, rows%3)
	must(err, "update")
}

// appDigest is a logical digest of the application's data.
func appDigest(path string) (string, error) {
	c, err := sql.Open("sqlite", "file:"+path+"?mode=ro")
	if err != nil {
		return "", err
	}
	defer c.Close()
	return digestConn(c)
}

func digestConn(c *sql.DB) (string, error) {
	rows, err := c.Query(`SELECT id, v FROM t ORDER BY id`)
	if err != nil {
		return "", err
	}
	defer rows.Close()
	h := sha256.New()
	for rows.Next() {
		var id int64
		var v []byte
		if err := rows.Scan(&id, &v); err != nil {
			return "", err
		}
		fmt.Fprintf(h, "%d:%x;", id, v)
	}
	if err := rows.Err(); err != nil {
		return "", err
	}
	return hex.EncodeToString(h.Sum(nil))[:16], nil
}

func (e *childEnv) digest() string {
	d, err := digestConn(e.app)
	must(err, "digest")
	return d
}

func (e *childEnv) sync() {
	d := e.digest()
	must(e.db.Sync(e.ctx), "db.Sync")
	pos, err := e.db.Pos()
	must(err, "db.Pos")
	for t := e.lastLocal + 1; t <= pos.TXID; t++ {
		dg := "-"
		if t == pos.TXID {
			dg = d
		} else if _, err := os.Stat(e.db.LTXPath(0, t, t)); err != nil {
			continue // after a reset the local tree restarts at the replica's position
		}
		e.ackf("l0", t, dg, e.db.LTXPath(0, t, t))
	}
	if pos.TXID > e.lastLocal {
		e.lastLocal = pos.TXID
	}
}

func (e *childEnv) upload() {
	d := e.digest()
	must(e.db.Replica.Sync(e.ctx), "replica.Sync")
	pos := e.db.Replica.Pos()
	for t := e.lastRemote + 1; t <= pos.TXID; t++ {
		dg := "-"
		if t == pos.TXID && t == e.lastLocal {
			dg = d
		}
		e.ackf("r0", t, dg, e.client.LTXFilePath(0, t, t))
	}
	if pos.TXID > e.lastRemote {
		e.lastRemote = pos.TXID
	}
}

func (e *childEnv) snapshot() {
	info, err := e.db.Snapshot(e.ctx)
	must(err, "db.Snapshot")
	e.ackf("snap", info.MaxTXID, "-", e.client.LTXFilePath(info.Level, info.MinTXID, info.MaxTXID))
}

func (e *childEnv) compact(level int) {
	info, err := e.db.Compact(e.ctx, level)
	if errors.Is(err, litestream.ErrNoCompaction) {
		e.note("nocompaction")
		return
	}
	must(err, "db.Compact")
	e.ackf("cmp", info.MaxTXID, "-", e.client.LTXFilePath(info.Level, info.MinTXID, info.MaxTXID))
}

func (e *childEnv) retention() {
	minTXID, err := e.db.EnforceSnapshotRetention(e.ctx, time.Now())
	must(err, "EnforceSnapshotRetention")
	for lvl := 1; lvl <= 2; lvl++ {
		must(e.db.EnforceRetentionByTXID(e.ctx, lvl, minTXID), "EnforceRetentionByTXID")
	}
	must(e.db.EnforceL0RetentionByTime(e.ctx), "EnforceL0RetentionByTime")
	e.note("retention " + strconv.FormatUint(uint64(minTXID), 10))
}

func (e *childEnv) restore(txid ltx.TXID) {
	out := e.outPath()
	if e.restoreN > 0 {
		out = filepath.Join(e.dir, restoreDir, fmt.Sprintf("out%d.db", e.restoreN))
	}
	e.restoreN++
	opt := litestream.NewRestoreOptions()
	opt.OutputPath = out
	opt.TXID = txid
	r := e.db.Replica
	must(r.Restore(e.ctx, opt), "Restore")
	e.ackf("out", txid, "-", out)
}

// follow runs a follow-mode restore while the primary keeps producing files,
// stops it once the sidecar reached the primary's position and acknowledges
// output and sidecar after Restore has returned.
func (e *childEnv) follow(rounds int) {
	out := e.outPath()
	fc := file.NewReplicaClient(filepath.Join(e.dir, replicaName))
	fr := litestream.NewReplicaWithClient(nil, fc)
	ctx, cancel := context.WithCancel(e.ctx)
	done := make(chan error, 1)
	go func() {
		opt := litestream.NewRestoreOptions()
		opt.OutputPath = out
		opt.Follow = true
		opt.FollowInterval = 5 * time.Millisecond
		done <- fr.Restore(ctx, opt)
	}()
	waitFor := func(t ltx.TXID) {
		deadline := time.Now().Add(20 * time.Second)
		for time.Now().Before(deadline) {
			if v, err := litestream.ReadTXIDFile(out); err == nil && v >= t {
				return
			}
			select {
			case err := <-done:
				must(fmt.Errorf("follow returned early: %v", err), "follow")
			case <-time.After(3 * time.Millisecond):
			}
		}
		must(fmt.Errorf("timeout waiting for sidecar %d", t), "follow")
	}
	waitFor(e.lastRemote)
	for i := 0; i < rounds; i++ {
		e.write(1+e.r.Intn(3), 50+e.r.Intn(300))
		e.sync()
		e.upload()
		waitFor(e.lastRemote)
	}
	cancel()
	must(<-done, "follow Restore")
	e.ackf("fout", e.lastRemote, "-", out)
	e.ackf("txid", e.lastRemote, "-", litestream.TXIDPath(out))
}

// followOnMain runs Restore(Follow) on the calling (main, OS-thread-locked)
// goroutine, so that its system calls are deterministic kill points, and stops
// it once output and sidecar exist and the sidecar reached target. Used for
// the initial follow restore and for restarting a follower after a kill.
func (e *childEnv) followOnMain(target ltx.TXID, limit time.Duration) error {
	out := e.outPath()
	fc := file.NewReplicaClient(filepath.Join(e.dir, replicaName))
	fr := litestream.NewReplicaWithClient(nil, fc)
	ctx, cancel := context.WithCancel(e.ctx)
	defer cancel()
	timedOut := make(chan struct{})
	go func() {
		deadline := time.Now().Add(limit)
		for time.Now().Before(deadline) {
			if v, err := litestream.ReadTXIDFile(out); err == nil && v >= target && v != 0 {
				if _, err := os.Stat(out); err == nil {
					cancel()
					return
				}
			}
			select {
			case <-ctx.Done():
				return
			case <-time.After(3 * time.Millisecond):
			}
		}
		close(timedOut)
		cancel()
	}()
	opt := litestream.NewRestoreOptions()
	opt.OutputPath = out
	opt.Follow = true
	opt.FollowInterval = 5 * time.Millisecond
	if err := fr.Restore(ctx, opt); err != nil {
		return err
	}
	select {
	case <-timedOut:
		v, _ := litestream.ReadTXIDFile(out)
		return fmt.Errorf("follower did not reach TXID %d within %s (sidecar %d)", target, limit, v)
	default:
	}
	return nil
}

func (e *childEnv) followStart() {
	must(e.followOnMain(e.lastRemote, 20*time.Second), "initial follow restore")
	out := e.outPath()
	e.ackf("fout", e.lastRemote, "-", out)
	e.ackf("txid", e.lastRemote, "-", litestream.TXIDPath(out))
}

// ---- legacy v0.3.x layout --------------------------------------------------------

func writeLZ4File(path string, data []byte) error {
	if err := os.MkdirAll(filepath.Dir(path), 0o755); err != nil {
		return err
	}
	f, err := os.Create(path)
	if err != nil {
		return err
	}
	zw := lz4.NewWriter(f)
	if _, err := zw.Write(data); err != nil {
		return err
	}
	if err := zw.Close(); err != nil {
		return err
	}
	return f.Close()
}

const v3Gen = "0123456789abcdef"

// restoreV3: builds two v0.3.x replicas from the application database -- one
// generation with a snapshot only, one with a snapshot and WAL segments (the
// real -wal file cut at a frame boundary) -- and restores each through
// Replica.Restore (which selects RestoreV3: no LTX files present).
func (e *childEnv) restoreV3(rows int) {
	e.write(rows, 200)
	_, err := e.app.Exec(`PRAGMA wal_checkpoint(TRUNCATE)`)
	must(err, "checkpoint")
	snap, err := os.ReadFile(e.dbPath())
	must(err, "read db")
	d0 := e.digest()
	e.write(rows, 300)
	e.update(1)
	wal, err := os.ReadFile(e.dbPath() + "-wal")
	must(err, "read wal")
	d1 := e.digest()
	ps := int(snap[16])<<8 | int(snap[17])
	if ps == 1 {
		ps = 65536
	}
	nframes := (len(wal) - 32) / (24 + ps)
	if nframes < 1 {
		must(fmt.Errorf("no wal frames"), "restorev3")
	}
	wal = wal[:32+nframes*(24+ps)]
	cut := 32 + (nframes/2)*(24+ps)
	rootS := filepath.Join(e.dir, "replica3s")
	rootW := filepath.Join(e.dir, "replica3w")
	gdir := func(root string) string { return filepath.Join(root, "generations", v3Gen) }
	must(writeLZ4File(filepath.Join(gdir(rootS), "snapshots", "00000000.snapshot.lz4"), snap), "write snapshot")
	must(writeLZ4File(filepath.Join(gdir(rootW), "snapshots", "00000000.snapshot.lz4"), snap), "write snapshot")
	must(writeLZ4File(filepath.Join(gdir(rootW), "wal", fmt.Sprintf("%08x_%08x.wal.lz4", 0, 0)), wal[:cut]), "write wal")
	if cut < len(wal) {
		must(writeLZ4File(filepath.Join(gdir(rootW), "wal", fmt.Sprintf("%08x_%08x.wal.lz4", 0, cut)), wal[cut:]), "write wal")
	}
	e.note("digest " + d0)
	e.note("digest " + d1)
	e.note("expect " + filepath.Join(restoreDir, "v3s.db") + " " + d0)
	e.note("expect " + filepath.Join(restoreDir, "v3w.db") + " " + d1)
	e.note("v3ready")
	e.restoreV3One(rootS, "v3s.db")
	e.restoreV3One(rootW, "v3w.db")
}

func (e *childEnv) restoreV3One(root, name string) {
	out := filepath.Join(e.dir, restoreDir, name)
	if _, err := os.Stat(out); err == nil {
		e.note("exists " + name)
		return
	}
	r := litestream.NewReplicaWithClient(nil, file.NewReplicaClient(root))
	opt := litestream.NewRestoreOptions()
	opt.OutputPath = out
	must(r.Restore(e.ctx, opt), "Restore (v0.3.x) "+name)
	e.ackf("out", 0, "-", out)
}

func (e *childEnv) sidecar(txid ltx.TXID) {
	out := e.outPath()
	must(os.MkdirAll(filepath.Dir(out), 0o755), "mkdir restore")
	must(litestream.WriteTXIDFile(out, txid), "WriteTXIDFile")
	e.ackf("txid", txid, "-", litestream.TXIDPath(out))
}

// baseline: the database is behind the replica (local LTX state lost, e.g. the
// database was restored from a backup); a fresh DB object fetches the latest
// L0 file from the replica as its baseline.
func (e *childEnv) baseline() {
	e.closeDB()
	must(os.RemoveAll(filepath.Join(e.dir, "."+dbName+"-litestream")), "remove meta")
	e.openDB()
	type hook interface {
		VerifCheckDatabaseBehindReplica(context.Context) error
	}
	if h, ok := any(e.db).(hook); ok {
		must(os.MkdirAll(e.db.MetaPath(), 0o755), "mkdir meta")
		must(h.VerifCheckDatabaseBehindReplica(e.ctx), "checkDatabaseBehindReplica")
		e.ackf("base", e.lastRemote, "-", e.db.LTXPath(0, e.lastRemote, e.lastRemote))
		e.lastLocal = e.lastRemote
	} else {
		e.note("nohook")
	}
	e.write(1, 100)
	// the next sync sees the baseline, cannot verify against it and snapshots
	e.lastLocal = e.lastRemote
	e.sync()
	e.upload()
}

// resetLocal: DB.ResetLocalState on the OPEN database removes the whole local
// LTX tree (RemoveAll); the next sync re-creates the directories.
func (e *childEnv) resetLocal() {
	must(e.db.ResetLocalState(e.ctx), "ResetLocalState")
	e.lastLocal = 0
	e.note("reset")
}

// fetchBaseline runs the behind-replica check on the OPEN database (it removes
// and re-creates the local L0 directory and fetches the replica's latest L0).
func (e *childEnv) fetchBaseline() bool {
	type hook interface {
		VerifCheckDatabaseBehindReplica(context.Context) error
	}
	h, ok := any(e.db).(hook)
	if !ok {
		e.note("nohook")
		return false
	}
	must(os.MkdirAll(e.db.MetaPath(), 0o755), "mkdir meta")
	must(h.VerifCheckDatabaseBehindReplica(e.ctx), "checkDatabaseBehindReplica")
	e.ackf("base", e.lastRemote, "-", e.db.LTXPath(0, e.lastRemote, e.lastRemote))
	e.lastLocal = e.lastRemote
	return true
}

// script runs one named deterministic script; prm are its integer parameters
// drawn by the parent from the seeded PRNG.
func runChild(script, dir string, seed int64, prm []int) {
	// strace counts injected system calls per thread: keep the script (and with
	// it nearly all of litestream's file operations) on one OS thread, so that
	// "the k-th mutating call of the main thread" is a deterministic kill point.
	runtime.LockOSThread()
	e := &childEnv{dir: dir, r: rand.New(rand.NewSource(seed)), ctx: context.Background()}
	e.openAck()
	p := func(i, def int) int {
		if i < len(prm) {
			return prm[i]
		}
		return def
	}
	if script == "resume" {
		// restart after a kill: no manual repair, one more acknowledged sync
		e.openApp()
		e.openDB()
		e.write(1, 64)
		d := e.digest()
		must(e.db.Sync(e.ctx), "db.Sync")
		must(e.db.Replica.Sync(e.ctx), "replica.Sync")
		pos, err := e.db.Pos()
		must(err, "pos")
		rpos := e.db.Replica.Pos()
		if rpos.TXID != pos.TXID {
			must(fmt.Errorf("replica pos %d != local pos %d after acknowledged sync", rpos.TXID, pos.TXID), "resume")
		}
		e.ackf("resume", pos.TXID, d, e.client.LTXFilePath(0, pos.TXID, pos.TXID))
		e.closeDB()
		return
	}
	if script == "refollow" {
		// restart of a follower after a kill: resume (or start afresh) without repair
		must(e.followOnMain(ltx.TXID(p(0, 1)), 20*time.Second), "follower restart")
		e.note("refollowed")
		return
	}
	if script == "resumev3" {
		// restart of a killed v0.3.x restore: run it again where the output is missing
		e.restoreV3One(filepath.Join(e.dir, "replica3s"), "v3s.db")
		e.restoreV3One(filepath.Join(e.dir, "replica3w"), "v3w.db")
		e.note("resumedv3")
		return
	}
	if script == "restorev3" {
		e.openApp()
		e.restoreV3(2 + p(1, 2))
		e.note("done")
		return
	}
	if script == "sidecar" {
		for i := 0; i < p(0, 3); i++ {
			e.sidecar(ltx.TXID(i + 1))
		}
		return
	}
	e.gateWanted = script == "backloggate"
	e.openApp()
	e.openDB()
	rounds := p(0, 3)
	round := func() {
		e.write(1+e.r.Intn(p(1, 3)), 20+e.r.Intn(p(2, 400)))
		if e.r.Intn(4) == 0 {
			e.update(e.r.Intn(3))
		}
		e.sync()
		if e.r.Intn(3) != 0 {
			e.upload()
		}
	}
	switch script {
	case "basic":
		for i := 0; i < rounds; i++ {
			round()
		}
		e.upload()
		e.snapshot()
		round()
		e.upload()
		e.compact(1)
		round()
		e.upload()
		e.restore(e.lastRemote)
	case "backlog":
		// several level-0 files pending when one Replica.Sync uploads them: at every instant of that batch the
		// files visible on the replica must be a gapless prefix (seed C03d: uploads of one batch in parallel)
		e.write(2, 100)
		e.sync()
		e.upload()
		for i := 0; i < 4; i++ {
			e.write(1+i%2, 80)
			e.sync()
		}
		e.upload()
		e.write(1, 60)
		e.sync()
		e.upload()
		e.restore(e.lastRemote)
	case "backloggate":
		// as backlog; the process dies on its own if a later file of the batch is published before an earlier one
		e.write(2, 100)
		e.sync()
		e.upload()
		for i := 0; i < 4; i++ {
			e.write(1+i%2, 80)
			e.sync()
		}
		e.gate.mu.Lock()
		e.gate.armed = true
		e.gate.mu.Unlock()
		e.upload()
		e.write(1, 60)
		e.sync()
		e.upload()
		e.restore(e.lastRemote)
	case "retention":
		e.db.L0Retention = time.Nanosecond
		for i := 0; i < rounds; i++ {
			round()
		}
		e.upload()
		e.snapshot()
		e.compact(1)
		round()
		round()
		e.upload()
		e.compact(1)
		e.compact(2)
		e.snapshot()
		round()
		e.upload()
		e.retention()
		e.compact(1)
		e.restore(e.lastRemote)
	case "checkpoint":
		for i := 0; i < rounds; i++ {
			round()
			if i%2 == 1 {
				must(e.db.Checkpoint(e.ctx, litestream.CheckpointModePassive), "checkpoint")
				pos, err := e.db.Pos()
				must(err, "pos")
				for t := e.lastLocal + 1; t <= pos.TXID; t++ {
					e.ackf("l0", t, "-", e.db.LTXPath(0, t, t))
				}
				e.lastLocal = pos.TXID
			}
		}
		e.write(2, 100)
		e.sync()
		e.upload()
		e.restore(e.lastRemote)
	case "ckpttrunc":
		// TRUNCATE checkpoints: each ends in the boundary snapshot written under SQLite's write lock
		// (DB.sync from checkpointWithExecutor) — a level-0 file published on that path must be flushed
		// before it is renamed like any other (seed C11e)
		for i := 0; i < rounds; i++ {
			round()
			must(e.db.Checkpoint(e.ctx, litestream.CheckpointModeTruncate), "checkpoint")
			pos, err := e.db.Pos()
			must(err, "pos")
			for t := e.lastLocal + 1; t <= pos.TXID; t++ {
				e.ackf("l0", t, "-", e.db.LTXPath(0, t, t))
			}
			e.lastLocal = pos.TXID
		}
		e.write(2, 100)
		e.sync()
		e.upload()
		e.restore(e.lastRemote)
	case "follow":
		round()
		e.upload()
		e.followStart()
		e.follow(rounds)
	case "followstart":
		// short script: the initial follow restore (sidecar, output) on the main thread
		round()
		e.upload()
		e.followStart()
		// ... and one resumed run that applies later level-0 files: the -txid sidecar is REPLACED
		// (a kill inside the replacement must leave the old or the new sidecar; seed C03f)
		round()
		e.upload()
		e.followStart()
	case "baseline":
		for i := 0; i < rounds; i++ {
			round()
		}
		e.upload()
		e.baseline()
		e.restore(e.lastRemote)
	case "reset":
		// one OPEN DB: publishes, local tree removed, publishes into the re-created directories
		for i := 0; i < rounds; i++ {
			round()
		}
		e.upload()
		e.resetLocal()
		for i := 0; i < 3; i++ {
			e.write(1+e.r.Intn(2), 30+e.r.Intn(200))
			e.sync()
		}
	case "resetfetch":
		// one OPEN DB: publishes, local tree removed, baseline fetched (RemoveAll+MkdirAll of
		// the L0 directory), then further publishes into that directory
		for i := 0; i < rounds; i++ {
			round()
		}
		e.upload()
		e.resetLocal()
		if e.fetchBaseline() {
			for i := 0; i < 3; i++ {
				e.write(1+e.r.Intn(2), 30+e.r.Intn(200))
				e.sync()
				e.upload()
			}
			e.restore(e.lastRemote)
		}
	case "republish":
		// publishes OVER existing final names, each acknowledged: the same snapshot twice,
		// L0 files uploaded again after the replica position was set back, sidecar rewritten
		for i := 0; i < rounds+1; i++ {
			round()
		}
		e.upload()
		e.snapshot()
		e.snapshot()
		if e.lastRemote >= 3 {
			back := ltx.TXID(1 + e.r.Intn(2))
			e.db.Replica.SetPos(ltx.Pos{TXID: e.lastRemote - back})
			e.lastRemote -= back
			e.upload()
		}
		e.compact(1)
		e.compact(1)
		round()
		e.upload()
		e.snapshot()
		e.snapshot()
		e.restore(e.lastRemote)
		for i := 0; i < 3; i++ {
			e.sidecar(e.lastRemote)
		}
	case "rerestore":
		// restore, remove the output directory, restore into the re-created directory;
		// compaction and retention empty replica level directories in between
		e.db.L0Retention = time.Nanosecond
		for i := 0; i < rounds; i++ {
			round()
		}
		e.upload()
		e.restore(e.lastRemote)
		must(os.RemoveAll(filepath.Join(e.dir, restoreDir)), "remove restore dir")
		e.snapshot()
		e.compact(1)
		round()
		e.upload()
		e.compact(1)
		e.retention()
		e.restore(e.lastRemote)
		e.sidecar(e.lastRemote)
		must(os.RemoveAll(filepath.Join(e.dir, restoreDir)), "remove restore dir")
		e.sidecar(e.lastRemote)
	default:
		must(fmt.Errorf("unknown script %q", script), "script")
	}
	e.closeDB()
	e.note("done")
}

func parseInts(s string) []int {
	var out []int
	for _, f := range strings.Split(s, ",") {
		if f == "" {
			continue
		}
		v, _ := strconv.Atoi(f)
		out = append(out, v)
	}
	return out
}
