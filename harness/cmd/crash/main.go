// Command crash: harness of the Fs layer.
//
//	-mode trace  (C11)  run deterministic scripts over the real litestream code in a
//	             child process under `strace -f -y`, reduce the trace to the model
//	             alphabet of coq/Fs/Model.v (litestream's own files only, ack markers
//	             written by the child) and emit one spec-oracle case per trace for
//	             the extracted monitor (Fs.Entry.fs_publish_ok, expected (1 0 0)).
//	-mode kill   (C03)  record a script once (K = number of mutating system calls
//	             entered), then re-run it with a SIGKILL injected on entry to the k-th
//	             call for sampled k; inspect the post-kill state with the real code
//	             (every *.ltx verifies, restore of the last acknowledged TXID, restart
//	             + one more acknowledged sync + restore) and emit a model case
//	             comparing the post-kill directory state (Fs.Entry.fs_kill_state).
package main

import (
	"context"
	"encoding/json"
	"flag"
	"fmt"
	"math/rand"
	"os"
	"os/exec"
	"path/filepath"
	"sort"
	"strings"
	"sync"
	"time"

	"github.com/benbjohnson/litestream"
	"github.com/benbjohnson/litestream/file"
	"github.com/superfly/ltx"
	. "verifharness/hx"
)

type job struct {
	Script string `json:"script"`
	Prm    []int  `json:"prm"`
	Seed   int64  `json:"seed"`
	K      int    `json:"k,omitempty"`   // kill on entry to the K-th call of Sys by a thread (0: no kill)
	Sys    string `json:"sys,omitempty"` // system call name the kill is injected on
	At     int    `json:"at,omitempty"`  // position of that call among the mutating calls of the recording run
}

func (j job) prmString() string {
	s := make([]string, len(j.Prm))
	for i, v := range j.Prm {
		s[i] = fmt.Sprint(v)
	}
	return strings.Join(s, ",")
}

var traceScripts = []string{"basic", "ckpttrunc", "retention", "baseline", "reset", "resetfetch", "republish", "rerestore", "follow", "restorev3", "followstart", "sidecar", "checkpoint"}

func drawJob(r *rand.Rand, script string) job {
	return job{Script: script, Seed: r.Int63n(1 << 30), Prm: []int{2 + r.Intn(4), 1 + r.Intn(4), 50 + r.Intn(3000)}}
}

type runResult struct {
	dir      string
	calls    []mcall
	acks     []ackLine
	init     []initFile
	red      *reducer
	seq      []string
	seqText  []string // the text of the calls of seq
	inflight []string
	killed   bool
	exit     int
	stderr   string
}

// runTraced executes the child under strace in a fresh run directory.
func runTraced(self, dir string, j job) (*runResult, error) {
	_ = os.RemoveAll(dir)
	if err := os.MkdirAll(dir, 0o755); err != nil {
		return nil, err
	}
	red := newReducer(dir, j.Script == "follow" || j.Script == "followstart")
	res := &runResult{dir: dir, red: red, init: red.listAlphabet()}
	tr := dir + ".strace"
	args := []string{"-f", "-y", "-s", "220", "-o", tr, "-e", "trace=" + traceSet}
	if j.K > 0 {
		args = append(args, "-e", fmt.Sprintf("inject=%s:signal=KILL:when=%d", j.Sys, j.K))
	}
	args = append(args, self, "-child", j.Script, "-dir", dir, "-seed", fmt.Sprint(j.Seed), "-prm", j.prmString())
	ctx, cancel := context.WithTimeout(context.Background(), 120*time.Second)
	defer cancel()
	cmd := exec.CommandContext(ctx, "strace", args...)
	var eb strings.Builder
	cmd.Stderr = &eb
	err := cmd.Run()
	res.stderr = eb.String()
	if ee, ok := err.(*exec.ExitError); ok {
		res.exit = ee.ExitCode()
	} else if err != nil {
		return nil, fmt.Errorf("strace: %w", err)
	}
	raw, seq, seqText, inflight, killed, err := parseStraceText(tr)
	if err != nil {
		return nil, err
	}
	if j.K > 0 {
		// the call the kill was injected on is NOT applied (killed on entry): it is determined.
		// It is recognisable when exactly one thread died in a call of that name.
		idx, cnt := -1, 0
		for i, b := range inflight {
			if strings.HasPrefix(b, j.Sys+"(") {
				idx = i
				cnt++
			}
		}
		if cnt == 1 {
			inflight = append(inflight[:idx], inflight[idx+1:]...)
		}
	}
	res.seq, res.seqText, res.inflight, res.killed = seq, seqText, inflight, killed
	for _, rc := range raw {
		red.feed(rc, &res.acks)
	}
	res.calls = red.calls
	return res, nil
}

// ---- C11 -----------------------------------------------------------------------

type traceInfo struct {
	Case   int      `json:"case"`
	Job    job      `json:"job"`
	Calls  []string `json:"calls"`
	NCalls int      `json:"ncalls"`
}

func modeTrace(self, out string, n int, seed int64, replay *job) error {
	cw, err := NewCaseWriter(filepath.Join(out, "cases.txt"))
	if err != nil {
		return err
	}
	r := NewRand(seed)
	var jobs []job
	if replay != nil {
		jobs = []job{*replay}
	} else {
		for i := 0; i < n; i++ {
			jobs = append(jobs, drawJob(r, traceScripts[i%len(traceScripts)]))
		}
	}
	results := make([]*runResult, len(jobs))
	errs := make([]error, len(jobs))
	parallel(len(jobs), func(i int) {
		jb := jobs[i]
		jb.K = 0
		results[i], errs[i] = runTraced(self, filepath.Join(out, "runs", fmt.Sprintf("t%03d", i)), jb)
	})
	var infos []traceInfo
	var viol []ImplViolation
	renames, acksN, unlinks := 0, 0, 0
	for i, res := range results {
		if errs[i] != nil {
			return errs[i]
		}
		if res.exit != 0 {
			viol = append(viol, ImplViolation{Signature: "C11/script-failed:" + jobs[i].Script,
				Detail: "the script did not run to completion on the real code: " + tail(res.stderr, 600), Replay: jobs[i]})
			continue
		}
		pub := 0
		for _, c := range res.calls {
			switch {
			case c.tag == 8 && c.q.k != 0:
				pub++
			case c.tag == 10:
				acksN++
			case c.tag == 9 && c.p.k == 3:
				unlinks++
			}
		}
		renames += pub
		cw.Add("fs_publish_ok", L(initSx(res.init), callsSx(res.calls)), L(I(1), I(0), I(0)), jobs[i].Script, pub > 0)
		infos = append(infos, traceInfo{Case: len(infos), Job: jobs[i], Calls: describeCalls(res.calls), NCalls: len(res.calls)})
		_ = os.RemoveAll(res.dir)
	}
	if err := cw.Close(); err != nil {
		return err
	}
	st := cw.Stats()
	st.Extra = map[string]any{"publishing_renames": renames, "ack_markers": acksN, "final_ltx_unlinks": unlinks}
	st.ImplViolations = viol
	if err := WriteJSON(filepath.Join(out, "traces.json"), infos); err != nil {
		return err
	}
	return WriteJSON(filepath.Join(out, "stats.json"), st)
}

// ---- C03 -----------------------------------------------------------------------

var killScripts = []string{"basic", "backlog", "ckpttrunc", "followstart", "restorev3", "reset", "resetfetch", "republish", "retention", "backloggate", "baseline", "rerestore", "checkpoint", "follow", "sidecar"}

var dense = map[string]bool{"followstart": true, "restorev3": true, "backlog": true}

func verifyLTX(path string) (err error) {
	defer func() {
		if r := recover(); r != nil {
			err = fmt.Errorf("decoder panic: %v", r)
		}
	}()
	f, err := os.Open(path)
	if err != nil {
		return err
	}
	defer f.Close()
	return ltx.NewDecoder(f).Verify()
}

func restoreDigest(replicaDir, out string, txid uint64) (string, error) {
	_ = os.Remove(out)
	_ = os.Remove(out + "-wal")
	_ = os.Remove(out + "-shm")
	c := file.NewReplicaClient(replicaDir)
	rp := litestream.NewReplicaWithClient(nil, c)
	opt := litestream.NewRestoreOptions()
	opt.OutputPath = out
	opt.TXID = ltx.TXID(txid)
	if err := rp.Restore(context.Background(), opt); err != nil {
		return "", err
	}
	return appDigest(out)
}

func readAcks(dir string) []ackLine {
	b, _ := os.ReadFile(filepath.Join(dir, ackName))
	var out []ackLine
	for _, l := range strings.Split(string(b), "\n") {
		if a, ok := parseAckLine(l); ok {
			out = append(out, a)
		}
	}
	return out
}

// readNotes returns the "N ..." progress lines of the marker file.
func readNotes(dir string) [][]string {
	b, _ := os.ReadFile(filepath.Join(dir, ackName))
	var out [][]string
	for _, l := range strings.Split(string(b), "\n") {
		f := strings.Fields(l)
		if len(f) >= 2 && f[0] == "N" {
			out = append(out, f[1:])
		}
	}
	return out
}

type killOutcome struct {
	job          job
	res          *runResult
	viol         []ImplViolation
	obs          Sx
	query        Sx
	nfiles       int
	undetermined int
}

func touchedInFlight(bodies []string, abs string) bool {
	for _, b := range bodies {
		for _, end := range []string{"\"", ">", " (deleted)>"} {
			if strings.Contains(b, abs+end) {
				return true
			}
		}
	}
	return false
}

// inspect checks the post-kill state of a run directory with the real code.
func inspect(self string, j job, res *runResult) (viol []ImplViolation) {
	dir := res.dir
	add := func(sig, detail string) {
		viol = append(viol, ImplViolation{Signature: sig, Detail: detail, Replay: j})
	}
	acks := readAcks(dir)
	digests := map[string]bool{}
	var lastR ackLine
	for _, a := range acks {
		if a.Digest != "-" {
			digests[a.Digest] = true
		}
		if a.Kind == "r0" && a.Digest != "-" {
			lastR = a
		}
	}
	expect := map[string]string{}
	v3ready := false
	for _, n := range readNotes(dir) {
		if n[0] == "v3ready" {
			v3ready = true
		}
		if n[0] == "digest" && len(n) == 2 {
			digests[n[1]] = true
		}
		if n[0] == "expect" && len(n) == 3 {
			expect[n[1]] = n[2]
		}
	}
	follower := j.Script == "follow" || j.Script == "followstart"
	// (1) nothing partial under a final LTX name; acknowledged LTX names still there unless superseded
	var ltxFiles []string
	_ = filepath.Walk(dir, func(p string, info os.FileInfo, err error) error {
		if err == nil && !info.IsDir() && strings.HasSuffix(p, ".ltx") {
			ltxFiles = append(ltxFiles, p)
		}
		return nil
	})
	for _, p := range ltxFiles {
		if err := verifyLTX(p); err != nil {
			rel, _ := filepath.Rel(dir, p)
			add("C03/partial-ltx-under-final-name", fmt.Sprintf("after a kill before mutating call %d of script %s, %s does not verify: %v", j.At, j.Script, rel, err))
		}
	}
	// (2) restore output and sidecar are absent or complete
	outs, _ := filepath.Glob(filepath.Join(dir, restoreDir, "*.db"))
	for _, o := range outs {
		if follower {
			continue // written in place by design; checked after the follower restart below
		}
		d, err := appDigest(o)
		rel, _ := filepath.Rel(dir, o)
		if err != nil {
			add("C03/partial-restore-output", fmt.Sprintf("kill before call %d of %s: %s is not a readable database: %v", j.At, j.Script, rel, err))
		} else if !digests[d] {
			add("C03/partial-restore-output", fmt.Sprintf("kill before call %d of %s: %s holds a state (%s) that was never acknowledged", j.At, j.Script, rel, d))
		}
	}
	sides, _ := filepath.Glob(filepath.Join(dir, restoreDir, "*.db-txid"))
	for _, s := range sides {
		t, err := litestream.ReadTXIDFile(strings.TrimSuffix(s, "-txid"))
		if err != nil || t == 0 {
			add("C03/partial-txid-sidecar", fmt.Sprintf("kill before call %d of %s: sidecar unreadable (%v, %d)", j.At, j.Script, err, t))
		}
	}
	// (3) the last acknowledged replica TXID restores to the acknowledged state
	repl := filepath.Join(dir, replicaName)
	if lastR.TXID != 0 {
		d, err := restoreDigest(repl, filepath.Join(dir, "verify", "acked.db"), lastR.TXID)
		if err != nil {
			add("C03/acknowledged-txid-not-restorable", fmt.Sprintf("kill before call %d of %s: restore of acknowledged TXID %d fails: %v", j.At, j.Script, lastR.TXID, err))
		} else if d != lastR.Digest {
			add("C03/acknowledged-txid-restores-differently", fmt.Sprintf("kill before call %d of %s: restore of acknowledged TXID %d gives %s, acknowledged state was %s", j.At, j.Script, lastR.TXID, d, lastR.Digest))
		}
	}
	// (4v3) a killed v0.3.x restore: run it again (no repair); every output must then exist
	// and hold exactly the state of its replica
	if j.Script == "restorev3" {
		if !v3ready {
			return viol // the kill hit the harness's own construction of the v0.3.x replicas
		}
		ctx, cancel := context.WithTimeout(context.Background(), 60*time.Second)
		cmd := exec.CommandContext(ctx, self, "-child", "resumev3", "-dir", dir, "-seed", fmt.Sprint(j.Seed+1))
		outb, err := cmd.CombinedOutput()
		cancel()
		if err != nil {
			add("C03/restart-needs-repair:restore-v3", fmt.Sprintf("kill before call %d of %s: running the v0.3.x restore again fails: %v %s", j.At, j.Script, err, tail(string(outb), 500)))
		} else {
			for rel, want := range expect {
				d, err := appDigest(filepath.Join(dir, rel))
				if err != nil || d != want {
					add("C03/restore-v3-output-wrong-after-restart", fmt.Sprintf("kill before call %d of %s: %s after re-running the restore: digest %s (err %v), replica state is %s", j.At, j.Script, rel, d, err, want))
				}
			}
		}
		return viol
	}
	// (4) restart without repair, one more acknowledged sync, restore equals source
	if j.Script != "sidecar" {
		ctx, cancel := context.WithTimeout(context.Background(), 60*time.Second)
		cmd := exec.CommandContext(ctx, self, "-child", "resume", "-dir", dir, "-seed", fmt.Sprint(j.Seed+1))
		outb, err := cmd.CombinedOutput()
		cancel()
		if err != nil {
			add("C03/restart-needs-repair", fmt.Sprintf("kill before call %d of %s: restart + sync fails: %v %s", j.At, j.Script, err, tail(string(outb), 500)))
		} else {
			acks2 := readAcks(dir)
			last := acks2[len(acks2)-1]
			if last.Kind != "resume" {
				add("C03/restart-needs-repair", "restart did not acknowledge a sync")
			} else {
				d, err := restoreDigest(repl, filepath.Join(dir, "verify", "resumed.db"), last.TXID)
				if err != nil {
					add("C03/after-restart-not-restorable", fmt.Sprintf("kill before call %d of %s: restore after restart (TXID %d) fails: %v", j.At, j.Script, last.TXID, err))
				} else if d != last.Digest {
					add("C03/after-restart-restores-differently", fmt.Sprintf("kill before call %d of %s: restore after restart (TXID %d) gives %s, source is %s", j.At, j.Script, last.TXID, d, last.Digest))
				}
				// (5) the FOLLOWER is restarted too: Restore(Follow) again on the same output must
				// resume (or start afresh) without manual repair and converge to the primary
				if follower {
					ctx, cancel := context.WithTimeout(context.Background(), 60*time.Second)
					cmd := exec.CommandContext(ctx, self, "-child", "refollow", "-dir", dir, "-seed", fmt.Sprint(j.Seed+2), "-prm", fmt.Sprint(last.TXID))
					outb, err := cmd.CombinedOutput()
					cancel()
					if err != nil {
						add("C03/restart-needs-repair:follower", fmt.Sprintf("kill before call %d of %s: restarting the follower (Restore with Follow on the same output) fails: %v %s", j.At, j.Script, err, tail(string(outb), 500)))
					} else if fd, err := appDigest(filepath.Join(dir, restoreDir, outName)); err != nil || fd != last.Digest {
						add("C03/follower-diverges-after-restart", fmt.Sprintf("kill before call %d of %s: restarted follower reached TXID %d but holds %s (err %v), primary is %s", j.At, j.Script, last.TXID, fd, err, last.Digest))
					}
				}
			}
		}
	}
	return viol
}

func modeKill(self, out string, n int, seed int64, kstep, points int, replay *job) error {
	cw, err := NewCaseWriter(filepath.Join(out, "cases.txt"))
	if err != nil {
		return err
	}
	r := NewRand(seed)
	var jobs []job
	kTotals := map[string]int{}
	if replay != nil {
		jobs = []job{*replay}
	} else {
		bases := make([]job, n)
		offs := make([]int, n)
		for i := 0; i < n; i++ {
			bases[i] = drawJob(r, killScripts[i%len(killScripts)])
			offs[i] = r.Intn(1 << 20)
		}
		recs := make([]*runResult, n)
		rerrs := make([]error, n)
		parallel(n, func(i int) {
			recs[i], rerrs[i] = runTraced(self, filepath.Join(out, "runs", fmt.Sprintf("rec%03d", i)), bases[i])
		})
		for i := 0; i < n; i++ {
			base, rec := bases[i], recs[i]
			if rerrs[i] != nil {
				return rerrs[i]
			}
			if base.Script == "backloggate" {
				// no kill points: the script kills itself at the interleaving it waits for (or runs to its end);
				// the run is made once more as a job and inspected like any killed run
				if rec.exit != 0 && !rec.killed {
					return fmt.Errorf("recording run of %s failed: %s", base.Script, tail(rec.stderr, 400))
				}
				_ = os.RemoveAll(rec.dir)
				kTotals[fmt.Sprintf("%s#%d", base.Script, i)] = 0
				jobs = append(jobs, base)
				continue
			}
			if rec.exit != 0 {
				return fmt.Errorf("recording run of %s failed: %s", base.Script, tail(rec.stderr, 400))
			}
			_ = os.RemoveAll(rec.dir)
			K := len(rec.seq)
			kTotals[fmt.Sprintf("%s#%d", base.Script, i)] = K
			step := kstep
			if points > 0 {
				// spread about points/n kill points over this script
				per := points / n
				if per < 1 {
					per = 1
				}
				step = (K + per - 1) / per
				if dense[base.Script] && step > 3 {
					step = 3 // short protocol scripts: every 3rd call, the windows are a few calls wide
				}

				if step < 1 {
					step = 1
				}
			}
			off := 1 + offs[i]%step
			chosen := map[int]bool{}
			for at := off; at <= K; at += step {
				chosen[at] = true
			}
			// follower scripts: the replacement of the -txid sidecar is one call wide; a kill before every
			// rename onto / unlink of the sidecar name is always a kill point (seed C03f: unlink, then rename)
			if base.Script == "follow" || base.Script == "followstart" {
				for at := 1; at <= K && at <= len(rec.seqText); at++ {
					t := rec.seqText[at-1]
					if strings.Contains(t, "-txid\"") && (strings.HasPrefix(rec.seq[at-1], "rename") || strings.HasPrefix(rec.seq[at-1], "unlink")) {
						chosen[at] = true
					}
				}
			}
			for at := 1; at <= K; at++ {
				if !chosen[at] {
					continue
				}
				jb := base
				jb.At, jb.Sys = at, rec.seq[at-1]
				for _, s := range rec.seq[:at] {
					if s == jb.Sys {
						jb.K++
					}
				}
				jobs = append(jobs, jb)
			}
		}
	}
	outcomes := make([]*killOutcome, len(jobs))
	errs := make([]error, len(jobs))
	parallel(len(jobs), func(i int) {
		jb := jobs[i]
		res, err := runTraced(self, filepath.Join(out, "runs", fmt.Sprintf("k%04d", i)), jb)
		if err != nil {
			errs[i] = err
			return
		}
		oc := &killOutcome{job: jb, res: res}
		if !res.killed && res.exit != 0 {
			oc.viol = append(oc.viol, ImplViolation{Signature: "C03/script-failed:" + jb.Script,
				Detail: "child failed without being killed: " + tail(res.stderr, 600), Replay: jb})
			outcomes[i] = oc
			return
		}
		// post-kill directory state, before anything else touches the directory
		seen := map[string]mpath{}
		for _, f := range res.init {
			seen[f.p.rel] = f.p
		}
		for _, c := range res.calls {
			if c.tag == 0 || c.tag == 1 || c.tag == 8 || c.tag == 9 {
				seen[c.p.rel] = *c.p
				if c.q != nil {
					seen[c.q.rel] = *c.q
				}
			}
		}
		rels := make([]string, 0, len(seen))
		for k := range seen {
			rels = append(rels, k)
		}
		sort.Strings(rels)
		q, o := SxList{}, SxList{}
		for _, rel := range rels {
			p := seen[rel]
			// a path named by a call that was in flight on another thread when the process
			// died is not determined by the completed-call prefix: leave it out
			if touchedInFlight(res.inflight, filepath.Join(res.dir, rel)) {
				oc.undetermined++
				continue
			}
			q = append(q, p.sx())
			if fi, err := os.Stat(filepath.Join(res.dir, rel)); err == nil && !fi.IsDir() {
				o = append(o, L(I(1), I(fi.Size())))
				oc.nfiles++
			} else {
				o = append(o, L(I(0), I(0)))
			}
		}
		oc.query, oc.obs = q, o
		oc.viol = append(oc.viol, inspect(self, jb, res)...)
		outcomes[i] = oc
		if len(oc.viol) == 0 && os.Getenv("VERIF_CRASH_KEEP") == "" {
			_ = os.RemoveAll(res.dir)
			_ = os.Remove(res.dir + ".strace")
		}
	})
	var viol []ImplViolation
	var infos []traceInfo
	killedN, undet := 0, 0
	for i, oc := range outcomes {
		if errs[i] != nil {
			return errs[i]
		}
		undet += oc.undetermined
		viol = append(viol, oc.viol...)
		if oc.res.killed {
			killedN++
		}
		if oc.query != nil {
			cw.Add("fs_kill_state", L(initSx(oc.res.init), callsSx(oc.res.calls), oc.query), oc.obs,
				oc.job.Script, oc.res.killed && oc.nfiles > 0)
			infos = append(infos, traceInfo{Case: len(infos), Job: oc.job, NCalls: len(oc.res.calls)})
		}
	}
	if err := cw.Close(); err != nil {
		return err
	}
	st := cw.Stats()
	st.Extra = map[string]any{"kill_points_run": len(jobs), "killed": killedN, "mutating_calls_per_script": kTotals, "kstep": kstep, "points": points, "paths_left_out_because_a_call_on_them_was_in_flight": undet}
	st.ImplViolations = viol
	if err := WriteJSON(filepath.Join(out, "traces.json"), infos); err != nil {
		return err
	}
	return WriteJSON(filepath.Join(out, "stats.json"), st)
}

func parallel(n int, f func(i int)) {
	w := int(EnvInt("VERIF_CRASH_WORKERS", 8))
	var wg sync.WaitGroup
	ch := make(chan int)
	for k := 0; k < w; k++ {
		wg.Add(1)
		go func() {
			defer wg.Done()
			for i := range ch {
				f(i)
			}
		}()
	}
	for i := 0; i < n; i++ {
		ch <- i
	}
	close(ch)
	wg.Wait()
}

func tail(s string, n int) string {
	if len(s) > n {
		return s[len(s)-n:]
	}
	return s
}

func main() {
	if len(os.Args) > 1 && os.Args[1] == "crash" {
		os.Args = append(os.Args[:1], os.Args[2:]...)
	}
	child := flag.String("child", "", "run a script in this process (used under strace)")
	dir := flag.String("dir", "", "run directory of the child")
	prm := flag.String("prm", "", "comma separated script parameters")
	seed := flag.Int64("seed", 1, "PRNG seed")
	out := flag.String("out", "", "output directory")
	n := flag.Int("n", 6, "number of scripts")
	mode := flag.String("mode", "trace", "trace (C11) | kill (C03)")
	kstep := flag.Int("kstep", 5, "kill every kstep-th mutating call (1 = all)")
	points := flag.Int("points", 0, "if > 0: total number of kill points to spread over the scripts (overrides kstep)")
	replay := flag.String("replay", "", "JSON job to re-run")
	flag.Parse()
	if *child != "" {
		runChild(*child, *dir, *seed, parseInts(*prm))
		return
	}
	self, err := os.Executable()
	if err != nil {
		fmt.Fprintln(os.Stderr, err)
		os.Exit(2)
	}
	var rj *job
	if *replay != "" {
		b, err := os.ReadFile(*replay)
		if err == nil {
			rj = &job{}
			err = json.Unmarshal(b, rj)
		}
		if err != nil {
			fmt.Fprintln(os.Stderr, "replay:", err)
			os.Exit(2)
		}
	}
	if *out == "" {
		fmt.Fprintln(os.Stderr, "-out required")
		os.Exit(2)
	}
	absOut, _ := filepath.Abs(*out)
	switch *mode {
	case "trace":
		err = modeTrace(self, absOut, *n, *seed, rj)
	case "kill":
		err = modeKill(self, absOut, *n, *seed, *kstep, *points, rj)
	default:
		err = fmt.Errorf("unknown mode %s", *mode)
	}
	if err != nil {
		fmt.Fprintln(os.Stderr, "crash harness:", err)
		os.Exit(1)
	}
}
