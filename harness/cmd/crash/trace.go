// strace output -> model alphabet (coq/Fs/Model.v syscall), restricted to
// litestream's own files in a run directory.
package main

import (
	"bufio"
	"fmt"
	"os"
	"path/filepath"
	"regexp"
	"sort"
	"strconv"
	"strings"

	. "verifharness/hx"
)

const traceSet = "open,openat,write,pwrite64,fsync,fdatasync,rename,renameat,renameat2,unlink,unlinkat,ftruncate,close,copy_file_range,sendfile,mkdir,mkdirat,rmdir"

// system calls on whose entry a kill is injected (C03): the mutating ones
const injectSet = "open,openat,write,pwrite64,fsync,fdatasync,rename,renameat,renameat2,unlink,unlinkat,ftruncate,copy_file_range,sendfile,mkdir,mkdirat,rmdir"

var injectNames = func() map[string]bool {
	m := map[string]bool{}
	for _, n := range strings.Split(injectSet, ",") {
		m[n] = true
	}
	return m
}()

// ---- raw strace lines ---------------------------------------------------------

type rawCall struct {
	line int // line number of the completion in the strace output
	name string
	args []string
	ret  string
	text string
}

func splitArgs(s string) []string {
	var out []string
	depth, inq, esc := 0, false, false
	st := 0
	for i := 0; i < len(s); i++ {
		c := s[i]
		switch {
		case esc:
			esc = false
		case inq:
			if c == '\\' {
				esc = true
			} else if c == '"' {
				inq = false
			}
		case c == '"':
			inq = true
		case c == '<' || c == '{' || c == '[':
			depth++
		case c == '>' || c == '}' || c == ']':
			if depth > 0 {
				depth--
			}
		case c == ',' && depth == 0:
			out = append(out, strings.TrimSpace(s[st:i]))
			st = i + 1
		}
	}
	if strings.TrimSpace(s[st:]) != "" {
		out = append(out, strings.TrimSpace(s[st:]))
	}
	return out
}

// unquote a strace C string literal ("..." possibly followed by ...)
func straceString(a string) (string, bool) {
	if len(a) == 0 || a[0] != '"' {
		return "", false
	}
	var b strings.Builder
	i := 1
	for i < len(a) {
		c := a[i]
		if c == '"' {
			return b.String(), true
		}
		if c == '\\' && i+1 < len(a) {
			i++
			switch a[i] {
			case 'n':
				b.WriteByte('\n')
			case 't':
				b.WriteByte('\t')
			case 'r':
				b.WriteByte('\r')
			case 'v':
				b.WriteByte('\v')
			case 'f':
				b.WriteByte('\f')
			case '\\', '"':
				b.WriteByte(a[i])
			case 'x':
				if i+2 < len(a) {
					v, _ := strconv.ParseUint(a[i+1:i+3], 16, 8)
					b.WriteByte(byte(v))
					i += 2
				}
			default:
				// octal, up to 3 digits
				j := i
				for j < len(a) && j < i+3 && a[j] >= '0' && a[j] <= '7' {
					j++
				}
				v, _ := strconv.ParseUint(a[i:j], 8, 16)
				b.WriteByte(byte(v))
				i = j - 1
			}
			i++
			continue
		}
		b.WriteByte(c)
		i++
	}
	return b.String(), true
}

// fdArg parses `7</path>` (or `AT_FDCWD</cwd>`); deleted files carry " (deleted)".
func fdArg(a string) (fd int64, path string, ok bool) {
	i := strings.IndexByte(a, '<')
	if i < 0 || !strings.HasSuffix(a, ">") {
		v, err := strconv.ParseInt(a, 10, 64)
		return v, "", err == nil
	}
	path = strings.TrimSuffix(a[i+1:len(a)-1], " (deleted)")
	if a[:i] == "AT_FDCWD" {
		return -100, path, true
	}
	v, err := strconv.ParseInt(a[:i], 10, 64)
	return v, path, err == nil
}

var callRe = regexp.MustCompile(`^\w+\((.*)\)\s+= (.*)$`)
var resumedRe = regexp.MustCompile(`^<\.\.\. (\w+) resumed>(.*)$`)

// parseStrace returns the completed system calls in completion order, the
// inject-set calls entered by the busiest thread, the calls still in flight at the
// end of the trace, and whether the process was killed.
// parseStraceText additionally returns the text of the calls of seq (same indexes)
func parseStraceText(path string) (calls []rawCall, seq []string, seqText []string, inflight []string, killed bool, err error) {
	f, err := os.Open(path)
	if err != nil {
		return nil, nil, nil, nil, false, err
	}
	defer f.Close()
	sc := bufio.NewScanner(f)
	sc.Buffer(make([]byte, 1<<20), 1<<26)
	pending := map[string]string{}
	perPid := map[string][]string{}
	perPidTxt := map[string][]string{}
	var dead []string
	defer func() {
		// strace keeps injection counters per thread and per system call:
		// report the inject-set calls entered by the busiest thread, in order
		for pid, v := range perPid {
			if len(v) > len(seq) {
				seq = v
				seqText = perPidTxt[pid]
			}
		}
		// calls entered but never reported as finished: when the process is killed their
		// effect may or may not have been applied (the call injected on is NOT applied, but
		// calls in flight on other threads are undetermined)
		for _, body := range pending {
			inflight = append(inflight, body)
		}
		inflight = append(inflight, dead...)
	}()
	ln := 0
	for sc.Scan() {
		ln++
		line := sc.Text()
		sp := strings.IndexByte(line, ' ')
		if sp < 0 {
			continue
		}
		pid := line[:sp]
		rest := strings.TrimLeft(line[sp:], " ")
		if strings.HasPrefix(rest, "+++ killed by SIGKILL") {
			killed = true
			continue
		}
		if strings.HasPrefix(rest, "---") || strings.HasPrefix(rest, "+++") {
			continue
		}
		if strings.HasSuffix(rest, "<unfinished ...>") {
			body := strings.TrimSuffix(rest, "<unfinished ...>")
			pending[pid] = body
			if p := strings.IndexByte(body, '('); p > 0 && injectNames[body[:p]] {
				perPid[pid] = append(perPid[pid], body[:p])
				perPidTxt[pid] = append(perPidTxt[pid], body)
			}
			continue
		}
		if m := resumedRe.FindStringSubmatch(rest); m != nil {
			rest = pending[pid] + m[2]
			delete(pending, pid)
		} else if p := strings.IndexByte(rest, '('); p > 0 && injectNames[rest[:p]] {
			perPid[pid] = append(perPid[pid], rest[:p])
			perPidTxt[pid] = append(perPidTxt[pid], rest)
		}
		p := strings.IndexByte(rest, '(')
		m := callRe.FindStringSubmatch(rest)
		if p <= 0 || m == nil {
			continue
		}
		rc := rawCall{line: ln, name: rest[:p], args: splitArgs(m[1]), ret: strings.TrimSpace(m[2]), text: strings.Join(strings.Fields(rest), " ")}
		if strings.HasPrefix(rc.ret, "?") {
			// the thread died inside (or on entry to) this call: strace cannot tell whether
			// its effect was applied
			dead = append(dead, rest)
		}
		calls = append(calls, rc)
	}
	return calls, seq, seqText, inflight, killed, sc.Err()
}

// ---- reduction to the model alphabet ---------------------------------------------

type mpath struct {
	dir, nm   int
	k         int // 0 staging/other, 1 final, 2 final in place, 3 ltx
	tree, lvl int
	min, max  uint64
	rel       string
}

func (p mpath) sx() Sx {
	return L(I(int64(p.dir)), I(int64(p.nm)), I(int64(p.k)), I(int64(p.tree)), I(int64(p.lvl)), U(p.min), U(p.max))
}

type mcall struct {
	tag  int
	fd   int64
	p, q *mpath
	a, b int64
	src  int    // strace line
	text string // human readable
}

func (c mcall) sx() Sx {
	switch c.tag {
	case 0:
		return L(I(0), I(c.fd), c.p.sx(), I(c.a))
	case 1:
		return L(I(1), I(c.fd), c.p.sx())
	case 2:
		return L(I(2), I(c.fd), I(c.a))
	case 3:
		return L(I(3), I(c.fd), I(c.a))
	case 4:
		return L(I(4), I(c.fd), I(c.a), I(c.b))
	case 5:
		return L(I(5), I(c.fd), I(c.a))
	case 6:
		return L(I(6), I(c.fd))
	case 7:
		return L(I(7), I(c.fd))
	case 8:
		return L(I(8), c.p.sx(), c.q.sx())
	case 9:
		return L(I(9), c.p.sx())
	case 11:
		return L(I(11), I(c.a))
	case 12:
		return L(I(12), I(c.a))
	default:
		return L(I(10), c.p.sx())
	}
}

type ackLine struct {
	Kind   string
	TXID   uint64
	Digest string
	Rel    string
}

func parseAckLine(s string) (ackLine, bool) {
	f := strings.Fields(strings.TrimSpace(s))
	if len(f) != 5 || f[0] != "A" {
		return ackLine{}, false
	}
	t, err := strconv.ParseUint(f[2], 10, 64)
	if err != nil {
		return ackLine{}, false
	}
	return ackLine{Kind: f[1], TXID: t, Digest: f[3], Rel: f[4]}, true
}

type reducer struct {
	root    string
	inplace bool // restore output is written in place (follow-mode script)
	dirs    map[string]int
	names   map[string]int
	paths   map[string]mpath // every alphabet path mentioned, by rel
	fdPath  map[int64]string // descriptor -> path it was opened on (alphabet descriptors only)
	isDir   map[string]bool  // rel paths known to be directories (opened as a directory, mkdir'ed, or parent of a file)
	calls   []mcall
}

func newReducer(root string, inplace bool) *reducer {
	return &reducer{root: filepath.Clean(root), inplace: inplace, dirs: map[string]int{}, names: map[string]int{}, paths: map[string]mpath{}, isDir: map[string]bool{}, fdPath: map[int64]string{}}
}

var ltxRe = regexp.MustCompile(`^(\.db-litestream|replica)/ltx/(\d+)/([0-9a-f]{16})-([0-9a-f]{16})\.ltx$`)

func (r *reducer) dirID(rel string) int {
	if id, ok := r.dirs[rel]; ok {
		return id
	}
	id := len(r.dirs) + 1
	r.dirs[rel] = id
	return id
}

// classify maps an absolute path to (kind): "out" outside the alphabet,
// "ack" the marker file, "in" an alphabet path.
func (r *reducer) classify(abs string) (string, *mpath) {
	abs = filepath.Clean(abs)
	if abs == r.root {
		return "in", r.mk(".", 0, 0, 0, 0, 0)
	}
	if !strings.HasPrefix(abs, r.root+"/") {
		return "out", nil
	}
	rel := abs[len(r.root)+1:]
	if rel == ackName {
		return "ack", nil
	}
	base := filepath.Base(rel)
	// SQLite's own files: the application database and the -wal/-shm/-journal of any database
	if rel == dbName || strings.HasPrefix(rel, dbName+"-") ||
		strings.HasSuffix(base, "-wal") || strings.HasSuffix(base, "-shm") || strings.HasSuffix(base, "-journal") {
		return "out", nil
	}
	if strings.HasPrefix(rel, "verify/") || strings.HasPrefix(rel, "replica3") {
		return "out", nil // harness-owned: verification restores, the synthesised v0.3.x replicas
	}
	if m := ltxRe.FindStringSubmatch(rel); m != nil {
		tree := 0
		if m[1] == "replica" {
			tree = 1
		}
		lvl, _ := strconv.Atoi(m[2])
		mn, _ := strconv.ParseUint(m[3], 16, 64)
		mx, _ := strconv.ParseUint(m[4], 16, 64)
		return "in", r.mk(rel, 3, tree, lvl, mn, mx)
	}
	if strings.HasPrefix(rel, restoreDir+"/") {
		if strings.HasSuffix(base, ".db") {
			if r.inplace {
				return "in", r.mk(rel, 2, 0, 0, 0, 0)
			}
			return "in", r.mk(rel, 1, 0, 0, 0, 0)
		}
		if strings.HasSuffix(base, ".db-txid") {
			return "in", r.mk(rel, 1, 0, 0, 0, 0)
		}
	}
	return "in", r.mk(rel, 0, 0, 0, 0, 0)
}

func (r *reducer) mk(rel string, k, tree, lvl int, mn, mx uint64) *mpath {
	if p, ok := r.paths[rel]; ok {
		return &p
	}
	d := filepath.Dir(rel)
	r.isDir[d] = true
	nm, ok := r.names[filepath.Base(rel)]
	if !ok {
		nm = len(r.names) + 1
		r.names[filepath.Base(rel)] = nm
	}
	p := mpath{dir: r.dirID(d), nm: nm, k: k, tree: tree, lvl: lvl, min: mn, max: mx, rel: rel}
	r.paths[rel] = p
	return &p
}

func retInt(s string) (int64, bool) {
	f := strings.Fields(s)
	if len(f) == 0 {
		return 0, false
	}
	t := f[0]
	if i := strings.IndexByte(t, '<'); i >= 0 {
		t = t[:i]
	}
	v, err := strconv.ParseInt(t, 10, 64)
	return v, err == nil
}

func retPath(s string) string {
	i := strings.IndexByte(s, '<')
	j := strings.LastIndexByte(s, '>')
	if i < 0 || j < i {
		return ""
	}
	return strings.TrimSuffix(s[i+1:j], " (deleted)")
}

func (r *reducer) resolve(dirArg, nameArg string) (string, bool) {
	name, ok := straceString(nameArg)
	if !ok {
		return "", false
	}
	if filepath.IsAbs(name) {
		return name, true
	}
	_, dp, ok := fdArg(dirArg)
	if !ok || dp == "" {
		return "", false
	}
	return filepath.Join(dp, name), true
}

func (r *reducer) emit(c mcall) { r.calls = append(r.calls, c) }

// dirEvent: mkdir (tag 11) creates a NEW directory object at the path, rmdir
// (tag 12) removes the object; the model keeps a generation per directory path.
func (r *reducer) dirEvent(tag int, abs string, line int, text string) {
	abs = filepath.Clean(abs)
	rel := "."
	if abs != r.root {
		if !strings.HasPrefix(abs, r.root+"/") {
			return
		}
		rel = abs[len(r.root)+1:]
	}
	if kind, _ := r.classify(abs); kind != "in" {
		return
	}
	r.isDir[rel] = true
	r.emit(mcall{tag: tag, a: int64(r.dirID(rel)), src: line, text: text})
}

// feed reduces one completed system call; acks collects the marker lines.
func (r *reducer) feed(rc rawCall, acks *[]ackLine) {
	ret, okRet := retInt(rc.ret)
	if !okRet || ret < 0 {
		return // failed (or killed on entry): no effect
	}
	short := func() string {
		t := strings.ReplaceAll(rc.text, r.root, "R")
		if len(t) > 260 {
			t = t[:260] + "..."
		}
		return t
	}
	switch rc.name {
	case "openat", "open":
		if rc.name == "open" {
			// open(path, flags[, mode]) (modernc SQLite): same as openat(AT_FDCWD, ...)
			rc.args = append([]string{"AT_FDCWD"}, rc.args...)
		}
		if len(rc.args) < 3 {
			return
		}
		abs := retPath(rc.ret)
		if abs == "" {
			var ok bool
			if abs, ok = r.resolve(rc.args[0], rc.args[1]); !ok {
				return
			}
		}
		kind, p := r.classify(abs)
		if kind != "in" {
			return
		}
		flags := rc.args[2]
		r.fdPath[ret] = filepath.Clean(abs)
		switch {
		case strings.Contains(flags, "O_CREAT"):
			tr := int64(0)
			if strings.Contains(flags, "O_TRUNC") {
				tr = 1
			}
			r.emit(mcall{tag: 0, fd: ret, p: p, a: tr, src: rc.line, text: short()})
		case strings.Contains(flags, "O_WRONLY") || strings.Contains(flags, "O_RDWR"):
			r.emit(mcall{tag: 1, fd: ret, p: p, src: rc.line, text: short()})
		default:
			// read-only: only directory descriptors matter (fsync of a directory);
			// a read-only file descriptor is harmless in the model
			if strings.Contains(flags, "O_DIRECTORY") {
				r.isDir[p.rel] = true
			}
			r.emit(mcall{tag: 2, fd: ret, a: int64(r.dirID(p.rel)), src: rc.line, text: short()})
		}
	case "write", "pwrite64", "ftruncate", "fsync", "fdatasync", "close":
		if len(rc.args) < 1 {
			return
		}
		fd, fp, ok := fdArg(rc.args[0])
		if !ok || fp == "" {
			return
		}
		kind, _ := r.classify(fp)
		if kind == "ack" {
			if rc.name == "write" && len(rc.args) >= 2 {
				if s, ok := straceString(rc.args[1]); ok {
					if a, ok := parseAckLine(s); ok {
						*acks = append(*acks, a)
						_, p := r.classify(filepath.Join(r.root, a.Rel))
						if p != nil {
							r.emit(mcall{tag: 10, p: p, src: rc.line, text: "ACK " + strings.TrimSpace(s)})
						}
					}
				}
			}
			return
		}
		if kind != "in" {
			return
		}
		switch rc.name {
		case "write":
			r.emit(mcall{tag: 3, fd: fd, a: ret, src: rc.line, text: short()})
		case "pwrite64":
			off, _ := strconv.ParseInt(rc.args[len(rc.args)-1], 10, 64)
			r.emit(mcall{tag: 4, fd: fd, a: off, b: ret, src: rc.line, text: short()})
		case "ftruncate":
			n, _ := strconv.ParseInt(rc.args[len(rc.args)-1], 10, 64)
			r.emit(mcall{tag: 5, fd: fd, a: n, src: rc.line, text: short()})
		case "fsync", "fdatasync":
			r.emit(mcall{tag: 6, fd: fd, src: rc.line, text: short()})
		case "close":
			// Descriptor numbers are reused across threads and calls are ordered by
			// completion: the close of an OLD descriptor can be reported after another
			// thread's open already received the same number. Such a close (its path is
			// not the one the number is bound to now) must not close the new descriptor.
			if cur, ok := r.fdPath[fd]; ok && cur != filepath.Clean(fp) {
				return
			}
			delete(r.fdPath, fd)
			r.emit(mcall{tag: 7, fd: fd, src: rc.line, text: short()})
		}
	case "copy_file_range", "sendfile":
		// copy_file_range(in, NULL, out, NULL, len, 0) / sendfile(out, in, NULL, count)
		outArg := 0
		if rc.name == "copy_file_range" {
			outArg = 2
		}
		if len(rc.args) <= outArg {
			return
		}
		fd, fp, ok := fdArg(rc.args[outArg])
		if !ok || fp == "" {
			return
		}
		if kind, _ := r.classify(fp); kind == "in" && ret > 0 {
			r.emit(mcall{tag: 3, fd: fd, a: ret, src: rc.line, text: short()})
		}
	case "rename", "renameat", "renameat2":
		var a, b string
		var ok1, ok2 bool
		if rc.name == "rename" {
			if len(rc.args) < 2 {
				return
			}
			a, ok1 = straceString(rc.args[0])
			b, ok2 = straceString(rc.args[1])
		} else {
			if len(rc.args) < 4 {
				return
			}
			a, ok1 = r.resolve(rc.args[0], rc.args[1])
			b, ok2 = r.resolve(rc.args[2], rc.args[3])
		}
		if !ok1 || !ok2 {
			return
		}
		k1, p := r.classify(a)
		k2, q := r.classify(b)
		if k1 != "in" || k2 != "in" {
			return
		}
		if r.isDir[p.rel] {
			// a directory is renamed: the object at the old path (and at every known
			// directory below it) is gone, new objects appear at the new paths
			for d := range r.isDir {
				if d == p.rel || strings.HasPrefix(d, p.rel+"/") {
					nd := q.rel + d[len(p.rel):]
					r.emit(mcall{tag: 12, a: int64(r.dirID(d)), src: rc.line, text: short()})
					r.emit(mcall{tag: 11, a: int64(r.dirID(nd)), src: rc.line, text: short()})
					r.isDir[nd] = true
				}
			}
			return
		}
		r.emit(mcall{tag: 8, p: p, q: q, src: rc.line, text: short()})
	case "mkdir", "rmdir":
		if len(rc.args) < 1 {
			return
		}
		if a, ok := straceString(rc.args[0]); ok {
			tag := 11
			if rc.name == "rmdir" {
				tag = 12
			}
			r.dirEvent(tag, a, rc.line, short())
		}
	case "mkdirat":
		if len(rc.args) < 2 {
			return
		}
		if a, ok := r.resolve(rc.args[0], rc.args[1]); ok {
			r.dirEvent(11, a, rc.line, short())
		}
	case "unlink", "unlinkat":
		var a string
		var ok bool
		if rc.name == "unlink" {
			if len(rc.args) < 1 {
				return
			}
			a, ok = straceString(rc.args[0])
		} else {
			if len(rc.args) < 3 {
				return
			}
			a, ok = r.resolve(rc.args[0], rc.args[1])
			if ok && strings.Contains(rc.args[2], "AT_REMOVEDIR") {
				r.dirEvent(12, a, rc.line, short())
				return
			}
		}
		if !ok {
			return
		}
		if kind, p := r.classify(a); kind == "in" {
			r.emit(mcall{tag: 9, p: p, src: rc.line, text: short()})
		}
	}
}

type initFile struct {
	p    mpath
	size int64
}

// listAlphabet walks the run directory and returns the alphabet files with sizes.
func (r *reducer) listAlphabet() []initFile {
	var out []initFile
	_ = filepath.Walk(r.root, func(p string, info os.FileInfo, err error) error {
		if err != nil || info.IsDir() {
			return nil
		}
		if kind, mp := r.classify(p); kind == "in" {
			out = append(out, initFile{*mp, info.Size()})
		}
		return nil
	})
	sort.Slice(out, func(i, j int) bool { return out[i].p.rel < out[j].p.rel })
	return out
}

func initSx(fs []initFile) Sx {
	l := SxList{}
	for _, f := range fs {
		l = append(l, L(f.p.sx(), I(f.size)))
	}
	return l
}

func callsSx(cs []mcall) Sx {
	l := SxList{}
	for _, c := range cs {
		l = append(l, c.sx())
	}
	return l
}

func describeCalls(cs []mcall) []string {
	out := make([]string, len(cs))
	for i, c := range cs {
		out[i] = fmt.Sprintf("%d [line %d] %s", i+1, c.src, c.text)
	}
	return out
}
