// Command faults: correspondence cases for the Faults layer (C10, C05).
//
//	(a) rr       the real internal.ResumableReader over a scripted opener/stream
//	(b) upload   the real Replica.Sync over a fault-injecting ReplicaClient
//	(c) restore  the real Replica.Restore on corrupted replicas / faulty reads
//
// All three write into one case file; -part selects a subset.
package main

import (
	"flag"
	"fmt"
	"os"
	"path/filepath"
	"strings"

	. "verifharness/hx"
)

func main() {
	args := os.Args[1:]
	if len(args) > 0 && args[0] == "faults" {
		args = args[1:]
	}
	if len(args) > 0 && args[0] == "restore-child" {
		restoreChild()
		return
	}
	if err := cmdFaults(args); err != nil {
		fmt.Fprintln(os.Stderr, "harness error:", err)
		os.Exit(3)
	}
}

type env struct {
	cw       *CaseWriter
	out      string
	n        int
	seed     int64
	extra    map[string]any
	impl     []ImplViolation
	thorough bool
}

// at most 8 occurrences per signature are kept, so that a flood of one finding
// cannot crowd out a different one
func (e *env) violation(sig, detail string, replay any) {
	n := 0
	for _, v := range e.impl {
		if v.Signature == sig {
			n++
		}
	}
	if n < 8 {
		e.impl = append(e.impl, ImplViolation{Signature: sig, Detail: detail, Replay: replay})
	}
}

func cmdFaults(args []string) error {
	fl := flag.NewFlagSet("faults", flag.ContinueOnError)
	out := fl.String("out", "", "work directory")
	n := fl.Int("n", 200, "number of sampled cases per part")
	seed := fl.Int64("seed", 1, "PRNG seed")
	part := fl.String("part", "rr,upload,compact,behind,restore", "parts to run")
	replay := fl.String("replay", "", "case file to re-run on the implementation")
	thorough := fl.Bool("thorough", false, "larger exhaustive scopes")
	if err := fl.Parse(args); err != nil {
		return err
	}
	if *out == "" {
		return fmt.Errorf("-out required")
	}
	if err := os.MkdirAll(*out, 0o755); err != nil {
		return err
	}
	cw, err := NewCaseWriter(filepath.Join(*out, "cases.txt"))
	if err != nil {
		return err
	}
	e := &env{cw: cw, out: *out, n: *n, seed: *seed, extra: map[string]any{}, thorough: *thorough}
	if *replay != "" {
		if err := replayCases(e, *replay); err != nil {
			return err
		}
	} else {
		for _, p := range strings.Split(*part, ",") {
			switch p {
			case "rr":
				genRR(e)
			case "upload":
				if err := genUpload(e); err != nil {
					return err
				}
			case "behind":
				if err := genBehind(e); err != nil {
					return err
				}
			case "compact":
				if err := genCompact(e); err != nil {
					return err
				}
			case "restore":
				if err := genRestore(e); err != nil {
					return err
				}
			case "":
			default:
				return fmt.Errorf("unknown part %q", p)
			}
		}
	}
	if err := cw.Close(); err != nil {
		return err
	}
	st := cw.Stats()
	st.Extra = e.extra
	st.ImplViolations = e.impl
	return WriteJSON(filepath.Join(*out, "stats.json"), st)
}

func replayCases(e *env, path string) error {
	cases, err := ReadCases(path)
	if err != nil {
		return err
	}
	for _, c := range cases {
		switch c.Entry {
		case "rr_run", "rr_prefix_ok":
			replayRR(e, c)
		case "upload_run", "upload_inv_ok":
			if err := replayUpload(e, c); err != nil {
				return err
			}
		default:
			return fmt.Errorf("cannot replay entry %s", c.Entry)
		}
	}
	return nil
}
