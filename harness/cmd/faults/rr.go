package main

import (
	"context"
	"errors"
	"fmt"
	"io"
	"math/rand"
	"os"
	"strings"
	"sync"

	"github.com/benbjohnson/litestream"
	"github.com/superfly/ltx"
	. "verifharness/hx"
)

// schedule item: tag 0 Data | 1 DataEOF | 2 DataErr | 3 OpenErr | 4 OpenNotExist
type rrItem struct{ tag, n int }

func (it rrItem) sx() Sx { return L(I(int64(it.tag)), I(int64(it.n))) }

var errScripted = errors.New("scripted storage error")

// rrScript is the scripted storage: one stored object and the schedule shared by
// the opener and every stream it hands out.
type rrScript struct {
	file  []byte
	sched []rrItem
	opens []int64 // offsets the reader asked for
}

func (s *rrScript) OpenLTXFile(ctx context.Context, level int, minTXID, maxTXID ltx.TXID, offset, size int64) (io.ReadCloser, error) {
	if len(s.sched) > 0 {
		switch s.sched[0].tag {
		case 3:
			s.sched = s.sched[1:]
			return nil, errScripted
		case 4:
			s.sched = s.sched[1:]
			return nil, fmt.Errorf("scripted: %w", os.ErrNotExist)
		}
	}
	s.opens = append(s.opens, offset)
	return &rrStream{s: s, pos: int(offset)}, nil
}

type rrStream struct {
	s      *rrScript
	pos    int
	closed bool
}

func (st *rrStream) Close() error { st.closed = true; return nil }

func (st *rrStream) Read(p []byte) (int, error) {
	s := st.s
	for len(s.sched) > 0 && s.sched[0].tag >= 3 {
		s.sched = s.sched[1:]
	}
	rem := len(s.file) - st.pos
	if rem < 0 {
		rem = 0
	}
	n, kind := len(p), 0
	if len(s.sched) == 0 {
		if rem == 0 {
			kind = 1
		}
	} else {
		n, kind = s.sched[0].n, s.sched[0].tag
		s.sched = s.sched[1:]
	}
	k := n
	if len(p) < k {
		k = len(p)
	}
	if rem < k {
		k = rem
	}
	copy(p, s.file[st.pos:st.pos+k])
	st.pos += k
	switch kind {
	case 0:
		return k, nil
	case 1:
		return k, io.EOF
	default:
		return k, errScripted
	}
}

func rrErrClass(err error) int64 {
	switch {
	case err == nil:
		return 0
	case err == io.EOF:
		return 1
	case strings.Contains(err.Error(), "max retries exceeded"):
		return 2
	case errors.Is(err, os.ErrNotExist):
		return 3
	}
	return 9
}

type rrCase struct {
	file   []byte
	size   int64
	opened bool
	sched  []rrItem
	plens  []int
	class  string
	// results
	calls SxList
	off   int64
	bad   string
}

// runRR drives the REAL ResumableReader.
func runRR(c *rrCase) {
	defer func() {
		if p := recover(); p != nil {
			c.calls = append(c.calls, L(SxBytes(nil), I(8)))
		}
	}()
	s := &rrScript{file: c.file, sched: append([]rrItem(nil), c.sched...)}
	var rc io.ReadCloser
	if c.opened {
		rc = &rrStream{s: s, pos: 0}
	}
	r := litestream.VerifNewResumableReader(context.Background(), s, 0, 1, 1, c.size, rc, QuietLogger())
	total := 0
	for _, pl := range c.plens {
		buf := make([]byte, pl)
		n, err := r.Read(buf)
		chunk := append([]byte(nil), buf[:n]...)
		c.calls = append(c.calls, L(SxBytes(chunk), I(rrErrClass(err))))
		total += n
	}
	_ = r.Close()
	c.off = int64(total)
}

func (c *rrCase) input() Sx {
	sc := make(SxList, len(c.sched))
	for i, it := range c.sched {
		sc[i] = it.sx()
	}
	pl := make(SxList, len(c.plens))
	for i, p := range c.plens {
		pl[i] = I(int64(p))
	}
	return L(SxBytes(c.file), I(c.size), B(c.opened), sc, pl)
}

func plensFor(r *rand.Rand, nsched, flen int) []int {
	n := nsched + 4 + flen/2
	if n > 40 {
		n = 40
	}
	pl := make([]int, n)
	for i := range pl {
		if r == nil {
			pl[i] = 2 + i%3
		} else {
			pl[i] = 1 + r.Intn(flen+2)
		}
	}
	return pl
}

func genRR(e *env) {
	r := NewRand(e.seed)
	var cases []*rrCase
	// exhaustive: all schedules up to length 4 (5 in the thorough tier) over an 8-letter alphabet
	alpha := []rrItem{{0, 1}, {0, 3}, {1, 0}, {1, 2}, {2, 0}, {2, 2}, {3, 0}, {4, 0}}
	maxLen := 4
	if e.thorough {
		maxLen = 5
	}
	file := []byte{0x10, 0x21, 0x32, 0x43, 0x54, 0x65, 0x76}
	var rec func(prefix []rrItem)
	rec = func(prefix []rrItem) {
		for _, size := range []int64{0, int64(len(file))} {
			for _, opened := range []bool{false, true} {
				cases = append(cases, &rrCase{file: file, size: size, opened: opened,
					sched: append([]rrItem(nil), prefix...), plens: plensFor(nil, len(prefix), len(file)),
					class: fmt.Sprintf("rr/exhaustive/len%d", len(prefix))})
			}
		}
		if len(prefix) == maxLen {
			return
		}
		for _, a := range alpha {
			rec(append(prefix, a))
		}
	}
	rec(nil)
	// sampled: longer schedules, other files, declared size below / above / equal to the stored length
	for i := 0; i < e.n*10; i++ {
		fl := r.Intn(40)
		f := make([]byte, fl)
		r.Read(f)
		var size int64
		switch r.Intn(6) {
		case 0:
			size = 0
		case 1:
			size = int64(r.Intn(fl + 1))
		case 2:
			size = int64(fl + 1 + r.Intn(3))
		default:
			size = int64(fl)
		}
		ns := r.Intn(12)
		sc := make([]rrItem, ns)
		for j := range sc {
			t := r.Intn(10)
			switch {
			case t < 4:
				sc[j] = rrItem{0, r.Intn(fl + 2)}
			case t < 6:
				sc[j] = rrItem{1, r.Intn(fl + 2)}
			case t < 8:
				sc[j] = rrItem{2, r.Intn(fl + 2)}
			case t < 9:
				sc[j] = rrItem{3, 0}
			default:
				sc[j] = rrItem{4, 0}
			}
		}
		cls := "rr/sampled/size=len"
		if size == 0 {
			cls = "rr/sampled/size=0"
		} else if size < int64(fl) {
			cls = "rr/sampled/size<len"
		} else if size > int64(fl) {
			cls = "rr/sampled/size>len"
		}
		cases = append(cases, &rrCase{file: f, size: size, opened: r.Intn(2) == 0, sched: sc,
			plens: plensFor(r, ns, fl), class: cls})
	}
	runRRCases(e, cases)
}

// the reader sleeps 250ms<<k between attempts (a constant of the code under
// test), so the cases run concurrently; results are written in generation order
func runRRCases(e *env, cases []*rrCase) {
	var wg sync.WaitGroup
	sem := make(chan struct{}, 20000)
	for _, c := range cases {
		wg.Add(1)
		sem <- struct{}{}
		go func(c *rrCase) {
			defer wg.Done()
			runRR(c)
			<-sem
		}(c)
	}
	wg.Wait()
	for _, c := range cases {
		obs := L(c.calls, I(c.off))
		nontriv := false
		for _, it := range c.sched {
			if it.tag != 0 {
				nontriv = true
			}
		}
		e.cw.Add("rr_run", c.input(), obs, c.class, nontriv)
		e.cw.Add("rr_prefix_ok", L(SxBytes(c.file), I(c.size), c.calls), I(1), c.class+"/spec", nontriv)
	}
}

func replayRR(e *env, c Case) {
	if c.Entry != "rr_run" {
		return // the oracle case is re-derived from the rr_run case
	}
	rc := &rrCase{file: c.In.At(0).AsBytes(), size: c.In.At(1).Int(), opened: c.In.At(2).Int() != 0, class: "replay"}
	for _, it := range c.In.At(3).List {
		rc.sched = append(rc.sched, rrItem{int(it.At(0).Int()), int(it.At(1).Int())})
	}
	for _, p := range c.In.At(4).List {
		rc.plens = append(rc.plens, int(p.Int()))
	}
	runRRCases(e, []*rrCase{rc})
}
