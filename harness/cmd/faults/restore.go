package main

import (
	"bufio"
	"bytes"
	"context"
	"crypto/sha256"
	"encoding/binary"
	"encoding/hex"
	"encoding/json"
	"fmt"
	"io"
	"log/slog"
	"os"
	"os/exec"
	"path/filepath"
	"sort"
	"strings"
	"sync"
	"time"

	"github.com/benbjohnson/litestream"
	"github.com/benbjohnson/litestream/file"
	"github.com/superfly/ltx"
	. "verifharness/hx"
)

// ---- jobs run in child processes ------------------------------------------------
// A panic in the goroutine that Restore starts for the compactor cannot be
// recovered by the caller, so every restore of a damaged replica runs in a
// child process; a dead child is the outcome class "panic".

type rJob struct {
	ID     int    `json:"id"`
	Root   string `json:"root"`  // template replica directory (never modified)
	Kind   string `json:"kind"`  // none | delete | truncate | flip | readfault | preexist | integrity
	Level  int    `json:"level"` // target file
	Min    uint64 `json:"min"`
	Max    uint64 `json:"max"`
	Arg    int64  `json:"arg"`    // truncate: new length; flip: byte offset; readfault: offset
	Arg2   int64  `json:"arg2"`   // flip: xor mask; readfault: number of consecutive failures
	RFKind int    `json:"rfkind"` // readfault: 0 error mid-stream, 1 premature EOF, 2 open error
	TXID   uint64 `json:"txid"`   // RestoreOptions.TXID
	Integ  int    `json:"integ"`  // 0 none | 1 IntegrityCheckQuick | 2 IntegrityCheckFull
	Cancel bool   `json:"cancel"` // the context passed to Restore is already cancelled
	Ref    string `json:"ref"`    // sha256 of the reference image
	Ref2   string `json:"ref2"`   // alternative acceptable image ("" = none)
	Class  string `json:"class"`
}

type rResult struct {
	ID        int     `json:"id"`
	Class     int     `json:"class"` // 0 ok | 1 error | 7 panic
	OutExists bool    `json:"out_exists"`
	TmpExists bool    `json:"tmp_exists"`
	SideFiles bool    `json:"side_files"` // -wal or -shm present
	Same      bool    `json:"same"`       // output equals Ref (or Ref2)
	Unchanged bool    `json:"unchanged"`  // pre-existing output untouched
	Err       string  `json:"err,omitempty"`
	Ms        float64 `json:"ms"`
}

// rfClient injects read faults into the streams of one file of the plan.
type rfClient struct {
	*file.ReplicaClient
	level    int
	min, max ltx.TXID
	kind     int
	off      int64
	left     int64
}

type rfStream struct {
	c   *rfClient
	rc  io.ReadCloser
	pos int64
}

func (s *rfStream) Close() error { return s.rc.Close() }
func (s *rfStream) Read(p []byte) (int, error) {
	c := s.c
	if c.left > 0 && c.kind != 2 {
		if s.pos >= c.off {
			c.left--
			if c.kind == 1 {
				return 0, io.EOF
			}
			return 0, errInjected
		}
		if int64(len(p)) > c.off-s.pos {
			p = p[:c.off-s.pos]
		}
	}
	n, err := s.rc.Read(p)
	s.pos += int64(n)
	return n, err
}

func (c *rfClient) OpenLTXFile(ctx context.Context, level int, minTXID, maxTXID ltx.TXID, offset, size int64) (io.ReadCloser, error) {
	if level != c.level || minTXID != c.min || maxTXID != c.max {
		return c.ReplicaClient.OpenLTXFile(ctx, level, minTXID, maxTXID, offset, size)
	}
	if c.kind == 2 && c.left > 0 && offset >= c.off {
		c.left--
		return nil, errInjected
	}
	rc, err := c.ReplicaClient.OpenLTXFile(ctx, level, minTXID, maxTXID, offset, size)
	if err != nil {
		return nil, err
	}
	return &rfStream{c: c, rc: rc, pos: offset}, nil
}

func copyTree(src, dst string) error {
	return filepath.Walk(src, func(p string, fi os.FileInfo, err error) error {
		if err != nil {
			return err
		}
		rel, _ := filepath.Rel(src, p)
		if fi.IsDir() {
			return os.MkdirAll(filepath.Join(dst, rel), 0o755)
		}
		b, err := os.ReadFile(p)
		if err != nil {
			return err
		}
		if err := os.WriteFile(filepath.Join(dst, rel), b, 0o644); err != nil {
			return err
		}
		return os.Chtimes(filepath.Join(dst, rel), fi.ModTime(), fi.ModTime())
	})
}

func sha(b []byte) string { h := sha256.Sum256(b); return hex.EncodeToString(h[:]) }

func exists(p string) bool { _, err := os.Lstat(p); return err == nil }

func restoreChild() {
	slog.SetDefault(QuietLogger())
	work := os.Getenv("VERIF_CHILD_DIR")
	_ = os.RemoveAll(work)
	_ = os.MkdirAll(work, 0o755)
	copies := map[string]string{}
	in := bufio.NewScanner(os.Stdin)
	in.Buffer(make([]byte, 1<<20), 1<<24)
	out := bufio.NewWriter(os.Stdout)
	for in.Scan() {
		var j rJob
		if err := json.Unmarshal(in.Bytes(), &j); err != nil {
			fmt.Fprintln(os.Stderr, "bad job:", err)
			os.Exit(4)
		}
		root, ok := copies[j.Root]
		if !ok {
			root = filepath.Join(work, fmt.Sprintf("copy%d", len(copies)))
			if err := copyTree(j.Root, root); err != nil {
				fmt.Fprintln(os.Stderr, "copy:", err)
				os.Exit(4)
			}
			copies[j.Root] = root
		}
		t0 := time.Now()
		res := runRestoreJob(j, root, filepath.Join(work, "out.db"))
		res.Ms = float64(time.Since(t0).Microseconds()) / 1000
		b, _ := json.Marshal(res)
		out.Write(b)
		out.WriteByte('\n')
		out.Flush()
	}
}

func runRestoreJob(j rJob, root, outPath string) rResult {
	res := rResult{ID: j.ID}
	for _, s := range []string{"", ".tmp", "-wal", "-shm"} {
		_ = os.Remove(outPath + s)
	}
	fc := file.NewReplicaClient(root)
	target := fc.LTXFilePath(j.Level, ltx.TXID(j.Min), ltx.TXID(j.Max))
	var orig []byte
	var mtime time.Time
	if j.Kind == "delete" || j.Kind == "truncate" || j.Kind == "flip" {
		fi, err := os.Stat(target)
		if err != nil {
			res.Class, res.Err = 1, "harness: target missing"
			return res
		}
		mtime = fi.ModTime()
		orig, _ = os.ReadFile(target)
		switch j.Kind {
		case "delete":
			_ = os.Remove(target)
		case "truncate":
			_ = os.WriteFile(target, orig[:j.Arg], 0o644)
		case "flip":
			mod := append([]byte(nil), orig...)
			mod[j.Arg] ^= byte(j.Arg2)
			_ = os.WriteFile(target, mod, 0o644)
		}
		_ = os.Chtimes(target, mtime, mtime)
		defer func() {
			_ = os.WriteFile(target, orig, 0o644)
			_ = os.Chtimes(target, mtime, mtime)
		}()
	}
	var client litestream.ReplicaClient = fc
	if j.Kind == "readfault" {
		client = &rfClient{ReplicaClient: fc, level: j.Level, min: ltx.TXID(j.Min), max: ltx.TXID(j.Max),
			kind: j.RFKind, off: j.Arg, left: j.Arg2}
	}
	pre := []byte("pre-existing output, must stay")
	if j.Kind == "preexist" {
		if j.Arg == 1 {
			pre = []byte{} // a zero-length file: e.g. a database an application has opened and not written yet
		}
		_ = os.WriteFile(outPath, pre, 0o644)
	}
	if j.Kind == "staletmp" {
		// an earlier restore into the same path was killed while it wrote a LONGER database:
		// its <output>.tmp is still there (j.Arg bytes of non-zero garbage)
		stale := bytes.Repeat([]byte{0xA5, 0x5A, 0x3C, 0xC3}, int(j.Arg)/4)
		_ = os.WriteFile(outPath+".tmp", stale, 0o644)
	}
	rep := litestream.NewReplicaWithClient(nil, client)
	opt := litestream.NewRestoreOptions()
	opt.OutputPath = outPath
	opt.TXID = ltx.TXID(j.TXID)
	switch j.Integ {
	case 1:
		opt.IntegrityCheck = litestream.IntegrityCheckQuick
	case 2:
		opt.IntegrityCheck = litestream.IntegrityCheckFull
	}
	ctx := context.Background()
	if j.Cancel {
		c, cancel := context.WithCancel(ctx)
		cancel()
		ctx = c
	}
	err := rep.Restore(ctx, opt)
	if err != nil {
		res.Class, res.Err = 1, err.Error()
		if len(res.Err) > 200 {
			res.Err = res.Err[:200]
		}
	}
	res.OutExists = exists(outPath)
	res.TmpExists = exists(outPath + ".tmp")
	res.SideFiles = exists(outPath+"-wal") || exists(outPath+"-shm")
	if res.OutExists {
		b, _ := os.ReadFile(outPath)
		h := sha(b)
		res.Same = h == j.Ref || (j.Ref2 != "" && h == j.Ref2)
		res.Unchanged = bytes.Equal(b, pre)
	}
	return res
}

// runJobs distributes the jobs over child processes; a child that dies while a
// job is in flight yields class 7 for that job and is replaced.
func runJobs(e *env, jobs []rJob, workers int) ([]rResult, []string) {
	results := make([]rResult, len(jobs))
	var panics []string
	var mu sync.Mutex
	var wg sync.WaitGroup
	self, _ := os.Executable()
	ch := make(chan int, len(jobs))
	for i := range jobs {
		ch <- i
	}
	close(ch)
	for w := 0; w < workers; w++ {
		wg.Add(1)
		go func(w int) {
			defer wg.Done()
			dir := filepath.Join(e.out, "restore", fmt.Sprintf("child%d", w))
			defer os.RemoveAll(dir)
			var cmd *exec.Cmd
			var stdin io.WriteCloser
			var stdout *bufio.Scanner
			var stderr *bytes.Buffer
			start := func() {
				cmd = exec.Command(self, "restore-child")
				cmd.Env = append(os.Environ(), "VERIF_CHILD_DIR="+dir, "GOMAXPROCS=2")
				stdin, _ = cmd.StdinPipe()
				so, _ := cmd.StdoutPipe()
				stderr = &bytes.Buffer{}
				cmd.Stderr = stderr
				stdout = bufio.NewScanner(so)
				stdout.Buffer(make([]byte, 1<<20), 1<<24)
				_ = cmd.Start()
			}
			stop := func() {
				if cmd != nil {
					_ = stdin.Close()
					_ = cmd.Wait()
					cmd = nil
				}
			}
			for i := range ch {
				if cmd == nil {
					start()
				}
				b, _ := json.Marshal(jobs[i])
				_, _ = stdin.Write(append(b, '\n'))
				if stdout.Scan() {
					var r rResult
					if json.Unmarshal(stdout.Bytes(), &r) == nil && r.ID == jobs[i].ID {
						results[i] = r
						continue
					}
				}
				// the child died
				_ = stdin.Close()
				_ = cmd.Wait()
				msg := stderr.String()
				if k := strings.Index(msg, "panic:"); k >= 0 {
					msg = msg[k:]
				}
				if len(msg) > 300 {
					msg = msg[:300]
				}
				cmd = nil
				out := filepath.Join(dir, "out.db")
				results[i] = rResult{ID: jobs[i].ID, Class: 7, OutExists: exists(out), TmpExists: exists(out + ".tmp"), Err: msg}
				mu.Lock()
				if len(panics) < 5 {
					panics = append(panics, strings.SplitN(msg, "\n", 2)[0])
				}
				mu.Unlock()
			}
			stop()
		}(w)
	}
	wg.Wait()
	return results, panics
}

// ---- building replicas -----------------------------------------------------------

type planFile struct {
	level    int
	min, max uint64
	size     int64
	path     string
	blockEnd int // offset right after the page-block end marker
}

// pageBlockEnd parses header and page frames of an LTX file and returns the
// offset right after the zero page header that ends the page block.
func pageBlockEnd(b []byte) int {
	off := ltx.HeaderSize
	for off+ltx.PageHeaderSize <= len(b) {
		pgno := binary.BigEndian.Uint32(b[off:])
		flags := binary.BigEndian.Uint16(b[off+4:])
		off += ltx.PageHeaderSize
		if pgno == 0 && flags == 0 {
			return off
		}
		if flags&ltx.PageHeaderFlagSize == 0 || off+4 > len(b) {
			return -1
		}
		off += 4 + int(binary.BigEndian.Uint32(b[off:]))
	}
	return -1
}

type replicaSpec struct {
	name   string
	root   string
	plan   []planFile
	latest uint64
	ref    string            // sha of the restore to latest
	refAt  map[uint64]string // sha of Restore(TXID = t)
}

func buildReplica(e *env, name string, shape int) (*replicaSpec, error) {
	dir := filepath.Join(e.out, "restore", name)
	r := NewRand(e.seed + 2000 + int64(shape))
	src, err := newSrcDB(filepath.Join(dir, "src"))
	if err != nil {
		return nil, err
	}
	root := filepath.Join(dir, "replica")
	fc := file.NewReplicaClient(root)
	if err := src.open(fc); err != nil {
		return nil, err
	}
	ctx := context.Background()
	syncUp := func(n int) error {
		for i := 0; i < n; i++ {
			if err := src.write(r); err != nil {
				return err
			}
		}
		return src.db.Replica.Sync(ctx)
	}
	switch shape {
	case 0: // level 0 only
		err = syncUp(4)
	case 1: // level 1 file followed by level 0 files
		if err = syncUp(3); err == nil {
			if _, err = src.db.Compact(ctx, 1); err == nil {
				err = syncUp(2)
			}
		}
	default: // snapshot followed by level 0 files
		if err = syncUp(3); err == nil {
			if _, err = src.db.Snapshot(ctx); err == nil {
				err = syncUp(2)
			}
		}
	}
	if err != nil {
		return nil, fmt.Errorf("build replica %s: %w", name, err)
	}
	img, err := src.sourceImage()
	src.close()
	if err != nil {
		return nil, err
	}
	spec := &replicaSpec{name: name, root: root, refAt: map[uint64]string{}}
	infos, err := litestream.CalcRestorePlan(ctx, fc, 0, time.Time{}, QuietLogger())
	if err != nil {
		return nil, err
	}
	for _, in := range infos {
		p := fc.LTXFilePath(in.Level, in.MinTXID, in.MaxTXID)
		b, _ := os.ReadFile(p)
		spec.plan = append(spec.plan, planFile{level: in.Level, min: uint64(in.MinTXID), max: uint64(in.MaxTXID),
			size: in.Size, path: p, blockEnd: pageBlockEnd(b)})
		spec.latest = uint64(in.MaxTXID)
	}
	out := filepath.Join(dir, "ref.db")
	got, err := restoreBytes(root, out)
	if err != nil {
		return nil, fmt.Errorf("reference restore of %s: %w", name, err)
	}
	spec.ref = sha(got)
	if !bytes.Equal(got, img) {
		e.violation("C10/reference-restore-differs-from-source", "uncorrupted restore of replica "+name+" differs from the source image", nil)
	}
	for _, pf := range spec.plan {
		if pf.min > 1 {
			rep := litestream.NewReplicaWithClient(nil, file.NewReplicaClient(root))
			opt := litestream.NewRestoreOptions()
			opt.OutputPath, opt.TXID = out, ltx.TXID(pf.min-1)
			_ = os.Remove(out)
			if err := rep.Restore(ctx, opt); err == nil {
				b, _ := os.ReadFile(out)
				spec.refAt[pf.min-1] = sha(b)
			}
			_ = os.Remove(out)
		}
	}
	return spec, nil
}

// brokenReplicas: replicas whose single LTX file is valid (written by the real
// ltx.Encoder through file.ReplicaClient.WriteLTXFile) but decodes to an image
// SQLite rejects in different ways.
type brokenSpec struct {
	name string
	root string
	ref  string // sha of the image the replica decodes to
}

func brokenReplicas(e *env, from *replicaSpec) ([]brokenSpec, error) {
	dir := filepath.Join(e.out, "restore", "broken")
	_ = os.MkdirAll(dir, 0o755)
	good, err := restoreBytes(from.root, filepath.Join(dir, "img.db"))
	if err != nil {
		return nil, err
	}
	ps := int(binary.BigEndian.Uint16(good[16:]))
	if ps == 1 {
		ps = 65536
	}
	npages := len(good) / ps
	fill := func(b []byte, v byte) {
		for i := range b {
			b[i] = v
		}
	}
	flavours := []struct {
		name string
		mk   func(img []byte) []byte
	}{
		{"all-but-page1-garbage", func(img []byte) []byte { fill(img[ps:], 0xA5); return img }},
		{"not-a-database", func(img []byte) []byte { fill(img[:16], 0x5A); return img }},
		{"schema-root-garbage", func(img []byte) []byte { fill(img[100:ps], 0xA5); return img }},
		{"schema-root-type-byte", func(img []byte) []byte { img[100] = 0x7F; return img }},
		{"last-page-garbage", func(img []byte) []byte { fill(img[(npages-1)*ps:], 0xA5); return img }},
		{"table-page-cell-pointers", func(img []byte) []byte {
			// scribble over the cell pointer array of every leaf table page but page 1
			for pg := 1; pg < npages; pg++ {
				if img[pg*ps] == 0x0D {
					fill(img[pg*ps+8:pg*ps+8+12], 0xFF)
				}
			}
			return img
		}},
		{"table-page-cell-content", func(img []byte) []byte {
			for pg := 1; pg < npages; pg++ {
				if img[pg*ps] == 0x0D {
					fill(img[pg*ps+ps/2:pg*ps+ps], 0xEE)
				}
			}
			return img
		}},
		{"freelist-count", func(img []byte) []byte { binary.BigEndian.PutUint32(img[36:], 1000); return img }},
		{"truncated-image", func(img []byte) []byte { return img[:(npages-1)*ps] }},
		{"truncated-to-one-page", func(img []byte) []byte { return img[:ps] }},
	}
	var out []brokenSpec
	for _, fl := range flavours {
		img := fl.mk(append([]byte(nil), good...))
		root := filepath.Join(dir, fl.name)
		var buf bytes.Buffer
		enc, _ := ltx.NewEncoder(&buf)
		if err := enc.EncodeHeader(ltx.Header{Version: ltx.Version, Flags: ltx.HeaderFlagNoChecksum, PageSize: uint32(ps),
			Commit: uint32(len(img) / ps), MinTXID: 1, MaxTXID: 1, Timestamp: time.Now().UnixMilli()}); err != nil {
			return nil, err
		}
		for pg := 0; pg < len(img)/ps; pg++ {
			if err := enc.EncodePage(ltx.PageHeader{Pgno: uint32(pg + 1)}, img[pg*ps:(pg+1)*ps]); err != nil {
				return nil, err
			}
		}
		if err := enc.Close(); err != nil {
			return nil, err
		}
		if _, err := file.NewReplicaClient(root).WriteLTXFile(context.Background(), 0, 1, 1, &buf); err != nil {
			return nil, err
		}
		out = append(out, brokenSpec{name: "broken/" + fl.name, root: root, ref: sha(img)})
	}
	return out, nil
}

const sigF7 = "C10/ltx-decoder-close-panics-on-truncation-within-8-bytes-after-page-block-end"

func genRestore(e *env) error {
	slog.SetDefault(QuietLogger())
	_ = os.RemoveAll(filepath.Join(e.out, "restore"))
	defer os.RemoveAll(filepath.Join(e.out, "restore"))
	r := NewRand(e.seed + 3000)
	var specs []*replicaSpec
	for shape, name := range []string{"l0-chain", "l1-then-l0", "snapshot-then-l0"} {
		s, err := buildReplica(e, name, shape)
		if err != nil {
			if strings.Contains(err.Error(), "reference restore") {
				// the undamaged replica does not restore: a finding, not a harness problem
				e.violation("C10/uncorrupted-restore-fails", err.Error(), map[string]any{"replica": name})
				continue
			}
			return err
		}
		specs = append(specs, s)
	}
	if len(specs) == 0 {
		return nil
	}
	broken, err := brokenReplicas(e, specs[0])
	if err != nil {
		return err
	}
	var jobs []rJob
	meta := map[int]*replicaSpec{}
	pfOf := map[int]planFile{}
	add := func(s *replicaSpec, j rJob) {
		j.ID = len(jobs)
		j.Root = s.root
		if j.Ref == "" {
			j.Ref = s.ref
		}
		meta[j.ID] = s
		jobs = append(jobs, j)
	}
	truncAllBelow, flipAllBelow, truncSample, flipSample := int64(300), int64(200), 70, 70
	if e.thorough {
		truncAllBelow, flipAllBelow, truncSample, flipSample = 1<<20, 4000, 512, 2000
	}
	for _, s := range specs {
		add(s, rJob{Kind: "none", Class: s.name + "/uncorrupted"})
		add(s, rJob{Kind: "none", Integ: 1, Class: s.name + "/uncorrupted+quick_check"})
		add(s, rJob{Kind: "none", Integ: 2, Class: s.name + "/uncorrupted+integrity_check"})
		add(s, rJob{Kind: "cancelled", Integ: 1, Cancel: true, Class: s.name + "/cancelled-context+quick_check"})
		add(s, rJob{Kind: "cancelled", Integ: 0, Cancel: true, Class: s.name + "/cancelled-context"})
		add(s, rJob{Kind: "preexist", Class: s.name + "/pre-existing-output"})
		add(s, rJob{Kind: "preexist", Arg: 1, Class: s.name + "/pre-existing-empty-output"})
		// a staging file left over from a killed earlier restore: longer than, and shorter than, the image
		add(s, rJob{Kind: "staletmp", Arg: 4 << 20, Class: s.name + "/stale-longer-temp-file"})
		add(s, rJob{Kind: "staletmp", Arg: 4 << 20, Integ: 1, Class: s.name + "/stale-longer-temp-file+quick_check"})
		add(s, rJob{Kind: "staletmp", Arg: 1024, Class: s.name + "/stale-shorter-temp-file"})
		for _, pf := range s.plan {
			base := rJob{Level: pf.level, Min: pf.min, Max: pf.max}
			pfOf[len(jobs)] = pf
			// delete: restore to latest (the tail file may legitimately be unknown) and pinned
			d := base
			d.Kind, d.Class = "delete", s.name+"/delete"
			if pf.max == s.latest && pf.min > 1 {
				d.Ref2 = s.refAt[pf.min-1]
			}
			add(s, d)
			d.TXID, d.Ref2, d.Class = s.latest, "", s.name+"/delete/pinned-txid"
			add(s, d)
			// truncate
			var offs []int64
			if pf.size <= truncAllBelow {
				for o := int64(0); o < pf.size; o++ {
					offs = append(offs, o)
				}
			} else {
				seen := map[int64]bool{}
				for _, o := range []int64{0, 1, 99, 100, 101, pf.size - 1, pf.size - 8, pf.size - 9, pf.size - 16, pf.size - 17} {
					seen[o] = true
				}
				for o := int64(pf.blockEnd) - 4; o < int64(pf.blockEnd)+10; o++ {
					seen[o] = true
				}
				for len(seen) < truncSample {
					seen[r.Int63n(pf.size)] = true
				}
				for o := range seen {
					if o >= 0 && o < pf.size {
						offs = append(offs, o)
					}
				}
				sort.Slice(offs, func(i, j int) bool { return offs[i] < offs[j] })
			}
			for _, o := range offs {
				t := base
				t.Kind, t.Arg, t.Class = "truncate", o, s.name+"/truncate"
				add(s, t)
			}
			// flip one bit of a byte
			offs = offs[:0]
			if pf.size <= flipAllBelow {
				for o := int64(0); o < pf.size; o++ {
					offs = append(offs, o)
				}
			} else {
				seen := map[int64]bool{}
				for _, o := range []int64{0, 4, 7, 11, 15, 23, 31, 100, 105, pf.size - 1, pf.size - 9, int64(pf.blockEnd) - 1, int64(pf.blockEnd)} {
					if o >= 0 && o < pf.size {
						seen[o] = true
					}
				}
				for len(seen) < flipSample {
					seen[r.Int63n(pf.size)] = true
				}
				for o := range seen {
					offs = append(offs, o)
				}
				sort.Slice(offs, func(i, j int) bool { return offs[i] < offs[j] })
			}
			for _, o := range offs {
				t := base
				t.Kind, t.Arg, t.Arg2, t.Class = "flip", o, int64(1)<<uint(r.Intn(8)), s.name+"/flip"
				add(s, t)
			}
		}
	}
	// integrity check failure: valid LTX, broken SQLite image
	for _, b := range broken {
		bs := &replicaSpec{name: b.name, root: b.root, ref: b.ref}
		add(bs, rJob{Kind: "integrity", Integ: 1, Class: b.name + "/quick_check"})
		add(bs, rJob{Kind: "integrity", Integ: 2, Class: b.name + "/integrity_check"})
		add(bs, rJob{Kind: "integrity", Integ: 0, Class: b.name + "/no-check"})
		add(bs, rJob{Kind: "cancelled", Integ: 1, Cancel: true, Class: b.name + "/cancelled-context+quick_check"})
	}
	nCorr := len(jobs)

	// read faults on one file of the plan: k consecutive failures at an offset class
	for _, s := range specs {
		for fi, pf := range s.plan {
			if !e.thorough && fi != len(s.plan)/2 {
				continue
			}
			for _, off := range []int64{0, 50, pf.size / 2, pf.size - 1} {
				for kind := 0; kind < 3; kind++ {
					if kind == 2 && off != 0 {
						continue // an open error can only strike the first open unless a read fails first
					}
					for _, k := range []int64{0, 1, 3, 4, 6} {
						add(s, rJob{Kind: "readfault", Level: pf.level, Min: pf.min, Max: pf.max, Arg: off, Arg2: k, RFKind: kind,
							Class: fmt.Sprintf("%s/readfault/kind%d/k%d", s.name, kind, k)})
					}
				}
			}
		}
	}
	t0 := time.Now()
	res1, panics := runJobs(e, jobs[:nCorr], 16)
	res2, p2 := runJobs(e, jobs[nCorr:], 64)
	panics = append(panics, p2...)
	results := append(res1, res2...)
	e.extra["restore_jobs"] = len(jobs)
	e.extra["restore_wall_s"] = time.Since(t0).Seconds()
	e.extra["restore_panic_messages"] = panics

	counts := map[string]int{}
	msByKind := map[string]float64{}
	for i, j := range jobs {
		msByKind[j.Kind] += results[i].Ms
	}
	e.extra["restore_ms_by_kind"] = msByKind
	for i, j := range jobs {
		res := results[i]
		s := meta[j.ID]
		pre := j.Kind == "preexist"
		same := res.Same
		in := L(B(pre), I(int64(res.Class)), B(res.OutExists), B(res.TmpExists), B(same), B(res.Unchanged), B(res.SideFiles), B(j.Cancel))
		nontriv := j.Kind != "none"
		e.cw.Add("restore_disc_ok", in, I(1), "restore/"+j.Class, nontriv)
		key := j.Kind + "/" + []string{"ok", "error", "", "", "", "", "", "panic"}[res.Class]
		if res.Class == 0 && !pre {
			if same {
				key += "-identical"
			} else {
				key += "-DIFFERENT"
			}
		}
		counts[key]++
		replay := map[string]any{"replica": s.name, "job": j, "result": res,
			"how": "harness faults -part restore (replicas are rebuilt deterministically from the seed)"}
		switch {
		case res.Class == 7:
			pf := planFile{blockEnd: -1}
			for _, q := range s.plan {
				if q.level == j.Level && q.min == j.Min && q.max == j.Max {
					pf = q
				}
			}
			if j.Kind == "truncate" && pf.blockEnd >= 0 && j.Arg >= int64(pf.blockEnd) && j.Arg < int64(pf.blockEnd)+8 {
				e.violation(sigF7, fmt.Sprintf("replica %s, file level %d %d-%d (%d bytes, page block ends at %d) truncated to %d bytes: Restore panics (%s)",
					s.name, j.Level, j.Min, j.Max, pf.size, pf.blockEnd, j.Arg, strings.SplitN(res.Err, "\n", 2)[0]), replay)
			} else {
				e.violation("C10/restore-panics", fmt.Sprintf("replica %s %s arg=%d: %s", s.name, j.Kind, j.Arg, res.Err), replay)
			}
		case pre && (res.Class != 1 || !res.Unchanged || res.TmpExists):
			e.violation("C10/existing-output-not-protected", fmt.Sprintf("replica %s: class=%d unchanged=%v tmp=%v", s.name, res.Class, res.Unchanged, res.TmpExists), replay)
		case !pre && res.Class == 0 && !same:
			e.violation("C10/success-with-different-content:"+j.Kind, fmt.Sprintf("replica %s, %s of level %d %d-%d arg=%d arg2=%d: Restore returned nil but the output differs from the uncorrupted restore",
				s.name, j.Kind, j.Level, j.Min, j.Max, j.Arg, j.Arg2), replay)
		case j.Cancel && res.Class == 1 && (res.TmpExists || (res.OutExists && !same)):
			e.violation("C10/output-left-behind-after-error", fmt.Sprintf("replica %s, cancelled context: out=%v (same=%v) tmp=%v after error %q", s.name, res.OutExists, same, res.TmpExists, res.Err), replay)
		case j.Cancel:
			// an interrupted check is not a failed check: the verified image may stay
		case !pre && res.Class == 1 && (res.OutExists || res.TmpExists || res.SideFiles):
			e.violation("C10/output-left-behind-after-error", fmt.Sprintf("replica %s, %s: out=%v tmp=%v side=%v after error %q", s.name, j.Kind, res.OutExists, res.TmpExists, res.SideFiles, res.Err), replay)
		case !pre && res.Class == 0 && res.TmpExists:
			e.violation("C10/temp-left-behind-after-success", s.name, replay)
		case j.Kind == "integrity" && j.Integ != 0 && res.Class != 1:
			e.violation("C10/failed-integrity-check-not-reported", "restore of an image that fails quick_check returned nil", replay)
		case j.Kind == "readfault" && j.Arg2 <= 3 && res.Class != 0:
			e.violation("C10/read-faults-within-budget-not-retried", fmt.Sprintf("replica %s: %d consecutive failures (kind %d) at offset %d of level %d %d-%d: %s", s.name, j.Arg2, j.RFKind, j.Arg, j.Level, j.Min, j.Max, res.Err), replay)
		case j.Kind == "readfault" && j.Arg2 > 3 && res.Class != 1:
			e.violation("C10/read-faults-beyond-budget-not-reported", fmt.Sprintf("replica %s: %d consecutive failures (kind %d) at offset %d did not fail the restore", s.name, j.Arg2, j.RFKind, j.Arg), replay)
		case j.Kind == "staletmp" && res.Class != 0:
			e.violation("C10/restore-fails-over-stale-temp-file", s.name+": "+res.Err, replay)
		case j.Kind == "none" && res.Class != 0:
			e.violation("C10/uncorrupted-restore-fails", s.name+": "+res.Err, replay)
		}
	}
	// which way did the failing integrity checks fail? both flavours must have been exercised
	flav := map[string]int{}
	for i, j := range jobs {
		if j.Kind == "integrity" && j.Integ != 0 && results[i].Class == 1 {
			switch {
			case strings.Contains(results[i].Err, "integrity check failed"):
				flav["reported-as-rows"]++
			case strings.Contains(results[i].Err, "integrity check:"):
				flav["statement-error"]++
			default:
				flav["other:"+results[i].Err]++
			}
		}
	}
	e.extra["integrity_failure_flavours"] = flav
	e.extra["restore_outcomes"] = counts
	return nil
}
