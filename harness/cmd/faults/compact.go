package main

import (
	"bytes"
	"context"
	"errors"
	"fmt"
	"io"
	"log/slog"
	"os"
	"path/filepath"
	"sort"
	"sync"

	"github.com/benbjohnson/litestream"
	"github.com/benbjohnson/litestream/file"
	"github.com/superfly/ltx"
	. "verifharness/hx"
)

// compFault injects failures into the reads of ONE source object of a compaction.
//
//	kind 1  the initial OpenLTXFile fails
//	kind 2  the stream fails with an error at byte offset off; so does every
//	        re-opened stream, count times in all
//	kind 3  the same with a premature, clean EOF
//	kind 4  one stream error at off, then count-1 failing re-opens
//	kind 5  one stream error at off, then the re-open reports os.ErrNotExist
type compFault struct {
	level    int
	min, max ltx.TXID
	kind     int
	off      int64
	count    int
	left     int
	failed   bool // the first (stream) failure has happened
}

func (f *compFault) matches(level int, min, max ltx.TXID) bool {
	return f != nil && f.kind != 0 && level == f.level && min == f.min && max == f.max
}

func (f *compFault) open(ctx context.Context, inner *file.ReplicaClient, offset, size int64) (io.ReadCloser, error) {
	switch {
	case f.kind == 1 && f.left > 0:
		f.left--
		return nil, errInjected
	case f.kind == 4 && f.failed && f.left > 0:
		f.left--
		return nil, errInjected
	case f.kind == 5 && f.failed:
		return nil, fmt.Errorf("injected: %w", os.ErrNotExist)
	}
	rc, err := inner.OpenLTXFile(ctx, f.level, f.min, f.max, offset, size)
	if err != nil {
		return nil, err
	}
	return &cfStream{f: f, rc: rc, pos: offset}, nil
}

type cfStream struct {
	f   *compFault
	rc  io.ReadCloser
	pos int64
}

func (s *cfStream) Close() error { return s.rc.Close() }
func (s *cfStream) Read(p []byte) (int, error) {
	f := s.f
	active := f.left > 0 && (f.kind == 2 || f.kind == 3 || ((f.kind == 4 || f.kind == 5) && !f.failed))
	if active {
		if s.pos >= f.off {
			f.left--
			f.failed = true
			if f.kind == 3 {
				return 0, io.EOF
			}
			return 0, errInjected
		}
		if int64(len(p)) > f.off-s.pos {
			p = p[:f.off-s.pos]
		}
	}
	n, err := s.rc.Read(p)
	s.pos += int64(n)
	return n, err
}

// the same fault as a schedule of the resumable-reader model (one buffer >= size)
func (f *compFault) modelSched() (openFail bool, sched SxList) {
	item := func(tag int, n int64) Sx { return L(I(int64(tag)), I(n)) }
	switch f.kind {
	case 1:
		return true, nil
	case 2:
		sched = append(sched, item(2, f.off))
		for i := 1; i < f.count; i++ {
			sched = append(sched, item(2, 0))
		}
	case 3:
		sched = append(sched, item(1, f.off))
		for i := 1; i < f.count; i++ {
			sched = append(sched, item(1, 0))
		}
	case 4:
		sched = append(sched, item(2, f.off))
		for i := 1; i < f.count; i++ {
			sched = append(sched, item(3, 0))
		}
	case 5:
		sched = append(sched, item(2, f.off), item(4, 0))
	}
	return false, sched
}

// ---- decoding LTX files independently of the compaction under test ---------------

type ltxContent struct {
	min, max ltx.TXID
	commit   uint32
	pages    map[uint32][]byte
}

func decodeLTX(b []byte) (*ltxContent, error) {
	dec := ltx.NewDecoder(bytes.NewReader(b))
	if err := dec.DecodeHeader(); err != nil {
		return nil, err
	}
	h := dec.Header()
	c := &ltxContent{min: h.MinTXID, max: h.MaxTXID, commit: h.Commit, pages: map[uint32][]byte{}}
	for {
		var ph ltx.PageHeader
		data := make([]byte, h.PageSize)
		if err := dec.DecodePage(&ph, data); err == io.EOF {
			break
		} else if err != nil {
			return nil, err
		}
		c.pages[ph.Pgno] = data
	}
	if err := dec.Close(); err != nil { // index, trailer, file checksum
		return nil, err
	}
	return c, nil
}

func (a *ltxContent) equal(b *ltxContent) bool {
	if a.min != b.min || a.max != b.max || a.commit != b.commit || len(a.pages) != len(b.pages) {
		return false
	}
	for k, v := range a.pages {
		if !bytes.Equal(v, b.pages[k]) {
			return false
		}
	}
	return true
}

// recompose merges the archived L0 files min..max with the ltx library directly.
func recompose(archive map[uint64][]byte, min, max uint64) (*ltxContent, error) {
	var rdrs []io.Reader
	for t := min; t <= max; t++ {
		b, ok := archive[t]
		if !ok {
			return nil, fmt.Errorf("no archived L0 file %d", t)
		}
		rdrs = append(rdrs, bytes.NewReader(b))
	}
	var buf bytes.Buffer
	c, err := ltx.NewCompactor(&buf, rdrs)
	if err != nil {
		return nil, err
	}
	c.HeaderFlags = ltx.HeaderFlagNoChecksum
	if err := c.Compact(context.Background()); err != nil {
		return nil, err
	}
	return decodeLTX(buf.Bytes())
}

type lfile struct {
	min, max uint64
	size     int64
}

func listLevel(fc *file.ReplicaClient, level int) []lfile {
	ents, _ := os.ReadDir(fc.LTXLevelDir(level))
	var out []lfile
	for _, e := range ents {
		min, max, err := ltx.ParseFilename(e.Name())
		if err != nil {
			continue
		}
		fi, _ := e.Info()
		var sz int64
		if fi != nil {
			sz = fi.Size()
		}
		out = append(out, lfile{uint64(min), uint64(max), sz})
	}
	sort.Slice(out, func(i, j int) bool {
		if out[i].min != out[j].min {
			return out[i].min < out[j].min
		}
		return out[i].max < out[j].max
	})
	return out
}

// ---- one database with a replica prepared for compaction attempts ---------------

type compWorld struct {
	src     *srcDB
	fc      *faultClient
	archive map[uint64][]byte
	image   []byte
	dst     int // destination level of the attempts
}

func hasFile(l []lfile, min, max uint64) bool {
	for _, f := range l {
		if f.min == min && f.max == max {
			return true
		}
	}
	return false
}

// syncAll uploads every local L0 file and archives it.
func (w *compWorld) syncAll() error {
	if err := w.src.db.Replica.Sync(context.Background()); err != nil {
		return err
	}
	for _, t := range w.src.localL0() {
		if _, ok := w.archive[t]; !ok {
			b, err := os.ReadFile(w.src.db.LTXPath(0, ltx.TXID(t), ltx.TXID(t)))
			if err != nil {
				return err
			}
			w.archive[t] = b
		}
	}
	img, err := w.src.sourceImage()
	w.image = img
	return err
}

// dropLocalButNewest removes the local copies of all L0 files but the newest, so
// that compaction reads them from the replica.
func (w *compWorld) dropLocalButNewest() {
	l := w.src.localL0()
	for i := 0; i+1 < len(l); i++ {
		_ = os.Remove(w.src.db.LTXPath(0, ltx.TXID(l[i]), ltx.TXID(l[i])))
	}
}

func newCompWorld(dir string, seed int64, dst int) (*compWorld, error) {
	r := NewRand(seed)
	src, err := newSrcDB(dir)
	if err != nil {
		return nil, err
	}
	src.db.L0Retention = 0
	w := &compWorld{src: src, archive: map[uint64][]byte{}, dst: dst}
	w.fc = &faultClient{inner: file.NewReplicaClient(filepath.Join(dir, "replica")), localL0: src.db.LTXLevelDir(0)}
	if err := src.open(w.fc); err != nil {
		return nil, err
	}
	for i := 0; i < 4; i++ {
		if err := src.writeNew(r); err != nil {
			return nil, err
		}
	}
	if err := w.syncAll(); err != nil {
		return nil, err
	}
	if dst == 2 {
		w.dropLocalButNewest()
		if _, err := src.db.Compact(context.Background(), 1); err != nil {
			return nil, fmt.Errorf("prepare L1: %w", err)
		}
		for i := 0; i < 2; i++ {
			if err := src.writeNew(r); err != nil {
				return nil, err
			}
		}
		if err := w.syncAll(); err != nil {
			return nil, err
		}
		w.dropLocalButNewest()
		if _, err := src.db.Compact(context.Background(), 1); err != nil {
			return nil, fmt.Errorf("prepare L1 (2): %w", err)
		}
	} else {
		w.dropLocalButNewest()
	}
	return w, nil
}

type compSpec struct {
	dst    int
	target int // index of the faulted source in listing order of the source level
	kind   int
	offSel int // 0: 40 | 1: 150 | 2: size-1
	count  int
	wo     int
	class  string
}

type compObs struct {
	runIn, runObs Sx
	invIn         Sx
	viol          []ImplViolation
	followIn      Sx
}

func cacheSx(db *litestream.DB, level int) (Sx, [3]uint64) {
	min, max, ok := db.VerifMaxLTXCache(level)
	if !ok {
		return L(I(0), I(0), I(0)), [3]uint64{}
	}
	return L(I(1), U(uint64(min)), U(uint64(max))), [3]uint64{1, uint64(min), uint64(max)}
}

func compErrClass(err error) int64 {
	switch {
	case err == nil:
		return 0
	case errors.Is(err, litestream.ErrNoCompaction):
		return 2
	}
	return 1
}

// levelsIntact: every object of the level decodes completely (checksum) and
// equals the independent merge of the archived L0 files of its range.
func (w *compWorld) levelIntact(level int) (bool, string) {
	for _, f := range listLevel(w.fc.inner, level) {
		b, err := os.ReadFile(w.fc.inner.LTXFilePath(level, ltx.TXID(f.min), ltx.TXID(f.max)))
		if err != nil {
			return false, err.Error()
		}
		got, err := decodeLTX(b)
		if err != nil {
			return false, fmt.Sprintf("level %d file %d-%d (%d bytes) does not verify: %v", level, f.min, f.max, len(b), err)
		}
		want, err := recompose(w.archive, f.min, f.max)
		if err != nil {
			return false, "recompose: " + err.Error()
		}
		if !got.equal(want) {
			return false, fmt.Sprintf("level %d file %d-%d differs from the merge of the archived L0 files", level, f.min, f.max)
		}
	}
	return true, ""
}

func (w *compWorld) contiguous() (bool, string) {
	for level := 1; level <= 2; level++ {
		l := listLevel(w.fc.inner, level)
		if len(l) == 0 {
			continue
		}
		if l[0].min != 1 {
			return false, fmt.Sprintf("level %d starts at %d", level, l[0].min)
		}
		prev := l[0].max
		for _, f := range l[1:] {
			if f.min > prev+1 {
				return false, fmt.Sprintf("level %d: gap between %d and %d", level, prev, f.min)
			}
			if f.max > prev {
				prev = f.max
			}
		}
	}
	return true, ""
}

func (w *compWorld) restoreOK() (bool, string) {
	got, err := restoreBytes(w.fc.inner.Path(), filepath.Join(w.src.dir, "restored"))
	if err != nil {
		return false, "Restore fails: " + err.Error()
	}
	if !bytes.Equal(got, w.image) {
		return false, "Restore differs from the source image"
	}
	return true, ""
}

// observe runs one Compact(dst) and evaluates the oracles around it.
func (w *compWorld) observe(sp compSpec, cf *compFault, wo int, label string) (cls int64, invIn Sx, exists bool, viol []ImplViolation, before [3]uint64, beforeSx Sx, existed bool, afterSx Sx, name [2]uint64) {
	db := w.src.db
	srcs := listLevel(w.fc.inner, sp.dst-1)
	// the sources of this compaction: everything above the destination's max
	var dmax uint64
	if _, mx, ok := db.VerifMaxLTXCache(sp.dst); ok {
		dmax = uint64(mx)
	} else {
		for _, f := range listLevel(w.fc.inner, sp.dst) {
			if f.max > dmax {
				dmax = f.max
			}
		}
	}
	var mn, mx uint64
	for _, f := range srcs {
		if f.min >= dmax+1 {
			if mn == 0 || f.min < mn {
				mn = f.min
			}
			if f.max > mx {
				mx = f.max
			}
		}
	}
	name = [2]uint64{mn, mx}
	existed = hasFile(listLevel(w.fc.inner, sp.dst), mn, mx)
	beforeSx, before = cacheSx(db, sp.dst)
	w.fc.cf, w.fc.cwOutcome = cf, wo
	var err error
	func() {
		defer func() {
			if p := recover(); p != nil {
				err = fmt.Errorf("panic: %v", p)
				cls = 9
			}
		}()
		_, err = db.Compact(context.Background(), sp.dst)
	}()
	w.fc.cf, w.fc.cwOutcome = nil, 0
	if cls != 9 {
		cls = compErrClass(err)
	}
	var after [3]uint64
	afterSx, after = cacheSx(db, sp.dst)
	exists = mn != 0 && hasFile(listLevel(w.fc.inner, sp.dst), mn, mx)
	intact, why1 := w.levelIntact(sp.dst)
	cont, why2 := w.contiguous()
	rok, why3 := w.restoreOK()
	cacheIs := after == [3]uint64{1, mn, mx}
	invIn = L(I(cls), B(exists), B(intact), B(cacheIs), B(after != before), B(wo == 2), B(exists && !existed), B(cont), B(rok))
	replay := map[string]any{"spec": fmt.Sprintf("%+v", sp), "step": label, "error": fmt.Sprint(err)}
	add := func(sig, detail string) {
		viol = append(viol, ImplViolation{Signature: sig, Detail: fmt.Sprintf("%s [%s, %s]", detail, sp.class, label), Replay: replay})
	}
	if !intact {
		add("C05/compaction-publishes-partial-or-wrong-file", why1)
	}
	if !cont {
		add("C05/level-gap-after-compaction", why2)
	}
	if !rok {
		add("C05/not-restorable-after-compaction-attempt", why3)
	}
	if cls == 0 && (!exists || !cacheIs) {
		add("C05/compaction-nil-without-published-file", fmt.Sprintf("Compact returned nil: file %d-%d exists=%v, cache names it=%v", mn, mx, exists, cacheIs))
	}
	if cls == 1 && after != before {
		add("C05/compaction-error-changes-cache", fmt.Sprintf("Compact failed (%v) but the max-LTX cache of level %d went from %v to %v", err, sp.dst, before, after))
	}
	if cls == 1 && exists && !existed && wo != 2 {
		add("C05/compaction-error-publishes-file", fmt.Sprintf("Compact failed (%v) but a new object %d-%d is stored at level %d", err, mn, mx, sp.dst))
	}
	if cls == 9 {
		add("C05/compaction-panics", fmt.Sprint(err))
	}
	return
}

func (w *compWorld) runSpec(sp compSpec) compObs {
	var o compObs
	db := w.src.db
	// reset the destination level (and its cache, as after a restart)
	_ = os.RemoveAll(w.fc.inner.LTXLevelDir(sp.dst))
	db.VerifClearMaxLTXCache(sp.dst)
	srcs := listLevel(w.fc.inner, sp.dst-1)
	var cf *compFault
	if sp.kind != 0 {
		t := srcs[sp.target%len(srcs)]
		off := []int64{40, 150, t.size - 1}[sp.offSel]
		if off >= t.size {
			off = t.size - 1
		}
		cf = &compFault{level: sp.dst - 1, min: ltx.TXID(t.min), max: ltx.TXID(t.max), kind: sp.kind, off: off, count: sp.count, left: sp.count}
	}
	cls, invIn, exists, viol, _, beforeSx, existed, afterSx, _ := w.observe(sp, cf, sp.wo, "attempt under faults")
	o.invIn, o.viol = invIn, viol
	// the model case
	var ms SxList
	for _, f := range srcs {
		var of bool
		var sc SxList
		if cf != nil && uint64(cf.min) == f.min && uint64(cf.max) == f.max {
			of, sc = cf.modelSched()
		}
		ms = append(ms, L(U(f.min), U(f.max), I(f.size), B(of), sc))
	}
	o.runIn = L(ms, L(I(int64(sp.wo)), I(0)), B(existed), beforeSx)
	o.runObs = L(I(cls), B(exists), afterSx)
	// the fault-free follow-up must complete the level (nil, or nothing left to do)
	cls2, invIn2, _, viol2, _, _, _, _, name := w.observe(sp, nil, 0, "fault-free follow-up")
	o.followIn = invIn2
	o.viol = append(o.viol, viol2...)
	l := listLevel(w.fc.inner, sp.dst)
	if !(cls2 == 0 || (cls2 == 2 && cls == 0) || (cls2 == 2 && sp.wo == 2)) || len(l) == 0 || l[0].min != 1 {
		o.viol = append(o.viol, ImplViolation{Signature: "C05/compaction-does-not-recover",
			Detail: fmt.Sprintf("after the faulty attempt (class %d) a fault-free Compact(%d) returned class %d; level now %v (expected a complete file starting at TXID 1, next range %v) [%s]", cls, sp.dst, cls2, l, name, sp.class),
			Replay: map[string]any{"spec": fmt.Sprintf("%+v", sp)}})
	}
	return o
}

func compSpecs(thorough bool) []compSpec {
	var out []compSpec
	counts := []int{1, 3, 4, 5}
	if thorough {
		counts = []int{1, 2, 3, 4, 5}
	}
	for _, dst := range []int{1, 2} {
		targets := []int{0, 2}
		if dst == 2 {
			targets = []int{0, 1}
		}
		if thorough && dst == 1 {
			targets = []int{0, 1, 2}
		}
		name := fmt.Sprintf("compact/L%d->L%d", dst-1, dst)
		out = append(out, compSpec{dst: dst, class: name + "/no-fault"})
		for _, wo := range []int{1, 2} {
			out = append(out, compSpec{dst: dst, wo: wo, class: fmt.Sprintf("%s/write-outcome%d", name, wo)})
		}
		for _, t := range targets {
			out = append(out, compSpec{dst: dst, target: t, kind: 1, count: 1, class: name + "/open-fails"})
			for off := 0; off < 3; off++ {
				out = append(out, compSpec{dst: dst, target: t, kind: 5, offSel: off, count: 1, class: name + "/reopen-not-exist"})
				for kind := 2; kind <= 4; kind++ {
					for _, c := range counts {
						out = append(out, compSpec{dst: dst, target: t, kind: kind, offSel: off, count: c,
							class: fmt.Sprintf("%s/kind%d/count%d", name, kind, c)})
					}
				}
			}
			for _, wo := range []int{1, 2} {
				for _, c := range []int{1, 4} {
					out = append(out, compSpec{dst: dst, target: t, kind: 2, offSel: 1, count: c, wo: wo,
						class: fmt.Sprintf("%s/kind2/count%d/write-outcome%d", name, c, wo)})
				}
			}
		}
	}
	return out
}

func genCompact(e *env) error {
	slog.SetDefault(QuietLogger())
	root := filepath.Join(e.out, "compact")
	_ = os.RemoveAll(root)
	defer os.RemoveAll(root)
	specs := compSpecs(e.thorough)
	results := make([]compObs, len(specs))
	const workers = 32
	var wg sync.WaitGroup
	var mu sync.Mutex
	var firstErr error
	for wi := 0; wi < workers; wi++ {
		wg.Add(1)
		go func(wi int) {
			defer wg.Done()
			worlds := map[int]*compWorld{}
			defer func() {
				for _, w := range worlds {
					w.src.close()
				}
			}()
			for i := wi; i < len(specs); i += workers {
				sp := specs[i]
				w := worlds[sp.dst]
				if w == nil {
					var err error
					w, err = newCompWorld(filepath.Join(root, fmt.Sprintf("w%d-%d", wi, sp.dst)), e.seed+int64(5000+sp.dst), sp.dst)
					if err != nil {
						mu.Lock()
						if firstErr == nil {
							firstErr = err
						}
						mu.Unlock()
						return
					}
					worlds[sp.dst] = w
				}
				results[i] = w.runSpec(sp)
			}
		}(wi)
	}
	wg.Wait()
	if firstErr != nil {
		return firstErr
	}
	for i, sp := range specs {
		o := results[i]
		if o.runIn == nil {
			continue
		}
		e.cw.Add("compact_run", o.runIn, o.runObs, sp.class, sp.kind != 0 || sp.wo != 0)
		e.cw.Add("compact_inv_ok", o.invIn, I(1), sp.class+"/spec", sp.kind != 0 || sp.wo != 0)
		e.cw.Add("compact_inv_ok", o.followIn, I(1), sp.class+"/follow-up/spec", false)
		for _, v := range o.viol {
			e.violation(v.Signature, v.Detail, v.Replay)
		}
	}
	e.extra["compaction_attempts"] = len(specs)
	return staleCacheScenario(e, filepath.Join(root, "stale"))
}

// staleCacheScenario: a compaction whose write took effect but reported an error
// leaves the cache behind the replica; more data arrives; later compactions must
// keep every level gap-free and the replica restorable.
func staleCacheScenario(e *env, dir string) error {
	w, err := newCompWorld(dir, e.seed+7000, 1)
	if err != nil {
		return err
	}
	defer w.src.close()
	r := NewRand(e.seed + 7001)
	sp := compSpec{dst: 1, class: "compact/stale-cache-after-fail-after"}
	emit := func(label string, wo int, dst int) {
		s := sp
		s.dst = dst
		_, inv, _, viol, _, _, _, _, _ := w.observe(s, nil, wo, label)
		e.cw.Add("compact_inv_ok", inv, I(1), sp.class+"/spec", true)
		for _, v := range viol {
			e.violation(v.Signature, v.Detail, v.Replay)
		}
	}
	emit("L1 1..4", 0, 1)
	for i := 0; i < 2; i++ {
		if err := w.src.writeNew(r); err != nil {
			return err
		}
	}
	if err := w.syncAll(); err != nil {
		return err
	}
	w.dropLocalButNewest()
	emit("L1 5..6, write fails after taking effect", 2, 1)
	if err := w.src.writeNew(r); err != nil {
		return err
	}
	if err := w.syncAll(); err != nil {
		return err
	}
	w.dropLocalButNewest()
	emit("L1 again after one more transaction", 0, 1)
	emit("L2 from the overlapping L1 files", 0, 2)
	e.extra["stale_cache_levels"] = fmt.Sprintf("L1=%v L2=%v", listLevel(w.fc.inner, 1), listLevel(w.fc.inner, 2))
	return nil
}
