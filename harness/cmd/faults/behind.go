package main

import (
	"bytes"
	"context"
	"database/sql"
	"fmt"
	"io"
	"log/slog"
	"os"
	"path/filepath"
	"strings"
	"sync"
	"time"

	"github.com/benbjohnson/litestream"
	"github.com/benbjohnson/litestream/file"
	"github.com/superfly/ltx"
	. "verifharness/hx"
)

// phaseFault: every level-0 client call is numbered; calls at .. at+n-1 fail.
//
//	variant 0  the call fails before doing anything
//	variant 1  LTXFiles: the iterator reports an error after k items;
//	           OpenLTXFile: the stream fails with an error after k bytes;
//	           WriteLTXFile: the write takes effect, then an error is returned
//	variant 2  LTXFiles: as 1 with k = 0; OpenLTXFile: short read, clean EOF after k bytes;
//	           WriteLTXFile: the source stream fails mid-way
type phaseFault struct {
	at, n, variant int
	k              int64
	idx            int
	calls          SxList // [kind; txid; outcome tag; k; remote L0 listing after]
}

func (p *phaseFault) faulty() (bool, int) {
	i := p.idx
	p.idx++
	return p.at >= 0 && i >= p.at && i < p.at+p.n, i
}

// outcome tags as in the upload model: 0 Ok | 1 FailBefore | 2 FailAfter | 3 ShortRead k | 4 ErrMidStream k
func (p *phaseFault) note(c *faultClient, kind int64, txid uint64, tag int, k int64) {
	p.calls = append(p.calls, L(I(kind), U(txid), I(int64(tag)), I(k), u64sSx(listL0(c.inner.LTXLevelDir(0)))))
}

func (p *phaseFault) list(ctx context.Context, c *faultClient, seek ltx.TXID, useMetadata bool) (ltx.FileIterator, error) {
	bad, _ := p.faulty()
	if !bad {
		defer p.note(c, 0, 0, 0, 0)
		return c.inner.LTXFiles(ctx, 0, seek, useMetadata)
	}
	switch p.variant {
	case 0:
		p.note(c, 0, 0, 1, 0)
		return nil, errInjected
	default:
		k := int64(1)
		if p.variant == 2 {
			k = 0
		}
		p.note(c, 0, 0, 4, k)
		itr, err := c.inner.LTXFiles(ctx, 0, seek, useMetadata)
		if err != nil {
			return nil, err
		}
		return &failingIter{FileIterator: itr, left: k}, nil
	}
}

type cutStream struct {
	rc   io.ReadCloser
	left int64
	eof  bool
}

func (s *cutStream) Close() error { return s.rc.Close() }
func (s *cutStream) Read(b []byte) (int, error) {
	if s.left <= 0 {
		if s.eof {
			return 0, io.EOF
		}
		return 0, errInjected
	}
	if int64(len(b)) > s.left {
		b = b[:s.left]
	}
	n, err := s.rc.Read(b)
	s.left -= int64(n)
	return n, err
}

func (p *phaseFault) open(ctx context.Context, c *faultClient, min, max ltx.TXID, offset, size int64) (io.ReadCloser, error) {
	bad, _ := p.faulty()
	if !bad {
		p.note(c, 2, uint64(max), 0, 0)
		return c.inner.OpenLTXFile(ctx, 0, min, max, offset, size)
	}
	if p.variant == 0 {
		p.note(c, 2, uint64(max), 1, 0)
		return nil, errInjected
	}
	rc, err := c.inner.OpenLTXFile(ctx, 0, min, max, offset, size)
	if err != nil {
		return nil, err
	}
	if p.variant == 1 {
		p.note(c, 2, uint64(max), 4, p.k)
		return &cutStream{rc: rc, left: p.k}, nil
	}
	p.note(c, 2, uint64(max), 3, p.k)
	return &cutStream{rc: rc, left: p.k, eof: true}, nil
}

func (p *phaseFault) write(ctx context.Context, c *faultClient, min, max ltx.TXID, rd io.Reader) (*ltx.FileInfo, error) {
	bad, _ := p.faulty()
	if !bad {
		defer func() { p.note(c, 1, uint64(min), 0, 0) }()
		return c.inner.WriteLTXFile(ctx, 0, min, max, rd)
	}
	switch p.variant {
	case 0:
		p.note(c, 1, uint64(min), 1, 0)
		return nil, errInjected
	case 1:
		_, _ = c.inner.WriteLTXFile(ctx, 0, min, max, rd)
		p.note(c, 1, uint64(min), 2, 0)
		return nil, errInjected
	default:
		_, err := c.inner.WriteLTXFile(ctx, 0, min, max, &failingReader{r: rd, left: p.k})
		p.note(c, 1, uint64(min), 4, p.k)
		if err == nil {
			err = errInjected
		}
		return nil, err
	}
}

// ---- base world: a replica with TXIDs 1..N, the current database and an older copy ----

type behindBase struct {
	dir   string // contains db, db-wal, .db-litestream/, replica/, older.db
	nOld  uint64 // replica position when the older copy was taken
	nLast uint64
}

func appConn(path string) (*sql.DB, error) {
	d, err := sql.Open("sqlite", path)
	if err != nil {
		return nil, err
	}
	d.SetMaxOpenConns(1)
	if _, err := d.Exec("PRAGMA wal_autocheckpoint=0"); err != nil {
		return nil, err
	}
	return d, nil
}

func buildBehindBase(dir string, seed int64) (*behindBase, error) {
	r := NewRand(seed)
	b := &behindBase{dir: dir}
	src, err := newSrcDB(dir)
	if err != nil {
		return nil, err
	}
	fc := file.NewReplicaClient(filepath.Join(dir, "replica"))
	if err := src.open(fc); err != nil {
		return nil, err
	}
	ctx := context.Background()
	for i := 0; i < 3; i++ {
		if err := src.writeNew(r); err != nil {
			return nil, err
		}
	}
	if err := src.db.Replica.Sync(ctx); err != nil {
		return nil, err
	}
	// an older, self-contained copy of the database file
	src.close()
	app, err := appConn(src.path)
	if err != nil {
		return nil, err
	}
	if _, err := app.Exec("PRAGMA wal_checkpoint(TRUNCATE)"); err != nil {
		return nil, err
	}
	_ = app.Close()
	old, err := os.ReadFile(src.path)
	if err != nil {
		return nil, err
	}
	if err := os.WriteFile(filepath.Join(dir, "older.db"), old, 0o644); err != nil {
		return nil, err
	}
	l := listL0(fc.LTXLevelDir(0))
	b.nOld = l[len(l)-1]
	// continue with a new DB object
	src2 := &srcDB{dir: dir, path: src.path}
	if src2.sqldb, err = appConn(src.path); err != nil {
		return nil, err
	}
	src2.db = litestream.NewDB(src.path)
	src2.db.MonitorInterval = 0
	src2.db.Logger = QuietLogger()
	if err := src2.open(fc); err != nil {
		return nil, err
	}
	for i := 0; i < 3; i++ {
		if err := src2.writeNew(r); err != nil {
			return nil, err
		}
	}
	if err := src2.db.Replica.Sync(ctx); err != nil {
		return nil, err
	}
	src2.close()
	l = listL0(fc.LTXLevelDir(0))
	b.nLast = l[len(l)-1]
	return b, nil
}

const sigF11 = "C05/truncated-baseline-after-short-read-in-checkDatabaseBehindReplica-never-recovers"

// start states
const (
	stInStep = iota
	stMetaLost
	stOlderDB
	stOlderDBMetaLost
	stLocalOneBehind
	nStartStates
)

var startNames = []string{"in-step", "meta-dir-lost", "older-db-file", "older-db-file+meta-dir-lost", "newest-local-L0-file-lost"}

type behindSpec struct {
	start   int
	at      int // index of the first failing client call, -1: none
	n       int
	variant int
	class   string
}

type behindResult struct {
	runIn, runObs Sx
	invIn         Sx
	viol          []ImplViolation
}

func runBehind(base *behindBase, dir string, sp behindSpec, seed int64) (res behindResult, err error) {
	defer os.RemoveAll(dir)
	if err = copyTree(base.dir, dir); err != nil {
		return
	}
	path := filepath.Join(dir, "db")
	meta := filepath.Join(dir, ".db-litestream")
	if sp.start == stOlderDB || sp.start == stOlderDBMetaLost {
		old, _ := os.ReadFile(filepath.Join(dir, "older.db"))
		_ = os.Remove(path + "-wal")
		_ = os.Remove(path + "-shm")
		if err = os.WriteFile(path, old, 0o644); err != nil {
			return
		}
	}
	if sp.start == stMetaLost || sp.start == stOlderDBMetaLost {
		_ = os.RemoveAll(meta)
	}
	if sp.start == stLocalOneBehind {
		l0 := filepath.Join(meta, "ltx", "0")
		if l := listL0(l0); len(l) > 0 {
			t := ltx.TXID(l[len(l)-1])
			_ = os.Remove(filepath.Join(l0, ltx.FormatFilename(t, t)))
		}
	}
	r := NewRand(seed)
	src := &srcDB{dir: dir, path: path}
	if src.sqldb, err = appConn(path); err != nil {
		return
	}
	src.db = litestream.NewDB(path)
	src.db.MonitorInterval = 0
	src.db.Logger = QuietLogger()
	src.db.ShutdownSyncTimeout = 2 * time.Second
	src.db.ShutdownSyncInterval = 50 * time.Millisecond
	fc := &faultClient{inner: file.NewReplicaClient(filepath.Join(dir, "replica")), localL0: src.db.LTXLevelDir(0)}
	if err = src.open(fc); err != nil {
		return
	}
	closed := false
	defer func() {
		if !closed {
			src.close()
		} else {
			_ = src.sqldb.Close()
		}
	}()
	ctx := context.Background()
	local0 := listL0(src.db.LTXLevelDir(0))
	remote0 := listL0(fc.inner.LTXLevelDir(0))
	replay := map[string]any{"spec": fmt.Sprintf("%+v", sp), "start": startNames[sp.start]}
	add := func(sig, detail string) {
		res.viol = append(res.viol, ImplViolation{Signature: sig, Detail: detail + " [" + sp.class + "]", Replay: replay})
	}
	var steps, obs, events SxList
	lastAckRemote := remote0[len(remote0)-1]
	changedSinceAck := sp.start != stInStep // the source differs from what the replica holds
	faultsOver := false
	needCatchUp := false
	stuckReported := false
	shortBaseline := false
	// one SyncAndWait, decomposed exactly as DB.SyncAndWait does (db.Sync, then Replica.Sync)
	// so that the local L0 set between the two halves can be observed
	syncWait := func(ph *phaseFault, label string, whole bool) {
		fc.ph = ph
		if ph == nil {
			fc.ph = &phaseFault{at: -1}
		}
		var e1 error
		var localMid []uint64
		func() {
			defer func() {
				if p := recover(); p != nil {
					e1 = fmt.Errorf("panic: %v", p)
				}
			}()
			if whole {
				e1 = src.db.SyncAndWait(ctx)
				localMid = listL0(src.db.LTXLevelDir(0))
				return
			}
			if e1 = src.db.Sync(ctx); e1 != nil {
				return
			}
			localMid = listL0(src.db.LTXLevelDir(0))
			e1 = src.db.Replica.Sync(ctx)
		}()
		calls := fc.ph.calls
		fc.ph = nil
		cls := syncErrClass(e1)
		if e1 != nil && cls == 0 {
			cls = 1
		}
		pos := uint64(src.db.Replica.Pos().TXID)
		local := listL0(src.db.LTXLevelDir(0))
		remote := listL0(fc.inner.LTXLevelDir(0))
		var lmax, rmax uint64
		if len(local) > 0 {
			lmax = local[len(local)-1]
		}
		if len(remote) > 0 {
			rmax = remote[len(remote)-1]
		}
		var sched SxList
		for _, c := range calls {
			n := c.(SxList)
			sched = append(sched, L(n[2], n[3]))
		}
		var tr SxList
		for _, c := range calls {
			n := c.(SxList)
			tr = append(tr, L(n[0], n[1], n[4]))
		}
		steps = append(steps, L(sched, u64sSx(localMid)))
		clsM := cls
		if clsM != 0 {
			clsM = 1
		}
		obs = append(obs, L(I(clsM), U(pos), tr))
		// oracles
		gap := true
		for i := 1; i < len(remote); i++ {
			if remote[i] != remote[i-1]+1 {
				gap = false
			}
		}
		insync, advanced, rok := true, true, true
		if cls == 0 {
			st, e := src.db.SyncStatus(ctx)
			insync = e == nil && st.LocalTXID == st.RemoteTXID && st.LocalTXID > 0
			if !insync {
				add("C05/ack-while-local-behind-or-ahead-of-replica", fmt.Sprintf("%s returned nil but SyncStatus is local=%d remote=%d (err %v); local L0 %v, remote L0 %v", label, st.LocalTXID, st.RemoteTXID, e, local, remote))
			}
			if changedSinceAck && rmax <= lastAckRemote {
				advanced = false
				add("C05/ack-without-upload", fmt.Sprintf("%s returned nil after the source changed but the remote position stayed at %d (local L0 %v)", label, rmax, local))
			}
			img, e := src.sourceImage()
			got, e2 := restoreBytes(fc.inner.Path(), filepath.Join(dir, "restored"))
			if e != nil || e2 != nil || !bytes.Equal(img, got) {
				rok = false
				add("C05/restore-differs-from-source-after-ack", fmt.Sprintf("%s returned nil but Restore(latest) (%v) differs from the source image (%v)", label, e2, e))
			}
			lastAckRemote, changedSinceAck = rmax, false
			needCatchUp = false
		} else if faultsOver {
			if needCatchUp && !stuckReported {
				stuckReported = true
				if shortBaseline && strings.Contains(e1.Error(), "ltx file corrupted") {
					add(sigF11, fmt.Sprintf("start state %s, replica L0 %v: the OpenLTXFile of the baseline file %d returned a short stream (clean EOF after 150 bytes); checkDatabaseBehindReplica published the truncated file locally; from then on %s and every later SyncAndWait fail: %v", startNames[sp.start], remote0, remote0[len(remote0)-1], label, e1))
				} else {
					add("C05/no-catch-up-after-open-faults", fmt.Sprintf("%s: faults are over but it still fails: %v (local L0 %v, remote L0 %v)", label, e1, local, remote))
				}
			}
			needCatchUp = true
		}
		for _, c := range calls {
			n := c.(SxList)
			if SxString(n[0]) == "2" && SxString(n[2]) == "3" {
				shortBaseline = true
			}
		}
		if !gap {
			add("C05/gap-or-false-ack", fmt.Sprintf("after %s the remote L0 listing is %v", label, remote))
		}
		events = append(events, L(I(clsM), U(lmax), U(rmax), B(insync), B(advanced), B(rok), B(gap)))
	}
	var ph *phaseFault
	if sp.at >= 0 {
		ph = &phaseFault{at: sp.at, n: sp.n, variant: sp.variant, k: 150}
	}
	syncWait(ph, "the first SyncAndWait (faults injected)", false)
	faultsOver = true
	needCatchUp = true // from here on a failure may happen once (init is retried), not twice
	syncWait(nil, "SyncAndWait #2", false)
	commit := func() {
		if e := src.write(r); e == nil {
			changedSinceAck = true
		}
	}
	// src.write also runs db.Sync; use the bare application write instead
	appWrite := func() {
		if _, e := src.sqldb.Exec("INSERT INTO t(v) VALUES (randomblob(?))", 1+r.Intn(400)); e == nil {
			changedSinceAck = true
		}
	}
	_ = commit
	appWrite()
	syncWait(nil, "SyncAndWait #3 (after a commit)", true)
	appWrite()
	appWrite()
	syncWait(nil, "SyncAndWait #4 (after two commits)", false)
	// Close performs a last sync of both stages
	appWrite()
	fc.ph = &phaseFault{at: -1}
	ce := src.db.Close(ctx)
	fc.ph = nil
	closed = true
	if ce == nil {
		remote := listL0(fc.inner.LTXLevelDir(0))
		img, e := src.sourceImage()
		got, e2 := restoreBytes(fc.inner.Path(), filepath.Join(dir, "restored"))
		if e != nil || e2 != nil || !bytes.Equal(img, got) {
			add("C05/restore-differs-from-source-after-ack", fmt.Sprintf("Close returned nil but Restore(latest) (%v) differs from the source image; remote L0 %v", e2, remote))
		}
	}
	res.runIn = L(u64sSx(local0), u64sSx(remote0), steps, I(1)) // the file client's listing reports sizes
	res.runObs = obs
	res.invIn = L(events)
	return
}

func genBehind(e *env) error {
	slog.SetDefault(QuietLogger())
	root := filepath.Join(e.out, "behind")
	_ = os.RemoveAll(root)
	defer os.RemoveAll(root)
	base, err := buildBehindBase(filepath.Join(root, "base"), e.seed+9000)
	if err != nil {
		return fmt.Errorf("behind base: %w", err)
	}
	var specs []behindSpec
	maxAt := 3
	if e.thorough {
		maxAt = 7
	}
	for start := 0; start < nStartStates; start++ {
		specs = append(specs, behindSpec{start: start, at: -1, class: "behind/" + startNames[start] + "/no-fault"})
		for at := 0; at < maxAt; at++ {
			for variant := 0; variant < 3; variant++ {
				for n := 1; n <= 2; n++ {
					specs = append(specs, behindSpec{start: start, at: at, n: n, variant: variant,
						class: fmt.Sprintf("behind/%s/call%d/variant%d/x%d", startNames[start], at, variant, n)})
				}
			}
		}
	}
	results := make([]behindResult, len(specs))
	errs := make([]error, len(specs))
	var wg sync.WaitGroup
	sem := make(chan struct{}, 16)
	for i := range specs {
		wg.Add(1)
		sem <- struct{}{}
		go func(i int) {
			defer wg.Done()
			defer func() { <-sem }()
			results[i], errs[i] = runBehind(base, filepath.Join(root, fmt.Sprintf("h%d", i)), specs[i], e.seed+int64(9100+i))
		}(i)
	}
	wg.Wait()
	for i, sp := range specs {
		if errs[i] != nil {
			return fmt.Errorf("%s: %w", sp.class, errs[i])
		}
		e.cw.Add("behind_run", results[i].runIn, results[i].runObs, sp.class, sp.at >= 0 || sp.start != stInStep)
		e.cw.Add("behind_inv_ok", results[i].invIn, I(1), sp.class+"/spec", sp.at >= 0 || sp.start != stInStep)
		for _, v := range results[i].viol {
			e.violation(v.Signature, v.Detail, v.Replay)
		}
	}
	e.extra["behind_histories"] = len(specs)
	return nil
}
