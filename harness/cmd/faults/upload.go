package main

import (
	"bytes"
	"context"
	"database/sql"
	"errors"
	"fmt"
	"io"
	"log/slog"
	"math/rand"
	"os"
	"path/filepath"
	"sort"
	"strings"
	"sync"

	"github.com/benbjohnson/litestream"
	"github.com/benbjohnson/litestream/file"
	"github.com/superfly/ltx"
	_ "modernc.org/sqlite"
	. "verifharness/hx"
)

// client outcome: tag 0 Ok | 1 FailBefore | 2 FailAfter | 3 ShortRead k | 4 ErrMidStream k
type cOutcome struct {
	tag int
	k   int64
}

func (o cOutcome) sx() Sx { return L(I(int64(o.tag)), I(o.k)) }

func schedSx(s []cOutcome) Sx {
	l := make(SxList, len(s))
	for i, o := range s {
		l[i] = o.sx()
	}
	return l
}

var errInjected = errors.New("injected storage fault")

// faultClient wraps the real file.ReplicaClient. While armed, every level-0
// LTXFiles / WriteLTXFile call takes its outcome from the schedule (empty
// schedule = Ok) and is recorded together with the remote L0 listing after it.
type faultClient struct {
	inner   *file.ReplicaClient
	localL0 string
	armed   bool
	sched   []cOutcome
	calls   SxList  // calls of the current sync: [kind txid listing differing]
	events  *SxList // the oracle's event stream
	anomaly string

	// compaction faults (compact.go): reads of one source object, and the outcome
	// of the next write to a level >= 1
	cf        *compFault
	cwOutcome int // 0 ok | 1 fail before | 2 fail after

	// open/init faults (behind.go): while ph is set every level-0 call is counted;
	// calls number ph.at .. ph.at+ph.n-1 fail in the variant ph.variant
	ph *phaseFault
}

var _ litestream.ReplicaClient = (*faultClient)(nil)

func (c *faultClient) Type() string                   { return c.inner.Type() }
func (c *faultClient) Init(ctx context.Context) error { return c.inner.Init(ctx) }
func (c *faultClient) SetLogger(l *slog.Logger)       { c.inner.SetLogger(l) }
func (c *faultClient) DeleteAll(ctx context.Context) error {
	return c.inner.DeleteAll(ctx)
}
func (c *faultClient) DeleteLTXFiles(ctx context.Context, a []*ltx.FileInfo) error {
	return c.inner.DeleteLTXFiles(ctx, a)
}
func (c *faultClient) OpenLTXFile(ctx context.Context, level int, minTXID, maxTXID ltx.TXID, offset, size int64) (io.ReadCloser, error) {
	if c.ph != nil && level == 0 {
		return c.ph.open(ctx, c, minTXID, maxTXID, offset, size)
	}
	if c.cf != nil && c.cf.matches(level, minTXID, maxTXID) {
		return c.cf.open(ctx, c.inner, offset, size)
	}
	return c.inner.OpenLTXFile(ctx, level, minTXID, maxTXID, offset, size)
}

func (c *faultClient) next() cOutcome {
	if len(c.sched) == 0 {
		return cOutcome{}
	}
	o := c.sched[0]
	c.sched = c.sched[1:]
	return o
}

// listL0 reads the remote level-0 directory directly (not through the client).
func listL0(dir string) []uint64 {
	ents, _ := os.ReadDir(dir)
	var out []uint64
	for _, e := range ents {
		min, max, err := ltx.ParseFilename(e.Name())
		if err != nil {
			continue
		}
		if min != max {
			out = append(out, 1<<40+uint64(min)) // never produced by level 0; makes the listing non-contiguous
			continue
		}
		out = append(out, uint64(min))
	}
	sort.Slice(out, func(i, j int) bool { return out[i] < out[j] })
	return out
}

func u64sSx(a []uint64) Sx {
	l := make(SxList, len(a))
	for i, v := range a {
		l[i] = U(v)
	}
	return l
}

// differing counts remote L0 files whose bytes differ from the local file of the same TXID.
func (c *faultClient) differing(listing []uint64) int64 {
	var d int64
	for _, t := range listing {
		name := ltx.FormatFilename(ltx.TXID(t), ltx.TXID(t))
		lb, err := os.ReadFile(filepath.Join(c.localL0, name))
		if err != nil {
			continue // local file gone (local retention): nothing to compare with
		}
		rb, err := os.ReadFile(filepath.Join(c.inner.LTXLevelDir(0), name))
		if err != nil || !bytes.Equal(lb, rb) {
			d++
		}
	}
	return d
}

func (c *faultClient) record(kind int64, txid uint64) {
	listing := listL0(c.inner.LTXLevelDir(0))
	d := c.differing(listing)
	c.calls = append(c.calls, L(I(kind), U(txid), u64sSx(listing), I(d)))
	if c.events != nil {
		*c.events = append(*c.events, L(I(1), I(kind), U(txid), u64sSx(listing), I(d)))
	}
}

type failingIter struct {
	ltx.FileIterator
	left int64
	done bool
}

func (it *failingIter) Next() bool {
	if it.left <= 0 {
		it.done = true
		return false
	}
	it.left--
	if !it.FileIterator.Next() {
		it.done = true
		return false
	}
	return true
}
func (it *failingIter) Err() error { return errInjected }
func (it *failingIter) Close() error {
	_ = it.FileIterator.Close()
	return errInjected
}

func (c *faultClient) LTXFiles(ctx context.Context, level int, seek ltx.TXID, useMetadata bool) (ltx.FileIterator, error) {
	if c.ph != nil && level == 0 {
		return c.ph.list(ctx, c, seek, useMetadata)
	}
	if !c.armed || level != 0 {
		return c.inner.LTXFiles(ctx, level, seek, useMetadata)
	}
	o := c.next()
	defer c.record(0, 0)
	switch o.tag {
	case 0:
		return c.inner.LTXFiles(ctx, level, seek, useMetadata)
	case 1, 2:
		return nil, errInjected
	default:
		itr, err := c.inner.LTXFiles(ctx, level, seek, useMetadata)
		if err != nil {
			return nil, err
		}
		return &failingIter{FileIterator: itr, left: o.k}, nil
	}
}

type failingReader struct {
	r    io.Reader
	left int64
}

func (f *failingReader) Read(p []byte) (int, error) {
	if f.left <= 0 {
		return 0, errInjected
	}
	if int64(len(p)) > f.left {
		p = p[:f.left]
	}
	n, err := f.r.Read(p)
	f.left -= int64(n)
	if err == io.EOF {
		err = errInjected // the fault is "error mid-stream", never a clean early EOF
	}
	return n, err
}

func (c *faultClient) WriteLTXFile(ctx context.Context, level int, minTXID, maxTXID ltx.TXID, rd io.Reader) (*ltx.FileInfo, error) {
	if level >= 1 && c.cwOutcome != 0 {
		o := c.cwOutcome
		c.cwOutcome = 0
		if o == 1 {
			return nil, errInjected
		}
		if _, err := c.inner.WriteLTXFile(ctx, level, minTXID, maxTXID, rd); err != nil {
			return nil, err // the stream itself failed: nothing took effect
		}
		return nil, errInjected
	}
	if c.ph != nil && level == 0 {
		return c.ph.write(ctx, c, minTXID, maxTXID, rd)
	}
	if !c.armed || level != 0 {
		return c.inner.WriteLTXFile(ctx, level, minTXID, maxTXID, rd)
	}
	o := c.next()
	defer c.record(1, uint64(minTXID))
	switch o.tag {
	case 0:
		return c.inner.WriteLTXFile(ctx, level, minTXID, maxTXID, rd)
	case 1:
		return nil, errInjected
	case 2:
		if _, err := c.inner.WriteLTXFile(ctx, level, minTXID, maxTXID, rd); err != nil {
			c.anomaly = "inner write failed under FailAfter: " + err.Error()
		}
		return nil, errInjected
	case 3:
		_, _ = io.CopyN(io.Discard, rd, o.k)
		return nil, errInjected
	default:
		info, err := c.inner.WriteLTXFile(ctx, level, minTXID, maxTXID, &failingReader{r: rd, left: o.k})
		if err == nil {
			c.anomaly = "inner write succeeded although its source failed mid-stream"
			return info, nil
		}
		return nil, err
	}
}

// ---- a real source database ---------------------------------------------------

type srcDB struct {
	dir   string
	path  string
	sqldb *sql.DB
	db    *litestream.DB
}

// writeNew writes until the database has produced one more L0 file.
func (s *srcDB) writeNew(r *rand.Rand) error {
	n := len(s.localL0())
	for i := 0; i < 20 && len(s.localL0()) == n; i++ {
		if err := s.write(r); err != nil {
			return err
		}
	}
	return nil
}

func newSrcDB(dir string) (*srcDB, error) {
	if err := os.MkdirAll(dir, 0o755); err != nil {
		return nil, err
	}
	s := &srcDB{dir: dir, path: filepath.Join(dir, "db")}
	var err error
	if s.sqldb, err = sql.Open("sqlite", s.path); err != nil {
		return nil, err
	}
	s.sqldb.SetMaxOpenConns(1)
	for _, q := range []string{"PRAGMA page_size=512", "PRAGMA journal_mode=wal", "PRAGMA wal_autocheckpoint=0",
		"CREATE TABLE t(id INTEGER PRIMARY KEY, v BLOB)", "CREATE TABLE u(id INTEGER PRIMARY KEY, v BLOB)"} {
		if _, err := s.sqldb.Exec(q); err != nil {
			return nil, fmt.Errorf("%s: %w", q, err)
		}
	}
	s.db = litestream.NewDB(s.path)
	s.db.MonitorInterval = 0
	s.db.Logger = QuietLogger()
	return s, nil
}

func (s *srcDB) open(client litestream.ReplicaClient) error {
	s.db.Replica = litestream.NewReplicaWithClient(s.db, client)
	s.db.Replica.MonitorEnabled = false
	return s.db.Open()
}

func (s *srcDB) write(r *rand.Rand) error {
	tbl := "t"
	if r.Intn(3) == 0 {
		tbl = "u"
	}
	var err error
	if r.Intn(5) == 0 {
		_, err = s.sqldb.Exec("UPDATE "+tbl+" SET v = randomblob(?) WHERE id = (SELECT max(id) FROM "+tbl+")", 1+r.Intn(300))
	} else {
		_, err = s.sqldb.Exec("INSERT INTO "+tbl+"(v) VALUES (randomblob(?))", 1+r.Intn(700))
	}
	if err != nil {
		return err
	}
	return s.db.Sync(context.Background())
}

func (s *srcDB) localL0() []uint64 { return listL0(s.db.LTXLevelDir(0)) }

func (s *srcDB) close() {
	s.db.Replica = nil // no shutdown sync: the history is over
	_ = s.db.Close(context.Background())
	_ = s.sqldb.Close()
}

// sourceImage computes the committed database image of the source from the
// database file overlaid with the committed WAL frames (page map from the WAL
// reader that C09 ties to SQLite's recovery).
func (s *srcDB) sourceImage() ([]byte, error) {
	dbb, err := os.ReadFile(s.path)
	if err != nil {
		return nil, err
	}
	wal, err := os.ReadFile(s.path + "-wal")
	if err != nil || len(wal) < 32 {
		return dbb, nil
	}
	rd, err := litestream.NewWALReader(bytes.NewReader(wal), QuietLogger())
	if err != nil {
		return dbb, nil
	}
	m, _, commit, err := rd.PageMap(context.Background())
	if err != nil {
		return nil, err
	}
	if len(m) == 0 {
		return dbb, nil
	}
	ps := int64(rd.PageSize())
	img := make([]byte, int64(commit)*ps)
	copy(img, dbb)
	for pgno, off := range m {
		if pgno <= commit {
			copy(img[int64(pgno-1)*ps:int64(pgno)*ps], wal[off+24:off+24+ps])
		}
	}
	return img, nil
}

func restoreBytes(root, out string) ([]byte, error) {
	_ = os.Remove(out)
	rep := litestream.NewReplicaWithClient(nil, file.NewReplicaClient(root))
	opt := litestream.NewRestoreOptions()
	opt.OutputPath = out
	if err := rep.Restore(context.Background(), opt); err != nil {
		return nil, err
	}
	defer os.Remove(out)
	return os.ReadFile(out)
}

// ---- running a history on the real Replica -------------------------------------

type upHistory struct {
	src       *srcDB
	rep       *litestream.Replica
	fc        *faultClient
	steps     SxList // model input
	obs       SxList // per sync step: [err pos calls]
	events    SxList // oracle input
	floor     uint64
	retained  bool
	dropped   bool
	nFaults   int
	snapshots int
	anomalies []string
}

func newUpHistory(src *srcDB, remoteDir string) *upHistory {
	h := &upHistory{src: src, floor: 1}
	h.fc = &faultClient{inner: file.NewReplicaClient(remoteDir), localL0: src.db.LTXLevelDir(0), events: &h.events}
	h.rep = litestream.NewReplicaWithClient(src.db, h.fc)
	h.rep.MonitorEnabled = false
	return h
}

func syncErrClass(err error) int64 {
	var le *litestream.LTXError
	switch {
	case err == nil:
		return 0
	case strings.Contains(err.Error(), "no position, waiting for data"):
		return 2
	case errors.As(err, &le):
		return 3
	}
	return 1
}

func (h *upHistory) noteLocal() {
	l := u64sSx(h.src.localL0())
	h.steps = append(h.steps, L(I(0), l))
	h.events = append(h.events, L(I(0), l))
}

// one Replica.sync under the given schedule; returns the unconsumed rest
func (h *upHistory) syncOnceReal(maxfiles int, sched []cOutcome) (cls int64, rest []cOutcome) {
	h.fc.sched = append([]cOutcome(nil), sched...)
	h.fc.armed = true
	func() {
		defer func() {
			if p := recover(); p != nil {
				cls = 9
			}
		}()
		var err error
		if maxfiles == 0 {
			err = h.rep.Sync(context.Background())
		} else {
			err = h.rep.VerifSyncLimited(context.Background(), maxfiles)
		}
		cls = syncErrClass(err)
	}()
	h.fc.armed = false
	if h.fc.anomaly != "" {
		h.anomalies = append(h.anomalies, h.fc.anomaly)
		h.fc.anomaly = ""
	}
	return cls, h.fc.sched
}

func (h *upHistory) sync(maxfiles int, sched []cOutcome) []cOutcome {
	h.fc.calls = nil
	cls, rest := h.syncOnceReal(maxfiles, sched)
	pos := uint64(h.rep.Pos().TXID)
	h.steps = append(h.steps, L(I(3), I(int64(maxfiles)), schedSx(sched)))
	h.obs = append(h.obs, L(I(cls), U(pos), h.fc.calls))
	h.events = append(h.events, L(I(5), I(cls), U(pos)))
	h.nFaults += len(sched) - len(rest)
	return rest
}

func (h *upHistory) retry(attempts int, sched []cOutcome) []cOutcome {
	h.fc.calls = nil
	rest := sched
	var cls int64 = 1
	for i := 0; i < attempts; i++ {
		cls, rest = h.syncOnceReal(0, rest)
		h.events = append(h.events, L(I(5), I(cls), U(uint64(h.rep.Pos().TXID))))
		if cls == 0 {
			break
		}
	}
	h.steps = append(h.steps, L(I(4), I(int64(attempts)), schedSx(sched)))
	h.obs = append(h.obs, L(I(cls), U(uint64(h.rep.Pos().TXID)), h.fc.calls))
	h.nFaults += len(sched) - len(rest)
	return rest
}

func (h *upHistory) retain(k uint64) {
	dir := h.fc.inner.LTXLevelDir(0)
	l := listL0(dir)
	if len(l) == 0 {
		h.steps = append(h.steps, L(I(2), U(k)))
		h.events = append(h.events, L(I(2), U(k), u64sSx(l)))
		return
	}
	kk := k
	if m := l[len(l)-1]; kk > m {
		kk = m
	}
	for _, t := range l {
		if t < kk {
			_ = os.Remove(filepath.Join(dir, ltx.FormatFilename(ltx.TXID(t), ltx.TXID(t))))
		}
	}
	if kk > h.floor {
		h.floor = kk
	}
	h.retained = true
	h.steps = append(h.steps, L(I(2), U(k)))
	h.events = append(h.events, L(I(2), U(k), u64sSx(listL0(dir))))
}

// snapshot: a level-9 file 1..pos appears on the replica (DB.Snapshot uploads it independently of
// the level-0 uploads, so it may be AHEAD of the replica's level 0). Level 9 is not part of what
// Replica.sync reads: in the model the step changes nothing (HSnap).
func (h *upHistory) snapshot() {
	ctx := context.Background()
	pos, rd, err := h.src.db.SnapshotReader(ctx)
	if err != nil {
		return
	}
	defer rd.Close()
	if pos.TXID == 0 {
		return
	}
	if _, err := h.fc.inner.WriteLTXFile(ctx, litestream.SnapshotLevel, 1, pos.TXID, rd); err != nil {
		return
	}
	h.steps = append(h.steps, L(I(5), U(uint64(pos.TXID))))
	h.snapshots++
}

func (h *upHistory) emit(e *env, class string) {
	nontriv := h.nFaults > 0
	e.cw.Add("upload_run", L(h.steps), h.obs, class, nontriv)
	e.cw.Add("upload_inv_ok", L(h.events), I(1), class+"/spec", nontriv)
	for _, a := range h.anomalies {
		e.violation("C05/harness-anomaly", a, map[string]any{"steps": SxString(h.steps)})
	}
}

// finalChecks: after a fault-free sync remote = local (above the retention
// floor), and a restore of the replica equals the restore of the local files
// and the source database image.
func (h *upHistory) finalChecks(e *env, class string, withRestore bool) {
	local := h.src.localL0()
	remote := listL0(h.fc.inner.LTXLevelDir(0))
	want := []uint64{}
	for _, t := range local {
		if t >= h.floor {
			want = append(want, t)
		}
	}
	replay := map[string]any{"steps": SxString(h.steps), "entry": "upload_run"}
	if h.dropped {
		return // the upload cannot get past a missing local file; nothing to catch up to
	}
	if fmt.Sprint(want) != fmt.Sprint(remote) {
		e.violation("C05/no-catch-up", fmt.Sprintf("after a fault-free sync remote L0 = %v, local L0 (>= floor %d) = %v", remote, h.floor, want), replay)
		return
	}
	if !withRestore || h.retained {
		return
	}
	e.extra["upload_restores"] = asInt(e.extra["upload_restores"]) + 1
	got, err := restoreBytes(h.fc.inner.Path(), filepath.Join(h.src.dir, "restored-remote"))
	if err != nil {
		e.violation("C05/restore-after-faults-fails", "restore of the replica after the fault-free suffix: "+err.Error(), replay)
		return
	}
	ref, err := restoreBytes(h.src.db.MetaPath(), filepath.Join(h.src.dir, "restored-local"))
	if err != nil {
		e.violation("C05/harness-anomaly", "restore of the local L0 chain failed: "+err.Error(), replay)
		return
	}
	if !bytes.Equal(got, ref) {
		e.violation("C05/restore-differs-from-local-chain", "restore of the replica differs from the restore of the local L0 files", replay)
	}
	img, err := h.src.sourceImage()
	if err != nil {
		e.violation("C05/harness-anomaly", "source image: "+err.Error(), replay)
		return
	}
	if !bytes.Equal(got, img) {
		e.violation("C05/restore-differs-from-source", fmt.Sprintf("restore of the replica (%d bytes) differs from the source database image (%d bytes)", len(got), len(img)), replay)
	}
}

func asInt(v any) int {
	if i, ok := v.(int); ok {
		return i
	}
	return 0
}

func randOutcome(r *rand.Rand) cOutcome {
	switch r.Intn(8) {
	case 0, 1, 2:
		return cOutcome{0, 0}
	case 3:
		return cOutcome{1, 0}
	case 4, 5:
		return cOutcome{2, 0}
	case 6:
		return cOutcome{3, int64(r.Intn(400))}
	default:
		return cOutcome{4, int64(r.Intn(400))}
	}
}

func genUpload(e *env) error {
	slog.SetDefault(QuietLogger())
	r := NewRand(e.seed + 1000)
	root := filepath.Join(e.out, "upload")
	_ = os.RemoveAll(root)
	defer os.RemoveAll(root)

	// (1) exhaustive: a fixed local set 1..3, every schedule of up to maxLen client
	// calls, consumed by repeated syncs, then the fault-free sync. Several
	// databases work through the schedules in parallel; results keep enumeration order.
	alpha := []cOutcome{{0, 0}, {1, 0}, {2, 0}, {3, 40}, {4, 150}}
	maxLen := 4
	if e.thorough {
		maxLen = 6
	}
	var scheds [][]cOutcome
	var rec func(prefix []cOutcome)
	rec = func(prefix []cOutcome) {
		scheds = append(scheds, append([]cOutcome(nil), prefix...))
		if len(prefix) == maxLen {
			return
		}
		for _, a := range alpha {
			rec(append(prefix, a))
		}
	}
	rec(nil)
	type exRes struct {
		h     *upHistory
		final func(e *env)
	}
	hist := make([]*upHistory, len(scheds))
	finals := make([][]ImplViolation, len(scheds))
	restores := make([]int, len(scheds))
	const exWorkers = 8
	var wg sync.WaitGroup
	var emu sync.Mutex
	var exErr error
	for wi := 0; wi < exWorkers; wi++ {
		wg.Add(1)
		go func(wi int) {
			defer wg.Done()
			fail := func(err error) {
				emu.Lock()
				if exErr == nil {
					exErr = err
				}
				emu.Unlock()
			}
			wr := NewRand(e.seed + 1000)
			dir := filepath.Join(root, fmt.Sprintf("ex%d", wi))
			src, err := newSrcDB(dir)
			if err != nil {
				fail(err)
				return
			}
			if err := src.open(file.NewReplicaClient(filepath.Join(dir, "unused"))); err != nil {
				fail(err)
				return
			}
			defer src.close()
			for i := 0; i < 3; i++ {
				if err := src.writeNew(wr); err != nil {
					fail(err)
					return
				}
			}
			for i := wi; i < len(scheds); i += exWorkers {
				remote := filepath.Join(dir, fmt.Sprintf("r%d", i))
				h := newUpHistory(src, remote)
				h.noteLocal()
				rest := append([]cOutcome(nil), scheds[i]...)
				for round := 0; round < 10 && len(rest) > 0; round++ {
					rest = h.sync(0, rest)
				}
				h.sync(0, nil)
				sub := &env{extra: map[string]any{}}
				h.finalChecks(sub, "exhaustive", i%40 == 0)
				hist[i], finals[i], restores[i] = h, sub.impl, asInt(sub.extra["upload_restores"])
				_ = os.RemoveAll(remote)
			}
		}(wi)
	}
	wg.Wait()
	if exErr != nil {
		return exErr
	}
	for i, h := range hist {
		h.emit(e, fmt.Sprintf("upload/exhaustive/len%d", len(scheds[i])))
		for _, v := range finals[i] {
			e.violation(v.Signature, v.Detail, v.Replay)
		}
		e.extra["upload_restores"] = asInt(e.extra["upload_restores"]) + restores[i]
	}

	// (2) sampled histories over a growing database
	_ = r
	type sres struct {
		h     *upHistory
		class string
		sub   *env
		err   error
	}
	sr := make([]sres, e.n)
	sem := make(chan struct{}, 8)
	var wg2 sync.WaitGroup
	for i := 0; i < e.n; i++ {
		wg2.Add(1)
		sem <- struct{}{}
		go func(i int) {
			defer wg2.Done()
			defer func() { <-sem }()
			sub := &env{extra: map[string]any{}}
			h, class, err := randomUploadHistory(sub, NewRand(e.seed+2000+int64(i)), filepath.Join(root, fmt.Sprintf("h%d", i)))
			sr[i] = sres{h, class, sub, err}
		}(i)
	}
	wg2.Wait()
	// (3) directed: the snapshot level is ahead of the replica's level 0 when the cached position is
	// lost (one transient fault of each kind, or a new Replica object = restart) and has to be recomputed:
	// the un-uploaded level-0 files must still be uploaded (seed C05d: position recomputed from level 9)
	for di, fk := range []cOutcome{{1, 0}, {2, 0}, {3, 40}, {4, 150}, {0, 0}} {
		for _, listFault := range []bool{false, true} {
			sub := &env{extra: map[string]any{}}
			h, err := directedSnapshotAhead(sub, NewRand(e.seed+3000+int64(di)), filepath.Join(root, fmt.Sprintf("d%d%v", di, listFault)), fk, listFault)
			if err != nil {
				return err
			}
			h.emit(e, "upload/directed/snapshot-ahead")
			for _, v := range sub.impl {
				e.violation(v.Signature, v.Detail, v.Replay)
			}
			e.extra["upload_restores"] = asInt(e.extra["upload_restores"]) + asInt(sub.extra["upload_restores"])
		}
	}
	for _, x := range sr {
		if x.err != nil {
			return x.err
		}
		x.h.emit(e, x.class)
		for _, v := range x.sub.impl {
			e.violation(v.Signature, v.Detail, v.Replay)
		}
		e.extra["upload_restores"] = asInt(e.extra["upload_restores"]) + asInt(x.sub.extra["upload_restores"])
	}
	return nil
}

// directedSnapshotAhead: 3 files uploaded; 2 more staged locally; a snapshot of position 5 reaches the
// replica; the next sync loses its cached position through one fault (a failing write, or with
// listFault a failing listing after a clean loss of the position); then the fault-free suffix.
func directedSnapshotAhead(e *env, r *rand.Rand, dir string, fk cOutcome, listFault bool) (*upHistory, error) {
	src, err := newSrcDB(dir)
	if err != nil {
		return nil, err
	}
	defer os.RemoveAll(dir)
	if err := src.open(file.NewReplicaClient(filepath.Join(dir, "unused"))); err != nil {
		return nil, err
	}
	defer src.close()
	h := newUpHistory(src, filepath.Join(dir, "replica"))
	for i := 0; i < 3; i++ {
		if err := src.write(r); err != nil {
			return nil, err
		}
	}
	h.noteLocal()
	h.sync(0, nil)
	for i := 0; i < 2; i++ {
		if err := src.write(r); err != nil {
			return nil, err
		}
	}
	h.noteLocal()
	h.snapshot()
	if listFault {
		h.sync(0, []cOutcome{fk, {1, 0}}) // the write fails (position cleared), ...
		h.sync(0, []cOutcome{{1, 0}})     // ... the listing that recomputes it fails once, ...
	} else {
		h.sync(0, []cOutcome{fk})
	}
	h.sync(1, nil) // ... and the position is recomputed while level 9 is ahead of level 0
	h.sync(0, nil)
	h.finalChecks(e, "upload/directed/snapshot-ahead", true)
	return h, nil
}

func randomUploadHistory(e *env, r *rand.Rand, dir string) (*upHistory, string, error) {
	src, err := newSrcDB(dir)
	if err != nil {
		return nil, "", err
	}
	defer os.RemoveAll(dir)
	if err := src.open(file.NewReplicaClient(filepath.Join(dir, "unused"))); err != nil {
		return nil, "", err
	}
	defer src.close()
	h := newUpHistory(src, filepath.Join(dir, "replica"))
	class := "upload/sampled"
	nsteps := 4 + r.Intn(12)
	allowRetain := r.Intn(6) == 0
	allowDrop := r.Intn(12) == 0
	if r.Intn(5) == 0 { // a sync before any data exists
		h.noteLocal()
		h.sync(0, nil)
	}
	for i := 0; i < nsteps; i++ {
		switch k := r.Intn(10); {
		case k < 4:
			nw := 1 + r.Intn(3)
			for j := 0; j < nw; j++ {
				if err := src.write(r); err != nil {
					return nil, "", err
				}
			}
			h.noteLocal()
			if r.Intn(4) == 0 { // a snapshot ahead of the level-0 uploads
				h.snapshot()
				class = "upload/sampled/snapshot-ahead"
			}
		case k < 8:
			ns := r.Intn(7)
			sc := make([]cOutcome, ns)
			for j := range sc {
				sc[j] = randOutcome(r)
			}
			mf := 0
			if r.Intn(3) == 0 {
				mf = 1 + r.Intn(3)
			}
			h.sync(mf, sc)
		case k < 9:
			ns := r.Intn(8)
			sc := make([]cOutcome, ns)
			for j := range sc {
				sc[j] = randOutcome(r)
			}
			h.retry(1+r.Intn(4), sc)
		default:
			if allowRetain {
				h.retain(uint64(r.Intn(8)))
				class = "upload/sampled/retention"
			} else if allowDrop {
				if l := src.localL0(); len(l) > 2 {
					t := l[r.Intn(len(l)-1)]
					_ = os.Remove(filepath.Join(src.db.LTXLevelDir(0), ltx.FormatFilename(ltx.TXID(t), ltx.TXID(t))))
					h.dropped = true
					h.noteLocal()
					class = "upload/sampled/local-drop"
				}
			}
		}
	}
	if len(src.localL0()) == 0 {
		if err := src.write(r); err != nil {
			return nil, "", err
		}
		h.noteLocal()
	}
	h.sync(0, nil) // the fault-free suffix
	h.finalChecks(e, class, true)
	return h, class, nil
}

// replayUpload re-runs the steps of an upload_run case on the real code. The
// local L0 set is re-created by writing until the database has as many files.
func replayUpload(e *env, c Case) error {
	if c.Entry != "upload_run" {
		return nil
	}
	slog.SetDefault(QuietLogger())
	r := NewRand(e.seed + 1000)
	dir := filepath.Join(e.out, "upload-replay")
	_ = os.RemoveAll(dir)
	defer os.RemoveAll(dir)
	src, err := newSrcDB(dir)
	if err != nil {
		return err
	}
	if err := src.open(file.NewReplicaClient(filepath.Join(dir, "unused"))); err != nil {
		return err
	}
	defer src.close()
	h := newUpHistory(src, filepath.Join(dir, "replica"))
	dec := func(n *Node) []cOutcome {
		var s []cOutcome
		for _, it := range n.List {
			s = append(s, cOutcome{int(it.At(0).Int()), it.At(1).Int()})
		}
		return s
	}
	for _, st := range c.In.At(0).List {
		switch st.At(0).Int() {
		case 0:
			want := map[uint64]bool{}
			var max uint64
			for _, t := range st.At(1).List {
				want[t.Uint()] = true
				if t.Uint() > max {
					max = t.Uint()
				}
			}
			for {
				l := src.localL0()
				if len(l) > 0 && l[len(l)-1] >= max {
					break
				}
				if err := src.write(r); err != nil {
					return err
				}
			}
			for _, t := range src.localL0() {
				if !want[t] {
					_ = os.Remove(filepath.Join(src.db.LTXLevelDir(0), ltx.FormatFilename(ltx.TXID(t), ltx.TXID(t))))
					h.dropped = true
				}
			}
			h.noteLocal()
		case 2:
			h.retain(st.At(1).Uint())
		case 5:
			h.snapshot()
		case 3:
			h.sync(int(st.At(1).Int()), dec(st.At(2)))
		default:
			h.retry(int(st.At(1).Int()), dec(st.At(2)))
		}
	}
	h.emit(e, "replay")
	return nil
}
