// Command wal: correspondence cases for the WAL reader (C09).
package main

import (
	"bytes"
	"context"
	"database/sql"
	"encoding/binary"
	"errors"
	"flag"
	"fmt"
	"io"
	"math/rand"
	"os"
	"path/filepath"

	"github.com/benbjohnson/litestream"
	. "verifharness/hx"
	_ "modernc.org/sqlite"
)


// ---- synthetic WAL construction (independent of litestream's code) ----------

type wframe struct {
	pgno, commit uint32
	salt1, salt2 uint32
	data         []byte
}

func ckstep(bo binary.ByteOrder, s0, s1 uint32, b []byte) (uint32, uint32) {
	for i := 0; i+8 <= len(b); i += 8 {
		s0 += bo.Uint32(b[i:]) + s1
		s1 += bo.Uint32(b[i+4:]) + s0
	}
	return s0, s1
}

// buildWAL serialises a header and frames with a correct checksum chain.
func buildWAL(bigEndian bool, ps, seq, salt1, salt2 uint32, frames []wframe) []byte {
	var bo binary.ByteOrder = binary.LittleEndian
	magic := uint32(0x377f0682)
	if bigEndian {
		bo = binary.BigEndian
		magic = 0x377f0683
	}
	buf := make([]byte, 32, 32+len(frames)*(24+int(ps)))
	binary.BigEndian.PutUint32(buf[0:], magic)
	binary.BigEndian.PutUint32(buf[4:], 3007000)
	binary.BigEndian.PutUint32(buf[8:], ps)
	binary.BigEndian.PutUint32(buf[12:], seq)
	binary.BigEndian.PutUint32(buf[16:], salt1)
	binary.BigEndian.PutUint32(buf[20:], salt2)
	c0, c1 := ckstep(bo, 0, 0, buf[:24])
	binary.BigEndian.PutUint32(buf[24:], c0)
	binary.BigEndian.PutUint32(buf[28:], c1)
	for _, f := range frames {
		h := make([]byte, 24)
		binary.BigEndian.PutUint32(h[0:], f.pgno)
		binary.BigEndian.PutUint32(h[4:], f.commit)
		binary.BigEndian.PutUint32(h[8:], f.salt1)
		binary.BigEndian.PutUint32(h[12:], f.salt2)
		c0, c1 = ckstep(bo, c0, c1, h[:8])
		c0, c1 = ckstep(bo, c0, c1, f.data)
		binary.BigEndian.PutUint32(h[16:], c0)
		binary.BigEndian.PutUint32(h[20:], c1)
		buf = append(buf, h...)
		buf = append(buf, f.data...)
	}
	return buf
}

// rechain recomputes every checksum of w from the header on (used after edits
// "with checksum repair"); frames keep their salts.
func rechain(w []byte) []byte {
	if len(w) < 32 {
		return w
	}
	out := append([]byte(nil), w...)
	var bo binary.ByteOrder = binary.LittleEndian
	if binary.BigEndian.Uint32(out[0:]) == 0x377f0683 {
		bo = binary.BigEndian
	}
	ps := int(binary.BigEndian.Uint32(out[8:]))
	c0, c1 := ckstep(bo, 0, 0, out[:24])
	binary.BigEndian.PutUint32(out[24:], c0)
	binary.BigEndian.PutUint32(out[28:], c1)
	if ps%8 != 0 || ps <= 0 {
		return out
	}
	for off := 32; off+24+ps <= len(out); off += 24 + ps {
		c0, c1 = ckstep(bo, c0, c1, out[off:off+8])
		c0, c1 = ckstep(bo, c0, c1, out[off+24:off+24+ps])
		binary.BigEndian.PutUint32(out[off+16:], c0)
		binary.BigEndian.PutUint32(out[off+20:], c1)
	}
	return out
}

func randPage(r *rand.Rand, ps uint32) []byte {
	b := make([]byte, ps)
	switch r.Intn(3) {
	case 0:
		r.Read(b)
	case 1:
		for i := range b {
			b[i] = byte(r.Intn(4))
		}
	default: // mostly zero with a marker
		if ps >= 4 {
			binary.BigEndian.PutUint32(b, r.Uint32())
		}
	}
	return b
}

// genSynthetic builds a WAL: valid committed transactions, optionally an
// uncommitted tail and a stale tail (other salts, or same salts broken chain).
func genSynthetic(r *rand.Rand) (w []byte, class string) {
	pss := []uint32{8, 16, 64, 512, 512, 1024, 1024, 4096}
	ps := pss[r.Intn(len(pss))]
	big := r.Intn(4) == 0
	salt1, salt2 := r.Uint32(), r.Uint32()
	if r.Intn(8) == 0 {
		salt1, salt2 = 0, 0
	}
	maxPg := uint32(2 + r.Intn(12))
	dbsize := uint32(1 + r.Intn(int(maxPg)))
	var frames []wframe
	ntx := r.Intn(7)
	for t := 0; t < ntx; t++ {
		n := 1 + r.Intn(4)
		// database may grow or shrink per transaction
		switch r.Intn(4) {
		case 0:
			dbsize += uint32(r.Intn(3))
		case 1:
			if dbsize > 1 {
				dbsize -= uint32(r.Intn(int(dbsize)))
				if dbsize == 0 {
					dbsize = 1
				}
			}
		}
		for i := 0; i < n; i++ {
			pg := uint32(1 + r.Intn(int(maxPg)+2))
			c := uint32(0)
			if i == n-1 {
				c = dbsize
			}
			frames = append(frames, wframe{pg, c, salt1, salt2, randPage(r, ps)})
		}
	}
	class = "syn"
	if r.Intn(3) == 0 { // uncommitted tail
		n := 1 + r.Intn(3)
		for i := 0; i < n; i++ {
			frames = append(frames, wframe{uint32(1 + r.Intn(int(maxPg))), 0, salt1, salt2, randPage(r, ps)})
		}
		class += "+uncommitted"
	}
	w = buildWAL(big, ps, r.Uint32()%5, salt1, salt2, frames)
	if r.Intn(3) == 0 { // stale tail of an earlier generation
		var stale []wframe
		os1, os2 := salt1-1, r.Uint32()
		n := 1 + r.Intn(4)
		for i := 0; i < n; i++ {
			c := uint32(0)
			if r.Intn(2) == 0 {
				c = uint32(1 + r.Intn(int(maxPg)))
			}
			stale = append(stale, wframe{uint32(1 + r.Intn(int(maxPg))), c, os1, os2, randPage(r, ps)})
		}
		old := buildWAL(big, ps, 0, os1, os2, stale)
		w = append(w, old[32:]...)
		class += "+stale"
	}
	if big {
		class += "+be"
	}
	return w, class
}

// genSQLite produces a WAL by running real transactions in SQLite.
func genSQLite(r *rand.Rand, dir string, idx int) (w []byte, class string, err error) {
	pss := []int{512, 1024, 4096, 512, 1024, 512, 1024, 65536}
	ps := pss[r.Intn(len(pss))]
	path := filepath.Join(dir, fmt.Sprintf("g%d.db", idx))
	defer func() {
		os.Remove(path)
		os.Remove(path + "-wal")
		os.Remove(path + "-shm")
	}()
	db, err := sql.Open("sqlite", path)
	if err != nil {
		return nil, "", err
	}
	defer db.Close()
	db.SetMaxOpenConns(1)
	exec := func(q string, a ...any) error { _, e := db.Exec(q, a...); return e }
	if err = exec(fmt.Sprintf("PRAGMA page_size=%d", ps)); err != nil {
		return
	}
	if r.Intn(2) == 0 {
		_ = exec("PRAGMA auto_vacuum=incremental")
	}
	if err = exec("PRAGMA journal_mode=wal"); err != nil {
		return
	}
	_ = exec("PRAGMA wal_autocheckpoint=0")
	if err = exec("CREATE TABLE t(id INTEGER PRIMARY KEY, v BLOB)"); err != nil {
		return
	}
	class = fmt.Sprintf("sqlite ps=%d", ps)
	ntx := 1 + r.Intn(8)
	if ps > 4096 {
		ntx = 1 + r.Intn(3)
	}
	restarted := false
	for t := 0; t < ntx; t++ {
		switch r.Intn(10) {
		case 0:
			_ = exec("DELETE FROM t WHERE id % 2 = 0")
			_ = exec("PRAGMA incremental_vacuum")
		case 1:
			if !restarted && t > 1 {
				// checkpoint + restart: next writes start a new generation, leaving a stale tail
				_ = exec("PRAGMA wal_checkpoint(RESTART)")
				restarted = true
				class += "+restart"
			}
		case 2:
			tx, e := db.Begin()
			if e == nil {
				_, _ = tx.Exec("INSERT INTO t(v) VALUES (randomblob(?))", 100+r.Intn(3*ps))
				_ = tx.Rollback()
			}
		default:
			if e := exec("INSERT INTO t(v) VALUES (randomblob(?))", 10+r.Intn(2*ps)); e != nil {
				return nil, "", e
			}
		}
	}
	w, err = os.ReadFile(path + "-wal")
	return w, class, err
}

// ---- mutations ---------------------------------------------------------------

func walGeom(w []byte) (ps, nframes int) {
	if len(w) < 32 {
		return 0, 0
	}
	ps = int(binary.BigEndian.Uint32(w[8:]))
	if ps <= 0 || ps > 1<<20 {
		return ps, 0
	}
	return ps, (len(w) - 32) / (24 + ps)
}

func mutate(r *rand.Rand, w []byte) ([]byte, string) {
	ps, nf := walGeom(w)
	fs := 24 + ps
	out := append([]byte(nil), w...)
	if len(out) == 0 {
		return out, "empty"
	}
	switch k := r.Intn(12); {
	case k == 0: // truncate near a frame boundary
		if nf > 0 {
			cut := 32 + r.Intn(nf+1)*fs + r.Intn(7) - 3
			if cut < 0 {
				cut = 0
			}
			if cut > len(out) {
				cut = len(out)
			}
			return out[:cut], "truncate-boundary"
		}
		return out[:r.Intn(len(out)+1)], "truncate"
	case k == 1:
		return out[:r.Intn(len(out)+1)], "truncate"
	case k == 2: // flip in header
		if len(out) >= 32 {
			out[r.Intn(32)] ^= 1 << uint(r.Intn(8))
		}
		return out, "flip-header"
	case k == 3 && nf > 0: // flip in a frame header
		f := r.Intn(nf)
		out[32+f*fs+r.Intn(24)] ^= 1 << uint(r.Intn(8))
		return out, "flip-framehdr"
	case k == 4 && nf > 0 && ps > 0: // flip in page data
		f := r.Intn(nf)
		out[32+f*fs+24+r.Intn(ps)] ^= 1 << uint(r.Intn(8))
		return out, "flip-page"
	case k == 5 && nf > 0: // duplicate a frame
		f := r.Intn(nf)
		at := 32 + r.Intn(nf+1)*fs
		fr := append([]byte(nil), out[32+f*fs:32+(f+1)*fs]...)
		res := append([]byte(nil), out[:at]...)
		res = append(res, fr...)
		res = append(res, out[at:]...)
		return res, "dup-frame"
	case k == 6 && nf > 1: // swap two frames
		a, b := r.Intn(nf), r.Intn(nf)
		fa := append([]byte(nil), out[32+a*fs:32+(a+1)*fs]...)
		copy(out[32+a*fs:], out[32+b*fs:32+(b+1)*fs])
		copy(out[32+b*fs:], fa)
		return out, "swap-frames"
	case k == 7 && nf > 0: // salt edit in one frame (with and without repair)
		f := r.Intn(nf)
		out[32+f*fs+8+r.Intn(8)] ^= byte(1 + r.Intn(255))
		if r.Intn(2) == 0 {
			return rechain(out), "salt-edit-repaired"
		}
		return out, "salt-edit"
	case k == 8 && nf > 0: // commit field edit
		f := r.Intn(nf)
		v := uint32(r.Intn(16))
		binary.BigEndian.PutUint32(out[32+f*fs+4:], v)
		if r.Intn(3) != 0 {
			return rechain(out), "commit-edit-repaired"
		}
		return out, "commit-edit"
	case k == 9 && nf > 0: // pgno edit with repair (never 0: outside the property's input class, covered separately)
		f := r.Intn(nf)
		binary.BigEndian.PutUint32(out[32+f*fs:], uint32(1+r.Intn(20)))
		return rechain(out), "pgno-edit-repaired"
	case k == 10 && nf > 0: // pgno 0 with repair: the documented divergence from SQLite
		f := r.Intn(nf)
		binary.BigEndian.PutUint32(out[32+f*fs:], 0)
		return rechain(out), "pgno0-repaired"
	case k == 11: // header field edit with repair (seq, version, magic low bit)
		if len(out) >= 32 {
			switch r.Intn(3) {
			case 0:
				out[15] ^= 1
			case 1:
				out[7] ^= 1
			default:
				out[3] ^= 1 // byte order flag without re-encoding frames
			}
			return rechain(out), "hdr-edit-repaired"
		}
	}
	return out, "none"
}

// ---- running the implementation ------------------------------------------------

type walObs struct {
	status  int
	m       map[uint32]int64
	end     int64
	commit  uint32
	limited bool
}

func (o walObs) sx() Sx {
	pairs := make(SxList, 0, len(o.m))
	for _, k := range SortedKeysU32(o.m) {
		pairs = append(pairs, L(U(uint64(k)), I(o.m[k])))
	}
	return L(I(int64(o.status)), pairs, I(o.end), U(uint64(o.commit)), B(o.limited))
}

func runWAL(w []byte, offset int64, s1, s2 uint32, maxBytes int64) (obs walObs) {
	defer func() {
		if p := recover(); p != nil {
			obs = walObs{status: 9}
		}
	}()
	ctx := context.Background()
	var rd *litestream.WALReader
	var err error
	if offset == 0 {
		rd, err = litestream.NewWALReader(bytes.NewReader(w), QuietLogger())
		if err != nil {
			if errors.Is(err, io.EOF) {
				return walObs{status: 1}
			}
			return walObs{status: 2}
		}
	} else {
		rd, err = litestream.NewWALReaderWithOffset(ctx, bytes.NewReader(w), offset, s1, s2, QuietLogger())
		if err != nil {
			var pfm *litestream.PrevFrameMismatchError
			if errors.As(err, &pfm) {
				return walObs{status: 4}
			}
			return walObs{status: 3}
		}
	}
	m, end, commit, limited, err := rd.PageMapLimited(ctx, maxBytes)
	if err != nil {
		return walObs{status: 8}
	}
	return walObs{status: 0, m: m, end: end, commit: commit, limited: limited}
}

func runSalts(w []byte, u1, u2 uint32) (out Sx) {
	defer func() {
		if p := recover(); p != nil {
			out = L(I(9), L())
		}
	}()
	rd, err := litestream.NewWALReader(bytes.NewReader(w), QuietLogger())
	if err != nil {
		if errors.Is(err, io.EOF) {
			return L(I(1), L())
		}
		return L(I(2), L())
	}
	m, err := rd.FrameSaltsUntil(context.Background(), [2]uint32{u1, u2})
	if err != nil {
		return L(I(8), L())
	}
	type pr struct{ a, b uint32 }
	var ps []pr
	for k := range m {
		ps = append(ps, pr{k[0], k[1]})
	}
	for i := range ps {
		for j := i + 1; j < len(ps); j++ {
			if ps[j].a < ps[i].a || (ps[j].a == ps[i].a && ps[j].b < ps[i].b) {
				ps[i], ps[j] = ps[j], ps[i]
			}
		}
	}
	l := make(SxList, 0, len(ps))
	for _, p := range ps {
		l = append(l, L(U(uint64(p.a)), U(uint64(p.b))))
	}
	return L(I(0), l)
}

func usableForGo(w []byte) bool {
	// the Go reader asserts (panics) on page sizes that are not a multiple of 8
	// and would allocate the page size; both are outside the property's input class.
	if len(w) < 32 {
		return true
	}
	ps := binary.BigEndian.Uint32(w[8:])
	return ps%8 == 0 && ps <= 1<<17
}

func emitWALCases(cw *CaseWriter, r *rand.Rand, w []byte, class string) {
	if !usableForGo(w) {
		cw.Classes["skipped-pagesize"]++
		return
	}
	ps, nf := walGeom(w)
	fs := int64(24 + ps)
	var hs1, hs2 uint32
	if len(w) >= 32 {
		hs1, hs2 = binary.BigEndian.Uint32(w[16:]), binary.BigEndian.Uint32(w[20:])
	}
	cw.Define("w", SxBytes(w))
	wb := Ref("w")
	add := func(off int64, s1, s2 uint32, maxb int64, cls string) walObs {
		o := runWAL(w, off, s1, s2, maxb)
		cw.Add("wal_run", L(wb, I(off), U(uint64(s1)), U(uint64(s2)), I(maxb)), o.sx(), cls, o.status != 0 || len(o.m) > 0)
		return o
	}
	// whole file, no limit + the specification-level oracle on the same output
	o := add(0, 0, 0, 0, class)
	pairs := make(SxList, 0, len(o.m))
	for _, k := range SortedKeysU32(o.m) {
		pairs = append(pairs, L(U(uint64(k)), I(o.m[k])))
	}
	cw.Add("wal_spec_ok", L(wb, I(int64(o.status)), pairs, I(o.end), U(uint64(o.commit))), I(1), class+"/spec", len(o.m) > 0)
	// byte budgets
	budgets := []int64{1, fs, 3 * fs, int64(1 + r.Intn(int(6*fs)))}
	add(0, 0, 0, budgets[r.Intn(len(budgets))], class+"/budget")
	// resume at frame boundaries (and one misaligned / out of range offset)
	if nf > 0 {
		for i := 0; i < 2; i++ {
			k := 1 + r.Intn(nf+1)
			off := 32 + int64(k)*fs
			s1, s2 := hs1, hs2
			if r.Intn(6) == 0 {
				s2 ^= 1
			}
			var mb int64
			if r.Intn(2) == 0 {
				mb = budgets[r.Intn(len(budgets))]
			}
			add(off, s1, s2, mb, class+"/resume")
		}
		if r.Intn(4) == 0 {
			add(32+int64(r.Intn(nf+1))*fs+int64(1+r.Intn(int(fs)-1)), hs1, hs2, 0, class+"/resume-unaligned")
		}
	}
	if r.Intn(8) == 0 {
		add(int64(r.Intn(33)), hs1, hs2, 0, class+"/resume-low")
	}
	// salts
	u1, u2 := hs1, hs2
	if nf > 0 && r.Intn(2) == 0 {
		f := r.Intn(nf)
		u1 = binary.BigEndian.Uint32(w[32+int64(f)*fs+8:])
		u2 = binary.BigEndian.Uint32(w[32+int64(f)*fs+12:])
	} else if r.Intn(3) == 0 {
		u1 = r.Uint32()
	}
	cw.Add("wal_salts", L(wb, U(uint64(u1)), U(uint64(u2))), runSalts(w, u1, u2), class+"/salts", nf > 0)
}

func main() {
	if err := cmdWal(os.Args[1:]); err != nil {
		fmt.Fprintln(os.Stderr, "harness error:", err)
		os.Exit(3)
	}
}

func cmdWal(args []string) error {
	fl := flag.NewFlagSet("wal", flag.ContinueOnError)
	out := fl.String("out", "", "work directory")
	n := fl.Int("n", 300, "number of base WALs")
	seed := fl.Int64("seed", 1, "PRNG seed")
	replay := fl.String("replay", "", "case file whose inputs are re-run on the implementation")
	if err := fl.Parse(args); err != nil {
		return err
	}
	if *replay != "" {
		return replayWal(*replay, *out)
	}
	r := NewRand(*seed)
	cw, err := NewCaseWriter(filepath.Join(*out, "cases.txt"))
	if err != nil {
		return err
	}
	tmp, err := os.MkdirTemp("", "verif-wal")
	if err != nil {
		return err
	}
	defer os.RemoveAll(tmp)
	for i := 0; i < *n; i++ {
		var w []byte
		var class string
		if i%6 == 5 {
			w, class, err = genSQLite(r, tmp, i)
			if err != nil {
				return fmt.Errorf("sqlite generator: %w", err)
			}
		} else {
			w, class = genSynthetic(r)
		}
		emitWALCases(cw, r, w, class)
		// mutated variants
		nm := 1 + r.Intn(2)
		for j := 0; j < nm; j++ {
			mw, mc := mutate(r, w)
			if r.Intn(5) == 0 {
				var mc2 string
				mw, mc2 = mutate(r, mw)
				mc += "," + mc2
			}
			base := "syn"
			if i%6 == 5 {
				base = "sqlite"
			}
			emitWALCases(cw, r, mw, base+"/"+mc)
		}
	}
	if err := cw.Close(); err != nil {
		return err
	}
	return WriteJSON(filepath.Join(*out, "stats.json"), cw.Stats())
}

// replayWal re-runs the implementation on the inputs of a case file and writes
// a fresh case file (same inputs, newly observed outputs).
func replayWal(path, out string) error {
	cases, err := ReadCases(path)
	if err != nil {
		return err
	}
	cw, err := NewCaseWriter(filepath.Join(out, "cases.txt"))
	if err != nil {
		return err
	}
	for _, c := range cases {
		w := c.In.At(0).AsBytes()
		switch c.Entry {
		case "wal_run":
			off, s1, s2, mb := c.In.At(1).Int(), uint32(c.In.At(2).Uint()), uint32(c.In.At(3).Uint()), c.In.At(4).Int()
			o := runWAL(w, off, s1, s2, mb)
			cw.Add("wal_run", L(SxBytes(w), I(off), U(uint64(s1)), U(uint64(s2)), I(mb)), o.sx(), "replay", true)
		case "wal_spec_ok":
			o := runWAL(w, 0, 0, 0, 0)
			pairs := make(SxList, 0, len(o.m))
			for _, k := range SortedKeysU32(o.m) {
				pairs = append(pairs, L(U(uint64(k)), I(o.m[k])))
			}
			cw.Add("wal_spec_ok", L(SxBytes(w), I(int64(o.status)), pairs, I(o.end), U(uint64(o.commit))), I(1), "replay", true)
		case "wal_salts":
			u1, u2 := uint32(c.In.At(1).Uint()), uint32(c.In.At(2).Uint())
			cw.Add("wal_salts", L(SxBytes(w), U(uint64(u1)), U(uint64(u2))), runSalts(w, u1, u2), "replay", true)
		}
	}
	return cw.Close()
}
