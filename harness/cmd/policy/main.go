// Command policy: checkpoint policy (C13) on a REAL litestream.DB with a real
// SQLite application connection.
//
// For every configuration of the grid
//
//	MinCheckpointPageN x TruncatePageN x CheckpointInterval x MaxSyncWALBytes
//
// it runs write/sync histories followed by k idle syncs and emits
//
//	policy_sync        one whole (*DB).Sync vs the abstract machine of Policy.v
//	policy_bounded_ok  frames in the live WAL generation after a successful Sync (spec oracle)
//	policy_idle_ok     L0 file counts over k idle syncs (spec oracle)
//	policy_decide      the real checkpointIfNeeded (hook) on chosen flags/sizes, in four
//	                   environments (free, reader pinned, writer locked, checkpoint lock held)
//	policy_scalars     exceedsTruncateThreshold / effectiveTruncatePageN / calcWALSize
//
// The frames of the live generation are counted by an independent decoder of
// the -wal file (frames whose salts equal the header salts, cut at the last
// commit frame) and cross-checked against litestream.WALReader.PageMap.
package main

import (
	"bytes"
	"context"
	"database/sql"
	"encoding/binary"
	"flag"
	"fmt"
	"log/slog"
	"math/rand"
	"os"
	"path/filepath"
	"sort"
	"strconv"
	"strings"
	"sync"
	"time"

	"github.com/benbjohnson/litestream"
	"github.com/benbjohnson/litestream/file"
	"github.com/superfly/ltx"
	_ "modernc.org/sqlite"

	. "verifharness/hx"
)

// ---- configuration ---------------------------------------------------------------

type Config struct {
	PageSize int
	Min      int
	Trunc    int
	CI       time.Duration
	MaxB     int64
}

func (c Config) String() string {
	return fmt.Sprintf("ps=%d min=%d trunc=%d ci=%s maxb=%d", c.PageSize, c.Min, c.Trunc, c.CI, c.MaxB)
}

func (c Config) fs() int64 { return int64(c.PageSize + 24) }

var (
	gridMin   = []int{1, 2, 5, 10, 1000}
	gridTrunc = []int{0, 1, 3, 20, -1}
	gridCI    = []time.Duration{0, time.Nanosecond, time.Hour}
)

// gridConfig enumerates the grid; index i walks it in a fixed order (mixed radix).
func gridConfig(i int, rng *rand.Rand) Config {
	pss := []int{512, 512, 1024, 4096}
	c := Config{PageSize: pss[rng.Intn(len(pss))]}
	c.Min = gridMin[i%len(gridMin)]
	i /= len(gridMin)
	c.Trunc = gridTrunc[i%len(gridTrunc)]
	i /= len(gridTrunc)
	c.CI = gridCI[i%len(gridCI)]
	i /= len(gridCI)
	mbs := []int64{0, 1, 3 * c.fs(), 1 << 20}
	c.MaxB = mbs[i%len(mbs)]
	return c
}

const gridSize = 5 * 5 * 3 * 4

// ---- world ---------------------------------------------------------------------------

type World struct {
	dir    string
	dbPath string
	cfg    Config
	app    *sql.DB
	ldb    *litestream.DB
	rng    *rand.Rand
	trace  []string
	tag    int64 // history id carried by every case

	reader   *sql.Conn
	readerTx *sql.Tx
	writer   *sql.Conn
	unlockCk func()
	nextID   int

	// spilled write transaction: a dedicated connection with a 2-page cache, so a
	// transaction touching many pages writes uncommitted frames into the WAL
	wtConn *sql.DB
	wtx    *sql.Tx
}

func newWorld(dir string, cfg Config, rng *rand.Rand, tag int64) (*World, error) {
	w := &World{dir: dir, dbPath: filepath.Join(dir, "db"), cfg: cfg, rng: rng, tag: tag}
	db, err := sql.Open("sqlite", "file:"+w.dbPath+"?_pragma=busy_timeout(2000)")
	if err != nil {
		return nil, err
	}
	db.SetMaxOpenConns(4)
	for _, s := range []string{
		fmt.Sprintf("PRAGMA page_size=%d", cfg.PageSize),
		"PRAGMA journal_mode=wal",
		"PRAGMA wal_autocheckpoint=0",
		"CREATE TABLE t(id INTEGER PRIMARY KEY, v BLOB)",
	} {
		if _, err := db.Exec(s); err != nil {
			return nil, fmt.Errorf("%s: %w", s, err)
		}
	}
	w.app = db
	w.ldb = w.newLitestream()
	if err := w.ldb.Open(); err != nil {
		return nil, err
	}
	if err := w.ldb.VerifInit(context.Background()); err != nil {
		return nil, fmt.Errorf("init: %w", err)
	}
	return w, nil
}

func (w *World) newLitestream() *litestream.DB {
	db := litestream.NewDB(w.dbPath)
	db.MonitorInterval = 0
	db.MinCheckpointPageN = w.cfg.Min
	db.TruncatePageN = w.cfg.Trunc
	db.CheckpointInterval = w.cfg.CI
	db.MaxSyncWALBytes = w.cfg.MaxB
	db.ShutdownSyncTimeout = 0
	db.BusyTimeout = 40 * time.Millisecond
	db.Logger = QuietLogger()
	c := file.NewReplicaClient(filepath.Join(w.dir, "replica"))
	db.Replica = litestream.NewReplicaWithClient(db, c)
	db.Replica.MonitorEnabled = false
	c.Replica = db.Replica
	return db
}

func (w *World) close() {
	_ = w.spillEnd(false)
	if w.wtConn != nil {
		_ = w.wtConn.Close()
		w.wtConn = nil
	}
	w.unpin()
	w.unlockWriter()
	if w.unlockCk != nil {
		w.unlockCk()
		w.unlockCk = nil
	}
	if w.ldb != nil {
		_ = w.ldb.Close(context.Background())
	}
	if w.app != nil {
		_ = w.app.Close()
	}
}

// procRestart replaces the litestream.DB by a new one on the same files (fresh syncState).
func (w *World) procRestart() error {
	if err := w.ldb.Close(context.Background()); err != nil {
		return err
	}
	w.ldb = w.newLitestream()
	if err := w.ldb.Open(); err != nil {
		return err
	}
	return w.ldb.VerifInit(context.Background())
}

// writeTx commits one application transaction of roughly `frames` frames.
func (w *World) writeTx(frames int) error {
	if frames < 1 {
		frames = 1
	}
	n := (frames - 1) * w.cfg.PageSize
	if frames == 1 {
		n = 8
	}
	w.nextID++
	_, err := w.app.Exec("INSERT OR REPLACE INTO t(id, v) VALUES(?, randomblob(?))", w.nextID%7+1, n)
	return err
}

func (w *World) pin() error {
	if w.reader != nil {
		return nil
	}
	ctx := context.Background()
	c, err := w.app.Conn(ctx)
	if err != nil {
		return err
	}
	tx, err := c.BeginTx(ctx, nil)
	if err != nil {
		c.Close()
		return err
	}
	var n int
	if err := tx.QueryRow("SELECT count(*) FROM t").Scan(&n); err != nil {
		tx.Rollback()
		c.Close()
		return err
	}
	w.reader, w.readerTx = c, tx
	return nil
}

func (w *World) unpin() {
	if w.reader != nil {
		_ = w.readerTx.Rollback()
		_ = w.reader.Close()
		w.reader, w.readerTx = nil, nil
	}
}

func (w *World) lockWriter() error {
	ctx := context.Background()
	c, err := w.app.Conn(ctx)
	if err != nil {
		return err
	}
	if _, err := c.ExecContext(ctx, "BEGIN IMMEDIATE"); err != nil {
		c.Close()
		return err
	}
	w.writer = c
	return nil
}

func (w *World) unlockWriter() {
	if w.writer != nil {
		_, _ = w.writer.ExecContext(context.Background(), "ROLLBACK")
		_ = w.writer.Close()
		w.writer = nil
	}
}

// spillBegin opens a write transaction on the small-cache connection and
// rewrites `pages` pages worth of blobs: SQLite spills the dirty pages into the
// WAL as frames with valid salts and checksums but no commit record. The
// transaction stays open (it holds the write lock and a read mark).
func (w *World) spillBegin(pages int) error {
	if w.wtx != nil {
		return nil
	}
	if w.wtConn == nil {
		db, err := sql.Open("sqlite", "file:"+w.dbPath+"?_pragma=busy_timeout(2000)&_pragma=cache_size(2)&_pragma=wal_autocheckpoint(0)")
		if err != nil {
			return err
		}
		db.SetMaxOpenConns(1)
		w.wtConn = db
	}
	tx, err := w.wtConn.Begin()
	if err != nil {
		return err
	}
	per := 6
	for left := pages; left > 0; left -= per {
		n := per
		if left < n {
			n = left
		}
		w.nextID++
		if _, err := tx.Exec("INSERT OR REPLACE INTO t(id, v) VALUES(?, randomblob(?))", 100+w.nextID%9, n*w.cfg.PageSize); err != nil {
			_ = tx.Rollback()
			return err
		}
	}
	w.wtx = tx
	return nil
}

// spillEnd commits or rolls back the open spilled transaction.
func (w *World) spillEnd(commit bool) error {
	if w.wtx == nil {
		return nil
	}
	tx := w.wtx
	w.wtx = nil
	if commit {
		return tx.Commit()
	}
	return tx.Rollback()
}

// ---- independent WAL decoder -------------------------------------------------------------

type walObs struct {
	present bool
	salt1   uint32
	salt2   uint32
	slots   int64   // complete frame slots in the file
	live    int64   // frames of the live generation up to its last commit frame
	txs     []int64 // committed transactions of the live generation, frames each
	trail   int64   // slots after the last commit frame that still carry the live salts (uncommitted / rolled back)
}

func readWAL(path string, ps int) walObs {
	var o walObs
	b, err := os.ReadFile(path)
	if err != nil || len(b) < 32 {
		return o
	}
	o.present = true
	o.salt1 = binary.BigEndian.Uint32(b[16:])
	o.salt2 = binary.BigEndian.Uint32(b[20:])
	fs := int64(ps + 24)
	o.slots = (int64(len(b)) - 32) / fs
	var cur int64
	for i := int64(0); i < o.slots; i++ {
		h := b[32+i*fs:]
		if binary.BigEndian.Uint32(h[8:]) != o.salt1 || binary.BigEndian.Uint32(h[12:]) != o.salt2 {
			break
		}
		cur++
		if binary.BigEndian.Uint32(h[4:]) != 0 {
			o.txs = append(o.txs, cur)
			o.live += cur
			cur = 0
		}
	}
	o.trail = cur
	return o
}

// pageMapFrames is the same count through litestream's own reader (cross-check).
func pageMapFrames(path string, ps int) int64 {
	b, err := os.ReadFile(path)
	if err != nil {
		return -1
	}
	rd, err := litestream.NewWALReader(bytes.NewReader(b), QuietLogger())
	if err != nil {
		return -1
	}
	_, end, _, err := rd.PageMap(context.Background())
	if err != nil {
		return -1
	}
	if end == 0 {
		return 0
	}
	return (end - 32) / int64(ps+24)
}

// ---- L0 files -------------------------------------------------------------------------------

type l0hdr struct {
	txid         uint64
	walOffset    int64
	walSize      int64
	salt1, salt2 uint32
}

func (w *World) l0list() []uint64 {
	ents, _ := os.ReadDir(w.ldb.LTXLevelDir(0))
	var out []uint64
	for _, e := range ents {
		if min, max, err := ltx.ParseFilename(e.Name()); err == nil && min == max {
			out = append(out, uint64(max))
		}
	}
	sort.Slice(out, func(i, j int) bool { return out[i] < out[j] })
	return out
}

func (w *World) l0header(txid uint64) (l0hdr, error) {
	f, err := os.Open(w.ldb.LTXPath(0, ltx.TXID(txid), ltx.TXID(txid)))
	if err != nil {
		return l0hdr{}, err
	}
	defer f.Close()
	dec := ltx.NewDecoder(f)
	if err := dec.DecodeHeader(); err != nil {
		return l0hdr{}, err
	}
	h := dec.Header()
	return l0hdr{txid: txid, walOffset: h.WALOffset, walSize: h.WALSize, salt1: h.WALSalt1, salt2: h.WALSalt2}, nil
}

// ---- observing one real Sync ------------------------------------------------------------------

type caseRec struct {
	entry   string
	in, out Sx
	class   string
	nontriv bool
}

// Recorder collects what one history produced (histories run in parallel and
// are merged in index order, so the case file does not depend on scheduling).
type Recorder struct {
	cases      []caseRec
	classes    map[string]int
	violations []ImplViolation
	syncs      int
	idleRuns   int
	decides    int
	bumpFrames map[int64]int
	pinnedIdle map[string]int
	maxLive    int64
}

func newRecorder() *Recorder {
	return &Recorder{classes: map[string]int{}, bumpFrames: map[int64]int{}, pinnedIdle: map[string]int{}}
}

func (rc *Recorder) add(entry string, in, out Sx, class string, nontriv bool) {
	rc.cases = append(rc.cases, caseRec{entry, in, out, class, nontriv})
}

func (rc *Recorder) violate(sig, detail string, w *World) {
	rc.violations = append(rc.violations, ImplViolation{Signature: sig, Detail: detail,
		Replay: map[string]any{"history": w.tag, "config": w.cfg.String(), "trace": strings.Join(w.trace, " ")}})
}

func b2i(b bool) int64 {
	if b {
		return 1
	}
	return 0
}

func (w *World) cfgSx() []Sx {
	return []Sx{I(int64(w.cfg.PageSize)), I(int64(w.cfg.Min)), I(int64(w.cfg.Trunc)), B(w.cfg.CI > 0)}
}

// setMtime fixes the database file's mtime and returns what the time rule will see.
func (w *World) setMtime(old bool) (elapsed bool) {
	t := time.Now()
	if old {
		t = t.Add(-2 * time.Hour)
	}
	_ = os.Chtimes(w.dbPath, t, t)
	switch {
	case w.cfg.CI <= 0:
		return false
	case w.cfg.CI < time.Minute:
		return true
	default:
		return old
	}
}

type syncObs struct {
	ok        bool
	live      int64
	files     int
	pendingTx int
}

// realSync runs (*DB).Sync and emits policy_sync (+ policy_bounded_ok) when the
// environment is the one the abstract machine describes (nothing pinned or locked).
func (w *World) realSync(rc *Recorder, oldMtime bool, label string) syncObs {
	ctx := context.Background()
	ps := w.cfg.PageSize
	fs := w.cfg.fs()
	free := w.reader == nil && w.writer == nil && w.unlockCk == nil && w.wtx == nil
	st0 := w.ldb.VerifSyncState()
	wal0 := readWAL(w.dbPath+"-wal", ps)
	l00 := w.l0list()
	p0, t0 := w.ldb.VerifCheckpointCount("PASSIVE"), w.ldb.VerifCheckpointCount("TRUNCATE")
	first := len(l00) == 0

	// synced frames of the live generation. If the WAL header no longer carries the
	// salts of the last L0 file, the generation was changed from outside litestream
	// (the application restarted the WAL after a checkpoint attempt that ran while
	// it held the write lock): everything in the WAL is pending and the state is not
	// one of the abstract machine (verify's business, C01/C04) - no policy_sync case.
	synced := int64(-1)
	genChanged := false
	if !first {
		if h, err := w.l0header(l00[len(l00)-1]); err == nil {
			if h.salt1 != wal0.salt1 || h.salt2 != wal0.salt2 {
				genChanged = true
			} else if st0.LastSyncedWALOffset != 0 {
				synced = (st0.LastSyncedWALOffset - 32) / fs
			} else {
				synced = (h.walOffset + h.walSize - 32) / fs
			}
		}
	} else {
		synced = 0
	}
	var pend []Sx
	npend := 0
	okState := synced >= 0 && synced <= wal0.live
	if genChanged {
		npend = len(wal0.txs)
	} else if synced >= 0 {
		var acc int64
		for _, k := range wal0.txs {
			if acc >= synced {
				pend = append(pend, I(k))
				npend++
			}
			acc += k
			if acc > synced && acc-k < synced {
				okState = false // cursor inside a transaction: not a state of the machine
			}
		}
	}
	elapsed := w.setMtime(oldMtime)
	err := w.ldb.Sync(ctx)
	rc.syncs++
	w.trace = append(w.trace, label)
	st1 := w.ldb.VerifSyncState()
	wal1 := readWAL(w.dbPath+"-wal", ps)
	l01 := w.l0list()
	dp, dt := w.ldb.VerifCheckpointCount("PASSIVE")-p0, w.ldb.VerifCheckpointCount("TRUNCATE")-t0
	obs := syncObs{ok: err == nil, live: wal1.live, files: len(l01) - len(l00), pendingTx: npend}
	if err != nil {
		w.trace = append(w.trace, "ERR("+errClass(err)+")")
		if free {
			rc.violate("C13/sync-error-without-contention", fmt.Sprintf("Sync failed with nothing pinned or locked: %v", err), w)
		}
		return obs
	}
	if pm := pageMapFrames(w.dbPath+"-wal", ps); pm != wal1.live {
		rc.violate("C13/harness-wal-decoders-disagree", fmt.Sprintf("salt count %d, PageMap %d", wal1.live, pm), w)
	}
	if wal1.live > rc.maxLive {
		rc.maxLive = wal1.live
	}
	pinnedOnly := w.reader != nil && w.writer == nil && w.unlockCk == nil && w.wtx == nil
	if !free && !pinnedOnly {
		return obs
	}
	cls := fmt.Sprintf("sync:min=%d,trunc=%d,ci=%s,maxb=%s", w.cfg.Min, w.cfg.Trunc, ciName(w.cfg.CI), maxbName(w.cfg))
	if okState {
		in := append(w.cfgSx(), I(w.cfg.MaxB), I(1),
			L(I(synced), L(pend...), I(wal0.slots), B(st0.TruncatePassiveFailed), B(st0.SyncedSinceCheckpoint),
				I(st0.LastSyncedWALOffset), B(st0.SyncedToWALEnd), B(first)),
			B(elapsed), I(w.tag), B(pinnedOnly))
		if pinnedOnly {
			cls = "sync-pinned:" + cls[5:]
		}
		out := L(I(1), I(wal1.live), I(int64(obs.files)), B(st1.TruncatePassiveFailed), B(st1.SyncedSinceCheckpoint),
			I(st1.LastSyncedWALOffset), B(st1.SyncedToWALEnd), I(int64(dp)), I(int64(dt)))
		rc.add("policy_sync", L(in...), out, cls, dp+dt > 0 || npend > 1)
	}
	if pinnedOnly {
		return obs
	}
	// a restart during this Sync: the new generation holds exactly the seq-bump frames
	if dp+dt > 0 && (wal1.salt1 != wal0.salt1 || wal1.salt2 != wal0.salt2) {
		rc.bumpFrames[wal1.live]++
	}
	rc.add("policy_bounded_ok", L(I(int64(w.cfg.Min)), I(int64(w.cfg.Trunc)), I(1), I(wal1.live), I(w.tag)), I(1),
		"bounded:"+boundClass(w.cfg, wal1.live), wal1.live > 1)
	return obs
}

func boundClass(c Config, live int64) string {
	switch {
	case live <= 1:
		return "only-bump-frame"
	case live < int64(c.Min):
		return "below-min"
	default:
		return "at-or-above-min"
	}
}

func ciName(d time.Duration) string {
	switch {
	case d == 0:
		return "0"
	case d < time.Minute:
		return "1ns"
	default:
		return "1h"
	}
}

func maxbName(c Config) string {
	switch {
	case c.MaxB == 0:
		return "0"
	case c.MaxB == 1:
		return "1"
	case c.MaxB < 1<<19:
		return "small"
	default:
		return "large"
	}
}

func errClass(err error) string {
	s := err.Error()
	switch {
	case strings.Contains(s, "database is locked") || strings.Contains(s, "SQLITE_BUSY"):
		return "busy"
	default:
		return "other"
	}
}

// ---- histories -----------------------------------------------------------------------------------

// burst commits some application transactions; sizes are chosen around the thresholds.
func (w *World) burst() error {
	r := w.rng
	ntx := 1 + r.Intn(5)
	for i := 0; i < ntx; i++ {
		fr := 1 + r.Intn(4)
		switch r.Intn(12) {
		case 0:
			fr = w.cfg.Min + r.Intn(3) - 1 // around MinCheckpointPageN
		case 1:
			if w.cfg.Trunc > 0 {
				fr = w.cfg.Trunc + r.Intn(3) - 1
			}
		case 2:
			fr = 8 + r.Intn(20)
		}
		if fr > 1200 {
			fr = 1200
		}
		if err := w.writeTx(fr); err != nil {
			return err
		}
		w.trace = append(w.trace, fmt.Sprintf("W%d", fr))
	}
	return nil
}

// runFree: write/sync rounds with nothing pinned, then k idle syncs.
func runFree(rc *Recorder, w *World, rounds, k int) error {
	r := w.rng
	for i := 0; i < rounds; i++ {
		if err := w.burst(); err != nil {
			return err
		}
		if r.Intn(3) > 0 {
			w.realSync(rc, r.Intn(2) == 0, "S")
		}
		if r.Intn(25) == 0 {
			if err := w.procRestart(); err != nil {
				return err
			}
			w.trace = append(w.trace, "RESTART")
		}
	}
	// idle phase: the application has stopped; maybe with unsynced transactions left
	if r.Intn(2) == 0 {
		if err := w.burst(); err != nil {
			return err
		}
	}
	old := r.Intn(2) == 0
	counts := []Sx{I(int64(len(w.l0list())))}
	pendingTx := -1
	okAll := true
	for j := 0; j < k; j++ {
		o := w.realSync(rc, old, "I")
		if j == 0 {
			pendingTx = o.pendingTx
		}
		okAll = okAll && o.ok
		counts = append(counts, I(int64(len(w.l0list()))))
	}
	if okAll && pendingTx >= 0 {
		rc.idleRuns++
		total := int64(counts[len(counts)-1].(SxInt)) - int64(counts[0].(SxInt))
		rc.add("policy_idle_ok", L(I(int64(w.cfg.Min)), I(int64(w.cfg.Trunc)), I(1), I(w.cfg.MaxB), I(int64(pendingTx)),
			L(counts...), I(w.tag)), I(1),
			fmt.Sprintf("idle:min=%d,trunc=%d,ci=%s,maxb=%s", w.cfg.Min, w.cfg.Trunc, ciName(w.cfg.CI), maxbName(w.cfg)), total > 0)
	}
	return nil
}

// runDrainWriter: a chunked catch-up (MaxSyncWALBytes = one frame) during which the application keeps
// committing: one transaction lands while each Sync call is draining (at the hand-off of the executor
// after its first chunk). Every Sync call must still end with the checkpoint policy evaluated: the WAL
// stays within the bound after every call (seed C13d: the loop of DB.Sync left at the WAL size measured on
// entry). Only the bound (policy_bounded_ok, the statement of C13) is applied: the per-call model of
// policy_sync has no commit in the middle of a call.
// histories run concurrently in this process and litestream.VerifTracePoint is one global: a
// dispatcher installed once hands each event to the hook registered for ITS database object
var (
	drainHooks    sync.Map // *litestream.DB -> func(ev string)
	drainHookOnce sync.Once
)

func installDrainDispatcher() {
	drainHookOnce.Do(func() {
		litestream.VerifTracePoint = func(o any, ev string) {
			if f, ok := drainHooks.Load(o); ok {
				f.(func(string))(ev)
			}
		}
	})
}

func runDrainWriter(rc *Recorder, w *World, rounds int) error {
	installDrainDispatcher()
	defer drainHooks.Delete(w.ldb)
	for i := 0; i < rounds; i++ {
		for j, n := 0, 3+w.rng.Intn(3); j < n; j++ {
			if err := w.writeTx(1 + w.rng.Intn(2)); err != nil {
				return err
			}
		}
		fired := false
		var werr error
		drainHooks.Store(w.ldb, func(ev string) {
			if ev != "exec.rel" || fired {
				return
			}
			fired = true
			werr = w.writeTx(1)
		})
		err := w.ldb.Sync(context.Background())
		drainHooks.Delete(w.ldb)
		rc.syncs++
		w.trace = append(w.trace, fmt.Sprintf("S+commit@exec.rel(%v)", fired))
		if werr != nil {
			return werr
		}
		if err != nil {
			rc.violate("C13/sync-error-without-contention", fmt.Sprintf("Sync failed with nothing pinned or locked: %v", err), w)
			return nil
		}
		wal1 := readWAL(w.dbPath+"-wal", w.cfg.PageSize)
		if wal1.live > rc.maxLive {
			rc.maxLive = wal1.live
		}
		rc.add("policy_bounded_ok", L(I(int64(w.cfg.Min)), I(int64(w.cfg.Trunc)), I(1), I(wal1.live), I(w.tag)), I(1),
			"bounded-drain-with-writer:"+boundClass(w.cfg, wal1.live), wal1.live > 1)
		rc.classes["sync:commit-during-chunked-drain"]++
	}
	return nil
}

// runPinned: a long application reader is open while the application writes and
// litestream syncs; then the application stops (reader still open) and k idle
// syncs follow; then the reader ends and k more idle syncs follow (the free-idle
// oracle applies again from there).
func runPinned(rc *Recorder, w *World, rounds, k int) error {
	r := w.rng
	if err := w.burst(); err != nil {
		return err
	}
	w.realSync(rc, false, "S")
	if err := w.writeTx(2); err != nil {
		return err
	}
	if err := w.pin(); err != nil {
		return err
	}
	w.trace = append(w.trace, "PIN")
	for i := 0; i < rounds; i++ {
		if err := w.burst(); err != nil {
			return err
		}
		w.realSync(rc, r.Intn(2) == 0, "S")
	}
	old := r.Intn(2) == 0
	n0 := len(w.l0list())
	grew := 0
	pinCounts := []Sx{I(int64(n0))}
	pinPending := 0
	for j := 0; j < k; j++ {
		before := len(w.l0list())
		o := w.realSync(rc, old, "I")
		if j == 0 {
			pinPending = o.pendingTx
		}
		if len(w.l0list()) > before {
			grew++
		}
		pinCounts = append(pinCounts, I(int64(len(w.l0list()))))
	}
	key := "silent"
	if grew == k && k >= 4 {
		key = "a-file-on-every-idle-sync"
	} else if len(w.l0list())-n0 > 2 {
		key = "more-than-2-files"
	}
	rc.pinnedIdle[key]++
	rc.classes["pinned-idle:"+key]++
	rc.add("policy_idle_ok", L(I(int64(w.cfg.Min)), I(int64(w.cfg.Trunc)), I(1), I(w.cfg.MaxB), I(int64(pinPending)),
		L(pinCounts...), I(w.tag), I(1)), I(1), "idle-while-reader-pinned", true)
	w.unpin()
	w.trace = append(w.trace, "UNPIN")
	counts := []Sx{I(int64(len(w.l0list())))}
	pendingTx := -1
	okAll := true
	for j := 0; j < k; j++ {
		o := w.realSync(rc, old, "I")
		if j == 0 {
			pendingTx = o.pendingTx
		}
		okAll = okAll && o.ok
		counts = append(counts, I(int64(len(w.l0list()))))
	}
	if okAll && pendingTx >= 0 {
		rc.idleRuns++
		rc.add("policy_idle_ok", L(I(int64(w.cfg.Min)), I(int64(w.cfg.Trunc)), I(1), I(w.cfg.MaxB), I(int64(pendingTx)),
			L(counts...), I(w.tag)), I(1), "idle-after-unpin", true)
	}
	return nil
}

// idlePhase: the application has stopped and holds no transaction; k Syncs with the
// idle-silence oracle (and, inside realSync, the bounded-WAL oracle and policy_sync).
func (w *World) idlePhase(rc *Recorder, k int, old bool, class string) {
	counts := []Sx{I(int64(len(w.l0list())))}
	pendingTx := -1
	okAll := true
	for j := 0; j < k; j++ {
		o := w.realSync(rc, old, "I")
		if j == 0 {
			pendingTx = o.pendingTx
		}
		okAll = okAll && o.ok
		counts = append(counts, I(int64(len(w.l0list()))))
	}
	if okAll && pendingTx >= 0 {
		rc.idleRuns++
		rc.add("policy_idle_ok", L(I(int64(w.cfg.Min)), I(int64(w.cfg.Trunc)), I(1), I(w.cfg.MaxB), I(int64(pendingTx)),
			L(counts...), I(w.tag), I(0), B(strings.HasPrefix(class, "idle-after-spill"))), I(1), class, true)
	}
}

// runSpill: write transactions that spill uncommitted frames into the WAL
// (valid salt and checksum chain, no commit record) behind a committed
// transaction:
//
//	variant 0  spilled, maybe synced while open, ROLLED BACK
//	variant 1  spilled, synced while still open, COMMITTED later
//	variant 2  either of the two, followed by an explicit litestream checkpoint (PASSIVE / TRUNCATE)
//
// each followed by k idle syncs. Syncs while the transaction is open run against
// a held write lock and read mark (not the free environment: no model case, errors
// tolerated); everything after the transaction ended is the free environment again.
func runSpill(rc *Recorder, w *World, k int) error {
	ctx := context.Background()
	r := w.rng
	variant := r.Intn(3)
	w.trace = append(w.trace, fmt.Sprintf("variant%d", variant))
	if err := w.burst(); err != nil {
		return err
	}
	w.realSync(rc, r.Intn(2) == 0, "S")
	rounds := 1 + r.Intn(2)
	for i := 0; i < rounds; i++ {
		fr := 1 + r.Intn(3)
		if err := w.writeTx(fr); err != nil { // the committed transaction the spill follows
			return err
		}
		w.trace = append(w.trace, fmt.Sprintf("W%d", fr))
		pages := 8 + r.Intn(40)
		if err := w.spillBegin(pages); err != nil {
			return fmt.Errorf("spill: %w", err)
		}
		wo := readWAL(w.dbPath+"-wal", w.cfg.PageSize)
		w.trace = append(w.trace, fmt.Sprintf("WT+%d(trail=%d)", pages, wo.trail))
		if wo.trail > 0 {
			rc.classes["spill:uncommitted-frames-in-wal"]++
		} else {
			rc.classes["spill:nothing-spilled"]++
		}
		nopen := 0
		if variant == 1 {
			nopen = 1 + r.Intn(2)
		} else if r.Intn(2) == 0 {
			nopen = 1
		}
		for j := 0; j < nopen; j++ {
			w.realSync(rc, r.Intn(2) == 0, "S(open)")
		}
		commit := variant == 1 || (variant == 2 && r.Intn(2) == 0)
		if err := w.spillEnd(commit); err != nil {
			return fmt.Errorf("end of spilled transaction: %w", err)
		}
		if commit {
			w.trace = append(w.trace, "WT-")
			rc.classes["spill:committed-later"]++
		} else {
			w.trace = append(w.trace, "WTR")
			rc.classes["spill:rolled-back"]++
		}
		if variant == 2 {
			if r.Intn(2) == 0 {
				w.realSync(rc, r.Intn(2) == 0, "S")
			}
			mode := litestream.CheckpointModePassive
			if r.Intn(2) == 0 {
				mode = litestream.CheckpointModeTruncate
			}
			err := w.ldb.Checkpoint(ctx, mode)
			w.trace = append(w.trace, "CK-"+mode)
			rc.classes["spill:then-litestream-checkpoint-"+mode]++
			if err != nil {
				rc.violate("C13/checkpoint-error-without-contention", fmt.Sprintf("DB.Checkpoint(%s) failed with nothing pinned or locked: %v", mode, err), w)
			}
		} else if r.Intn(2) == 0 {
			w.realSync(rc, r.Intn(2) == 0, "S")
		}
	}
	w.idlePhase(rc, k, r.Intn(2) == 0, fmt.Sprintf("idle-after-spill:variant%d", variant))
	return nil
}

// ---- checkpointIfNeeded through the hook ------------------------------------------------------------

// runDecide prepares a database state and calls the real checkpointIfNeeded with
// chosen flags and sizes in one of four environments.
func runDecide(rc *Recorder, w *World, env string, ncalls int) error {
	ctx := context.Background()
	r := w.rng
	c := w.cfg
	ps := uint32(c.PageSize)
	fs := c.fs()
	if err := w.burst(); err != nil {
		return err
	}
	if err := w.ldb.Sync(ctx); err != nil {
		return fmt.Errorf("setup sync: %w", err)
	}
	for i := 0; i < ncalls; i++ {
		// state before: a few unsynced frames now and then, everything else synced
		if r.Intn(3) == 0 {
			if err := w.writeTx(1 + r.Intn(3)); err != nil {
				return err
			}
		}
		switch env {
		case "pinned":
			if w.reader == nil {
				if err := w.writeTx(2); err != nil {
					return err
				}
				if err := w.pin(); err != nil {
					return err
				}
			}
		case "wlock":
			if err := w.lockWriter(); err != nil {
				return err
			}
		case "chklock":
			w.unlockCk = w.ldb.VerifHoldCheckpointLock()
		}
		st0 := w.ldb.VerifSyncState()
		eff := int64(w.ldb.VerifEffectiveTruncatePageN())
		sizes := []int64{0, st0.LastSyncedWALOffset, 32, 32 + fs - 1, 32 + fs, 32 + fs + 1, 32 + 2*fs,
			litestream.VerifCalcWALSize(ps, uint32(c.Min)) - 1, litestream.VerifCalcWALSize(ps, uint32(c.Min)),
			litestream.VerifCalcWALSize(ps, uint32(c.Min)) + fs}
		if eff > 0 {
			tsz := litestream.VerifCalcWALSize(ps, uint32(eff))
			sizes = append(sizes, tsz-1, tsz, tsz+fs, tsz, tsz-1)
		}
		orig := sizes[r.Intn(len(sizes))]
		nw := sizes[r.Intn(len(sizes))]
		if r.Intn(3) == 0 {
			orig = st0.LastSyncedWALOffset
		}
		if env == "wlock" && eff > 0 && r.Intn(2) == 0 {
			orig = litestream.VerifCalcWALSize(ps, uint32(eff)) // both attempts meet the application's write lock
		}
		tpf, ssc := r.Intn(3) == 0, r.Intn(2) == 0
		elapsed := w.setMtime(r.Intn(3) > 0)
		wal0 := readWAL(w.dbPath+"-wal", c.PageSize)
		l00 := w.l0list()
		p0, t0 := w.ldb.VerifCheckpointCount("PASSIVE"), w.ldb.VerifCheckpointCount("TRUNCATE")

		st1, err := w.ldb.VerifCheckpointIfNeeded(ctx, tpf, ssc, orig, nw)

		dp, dt := w.ldb.VerifCheckpointCount("PASSIVE")-p0, w.ldb.VerifCheckpointCount("TRUNCATE")-t0
		wal1 := readWAL(w.dbPath+"-wal", c.PageSize)
		l01 := w.l0list()
		switch env {
		case "wlock":
			w.unlockWriter()
		case "chklock":
			w.unlockCk()
			w.unlockCk = nil
		}
		// generation changes seen in the new L0 files, and the cursor right after the first one
		restarts := 0
		off1 := st1.LastSyncedWALOffset
		s1, s2 := wal0.salt1, wal0.salt2
		for _, id := range l01[len(l00):] {
			h, herr := w.l0header(id)
			if herr != nil {
				continue
			}
			if h.salt1 != s1 || h.salt2 != s2 {
				restarts++
				if restarts == 1 {
					off1 = h.walOffset + h.walSize
				}
				s1, s2 = h.salt1, h.salt2
			}
		}
		if wal1.salt1 != s1 || wal1.salt2 != s2 {
			restarts++
		}
		kind := int64(4)
		envOK := true
		switch env {
		case "free":
			envOK = restarts == dp+dt && err == nil
		case "pinned":
			kind = 3
			envOK = restarts == 0 && err == nil
		case "wlock":
			kind = 1
			envOK = restarts == 0 && dp == 0
		case "chklock":
			kind = 0
			envOK = restarts == 0 && dp+dt == 0 && err == nil
		}
		w.trace = append(w.trace, fmt.Sprintf("D(%s tpf=%v ssc=%v orig=%d new=%d)->P%d,T%d,r%d", env, tpf, ssc, orig, nw, dp, dt, restarts))
		if !envOK {
			rc.violate("C13/environment-assumption:"+env,
				fmt.Sprintf("environment %q did not behave as the model assumes: %d PASSIVE + %d TRUNCATE executed, %d WAL restarts, err=%v", env, dp, dt, restarts, err), w)
			continue
		}
		in := append(w.cfgSx(), B(elapsed), I(orig), I(nw), I(st0.LastSyncedWALOffset), B(tpf), B(ssc),
			L(L(I(kind), I(off1)), L(I(kind), I(st1.LastSyncedWALOffset))), I(w.tag))
		out := L(I(int64(dp)), I(int64(dt)), B(st1.TruncatePassiveFailed), B(st1.SyncedSinceCheckpoint), B(err != nil))
		rc.decides++
		rc.add("policy_decide", L(in...), out, fmt.Sprintf("decide:%s:P%d,T%d", env, dp, dt), dp+dt > 0 || err != nil)
		if env != "pinned" {
			// bring the database back to a synced state for the next call
			_ = w.ldb.Sync(ctx)
		}
	}
	return nil
}

// ---- scalars ------------------------------------------------------------------------------------------

func runScalars(rc *Recorder, dir string, rng *rand.Rand, n int) {
	db := litestream.NewDB(filepath.Join(dir, "nodb"))
	pss := []int64{0, 512, 1024, 4096, 65536, 1, 4294967272, 4294967296 + 512, -512}
	truncs := []int64{0, 1, 2, 3, 20, 121359, -1, -5, 4294967296, 4294967297, 1 << 40, 4294967295}
	pick := func(xs []int64) int64 { return xs[rng.Intn(len(xs))] }
	for i := 0; i < n; i++ {
		ps, tr := pick(pss), pick(truncs)
		if rng.Intn(4) == 0 {
			ps = []int64{512, 4096}[rng.Intn(2)]
		}
		db.VerifSetPageSize(int(ps))
		db.TruncatePageN = int(tr)
		eff := int64(db.VerifEffectiveTruncatePageN())
		th := litestream.VerifCalcWALSize(uint32(ps), uint32(eff))
		ws := []int64{th - 1, th, th + 1, 0, 31, 32, -1, rng.Int63n(1 << 40), 1<<63 - 1, -(1 << 62)}
		wsz := ws[rng.Intn(len(ws))]
		pn := []int64{0, 1, 2, 1000, 121359, 4294967295, rng.Int63n(1 << 32)}[rng.Intn(7)]
		ex := db.VerifExceedsTruncateThreshold(wsz)
		cs := litestream.VerifCalcWALSize(uint32(ps), uint32(pn))
		rc.add("policy_scalars", L(I(ps), I(tr), I(wsz), I(pn)), L(B(ex), I(eff), I(cs)),
			fmt.Sprintf("scalars:exceeds=%v", ex), ex || wsz == th-1)
	}
}

// ---- main ----------------------------------------------------------------------------------------------

func runHistory(rc *Recorder, base string, seed int64, idx int, quick bool) {
	rng := NewRand(seed*1000003 + int64(idx))
	dir := filepath.Join(base, fmt.Sprintf("h%d", idx))
	_ = os.MkdirAll(dir, 0o755)
	defer os.RemoveAll(dir)
	cfg := gridConfig(idx%gridSize, rng)
	// the kind of history is drawn from the history's own PRNG, independently of the grid point
	kind := "free"
	switch d := rng.Intn(20); {
	case d < 3:
		kind = "pinned"
	case d < 8:
		kind = []string{"d-free", "d-free", "d-pinned", "d-chklock", "d-wlock"}[d-3]
	case d < 11:
		kind = "spill"
	case d < 13:
		// chunked drains under a writer: small thresholds, one frame per chunk
		kind = "drain-writer"
		cfg.MaxB = cfg.fs()
		cfg.Min = []int{5, 10}[rng.Intn(2)]
		cfg.Trunc = 0
		cfg.CI = 0
	}
	w, err := newWorld(dir, cfg, rng, int64(idx))
	if err != nil {
		rc.violations = append(rc.violations, ImplViolation{Signature: "harness/setup", Detail: err.Error()})
		return
	}
	w.trace = append(w.trace, kind)
	defer w.close()
	defer func() {
		if p := recover(); p != nil {
			rc.violate("C13/panic", fmt.Sprint(p), w)
		}
	}()
	k := 1 + rng.Intn(30)
	if quick && k > 12 && rng.Intn(3) > 0 {
		k = 4 + rng.Intn(8)
	}
	rounds := 2 + rng.Intn(5)
	switch kind {
	case "free":
		err = runFree(rc, w, rounds, k)
	case "pinned":
		err = runPinned(rc, w, 1+rng.Intn(3), 4+rng.Intn(6))
	case "drain-writer":
		err = runDrainWriter(rc, w, 6+rng.Intn(5))
	case "spill":
		if k < 3 {
			k = 3
		}
		err = runSpill(rc, w, k)
	default:
		n := 6
		if kind == "d-wlock" {
			n = 2
		}
		err = runDecide(rc, w, kind[2:], n)
	}
	if err != nil {
		rc.violate("harness/history", err.Error(), w)
	}
	rc.classes["history:"+kind]++
	if printTrace {
		fmt.Printf("HISTORY %d seed %d: %s\nTRACE %s\n", idx, seed, cfg.String(), strings.Join(w.trace, " "))
	}
}

var printTrace bool

func main() {
	slog.SetDefault(QuietLogger())
	out := flag.String("out", "", "work directory")
	n := flag.Int("n", gridSize, "number of histories (the grid has 300 points; history i uses grid point i mod 300)")
	seed := flag.Int64("seed", 1, "PRNG seed")
	only := flag.Int("only", -1, "run only history <index> (replay)")
	replay := flag.String("replay", "", "file with a line '<seed> <index>' to replay")
	flag.Parse()
	if *out == "" {
		fmt.Fprintln(os.Stderr, "-out required")
		os.Exit(2)
	}
	if *replay != "" {
		b, err := os.ReadFile(*replay)
		if err != nil {
			fmt.Fprintln(os.Stderr, err)
			os.Exit(2)
		}
		f := strings.Fields(string(b))
		if len(f) < 2 {
			fmt.Fprintln(os.Stderr, "replay file: want '<seed> <index>'")
			os.Exit(2)
		}
		*seed, _ = strconv.ParseInt(f[0], 10, 64)
		*only, _ = strconv.Atoi(f[1])
	}
	cw, err := NewCaseWriter(filepath.Join(*out, "cases.txt"))
	if err != nil {
		fmt.Fprintln(os.Stderr, err)
		os.Exit(3)
	}
	base := filepath.Join(*out, "tmp")
	_ = os.RemoveAll(base)
	if err := os.MkdirAll(base, 0o755); err != nil {
		fmt.Fprintln(os.Stderr, err)
		os.Exit(3)
	}
	defer os.RemoveAll(base)
	quick := *n <= gridSize
	var recs []*Recorder
	if *only >= 0 {
		printTrace = true
		rc := newRecorder()
		runHistory(rc, base, *seed, *only, quick)
		recs = append(recs, rc)
	} else {
		rc0 := newRecorder()
		runScalars(rc0, base, NewRand(*seed), 400+*n)
		recs = make([]*Recorder, *n+1)
		recs[0] = rc0
		var wg sync.WaitGroup
		sem := make(chan struct{}, int(EnvInt("VERIF_POLICY_WORKERS", 8)))
		for i := 0; i < *n; i++ {
			wg.Add(1)
			sem <- struct{}{}
			go func(i int) {
				defer wg.Done()
				defer func() { <-sem }()
				rc := newRecorder()
				runHistory(rc, base, *seed, i, quick)
				recs[i+1] = rc
			}(i)
		}
		wg.Wait()
	}
	tot := newRecorder()
	for _, rc := range recs {
		for _, c := range rc.cases {
			cw.Add(c.entry, c.in, c.out, c.class, c.nontriv)
		}
		for k, v := range rc.classes {
			cw.Classes[k] += v
		}
		tot.violations = append(tot.violations, rc.violations...)
		tot.syncs += rc.syncs
		tot.idleRuns += rc.idleRuns
		tot.decides += rc.decides
		for k, v := range rc.bumpFrames {
			tot.bumpFrames[k] += v
		}
		for k, v := range rc.pinnedIdle {
			tot.pinnedIdle[k] += v
		}
		if rc.maxLive > tot.maxLive {
			tot.maxLive = rc.maxLive
		}
	}
	rc := tot
	cw.Close()
	st := cw.Stats()
	st.ImplViolations = rc.violations
	bf := map[string]int{}
	for k, v := range rc.bumpFrames {
		bf[strconv.FormatInt(k, 10)] = v
	}
	st.Extra = map[string]any{"real_syncs": rc.syncs, "idle_runs": rc.idleRuns, "decide_calls": rc.decides,
		"frames_in_new_generation_after_restart": bf, "pinned_idle": rc.pinnedIdle, "max_live_frames": rc.maxLive, "histories": *n}
	if err := WriteJSON(filepath.Join(*out, "stats.json"), st); err != nil {
		fmt.Fprintln(os.Stderr, err)
		os.Exit(3)
	}
	if cw.N == 0 {
		fmt.Fprintln(os.Stderr, "no cases generated")
		os.Exit(4)
	}
}
