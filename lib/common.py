"""Shared machinery of the /verif checks: building the Coq development, the
extracted runner and the Go harness from /repo's working tree; running case
files through the runner; obligations / Print Assumptions bookkeeping;
evidence, replay files, known findings, VIOLATION lines."""
import fcntl
import glob
import hashlib
import json
import os
import re
import shutil
import subprocess
import sys
import time

VERIF = os.path.dirname(os.path.dirname(os.path.abspath(__file__)))
REPO = os.environ.get("VERIF_REPO", "/repo")
COQ = os.path.join(VERIF, "coq")
WORK = os.path.join(VERIF, "work")
BIN = os.path.join(WORK, "bin")
NCPU = os.cpu_count() or 4

FORBIDDEN = re.compile(
    r"\b(Admitted|admit|Axiom|Axioms|Parameter|Parameters|Conjecture|Conjectures|Abort All)\b"
    r"|Unset\s+Guard|Unset\s+Positivity|Unset\s+Universe|bypass_check|type-in-type|impredicative-set|Admit\s+Obligations")

TRUSTED_BASE = [
    "Coq 8.16.1 kernel (coqc, full .vo build; vm_compute used in Examples and finite sweeps; native_compute not used)",
    "axioms: none declared in /verif/coq; Print Assumptions output per theorem recorded under coverage.assumptions_per_theorem",
    "extraction: Coq.extraction.Extraction + ExtrOcamlBasic only (Extract Inductive bool/option/unit/list/prod/sumbool/sumor, Extract Inlined Constant andb/orb); N, Z, positive, nat kept as Coq datatypes; OCaml 4.13.1 ocamlopt",
    "runner/driver.ml + runner/entries.ml: case-file parser, dispatch table, structural comparison by the extracted sx_eqb, printing",
    "Go harness /verif/harness (drives the real code from /repo's working tree with -tags verif, canonicalises observables) and the hooks in /repo guarded by the verif build tag",
    "hand-written Gallina model tied to the code by the correspondence run of this check (differential, not a verified translation)",
]


def log(*a):
    print(*a, file=sys.stderr, flush=True)


def sh(cmd, cwd=None, timeout=None, env=None, input=None):
    e = dict(os.environ)
    if env:
        e.update(env)
    p = subprocess.run(cmd, cwd=cwd, shell=isinstance(cmd, str), stdout=subprocess.PIPE,
                       stderr=subprocess.STDOUT, timeout=timeout, env=e, input=input)
    return p.returncode, p.stdout.decode("utf-8", "replace")


class Lock:
    def __init__(self, name):
        os.makedirs(WORK, exist_ok=True)
        self.path = os.path.join(WORK, name + ".lock")

    def __enter__(self):
        self.f = open(self.path, "w")
        fcntl.flock(self.f, fcntl.LOCK_EX)
        return self

    def __exit__(self, *a):
        fcntl.flock(self.f, fcntl.LOCK_UN)
        self.f.close()


# ---------------------------------------------------------------------------
# Coq

def coq_sources():
    out = []
    for p in sorted(glob.glob(os.path.join(COQ, "**", "*.v"), recursive=True)):
        rel = os.path.relpath(p, COQ)
        if rel.startswith("cross/"):
            continue
        out.append(rel)
    return out


def hygiene():
    """forbidden vernacular anywhere in the development (comments stripped)"""
    bad = []
    for rel in coq_sources():
        src = open(os.path.join(COQ, rel)).read()
        # strip (nested) comments
        res, depth, i = [], 0, 0
        while i < len(src):
            if src.startswith("(*", i):
                depth += 1
                i += 2
            elif src.startswith("*)", i) and depth:
                depth -= 1
                i += 2
            else:
                if depth == 0:
                    res.append(src[i])
                i += 1
        for ln, line in enumerate("".join(res).split("\n"), 1):
            if FORBIDDEN.search(line):
                bad.append("%s:%d: %s" % (rel, ln, line.strip()))
    return bad


def run_gen():
    """regenerate coq/Gen/*.v from /repo (files are only rewritten when their content changes)"""
    gen = os.path.join(VERIF, "tools", "gen", "gen.py")
    if not os.path.exists(gen):
        return True, ""
    rc, out = sh([sys.executable, gen, REPO, os.path.join(COQ, "Gen")], timeout=300)
    return rc == 0, out


def coq_build(targets=None, timeout=3000, per_file_timeout=900):
    """full .vo build with coq_makefile (never -vos). Returns (ok, log)."""
    with Lock("coq"):
        srcs = coq_sources()
        proj = "-Q . LS\n-arg -w -arg -all\n" + "\n".join(srcs) + "\n"
        pp = os.path.join(COQ, "_CoqProject")
        if not os.path.exists(pp) or open(pp).read() != proj:
            open(pp, "w").write(proj)
            rc, out = sh("coq_makefile -f _CoqProject -o Makefile.coq", cwd=COQ)
            if rc != 0:
                return False, out
        if not os.path.exists(os.path.join(COQ, "Makefile.coq")):
            rc, out = sh("coq_makefile -f _CoqProject -o Makefile.coq", cwd=COQ)
            if rc != 0:
                return False, out
        # every coqc runs under a shell timeout: a diverging tactic in one file must not block the rest
        cmd = ["make", "-f", "Makefile.coq", "-j%d" % NCPU, "-k", "TIMECMD=timeout %d" % per_file_timeout]
        if targets:
            cmd += targets
        rc, out = sh(cmd, cwd=COQ, timeout=timeout)
        return rc == 0, out


def failed_files(makelog):
    return sorted(set(re.findall(r'File "\./([^"]+)", line', makelog)))


THEOREM_RE = re.compile(r"^\s*(Theorem|Corollary)\s+([A-Za-z0-9_']+)", re.M)


def property_obligations(pid):
    """Compile Properties/<pid>.v on its own, capturing Print Assumptions output.
    Returns dict: theorems(list), discharged(list), assumptions{thm: text}, ok, log."""
    rel = "Properties/%s.v" % pid
    path = os.path.join(COQ, rel)
    res = {"theorems": [], "discharged": [], "assumptions": {}, "ok": False, "log": ""}
    if not os.path.exists(path):
        res["log"] = "missing " + rel
        return res
    src = open(path).read()
    res["theorems"] = [m.group(2) for m in THEOREM_RE.finditer(src)]
    with Lock("coq"):
        rc, out = sh(["coqc", "-Q", ".", "LS", "-w", "-all", rel], cwd=COQ, timeout=1800)
    res["log"] = out
    res["ok"] = rc == 0
    if rc != 0:
        return res
    # Print Assumptions output follows the order of the commands in the file
    printed = re.findall(r"Print Assumptions\s+([A-Za-z0-9_'.]+)\s*\.", src)
    blocks = re.split(r"(?=Closed under the global context|Axioms:|Section Variables:)", out)
    blocks = [b.strip() for b in blocks if b.strip()]
    for i, name in enumerate(printed):
        txt = blocks[i] if i < len(blocks) else "(no output)"
        res["assumptions"][name] = " ".join(txt.split())
    for t in res["theorems"]:
        if t in res["assumptions"]:
            res["discharged"].append(t)
    return res


GEN_AGREE = {
    "C05": ["GenAgree"], "C06": ["GenAgree"], "C08": ["GenAgree"], "C09": ["GenAgree"], "C10": ["GenAgree"],
    "C17": ["GenAgree"], "C20": ["GenAgree"], "C15": ["GenAgree"], "C07": ["GenAgree"],
    "C13": ["GenAgreePolicy"], "C14": ["GenAgree", "GenAgreePolicy"],
}

ALLOWED_AXIOM_PREFIXES = ()  # nothing: the development is axiom-free


def assumption_problems(assumptions):
    bad = []
    for t, txt in assumptions.items():
        if not txt.startswith("Closed under the global context"):
            bad.append("%s: %s" % (t, txt[:300]))
    return bad


# ---------------------------------------------------------------------------
# runner and harness

def build_runner(layers):
    """Extract the entry points of the given layers (coq/<Layer>/entries.txt, lines
    `<Module path under LS> <entry name>`) with ExtrOcamlBasic only and link them with
    runner/driver.ml into runner/build/<layers>/runner. Each property's check builds
    its own runner, so a broken layer cannot take other checks down."""
    key = "_".join(layers)
    bdir = os.path.join(VERIF, "runner", "build", key)
    binp = os.path.join(bdir, "runner")
    mods, names = [], []
    for layer in layers:
        for line in open(os.path.join(COQ, layer, "entries.txt")):
            f = line.split()
            if len(f) == 2 and not line.startswith("#"):
                if f[0] not in mods:
                    mods.append(f[0])
                names.append(f[1])
    ex = ("(** GENERATED by lib/common.py from coq/<Layer>/entries.txt.\n"
          "    Only ExtrOcamlBasic is used: bool, option, unit, list, prod, sumbool, sumor map to the\n"
          "    OCaml types and andb/orb are inlined; N, Z, positive and nat stay the Coq datatypes. *)\n"
          "Require Coq.extraction.Extraction.\nRequire Import Coq.extraction.ExtrOcamlBasic.\n"
          "From Coq Require Import ZArith NArith.\nFrom LS Require Import Base.Sx %s.\n\n"
          "Extraction Language OCaml.\nExtraction \"model.ml\" sx_eqb Z.add Z.mul Z.opp Z.of_N\n  %s.\n"
          % (" ".join(mods), " ".join(names)))
    en = ("(* GENERATED: name -> extracted entry point; no logic *)\nopen Model\n"
          "let table : (string * (sx -> sx)) list = [\n%s]\n"
          % "".join('  ("%s", %s);\n' % (n, n) for n in names))
    # the entry modules are not dependencies of Properties/<ID>.vo: build them explicitly
    ok, mk = coq_build(targets=[m.replace(".", "/") + ".vo" for m in mods])
    if not ok:
        return False, mk
    with Lock("runner_" + key):
        os.makedirs(bdir, exist_ok=True)
        changed = False
        for path, txt in ((os.path.join(bdir, "Extract.v"), ex), (os.path.join(bdir, "entries.ml"), en)):
            if not os.path.exists(path) or open(path).read() != txt:
                open(path, "w").write(txt)
                changed = True
        vos = []
        for layer in layers + ["Base"]:
            vos += glob.glob(os.path.join(COQ, layer, "*.vo"))
        src_mtime = max([os.path.getmtime(p) for p in vos] + [os.path.getmtime(os.path.join(VERIF, "runner", "driver.ml"))])
        if not changed and os.path.exists(binp) and os.path.getmtime(binp) >= src_mtime:
            return True, "up to date"
        shutil.copyfile(os.path.join(VERIF, "runner", "driver.ml"), os.path.join(bdir, "driver.ml"))
        rc, out = sh("coqc -Q %s LS Extract.v && "
                     "(ocamlfind ocamlopt -O3 -w -a model.mli model.ml entries.ml driver.ml -o runner 2>/dev/null || "
                     "ocamlfind ocamlopt -w -a model.mli model.ml entries.ml driver.ml -o runner)" % COQ,
                     cwd=bdir, timeout=1800)
        return rc == 0, out


def runner_bin(layers):
    return os.path.join(VERIF, "runner", "build", "_".join(layers), "runner")


GOENV = {"GOFLAGS": "-mod=mod", "GOPROXY": "off", "CGO_ENABLED": "1"}


def harness_bin(name):
    return os.path.join(BIN, "h_" + name)


def build_harness(name, tags="verif", out=None):
    """go build of /verif/harness/cmd/<name> against /repo's *current working tree*."""
    out = out or harness_bin(name)
    with Lock("harness"):
        os.makedirs(BIN, exist_ok=True)
        hdir = os.path.join(VERIF, "harness")
        shutil.copyfile(os.path.join(REPO, "go.sum"), os.path.join(hdir, "go.sum"))
        env = dict(GOENV)
        env.pop("GOSUMDB", None)
        cmd = ["go", "build", "-tags", tags, "-o", out]
        if REPO != "/repo":
            # checks run against another tree (mutation self-tests in a scratch worktree)
            mod = open(os.path.join(hdir, "go.mod")).read().replace("=> /repo", "=> " + REPO)
            open(os.path.join(hdir, "go.alt.mod"), "w").write(mod)
            shutil.copyfile(os.path.join(REPO, "go.sum"), os.path.join(hdir, "go.alt.sum"))
            cmd.append("-modfile=go.alt.mod")
        rc, o = sh(cmd + ["./cmd/" + name], cwd=hdir, timeout=1800, env=env)
        if rc != 0 and "verif" in tags:
            # a renamed internal that a hook file refers to must not become an alarm:
            # report, the caller decides (black-box fallback is per property)
            return False, o
        return rc == 0, o


def run_runner(casefile, layers, shards=None, mode="check", timeout=3000):
    """Run the extracted model over a case file. Returns (total, mismatches[list of dict], raw_errors)."""
    shards = shards or NCPU
    lines = open(casefile).read().split("\n")
    # split into groups that start at a definition line so references stay valid
    groups, cur = [], []
    for ln, line in enumerate(lines, 1):
        if not line:
            continue
        if line.startswith("=") and cur and not cur[-1][1].startswith("="):
            groups.append(cur)
            cur = []
        cur.append((ln, line))
    if cur:
        groups.append(cur)
    if len(groups) < shards:
        shards = max(1, len(groups))
    buckets = [[] for _ in range(shards)]
    for i, g in enumerate(groups):
        buckets[i % shards].extend(g)
    procs = []
    for b in buckets:
        data = "\n".join(l for _, l in b) + "\n"
        p = subprocess.Popen("ulimit -s unlimited 2>/dev/null || ulimit -s 1000000; exec %s %s" % (runner_bin(layers), mode),
                             shell=True, stdin=subprocess.PIPE, stdout=subprocess.PIPE, stderr=subprocess.STDOUT)
        procs.append((p, b, data))
    # feed all (sequentially is fine: each communicate blocks only on its own process)
    import threading
    results = [None] * len(procs)

    def feed(i):
        p, b, data = procs[i]
        try:
            out, _ = p.communicate(data.encode(), timeout=timeout)
            results[i] = (p.returncode, out.decode("utf-8", "replace"))
        except subprocess.TimeoutExpired:
            p.kill()
            results[i] = (-9, "TIMEOUT")

    ths = [threading.Thread(target=feed, args=(i,)) for i in range(len(procs))]
    for t in ths:
        t.start()
    for t in ths:
        t.join()
    total, mism, errors, evals = 0, [], [], []
    for (p, b, data), (rc, out) in zip(procs, results):
        done = False
        for line in out.split("\n"):
            f = line.split("\t")
            if f[0] == "MISMATCH":
                local = int(f[1])
                orig_ln, orig = b[local - 1]
                mism.append({"line": orig_ln, "entry": f[2], "model": f[3], "case": orig})
            elif f[0] == "DONE":
                total += int(f[1])
                done = True
            elif mode == "eval" and len(f) == 3 and f[0].isdigit():
                orig_ln, orig = b[int(f[0]) - 1]
                evals.append((orig_ln, f[1], f[2]))
            elif line.strip():
                errors.append(line.strip()[:300])
        if rc != 0 or not done:
            errors.append("runner shard exited rc=%s without DONE" % rc)
    mism.sort(key=lambda m: m["line"])
    if mode == "eval":
        return total, sorted(evals), errors
    return total, mism, errors


def case_with_defs(casefile, lineno):
    """the case at lineno together with the definition lines it may refer to"""
    lines = open(casefile).read().split("\n")
    out, lastdef = [], {}
    for ln, line in enumerate(lines[:lineno], 1):
        if line.startswith("="):
            lastdef[line.split("\t")[0]] = line
    case = lines[lineno - 1]
    for name, d in lastdef.items():
        if "$" + name[1:] in case:
            out.append(d)
    out.append(case)
    return out


# ---------------------------------------------------------------------------
# findings / evidence / verdict

def load_known():
    out = {"findings": [], "fixed": []}
    paths = [os.path.join(VERIF, "known_findings.json")] + sorted(glob.glob(os.path.join(VERIF, "known_findings.d", "*.json")))
    for p in paths:
        if os.path.exists(p):
            d = json.load(open(p))
            out["findings"] += d.get("findings", [])
            out["fixed"] += d.get("fixed", [])
    return out


class Verdict:
    """collects what a run found and turns it into the interface's output"""

    def __init__(self, pid, tier, seed):
        self.pid, self.tier, self.seed = pid, tier, seed
        self.t0 = time.time()
        self.violations = []      # dict(signature, detail, replay(dict), found_input(bool))
        self.coverage = {}
        self.assumptions = []
        self.level = "proof"

    def violation(self, signature, detail, replay, found_input=True):
        self.violations.append({"signature": signature, "detail": detail, "replay": replay,
                                "found_input": found_input})

    def finish(self):
        known = load_known()
        klist = [k for k in known.get("findings", []) if k.get("property") == self.pid]
        unlisted, printed = [], set()
        for v in self.violations:
            hit = None
            for k in klist:
                if k.get("signature") == v["signature"]:
                    hit = k
            if hit:
                if hit["signature"] not in printed:
                    print("KNOWN-FINDING: property=%s %s — %s" % (self.pid, hit["signature"], hit.get("what", "")))
                    printed.add(hit["signature"])
            else:
                unlisted.append(v)
        # write replay files + VIOLATION lines (one per distinct signature)
        rdir = os.path.join(WORK, "replay")
        os.makedirs(rdir, exist_ok=True)
        seen = set()
        for v in unlisted:
            if v["signature"] in seen:
                continue
            seen.add(v["signature"])
            h = hashlib.sha1(v["signature"].encode()).hexdigest()[:10]
            path = os.path.join(rdir, "%s-%s.json" % (self.pid, h))
            rep = {"property": self.pid, "seed": self.seed, "tier": self.tier,
                   "signature": v["signature"], "detail": v["detail"], "replay": v["replay"],
                   "rerun": "./check %s --replay %s" % (self.pid, path)}
            json.dump(rep, open(path, "w"), indent=1)
            suffix = "" if v["found_input"] else " no-failing-input-found"
            print("VIOLATION property=%s replay=%s%s" % (self.pid, path, suffix))
        cov = dict(self.coverage)
        cov.setdefault("trusted_base", TRUSTED_BASE)
        ev = {"property_id": self.pid, "tier": self.tier, "seed": self.seed, "level": self.level,
              "coverage": cov, "assumptions": self.assumptions,
              "wall_s": round(time.time() - self.t0, 2), "violations": len(seen),
              "known_findings_reported": sorted(printed)}
        os.makedirs(os.path.join(VERIF, "evidence"), exist_ok=True)
        json.dump(ev, open(os.path.join(VERIF, "evidence", "%s.json" % self.pid), "w"), indent=1)
        return 1 if seen else 0


def standard_proof_phase(v, pid, extra_checker=""):
    """Steps 1 of DESIGN §2.3. Fills coverage keys; returns True when every
    obligation of Properties/<pid>.v is discharged axiom-free."""
    ok_gen, gen_log = run_gen()
    bad = hygiene()
    # only what Properties/<pid>.v depends on: a broken or slow file of another layer is not this check's business
    ok_build, mk_log = coq_build(targets=["Properties/%s.vo" % pid])
    ob = property_obligations(pid)
    v.coverage["obligations"] = len(ob["theorems"])
    v.coverage["discharged"] = len(ob["discharged"]) if (ok_build and not bad) else \
        (len(ob["discharged"]) if ob["ok"] and not bad else 0)
    v.coverage["theorems"] = ob["theorems"]
    v.coverage["assumptions_per_theorem"] = ob["assumptions"]
    v.coverage["checker_cmd"] = ("coq_makefile -f _CoqProject && make -j (full .vo build of /verif/coq); "
                                 "coqc -Q . LS Properties/%s.v with Print Assumptions under every theorem; "
                                 "grep for Admitted/admit/Axiom/Parameter/Conjecture/guard switches%s" % (pid, extra_checker))
    problems = []
    if not ok_gen:
        problems.append("translator tools/gen failed on the current source: " + gen_log[-800:])
    if bad:
        problems.append("forbidden vernacular: " + "; ".join(bad[:5]))
    if not ok_build:
        ff = failed_files(mk_log)
        # only files this property depends on matter; Properties/<pid>.v compiling is the test
        if not ob["ok"]:
            problems.append("coq build failed in " + ", ".join(ff) + ": " + mk_log[-1500:])
    if not ob["ok"]:
        problems.append("Properties/%s.v does not compile: %s" % (pid, ob["log"][-1500:]))
    missing = [t for t in ob["theorems"] if t not in ob["discharged"]]
    if ob["ok"] and missing:
        problems.append("theorems without Print Assumptions output: " + ", ".join(missing))
    ap = assumption_problems(ob["assumptions"])
    if ap:
        problems.append("theorems depending on axioms/section variables: " + "; ".join(ap))
    if not ob["theorems"]:
        problems.append("no theorem in Properties/%s.v" % pid)
    # agreement between the functions/constants regenerated from the source (tools/gen -> coq/Gen)
    # and the hand-written model of this property's layer: a changed operator or constant in the Go
    # source breaks these obligations directly
    for extra in GEN_AGREE.get(pid, []):
        if not os.path.exists(os.path.join(COQ, "Properties", extra + ".v")):
            continue
        ok_b, mk = coq_build(targets=["Properties/%s.vo" % extra])
        eo = property_obligations(extra)
        v.coverage["obligations"] += len(eo["theorems"])
        v.coverage["theorems"] = v.coverage["theorems"] + ["%s.%s" % (extra, t) for t in eo["theorems"]]
        if eo["ok"] and not bad:
            v.coverage["discharged"] += len(eo["discharged"])
            v.coverage["assumptions_per_theorem"].update({"%s.%s" % (extra, k): a for k, a in eo["assumptions"].items()})
            ap = assumption_problems(eo["assumptions"])
            if ap:
                problems.append("%s: theorems depending on axioms: %s" % (extra, "; ".join(ap)))
        else:
            problems.append("Properties/%s.v (regenerated source vs model) does not compile: %s" % (extra, eo["log"][-1200:]))
    v.coverage["proof_problems"] = problems
    return not problems, problems
