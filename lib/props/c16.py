"""C16 — follow-mode restore converges and resumes correctly after being killed."""
import json
import os

from .. import common as C

PID = "C16"
LAYERS = ["Follow"]

RULE = ("three generators, all against the real Replica.Restore(Follow) loop stepped one poll at a time through a gating "
        "ReplicaClient wrapper: (hist) real primary histories (real DB + SQLite inserts/updates/deletes/VACUUM at page sizes "
        "512/1024/4096, app checkpoints, db.Compact(1..3), snapshots, L0 retention of 1 ns so that compacted L0 files vanish "
        "and gaps must be bridged from L1..L3, L1/L2 retention by TXID, follower start/stop/resume/poll/converge at random "
        "points): after every poll follower bytes (page-1 bytes 18-19, 24-27 masked) vs an ordinary Restore(TXID=sidecar), "
        "sidecar monotone, at quiescence vs Restore(latest); (syn) small synthetic listings of tiny real LTX files at arbitrary "
        "(level,min,max) incl. gaps, overlaps, multi-TXID L0 files, level-9 snapshots for the resume validation, injected open / "
        "checksum failures; (kill) follower child process under strace inject=<write|pwrite64|ftruncate|fsync|rename*|unlink*>:"
        "signal=KILL:when=k for sampled (quick) / all (thorough) k in three scenarios (fresh restore, resume over intact L0, "
        "resume needing L1/L2 bridging), sidecar-vs-content check, restart, converge, compare with Restore(latest); "
        "(resume) 12 real scenarios: follower stopped with its sidecar 1/3/6 TXIDs AHEAD of the newest level-9 snapshot and restarted "
        "against a replica with L0 intact / L0 compacted away (fillFollowGap needed) / nothing new (sidecar = replica max) / a sidecar "
        "beyond every level (must still be refused); the synthetic listings place the sidecar at, just past, far past the snapshot, at and "
        "beyond the replica maximum; the kill scenarios carry a snapshot older than every sidecar, so each restart resumes ahead of it; "
        "in the fresh-restore kill scenario every syscall from the fsync of <out>.tmp to the end (sidecar publish, database publish, "
        "directory syncs) is a kill point in the quick tier too; "
        "(race) list/open races: the wrapper runs primary-side operations inside the follower's OpenLTXFile call, i.e. between its "
        "listing and its k-th open (k = first, second): db.Compact(1) [+ L0Retention=1ns / EnforceL0RetentionByTime] or db.Compact(2) "
        "[+ EnforceRetentionByTXID], then the listed file(s) the follower is about to open vanish (first / middle / all but the newest / "
        "whatever real retention removes; from L0 while L1 covers them, from L1 while L2 covers them), 16 interleavings; the failed poll "
        "must not move the sidecar, the follower must converge, bytes vs Restore(TXID=sidecar) and Restore(latest). The oracle "
        "follow_applied_ok gets the files ACTUALLY applied (a file whose open failed is not applied) and the failed flag; the model case "
        "carries the not-exist outcome per file, so a swallowed open error is both a model mismatch and a chain-rule violation. "
        "Cases: follow_poll (model = implementation on applied (level,min,max) sequence and sidecar), follow_resume "
        "(validation decision from snapshots, sidecar and the per-level listing), follow_applied_ok (chain rule / progress / furthest-reachable oracle on the implementation's "
        "own output). distinct = distinct (entry,input); non-trivial = a poll that applied at least one file, or a resume "
        "decision with snapshots present or a refusal.")


def gen_cases(v, out, extra=None):
    if v.tier == "quick":
        args = ["-n", "9", "-nsyn", "160", "-kills", "3"]
    else:
        args = ["-n", "200", "-nsyn", "8000", "-kills", "-1"]
    if extra is not None:
        args = extra
    os.makedirs(out, exist_ok=True)
    for stale in ("cases.txt", "stats.json"):
        try:
            os.remove(os.path.join(out, stale))
        except FileNotFoundError:
            pass
    rc, o = C.sh([C.harness_bin("follow"), "follow", "-out", out, "-seed", str(v.seed)] + args, timeout=7200)
    return rc == 0, o


def report(v, out, cases):
    if not (os.path.exists(cases) and os.path.exists(os.path.join(out, "stats.json"))):
        v.violation("C16/harness-produced-no-cases", "the harness exited 0 but wrote no cases.txt / stats.json under " + out,
                    {"theorem_or_correspondence": "correspondence follow_poll (harness output)"}, False)
        return 0, []
    total, mism, errors = C.run_runner(cases, LAYERS)
    stats = json.load(open(os.path.join(out, "stats.json")))
    if total == 0 or stats.get("cases", 0) == 0 or total != stats.get("cases"):
        v.violation("C16/harness-produced-no-cases",
                    "case file and statistics disagree or are empty: runner evaluated %d cases, harness reports %s"
                    % (total, stats.get("cases")),
                    {"theorem_or_correspondence": "correspondence follow_poll (harness output)"}, False)
    v.coverage.update({
        "evaluations": total,
        "distinct_nontrivial": stats["distinct_nontrivial"],
        "rule": RULE,
        "samples": stats["samples"],
        "input_distribution": stats["classes"],
        "harness_counters": stats.get("extra", {}),
        "model_mismatches": len(mism),
        "runner_errors": errors[:5],
    })
    if errors:
        v.violation("C16/runner-error", "; ".join(errors[:3]), {"theorem_or_correspondence": "runner"}, False)
    for iv in stats.get("impl_violations") or []:
        v.violation(iv["signature"], iv["detail"], iv.get("replay") or {}, True)
    spec_bad = [m for m in mism if m["entry"] == "follow_applied_ok"]
    other = [m for m in mism if m["entry"] != "follow_applied_ok"]
    if spec_bad:
        m = spec_bad[0]
        v.violation("C16/applied-sequence-breaks-chain-rule-or-progress",
                    "the files the follower applied in a poll (or up to quiescence) do not form a valid chain from its TXID, "
                    "do not end at the sidecar TXID, or the follower stalled although a usable file exists "
                    "(%d such cases); input = [levels; t; applied; t'; quiescent]" % len(spec_bad),
                    {"case_lines": C.case_with_defs(cases, m["line"]), "spec_says": m["model"],
                     "how": "harness follow -replay"}, True)
    if other:
        m = other[0]
        v.violation("C16/model-mismatch:" + m["entry"],
                    "implementation and model disagree on %d cases (entry %s first); the chain-rule oracle and the byte "
                    "comparisons %s on this batch" % (len(other), m["entry"],
                                                      "also failed" if (spec_bad or stats.get("impl_violations")) else "held"),
                    {"theorem_or_correspondence": "correspondence " + m["entry"] + " (Follow/Follow.v vs replica.go)",
                     "case_lines": C.case_with_defs(cases, m["line"]), "model_says": m["model"]}, False)
    return total, mism


def run(v):
    proof_ok, problems = C.standard_proof_phase(v, PID)
    if not proof_ok:
        v.violation("C16/proof-broken", "; ".join(problems),
                    {"theorem_or_correspondence": "Properties/C16.v", "problems": problems}, found_input=False)
    ok, o = C.build_runner(LAYERS)
    if not ok:
        v.violation("C16/runner-build", o[-1500:], {"theorem_or_correspondence": "extraction of Follow/Entry.v"}, False)
        return
    ok, o = C.build_harness("follow")
    if not ok:
        v.violation("C16/harness-build", "harness does not build against the current /repo tree: " + o[-1500:],
                    {"theorem_or_correspondence": "correspondence follow_poll (harness build)"}, False)
        return
    out = os.path.join(C.WORK, PID)
    ok, o = gen_cases(v, out)
    if not ok:
        v.violation("C16/harness-run", o[-1500:], {"theorem_or_correspondence": "correspondence follow_poll (harness run)"}, False)
        return
    report(v, out, os.path.join(out, "cases.txt"))


def replay(v, path):
    rep = json.load(open(path))
    r = rep["replay"]
    sig = rep.get("signature", "")
    C.build_runner(LAYERS)
    C.build_harness("follow")
    out = os.path.join(C.WORK, PID, "replay")
    os.makedirs(out, exist_ok=True)
    for stale in ("cases.txt", "stats.json"):
        try:
            os.remove(os.path.join(out, stale))
        except FileNotFoundError:
            pass
    if r.get("case_lines"):
        src = os.path.join(out, "in.txt")
        open(src, "w").write("\n".join(r["case_lines"]) + "\n")
        args = ["-replay", src]
    elif r.get("kind") == "hist":
        args = ["-hist-seed", str(r["seed"]), "-hist-idx", str(r["idx"])]
    elif r.get("kind") == "resume":
        args = ["-resume-seed", str(r["seed"]), "-resume-idx", str(r["idx"])]
    elif r.get("kind") == "race":
        args = ["-race-seed", str(r["seed"]), "-race-idx", str(r["idx"])]
    elif r.get("kind") == "kill":
        args = ["-seed", str(r["seed"]), "-n", "0", "-nsyn", "0", "-kills", "-1"]
    else:
        print("replay file names no input:", r.get("theorem_or_correspondence"))
        return 1
    rc, o = C.sh([C.harness_bin("follow"), "follow", "-out", out] + args, timeout=3600)
    if rc != 0:
        print(o)
        return 2
    total, mism, errors = C.run_runner(os.path.join(out, "cases.txt"), LAYERS, shards=1)
    stats = json.load(open(os.path.join(out, "stats.json")))
    bad = 0
    for m in mism:
        print("REPLAY-MISMATCH entry=%s model=%s" % (m["entry"], m["model"][:400]))
        bad += 1
    for iv in stats.get("impl_violations") or []:
        print("REPLAY-VIOLATION %s: %s" % (iv["signature"], iv["detail"][:600]))
        if not sig or iv["signature"] == sig or not sig.startswith("C16/"):
            bad += 1
    print("replayed %d case(s), %d mismatch(es), %d implementation-level violation(s)" %
          (total, len(mism), len(stats.get("impl_violations") or [])))
    return 1 if bad else 0
