"""C04 — when continuity with the WAL cannot be proven, litestream re-snapshots."""
from . import db_common as D

PID = "C04"


def run(v):
    # 11 disturbance kinds x 4 application checkpoint modes x 3 relative lengths of the new WAL generation = 132 scenarios
    n = 204 if v.tier == "quick" else 204 * 6
    D.run_db(v, PID, "c04", n, 0,
             "disturbance scenarios: {new process idle / after application writes / after writes+checkpoint(mode)+writes; same DB "
             "object Close+Open around writes+checkpoint+writes; WAL removed by the last application connection; database file "
             "replaced by an older copy (with and without the replica ahead); meta directory removed offline; ResetLocalState at run "
             "time; the WAL restarted twice with ever shorter generations (new process / same object)} x checkpoint mode x new WAL generation shorter/equal/longer than the old cursor; after the disturbance one more "
             "write and two SyncAndWait calls: restore must equal the source (page image), local and remote positions must agree and "
             "the remote position must have advanced. non-trivial = the scenario reached an acknowledged instant.")


def replay(v, path):
    return D.replay_db(v, PID, path)
