"""C12 — concurrent daemon operations: race-free, deadlock-free, no leaked lock, keep C01/C02.

What is PROVED (Coq, Conc/Locks.v + Conc/Proofs.v): the lock protocol — executor
mutual exclusion, the snapshot hand-off, deadlock freedom, Close completes and
releases, register-once — for any number of threads, by invariant.
What is EXPLORED (this run): race freedom and the end-to-end oracles, by a
randomised N-goroutine stress of the real code built with -race."""
import glob
import json
import os
import re
import shutil

from .. import common as C

PID = "C12"
LAYERS = ["Conc"]


def hook_present():
    return os.path.exists(os.path.join(C.REPO, "trace_verif.go")) and os.path.exists(os.path.join(C.REPO, "trace_noverif.go"))


def build_race_harness():
    """go build -race of harness/cmd/conc against the current tree (build_harness has no -race)."""
    out = C.harness_bin("conc")
    tags = "verif,conctrace" if hook_present() else "verif"
    with C.Lock("harness"):
        os.makedirs(C.BIN, exist_ok=True)
        hdir = os.path.join(C.VERIF, "harness")
        shutil.copyfile(os.path.join(C.REPO, "go.sum"), os.path.join(hdir, "go.sum"))
        cmd = ["go", "build", "-race", "-tags", tags, "-o", out]
        if C.REPO != "/repo":
            mod = open(os.path.join(hdir, "go.mod")).read().replace("=> /repo", "=> " + C.REPO)
            open(os.path.join(hdir, "go.alt.mod"), "w").write(mod)
            shutil.copyfile(os.path.join(C.REPO, "go.sum"), os.path.join(hdir, "go.alt.sum"))
            cmd.append("-modfile=go.alt.mod")
        rc, o = C.sh(cmd + ["./cmd/conc"], cwd=hdir, timeout=3000, env=dict(C.GOENV))
    return rc == 0, o, tags


RULES = {1: "mutual-exclusion", 2: "release-without-hold", 3: "chkMu-write-lock-outside-executor-or-blocking",
         4: "chkMu-read-lock-outside-executor", 5: "snapshot-hand-off", 6: "lock-order",
         7: "executor-released-inside-checkpoint-section", 8: "still-held-at-end", 9: "malformed-trace"}
_RES = ["execSem", "chkMu", "syncSem", "Store.mu", "db.mu"]
EVNAME = {}
for _i, _r in enumerate(_RES):
    EVNAME[(1, _i)] = _r + ".acquire"
    EVNAME[(2, _i)] = _r + ".try-ok"
    EVNAME[(4, _i)] = _r + ".release"
EVNAME.update({(5, 0): "chkMu.RLock", (6, 0): "chkMu.RUnlock", (5, 1): "db.mu.RLock", (6, 1): "db.mu.RUnlock",
               (7, 0): "snapshot-position-captured", (8, 0): "checkpoint-runs"})

FRAME = re.compile(r"^\s+(\S+)\(\)\n\s+(\S+?):(\d+)", re.M)


def parse_races(outdir):
    """race detector reports -> list of dict(signature, write_fn, other_fn, text)"""
    out = []
    for p in sorted(glob.glob(os.path.join(outdir, "race.*"))):
        txt = open(p, errors="replace").read()
        for rep in txt.split("WARNING: DATA RACE")[1:]:
            rep = rep.split("==================")[0]
            blocks = [b for b in rep.strip().split("\n\n") if b.strip()]
            accs = []
            for b in blocks[:2]:
                head = b.strip().split("\n")[0]
                kind = "write" if "rite" in head.split(" at ")[0] else "read"
                frames = FRAME.findall("\n" + b)
                fn = None
                for f, path, line in frames:
                    if "benbjohnson/litestream" in f and "/harness/" not in path:
                        fn = f
                        break
                if fn is None and frames:
                    fn = frames[0][0]
                fn = (fn or "?").replace("github.com/benbjohnson/litestream", "litestream")
                accs.append((kind, fn))
            if len(accs) < 2:
                continue
            writes = sorted(f for k, f in accs if k == "write")
            w = writes[0] if writes else sorted(f for _, f in accs)[0]
            other = [f for k, f in accs if f != w] or [w]
            out.append({"signature": "C12/data-race:written-by:" + w, "write_fn": w, "other_fn": other[0],
                        "text": "WARNING: DATA RACE" + rep[:6000]})
    return out


def report_trace_mismatches(v, mism, cases):
    diag_lines = set(m["line"] for m in mism if m["entry"] == "conc_trace_diag")
    for m in mism:
        if m["entry"] == "conc_trace_diag":
            nums = [int(x, 16) if x.startswith("0x") else int(x) for x in re.findall(r"0x[0-9a-f]+|\d+", m["model"])]
            k, rule = (nums + [0, 9])[:2]
            fields = m["case"].split("\t")
            evs = re.findall(r"\((\d+) (\d+) (\d+)\)", fields[1])
            lo = max(0, k - 40)
            sl = ["g%s %s" % (g, EVNAME.get((int(c), int(a)), "code%s/%s" % (c, a))) for g, c, a in evs[lo:k + 1]]
            v.violation("C12/lock-trace-not-accepted:" + RULES.get(rule, "rule%d" % rule),
                        "the lock events recorded from the real code (one DB object + the store, %d events) are rejected by the monitor of "
                        "Conc/Locks.v at event %d: rule %d (%s). The rejected event is the last one of the slice in the replay file."
                        % (len(evs), k, rule, RULES.get(rule, "?")),
                        {"trace_slice": sl, "first_event_of_slice": lo, "rejected_event_index": k, "rule": rule,
                         "how": "runner (conc_trace_diag) on the recorded trace; harness conc -seed %d" % v.seed}, True)
        elif m["entry"] == "conc_trace_ok":
            if (m["line"] + 1) not in diag_lines:
                v.violation("C12/lock-trace-not-accepted:unclassified",
                            "a recorded lock-event trace is not accepted by conc_trace_ok", {"case_line": m["case"][:2000]}, True)
        else:
            v.violation("C12/model-mismatch:" + m["entry"], "extracted model disagrees: " + m["model"][:300],
                        {"theorem_or_correspondence": m["entry"], "case_lines": C.case_with_defs(cases, m["line"])[:3]}, False)


def run_harness(v, out, extra):
    env = {"GORACE": "log_path=%s exitcode=0 halt_on_error=0" % os.path.join(out, "race")}
    return C.sh([C.harness_bin("conc"), "conc", "-out", out, "-seed", str(v.seed)] + extra, timeout=7200, env=env)


def run(v):
    proof_ok, problems = C.standard_proof_phase(v, PID)
    if not proof_ok:
        v.violation("C12/proof-broken", "; ".join(problems),
                    {"theorem_or_correspondence": "Properties/C12.v", "problems": problems}, found_input=False)
    ok, o = C.build_runner(LAYERS)
    if not ok:
        v.violation("C12/runner-build", o[-1500:], {"theorem_or_correspondence": "extraction of Conc/Entry.v"}, False)
        return
    ok, o, tags = build_race_harness()
    if not ok:
        v.violation("C12/harness-build", "harness does not build (-race) against the current /repo tree: " + o[-1500:],
                    {"theorem_or_correspondence": "stress harness build"}, False)
        return
    out = os.path.join(C.WORK, PID, "run")
    shutil.rmtree(out, ignore_errors=True)
    os.makedirs(out, exist_ok=True)
    if v.tier == "quick":
        extra = ["-n", "60", "-budget", "12s", "-small", "-eptime", "4s", "-snapdup", "3", "-regsched", "2", "-regstress", "8"]
    else:
        extra = ["-n", "600", "-budget", "25m", "-snapdup", "12", "-regsched", "3", "-regstress", "80", "-ckptsnap", "40"]
    rc, o = run_harness(v, out, extra)
    basic = os.path.join(out, "cases_basic.txt")
    if rc != 0 or not os.path.exists(os.path.join(out, "stats.json")):
        pm = re.search(r"^(panic: .*|fatal error: .*)$", o, re.M)
        if pm:
            v.violation("C12/daemon-code-crashed:" + pm.group(1)[:100],
                        "the stress process died in the code under test: " + o[o.find(pm.group(1)):][:1500],
                        {"seed": v.seed, "how": "harness conc -seed %d" % v.seed, "output": o[-3000:]}, True)
        else:
            v.violation("C12/harness-run", "stress harness failed (rc=%s): %s" % (rc, o[-1500:]),
                        {"theorem_or_correspondence": "stress harness run"}, False)
        if os.path.exists(basic) and os.path.getsize(basic) > 0:   # the sequential scenario's trace was written before the crash
            total, mism, errors = C.run_runner(basic, LAYERS, shards=1)
            report_trace_mismatches(v, mism, basic)
        return
    stats = json.load(open(os.path.join(out, "stats.json")))
    extra_s = stats.get("extra", {})
    eps = extra_s.get("episodes") or []
    ops_total = extra_s.get("ops_total") or {}
    n_calls = sum(ops_total.values())
    cases = os.path.join(out, "cases.txt")
    total, mism, errors = C.run_runner(cases, LAYERS)
    if os.path.exists(basic) and os.path.getsize(basic) > 0:
        t2, m2, e2 = C.run_runner(basic, LAYERS, shards=1)
        report_trace_mismatches(v, m2, basic)
        total += t2
        errors += e2
    races = parse_races(out)
    race_sigs = sorted(set(r["signature"] for r in races))
    kinds = sum(1 for k, n in ops_total.items() if n > 0)
    scen = [k for k in ("f9", "snapdup", "halfinit", "queuedsync", "regstress", "ckptsnap", "ckptfail") if extra_s.get(k)]
    reg_cases = sum(n for k, n in (stats.get("classes") or {}).items() if k.startswith("regsched/"))
    v.coverage.update({
        "evaluations": n_calls + total,
        "distinct_nontrivial": len([e for e in eps if sum((e.get("ops") or {}).values()) > 0]) + len(scen) + stats.get("distinct_nontrivial", 0),
        "rule": "one evaluation = one call of a daemon operation by a stress goroutine (plus the model-side cases). An episode = one "
                "Store + one source database with live writer goroutines, a seeded random configuration (goroutines, checkpoint thresholds, "
                "MaxSyncWALBytes, monitors on/off, cancelled Close, guarded/free mode), concurrent RegisterDB of one path, then N goroutines "
                "drawing from 25 operation kinds (Sync, SyncDB, Replica.Sync, Checkpoint x4 modes, Snapshot, abandoned SnapshotReader, "
                "Compact L1/L2/snapshot level, three retention entry points, status queries, CRC64, Validate, Register/Unregister, "
                "Enable/Disable) with live/expiring/cancelled contexts, then concurrent Store.Close/DisableDB, then the oracles. "
                "distinct_nontrivial = episodes that executed at least one operation (distinct seeds/configurations) + the dedicated scenarios run "
                "+ the distinct enumerated registry schedules (model cases `conc_register`: an initial slice in {[],[B],[B,C]}, one or two "
                "RegisterDB calls parked between their two checks by a slog.Handler on Store.Logger, every sequence of up to L whole "
                "RegisterDB/UnregisterDB calls over paths A..D meanwhile, both resume orders; implementation's final slice and per-call outcome "
                "compared with the extracted Registry model, plus the at-most-one-instance-per-path oracle after every micro-step and the "
                "losers-are-closed oracle). "
                "Schedules are not controlled: the same seed explores a different interleaving each run.",
        "samples": [json.dumps(eps[0])[:1500]] if eps else ["(no episode fit in the budget)"],
        "input_distribution": ops_total,
        "episodes": len(eps),
        "operation_kinds_exercised": kinds,
        "snapshots_checked_against_l0_chain": sum(e.get("snapshots_checked", 0) for e in eps),
        "app_commits_during_stress": sum(e.get("app_commits", 0) for e in eps),
        "corrupt_published_snapshots_replaced_by_good_upload": sum(e.get("corrupt_published_snapshots_replaced_by_good_upload", 0) for e in eps),
        "local_only_l0_files_after_cancelled_close": sum(e.get("local_only_l0_files_after_close", 0) for e in eps),
        "corrupt_published_snapshots_set_aside": sum(e.get("corrupt_published_snapshots_set_aside", 0) for e in eps),
        "scenarios": {k: extra_s.get(k) for k in ("basic", "f9", "snapdup", "halfinit", "queuedsync", "ckptfail", "ckptsnap", "regsched", "regstress")},
        "registry_schedules_compared_with_model": reg_cases,
        "race_reports": len(races),
        "race_report_groups": race_sigs,
        "lock_trace_hook": bool(extra_s.get("trace_hook")),
        "lock_trace_events": extra_s.get("trace_events_total", 0),
        "traces_validated_against_impl": sum(n for k, n in (stats.get("classes") or {}).items() if k.startswith("trace/") and not k.endswith("/diag")),
        "model_cases": total,
        "model_mismatches": len(mism),
        "runner_errors": errors[:5],
        "build_tags": tags,
        "explanation": "PROVED (Coq, axiom-free, any number of threads, by invariant over Conc/Locks.v): the lock protocol of the transcribed "
                       "operations — executor mutual exclusion, no checkpoint between snapshot position capture and chkMu.RLock, deadlock freedom "
                       "(no cancellation needed), Close releases the read transaction and handles on every path and the system always terminates, "
                       "at most one registered instance / exactly one once a RegisterDB returned nil; plus a refutation witness for 'a closed DB stays "
                       "released'. EXPLORED, not proved (this run): absence of Go data races (race detector over the randomised stress; the absence "
                       "of a report is not a proof), call completion (watchdog), lock/handle release after Close (fd table, TRUNCATE-checkpoint probe), "
                       "and C01/C02 after the stress (restore latest = source; every uploaded/published snapshot = L0 chain at its TXID). "
                       "The model is tied to the code by hand transcription (cited line ranges) and by lock-trace conformance: the add-only "
                       "verifTrace hook records every acquire/release of execSem, chkMu, syncSem, Store.mu, db.mu (+ position capture, checkpoint run) "
                       "per goroutine and object; each per-DB projection (with the store's events) of every episode and scenario is replayed by the "
                       "extracted monitor (conc_trace_ok / conc_trace_diag), whose rules — mutual exclusion, releases match acquires, chkMu only "
                       "try-locked and only under the executor, read-locked only under the executor, the hand-off, the blocking lock order, idle at the "
                       "end — are proved to hold of every LTS trace (lts_traces_accepted). lock_trace_hook says whether that ran; without the hook "
                       "files the check falls back to transcription only.",
    })
    v.assumptions += [
        "Go memory model and runtime are not modelled: race freedom is explored with the race detector, never claimed as proved",
        "sync.RWMutex writer preference, leaf mutexes (db.pos, maxLTXFileInfos, syncDiag, Replica.mu/muf) and loops are outside the LTS",
    ]
    if errors:
        v.violation("C12/runner-error", "; ".join(errors[:3]), {"theorem_or_correspondence": "runner"}, False)
    report_trace_mismatches(v, mism, cases)
    for iv in stats.get("impl_violations") or []:
        v.violation(iv["signature"], iv["detail"], iv.get("replay") or {}, True)
    seen = set()
    for r in races:
        if r["signature"] in seen:
            continue
        seen.add(r["signature"])
        n = sum(1 for x in races if x["signature"] == r["signature"])
        v.violation(r["signature"],
                    "race detector: %d report(s) whose written location is stored by %s (first conflicting access in %s)" % (n, r["write_fn"], r["other_fn"]),
                    {"race_report": r["text"], "seed": v.seed, "how": "harness conc (built -race) -seed %d; schedules vary between runs" % v.seed}, True)


def replay(v, path):
    rep = json.load(open(path))
    r = rep.get("replay") or {}
    ok, o, tags = build_race_harness()
    if not ok:
        print(o[-2000:])
        return 2
    out = os.path.join(C.WORK, PID, "replay")
    shutil.rmtree(out, ignore_errors=True)
    os.makedirs(out, exist_ok=True)
    if "race_report" in r:
        print(r["race_report"])
        extra = ["-n", "40", "-budget", "120s", "-f9=false", "-snapdup", "0", "-halfinit=false"]
    elif "episode" in r:
        extra = ["-n", str(int(r["episode"]) + 1), "-only", str(int(r["episode"]))]
    elif "history" in r:
        extra = ["-n", "0"]
    elif "schedule" in r or "round" in r:
        extra = ["-n", "0", "-f9=false", "-snapdup", "0", "-halfinit=false"]
    elif "case_lines" in r:
        print("model/implementation case:", r["case_lines"])
        extra = ["-n", "0", "-f9=false", "-snapdup", "0", "-halfinit=false", "-regstress", "0"]
    else:
        print("replay file names no input:", r.get("theorem_or_correspondence"))
        return 1
    v.seed = int(r.get("seed", rep.get("seed", v.seed)))
    rc, o = run_harness(v, out, extra)
    if rc != 0:
        print(o[-2000:])
        return 2
    stats = json.load(open(os.path.join(out, "stats.json")))
    sigs = [iv["signature"] for iv in stats.get("impl_violations") or []] + sorted(set(x["signature"] for x in parse_races(out)))
    for s in sigs:
        print("REPLAY-VIOLATION", s)
    print("replayed; %d violation signature(s); sought %s" % (len(sigs), rep.get("signature")))
    return 1 if rep.get("signature") in sigs else 0
