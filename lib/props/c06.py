"""C06 — compaction never changes what is restored (file level; store-level histories are added by
extra phases appended to PHASES)."""
import json
import os

from .. import common as C

PID = "C06"
LAYERS = ["Ltx"]
ORACLES = ("ltx_compact_equiv_ok",)

# what each model entry corresponds to in the code
CORR = {
    "ltx_compact": "Ltx/Compact.v compact vs ltx.Compactor.Compact (as used by compactor.go Compact / replica.go Restore)",
    "ltx_restore": "Ltx/Compact.v restore vs ltx.Compactor piped into ltx.Decoder.DecodeDatabaseTo (replica.go Restore)",
    "ltx_apply": "Ltx/Apply.v apply_all vs the image the real restore path produces for snapshot + files",
    "ltx_compact_equiv_raw": "replay of the witness of compact_needs_growth_closed_refuted on the real compactor",
}


def gen_cases(v, out):
    n = 400 if v.tier == "quick" else 12000
    # never read a stale batch: the previous case / stat files go first
    for name in ("cases.txt", "stats.json"):
        try:
            os.remove(os.path.join(out, name))
        except FileNotFoundError:
            pass
    rc, o = C.sh([C.harness_bin("ltx"), "-mode", "c06", "-out", out, "-n", str(n), "-seed", str(v.seed)], timeout=3000)
    return rc == 0, o


def file_level_phase(v):
    """random abstract file lists through the real encoder / compactor / decoder vs the model"""
    ok, o = C.build_runner(LAYERS)
    if not ok:
        v.violation("C06/runner-build", o[-1500:], {"theorem_or_correspondence": "extraction of Ltx/Entry.v"}, False)
        return
    ok, o = C.build_harness("ltx")
    if not ok:
        v.violation("C06/harness-build", "harness does not build against the current /repo tree: " + o[-1500:],
                    {"theorem_or_correspondence": "correspondence ltx_compact (harness build)"}, False)
        return
    out = os.path.join(C.WORK, PID)
    ok, o = gen_cases(v, out)
    if not ok:
        v.violation("C06/harness-run", o[-1500:], {"theorem_or_correspondence": "correspondence ltx_compact (harness run)"}, False)
        return
    cases = os.path.join(out, "cases.txt")
    if not os.path.exists(cases) or not os.path.exists(os.path.join(out, "stats.json")):
        v.violation("C06/harness-run", "the harness exited 0 but wrote no case file under " + out,
                    {"theorem_or_correspondence": "correspondence ltx_compact (harness run)"}, False)
        return
    total, mism, errors = C.run_runner(cases, LAYERS)
    stats = json.load(open(os.path.join(out, "stats.json")))
    if total == 0 or stats.get("cases", 0) != total:
        v.violation("C06/harness-run", "harness reported %s cases, the runner evaluated %d" % (stats.get("cases"), total),
                    {"theorem_or_correspondence": "correspondence ltx_compact (case file)"}, False)
        return
    v.coverage.update({
        "evaluations": v.coverage.get("evaluations", 0) + total,
        "distinct_nontrivial": v.coverage.get("distinct_nontrivial", 0) + stats["distinct_nontrivial"],
        "rule": "file level: random chains of abstract LTX files derived from a simulated database (grow / shrink / "
                "same size, in-chain full snapshots, chains starting at TXID 1, multi-TXID inputs, non-monotone "
                "timestamps, page numbers around the lock page for all eight page sizes) plus structurally mutated "
                "chains (growth fill dropped, TXID gap / overlap, page-size mismatch, swapped files, short snapshot, "
                "no input); every file is encoded with the real ltx.Encoder, merged with the real ltx.Compactor "
                "(directly, in pieces, and through litestream's Compactor.Compact + Replica.Restore over an in-memory "
                "replica client) and decoded with the real ltx.Decoder / DecodeDatabaseTo. Model entries: ltx_compact, "
                "ltx_restore, ltx_apply; spec oracle ltx_compact_equiv_ok on the implementation's compacted file; "
                "Go-side oracles: restore(snapshot+inputs) = restore(snapshot+compacted), compact(pieces) = compact(all). "
                "distinct = distinct (entry,input); non-trivial = more than one input file, or a restore.",
        "samples": stats["samples"],
        "input_distribution": stats["classes"],
        "model_mismatches": len(mism),
        "runner_errors": errors[:5],
        "via_litestream": stats.get("extra"),
    })
    if errors:
        v.violation("C06/runner-error", "; ".join(errors[:3]), {"theorem_or_correspondence": "runner"}, False)
    for iv in stats.get("impl_violations") or []:
        v.violation(iv["signature"], iv["detail"], iv.get("replay") or {}, True)
    spec_bad = [m for m in mism if m["entry"] in ORACLES]
    other = [m for m in mism if m["entry"] not in ORACLES]
    if spec_bad:
        m = spec_bad[0]
        v.violation("C06/compacted-file-not-equivalent",
                    "applying the real compactor's output to the base image does not give what applying its inputs "
                    "in order gives (pages, size, timestamp of the newest input or TXID range differ; %d such cases)" % len(spec_bad),
                    {"case_lines": C.case_with_defs(cases, m["line"]), "spec_says": m["model"],
                     "how": "harness ltx -replay"}, True)
    if other:
        # a model-only disagreement: first look whether the property itself fails on the same chain
        m = other[0]
        via = [x for x in other if "via-litestream" in x.get("case", "")]
        v.violation("C06/model-mismatch:" + m["entry"],
                    "implementation and model disagree on %d cases (entry %s first)%s" %
                    (len(other), m["entry"], "" if spec_bad else "; the equivalence oracle held on every compaction of this batch"),
                    {"theorem_or_correspondence": "correspondence " + CORR.get(m["entry"], m["entry"]),
                     "case_lines": C.case_with_defs(cases, m["line"]), "model_says": m["model"]},
                    found_input=m["entry"] in ("ltx_apply", "ltx_restore") and not spec_bad)


def store_level_phase(v):
    """real histories of {sync-upload, Compact L, Store.CompactDB, Snapshot} over 1..8 levels (Store layer):
    listings = Store/Ops.v, levels_contiguous on every listing, every level>=1 file = re-composition of the
    archived L0 files, Restore(TXID) the same whichever plan is used"""
    from . import store_common as S

    def classify(m):
        return ("C06/levels-not-contiguous",
                "an observed listing of a retention-free history violates levels_contiguous (Store/Spec.v): a level is "
                "not an exact chain from TXID 1, a file does not end at a boundary of the level below, or an L0 file is "
                "missing; input (pos had_snapshot retention_free listing)", True)
    S.store_phase(v, PID, "c06", 40, 2500, ("store_run", "store_inv_ok"), ("C06/",), classify)


PHASES = [file_level_phase, store_level_phase]


def shrink_snapshot_phase(v):
    """snapshots and compactions taken while a shrink of the database exists only in the WAL (and
    after it was checkpointed): every TXID must restore identically through snapshots / compacted
    files and through the level-0 chain (db harness, mode shrinksnap)"""
    from . import db_common as D
    D.harness_only_phase(v, PID, "shrinksnap", 6 if v.tier == "quick" else 120, 0, "shrink_snapshot_histories")


PHASES.append(shrink_snapshot_phase)


def run(v):
    proof_ok, problems = C.standard_proof_phase(v, PID)
    if not proof_ok:
        v.violation("C06/proof-broken", "; ".join(problems),
                    {"theorem_or_correspondence": "Properties/C06.v", "problems": problems}, found_input=False)
    for ph in PHASES:
        ph(v)


def replay(v, path):
    rep = json.load(open(path))
    lines = rep["replay"].get("case_lines")
    if not lines and "index" not in rep["replay"]:
        print("replay file names no input:", rep["replay"].get("theorem_or_correspondence"))
        return 1
    if "index" in rep["replay"] or any(l.startswith("store_") for l in lines or []):
        from . import store_common as S
        return S.replay(v, path, PID)
    C.build_runner(LAYERS)
    C.build_harness("ltx")
    out = os.path.join(C.WORK, PID, "replay")
    os.makedirs(out, exist_ok=True)
    src = os.path.join(out, "in.txt")
    open(src, "w").write("\n".join(lines) + "\n")
    rc, o = C.sh([C.harness_bin("ltx"), "-out", out, "-replay", src], timeout=600)
    if rc != 0:
        print(o)
        return 2
    total, mism, errors = C.run_runner(os.path.join(out, "cases.txt"), LAYERS, shards=1)
    for m in mism:
        print("REPLAY-MISMATCH entry=%s model=%s" % (m["entry"], m["model"][:400]))
    print("replayed %d case(s), %d mismatch(es)" % (total, len(mism)))
    return 1 if mism else 0
