"""C05 — transient storage failures never leave gaps or false acknowledgements."""
import os

from .. import common as C
from . import faults_common as F

PID = "C05"


def run(v):
    proof_ok, problems = C.standard_proof_phase(v, PID)
    if not proof_ok:
        v.violation("C05/proof-broken", "; ".join(problems),
                    {"theorem_or_correspondence": "Properties/C05.v", "problems": problems}, found_input=False)
    if not F.build(v, PID):
        return
    out = os.path.join(C.WORK, PID)
    n = 30 if v.tier == "quick" else 1500
    stats = F.gen(v, PID, out, "upload,compact,behind", n)
    if stats is None:
        return
    cases = os.path.join(out, "cases.txt")
    total, mism, errors = C.run_runner(cases, F.LAYERS)
    v.coverage.update({
        "evaluations": total,
        "distinct_nontrivial": stats["distinct_nontrivial"],
        "exhaustive": True,
        "rule": "the real Replica.Sync / Replica.sync(max) over a fault-injecting client wrapping file.ReplicaClient, "
                "local L0 files produced by a real DB on real SQLite. Exhaustive: every schedule of <= 4 (6 thorough) client "
                "calls over {Ok, FailBefore, FailAfter, ShortRead 40, ErrMidStream 150}, consumed by repeated syncs, then a "
                "fault-free sync. Sampled: histories of 4-15 steps (writes, syncs with random schedules and batch limits, "
                "bounded retries, remote retention of a prefix, a dropped local file). After every client call the remote "
                "L0 listing (read from disk) and a byte comparison with the local files are recorded; per history the model "
                "entry upload_run (error class, position, every call and listing) and the oracle upload_inv_ok; after the "
                "fault-free suffix remote = local and Restore = restore of the local chain = source image (db file + WAL). "
                "Compaction: the real DB.Compact for L0->L1 and L1->L2 with the sources read from the replica (local L0 "
                "copies removed) over the fault client: reads of one source fail {initial open; stream error / premature EOF "
                "at offset 40, 150, size-1, repeated on every re-open; one stream error then failing re-opens; then "
                "not-exist} x 1,3,4,5 (1..5 thorough) consecutive failures, write outcomes {ok, fail-before, fail-after}; "
                "around EVERY Compact and its fault-free follow-up: destination objects verify (full decode + checksum) and "
                "equal an independent ltx merge of the archived L0 files, nil => published + cached, error => cache "
                "unchanged and nothing new (except fail-after), levels gap-free, Restore = source image; model entry "
                "compact_run (Faults/Compact.v) and oracle compact_inv_ok; plus a stale-cache scenario (fail-after, more "
                "writes, L1 and L2 compaction). "
                "(Re)open: start states {in step, meta dir lost, older checkpointed db file, both, newest local L0 file lost} over a replica 1..6 x a "
                "fault on each of the first 3 (7 thorough) level-0 client calls of the first SyncAndWait (init's listing and "
                "baseline OpenLTXFile, Replica.Sync's listing and writes: fail-before / error mid-stream / short read or "
                "fail-after) x {1,2} consecutive, then a fault-free suffix of commits, SyncAndWait calls and Close; after every "
                "nil: SyncStatus local == remote, remote advanced if the source changed, Restore = source image, remote L0 "
                "gapless; after faults stop at most one more failure; model entry behind_run (Faults/Behind.v) and oracle "
                "behind_inv_ok. "
                "non-trivial = at least one fault was injected. distinct = distinct (entry, input).",
        "samples": stats["samples"],
        "input_distribution": stats["classes"],
        "restores_compared_with_source": stats.get("extra", {}).get("upload_restores"),
        "compaction_attempts": stats.get("extra", {}).get("compaction_attempts"),
        "reopen_histories": stats.get("extra", {}).get("behind_histories"),
        "stale_cache_levels": stats.get("extra", {}).get("stale_cache_levels"),
        "model_mismatches": len(mism),
        "runner_errors": errors[:5],
    })
    if errors:
        v.violation("C05/runner-error", "; ".join(errors[:3]), {"theorem_or_correspondence": "runner"}, False)
    for iv in stats.get("impl_violations", []):
        rp = dict(iv.get("replay") or {})
        steps = rp.get("steps")
        if steps:
            rp["case_lines"] = ["upload_run\t(%s)\t()" % steps]
        else:
            rp.update({"part": "behind" if "start" in rp else "compact", "n": n})
        v.violation(iv["signature"], iv["detail"], rp, True)
    inv_bad = [m for m in mism if m["entry"] == "upload_inv_ok"]
    run_bad = [m for m in mism if m["entry"] == "upload_run"]
    binv_bad = [m for m in mism if m["entry"] == "behind_inv_ok"]
    brun_bad = [m for m in mism if m["entry"] == "behind_run"]
    if binv_bad and not any(iv["signature"].startswith("C05/ack") or "restore-differs" in iv["signature"]
                            for iv in stats.get("impl_violations", [])):
        m = binv_bad[0]
        v.violation("C05/ack-not-in-sync-after-reopen",
                    "an acknowledged SyncAndWait after a (re)open breaks behind_inv_ok (%d histories): %s" % (len(binv_bad), m["case"][:1500]),
                    {"case_lines": [m["case"]], "part": "behind", "n": n}, True)
    if brun_bad:
        m = brun_bad[0]
        v.violation("C05/model-mismatch:behind_run",
                    "DB.init/checkDatabaseBehindReplica + SyncAndWait and the model Faults/Behind.v disagree on %d histories "
                    "(error class, position or the client calls made, e.g. an error of init's listing that does not surface)"
                    % len(brun_bad),
                    {"theorem_or_correspondence": "correspondence behind_run (Faults/Behind.v vs db.go checkDatabaseBehindReplica/init)",
                     "case_lines": [m["case"]], "model_says": m["model"][:2000], "part": "behind", "n": n},
                    bool(binv_bad) or any(iv["signature"].startswith("C05/ack") for iv in stats.get("impl_violations", [])))
    cinv_bad = [m for m in mism if m["entry"] == "compact_inv_ok"]
    crun_bad = [m for m in mism if m["entry"] == "compact_run"]
    if cinv_bad and not any(iv["signature"].startswith("C05/compaction") or "compaction" in iv["signature"]
                            for iv in stats.get("impl_violations", [])):
        m = cinv_bad[0]
        v.violation("C05/compaction-invariant",
                    "an observed Compact outcome breaks compact_inv_ok (%d cases): %s" % (len(cinv_bad), m["case"]),
                    {"case_lines": [m["case"]], "part": "compact", "n": n}, True)
    if crun_bad and not cinv_bad and not stats.get("impl_violations"):
        m = crun_bad[0]
        v.violation("C05/model-mismatch:compact_run",
                    "Compactor.Compact and the model Faults/Compact.v disagree on %d attempts (error class, published "
                    "object or cache); every oracle held" % len(crun_bad),
                    {"theorem_or_correspondence": "correspondence compact_run (Faults/Compact.v vs compactor.go Compact)",
                     "case_lines": [m["case"]], "model_says": m["model"][:2000], "part": "compact", "n": n}, False)
    if inv_bad:
        m = inv_bad[0]
        v.violation("C05/gap-or-false-ack",
                    "the remote L0 listing observed after a client call is not one contiguous run of intact files, or a sync "
                    "returned nil while a local L0 file at or below its position is not stored (%d histories)" % len(inv_bad),
                    {"case_lines": C.case_with_defs(cases, m["line"] - 1), "events": m["case"][:3000]}, True)
    elif run_bad:
        m = run_bad[0]
        v.violation("C05/model-mismatch:upload_run",
                    "Replica.sync and the model Faults/Upload.v disagree on %d histories (error class, position or a listing "
                    "after some client call); the gap/false-ack oracle held on all of them" % len(run_bad),
                    {"theorem_or_correspondence": "correspondence upload_run (Faults/Upload.v vs replica.go syncOnce/sync)",
                     "case_lines": [m["case"]], "model_says": m["model"][:2000]}, False)


def replay(v, path):
    return F.replay_cases(v, PID, path)
