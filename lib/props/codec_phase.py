"""Codec layer (coq/Codec/*.v, harness/cmd/codec): the LTX byte layout against the real
ltx.Encoder / ltx.Decoder / ltx.Compactor / Replica.Restore.  A phase of C10: every generated or
real-replica file is decoded at every truncation length (sampled for large files), for every single-bit
flip of header, page headers, size prefixes, end marker, index and trailer, and for sampled flips
inside the compressed page data; the model entry codec_decode must give the same outcome class and the
same place of the error, codec_encode_layout the same acceptance, offsets and checksummed byte ranges."""
import json
import os
import re

from .. import common as C

LAYERS = ["Codec"]
CLASS = {0: "ok-identical", 1: "ok-DIFFERENT", 2: "error", 3: "panic"}


def _build(v, pid):
    ok, o = C.build_runner(LAYERS)
    if not ok:
        v.violation(pid + "/codec-runner-build", o[-1500:], {"theorem_or_correspondence": "extraction of Codec/Entry.v", "part": "codec"}, False)
        return False
    ok, o = C.build_harness("codec")
    if not ok:
        v.violation(pid + "/codec-harness-build", "harness cmd/codec does not build against the current /repo tree: " + o[-1500:],
                    {"theorem_or_correspondence": "correspondence codec_decode (harness build)", "part": "codec"}, False)
        return False
    return True


def _pairs(txt):
    """the (class code) pairs of the mutation list at the end of a codec_decode output"""
    return re.findall(r"\((\d+|0x[0-9a-f]+) (\d+|0x[0-9a-f]+)\)", txt)


def _first_diff(case_line, model_txt):
    """which mutation of a codec_decode case the model and the implementation disagree on"""
    f = case_line.split("\t")
    if len(f) < 3:
        return None
    k = f[2].rfind("((")
    km = model_txt.rfind("((")
    obs, mod = _pairs(f[2][k:]) if k >= 0 else [], _pairs(model_txt[km:]) if km >= 0 else []
    muts = re.findall(r"\((\d+) (\d+) (\d+)\)", f[1][f[1].rfind("(("):])
    for i, (o, m) in enumerate(zip(obs, mod)):
        oi = (int(o[0], 0), int(o[1], 0))
        mi = (int(m[0], 0), int(m[1], 0))
        if oi != mi:
            return {"mutation_index": i, "mutation(kind a b)": muts[i] if i < len(muts) else None,
                    "implementation(class code)": oi, "model(class code)": mi}
    if f[2][:k] != model_txt[:km]:
        return {"original_file": "header fields / page numbers / trailer / index / end offset / hashed stream differ",
                "implementation": f[2][:min(k, 600)], "model": model_txt[:min(km, 600)]}
    return None


def codec_phase(v, pid="C10"):
    if not _build(v, pid):
        return
    out = os.path.join(C.WORK, pid, "codec")
    os.makedirs(out, exist_ok=True)
    for name in ("cases.txt", "stats.json"):
        try:
            os.remove(os.path.join(out, name))
        except FileNotFoundError:
            pass
    n = 5 if v.tier == "quick" else 120
    cmd = [C.harness_bin("codec"), "-out", out, "-n", str(n), "-seed", str(v.seed)]
    if v.tier == "thorough":
        cmd.append("-thorough")
    rc, o = C.sh(cmd, timeout=20000)
    if rc != 0:
        v.violation(pid + "/codec-harness-run", o[-1500:], {"theorem_or_correspondence": "correspondence codec_decode (harness run)", "part": "codec"}, False)
        return
    cases, statp = os.path.join(out, "cases.txt"), os.path.join(out, "stats.json")
    if not (os.path.exists(cases) and os.path.exists(statp)) or os.path.getsize(cases) == 0:
        v.violation(pid + "/codec-harness-no-cases", "the codec harness exited 0 but wrote no cases under " + out,
                    {"theorem_or_correspondence": "correspondence codec_decode (harness run)", "part": "codec"}, False)
        return
    stats = json.load(open(statp))
    total, mism, errors = C.run_runner(cases, LAYERS)
    if total == 0 or stats.get("cases", 0) != total:
        v.violation(pid + "/codec-harness-no-cases", "harness reported %s cases, the runner evaluated %d" % (stats.get("cases"), total),
                    {"theorem_or_correspondence": "correspondence codec_decode (case file)", "part": "codec"}, False)
        return
    extra = stats.get("extra", {})
    outcomes = extra.get("outcomes", {})
    v.coverage["evaluations"] = v.coverage.get("evaluations", 0) + total
    v.coverage["distinct_nontrivial"] = v.coverage.get("distinct_nontrivial", 0) + stats["distinct_nontrivial"]
    v.coverage["codec"] = {
        "cases": total,
        "decoded_inputs": sum(c for k, c in outcomes.items() if not k.startswith("restore/")),
        "rule": "files: the L0 / compacted / snapshot files of a real litestream replica (page size 512; thorough: also 4096) and "
                "random abstract files through the real ltx.Encoder (snapshot and incremental, page sizes 512/1024 (thorough: up to "
                "8192), page numbers next to the lock page, empty page lists, deletion files, NoChecksum and checksum-tracking "
                "headers, WAL fields set/unset) plus 3x as many abstract files breaking one encoder rule (acceptance compared). "
                "per file: ltx.Decoder driven as ltx.Compactor/Verify drive it (DecodeHeader, DecodePage to EOF with one reused "
                "buffer, Close), ltx.Compactor with the file as its input, and for NoChecksum snapshots Replica.Restore on a "
                "one-file replica, on: every truncation length (files <= 2200 bytes; else boundaries +-3, the 16 lengths around "
                "the page-block end, 400 sampled), every single-bit flip outside the compressed data (top size-prefix byte: "
                "lowest bit only — each higher bit makes the decoder allocate 32 MiB..2 GiB), sampled flips inside compressed "
                "data, 24 whole-byte changes, one appended byte. model entry codec_decode = outcome class (ok-identical / "
                "ok-different / error / panic) AND place of the error for every one of them, header fields, page numbers, "
                "trailer, page index, end-marker offset, length and weighted sum of the hashed stream for the original; "
                "LZ4 and CRC-64 enter as recorded oracle tables. codec_encode_layout = encoder acceptance, offsets, index, "
                "byte ranges under the file checksum (the harness recomputes CRC-64 over exactly those ranges). "
                "Go-side oracles: ok-different anywhere, panic outside the Close window, Compactor vs Decoder, Restore vs Decoder.",
        "outcomes_by_zone": outcomes,
        "restores": extra.get("restores"),
        "input_distribution": stats["classes"],
        "hash_strength_measured": {
            "changed_inputs_accepted_as_identical": sum(c for k, c in outcomes.items() if k.endswith("/ok-identical") and not k.startswith("restore/")),
            "changed_inputs_accepted_as_different": sum(c for k, c in outcomes.items() if k.endswith("/ok-DIFFERENT")),
            "note": "ok-identical under a flip = LZ4 decodes the damaged block to the same page bytes (the checksum covers "
                    "uncompressed data); every other change was rejected",
        },
        "model_mismatches": len(mism),
        "runner_errors": errors[:5],
    }
    if errors:
        v.violation(pid + "/codec-runner-error", "; ".join(errors[:3]), {"theorem_or_correspondence": "runner (Codec)", "part": "codec"}, False)
    ivs = stats.get("impl_violations") or []
    for iv in ivs:
        rp = dict(iv.get("replay") or {})
        rp.update({"part": "codec"})
        v.violation(iv["signature"], iv["detail"], rp, True)
    if not any(k.endswith("/panic") for k in outcomes) and not ivs:
        # the F7 window is part of what the model states; if the library stops panicking the model entry mismatches instead
        pass
    dec_bad = [m for m in mism if m["entry"] == "codec_decode"]
    lay_bad = [m for m in mism if m["entry"] == "codec_encode_layout"]
    if dec_bad:
        m = dec_bad[0]
        d = _first_diff(m["case"], m["model"])
        unlisted = [iv for iv in ivs if "close-panics-on-truncation" not in iv["signature"]]
        v.violation(pid + "/codec-model-mismatch:codec_decode",
                    "ltx.Decoder and Codec/Codec.v decode disagree on %d file(s); first: %s%s" %
                    (len(dec_bad), json.dumps(d), "" if unlisted else
                     "; no accepted-but-different file, no panic outside the Close window, and Compactor/Restore agreed with the decoder on this batch"),
                    {"theorem_or_correspondence": "correspondence codec_decode (Codec/Codec.v decode_full vs ltx decoder.go)",
                     "case_lines": [m["case"]], "difference": d, "part": "codec"}, False)
    if lay_bad:
        m = lay_bad[0]
        v.violation(pid + "/codec-model-mismatch:codec_encode_layout",
                    "ltx.Encoder and Codec/Codec.v encode disagree on acceptance, offsets, page index or checksummed ranges of %d abstract file(s)" % len(lay_bad),
                    {"theorem_or_correspondence": "correspondence codec_encode_layout (Codec/Codec.v encode/enc_accepts vs ltx encoder.go)",
                     "case_lines": [m["case"]], "model_says": m["model"][:3000], "part": "codec"}, False)


def is_codec_replay(path):
    try:
        return json.load(open(path)).get("replay", {}).get("part") == "codec"
    except Exception:
        return False


def replay(v, pid, path):
    rep = json.load(open(path))
    r = rep["replay"]
    if not _build(v, pid):
        return 2
    out = os.path.join(C.WORK, pid, "codec-replay")
    os.makedirs(out, exist_ok=True)
    lines = r.get("case_lines")
    if not lines and r.get("file_hex"):
        m = re.search(r"kind=(\d+) a=(\d+) b=(\d+)", r.get("mutation", ""))
        muts = "((%s %s %s))" % m.groups() if m else "()"
        lines = ["codec_decode\t(#%s () () %s)\t()" % (r["file_hex"], muts)]
    if not lines:
        print("replay file names no input:", r.get("theorem_or_correspondence"))
        return 1
    src = os.path.join(out, "in.txt")
    open(src, "w").write("\n".join(lines) + "\n")
    for name in ("cases.txt", "stats.json"):
        try:
            os.remove(os.path.join(out, name))
        except FileNotFoundError:
            pass
    rc, o = C.sh([C.harness_bin("codec"), "-out", out, "-replay", src], timeout=3000)
    if rc != 0:
        print(o)
        return 2
    st = json.load(open(os.path.join(out, "stats.json")))
    total, mism, errors = C.run_runner(os.path.join(out, "cases.txt"), LAYERS, shards=1)
    for m in mism:
        print("REPLAY-MISMATCH entry=%s %s" % (m["entry"], json.dumps(_first_diff(m["case"], m["model"]))))
    hits = st.get("impl_violations") or []
    for iv in hits:
        print("REPLAY-VIOLATION %s: %s" % (iv["signature"], iv["detail"][:400]))
    print("replayed %d case(s), %d mismatch(es), %d implementation violation(s)" % (total, len(mism), len(hits)))
    known = {k["signature"] for k in C.load_known()["findings"]}
    return 1 if (mism or [iv for iv in hits if iv["signature"] not in known]) else 0
