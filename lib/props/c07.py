"""C07 — retention never deletes what the latest restore needs."""
from .. import common as C
from . import store_common as S

PID = "C07"


def classify(m):
    return ("C07/retention-invariant-violated-on-listing",
            "an observed replica listing violates RInv of Store/Spec.v: no valid chain reaches the newest L0 TXID, the last "
            "snapshot was removed, the surviving L0 files are not one run ending at the newest, a level has an overlap / "
            "a hole above the newest snapshot, or a deleted L0 TXID is covered by neither L1 nor a snapshot; input "
            "(pos had_snapshot retention_free listing)", True)


def run(v):
    proof_ok, problems = C.standard_proof_phase(v, PID)
    if not proof_ok:
        v.violation("C07/proof-broken", "; ".join(problems),
                    {"theorem_or_correspondence": "Properties/C07.v", "problems": problems}, found_input=False)
    S.store_phase(v, PID, "c07", 40, 2500, ("store_run", "store_inv_ok"), ("C07/",), classify)


def replay(v, path):
    return S.replay(v, path, PID)
