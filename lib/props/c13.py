"""C13 — checkpoint policy keeps the WAL bounded and an idle database silent."""
import json
import os

from .. import common as C

PID = "C13"
LAYERS = ["Policy"]

# findings of the unchanged tree (known_findings.d/C13.json)
F_LOOP = "C13/idle-ltx-on-every-sync:threshold<=seq-bump-frame(MinCheckpointPageN<=1|TruncatePageN==1)"
F_LATE = "C13/live-wal>=TruncatePageN-after-sync:TruncatePageN<MinCheckpointPageN(truncate-test-uses-offset-before-sync)"
F_PINNED = "C13/idle-ltx-on-every-sync:reader-pinned(every-failed-checkpoint-appends-a-seq-bump-frame)"


def gen_cases(v, out, only=None, seed=None):
    for f in ("cases.txt", "stats.json"):
        if os.path.exists(os.path.join(out, f)):
            os.remove(os.path.join(out, f))
    n = 300 if v.tier == "quick" else 6000
    cmd = [C.harness_bin("policy"), "-out", out, "-n", str(n), "-seed", str(v.seed if seed is None else seed)]
    if only is not None:
        cmd += ["-only", str(only)]
    rc, o = C.sh(cmd, timeout=6000)
    if rc == 0 and not (os.path.exists(os.path.join(out, "cases.txt")) and os.path.exists(os.path.join(out, "stats.json"))):
        return False, "harness exited 0 but wrote no cases.txt/stats.json under %s: %s" % (out, o[-500:])
    return rc == 0, o


def _code(m):
    try:
        return int(m["model"].strip(), 0)
    except ValueError:
        return -1


def _tag(m, pos):
    """history index carried in the case input (top-level element number pos)"""
    try:
        inp = m["case"].split("\t")[1]
        depth, items, cur = 0, [], ""
        for ch in inp[1:-1]:
            if ch == "(":
                depth += 1
            elif ch == ")":
                depth -= 1
            if ch == " " and depth == 0:
                items.append(cur)
                cur = ""
            else:
                cur += ch
        items.append(cur)
        return int(items[pos])
    except Exception:
        return -1


TAGPOS = {"policy_sync": 8, "policy_decide": 11, "policy_bounded_ok": 4, "policy_idle_ok": 6}


def run(v):
    proof_ok, problems = C.standard_proof_phase(v, PID)
    if not proof_ok:
        v.violation("C13/proof-broken", "; ".join(problems),
                    {"theorem_or_correspondence": "Properties/C13.v", "problems": problems}, found_input=False)
    ok, o = C.build_runner(LAYERS)
    if not ok:
        v.violation("C13/runner-build", o[-1500:], {"theorem_or_correspondence": "extraction of Policy/Entry.v"}, False)
        return
    ok, o = C.build_harness("policy")
    if not ok:
        v.violation("C13/harness-build", "harness does not build against the current /repo tree: " + o[-1500:],
                    {"theorem_or_correspondence": "correspondence policy_decide/policy_sync (harness build)"}, False)
        return
    out = os.path.join(C.WORK, PID)
    os.makedirs(out, exist_ok=True)
    ok, o = gen_cases(v, out)
    if not ok:
        v.violation("C13/harness-run", o[-1500:], {"theorem_or_correspondence": "correspondence (harness run)"}, False)
        return
    cases = os.path.join(out, "cases.txt")
    total, mism, errors = C.run_runner(cases, LAYERS)
    stats = json.load(open(os.path.join(out, "stats.json")))
    if total == 0 or total != stats.get("cases"):
        v.violation("C13/no-cases", "the runner evaluated %d cases, the harness reports %s; %s"
                    % (total, stats.get("cases"), "; ".join(errors[:2])),
                    {"theorem_or_correspondence": "correspondence (case generation)"}, False)
        return
    extra = stats.get("extra", {})
    by = {}
    for m in mism:
        by.setdefault((m["entry"], _code(m) if m["entry"].endswith("_ok") else 0), []).append(m)
    v.coverage.update({
        "evaluations": total,
        "distinct_nontrivial": stats["distinct_nontrivial"],
        "rule": "REAL litestream.DB + modernc SQLite. Grid MinCheckpointPageN {1,2,5,10,1000} x TruncatePageN "
                "{0(default),1,3,20,-1(disabled)} x CheckpointInterval {0,1ns,1h} x MaxSyncWALBytes {0,1,3 frames,1MiB} "
                "(300 points; quick = each point once, thorough = 20 times), page sizes 512/1024/4096; database mtime set "
                "with os.Chtimes before every sync (older / newer than the interval). Per point one history: either "
                "write bursts (1..5 transactions of 1..4 frames, sometimes around MinCheckpointPageN / TruncatePageN, up "
                "to 1200 frames) interleaved with DB.Sync and an occasional process restart, then k in 1..30 idle syncs; "
                "or the same with a long application reader pinned (then released, k more idle syncs); or write transactions "
                "on a 2-page-cache connection that spill 8..48 pages of uncommitted frames (valid salts/checksums, no "
                "commit record) behind a committed transaction - rolled back / synced while still open and committed "
                "later / either one followed by an explicit DB.Checkpoint(PASSIVE|TRUNCATE) - then k idle syncs; or calls of the "
                "real checkpointIfNeeded (hook) with chosen flags and boundary sizes in four environments (free, reader "
                "pinned, application holds the write lock, checkpoint lock held). Entries: policy_sync (whole Sync vs the "
                "abstract machine: frames in the live generation counted by an independent -wal decoder, L0 files "
                "created, both flags, lastSyncedWALOffset, syncedToWALEnd, checkpoints executed per mode), policy_decide, "
                "policy_scalars (model = implementation) and the spec oracles policy_bounded_ok / policy_idle_ok on the "
                "implementation's own observations. distinct = distinct (entry,input); non-trivial = a checkpoint ran, "
                "more than one pending transaction, more than the bookkeeping frame in the WAL, or files were created.",
        "samples": stats["samples"],
        "input_distribution": stats["classes"],
        "real_syncs": extra.get("real_syncs"), "idle_runs": extra.get("idle_runs"), "decide_calls": extra.get("decide_calls"),
        "frames_in_new_generation_after_restart": extra.get("frames_in_new_generation_after_restart"),
        "pinned_idle": extra.get("pinned_idle"), "max_live_frames": extra.get("max_live_frames"),
        "model_mismatches": sum(len(l) for k, l in by.items() if not k[0].endswith("_ok")),
        "oracle_failures": {"%s=%d" % k: len(l) for k, l in sorted(by.items()) if k[0].endswith("_ok")},
        "runner_errors": errors[:5],
    })
    if errors:
        v.violation("C13/runner-error", "; ".join(errors[:3]), {"theorem_or_correspondence": "runner"}, False)
    bf = extra.get("frames_in_new_generation_after_restart", {})
    if any(k != "1" for k in bf):
        v.violation("C13/environment-assumption:seq-bump-frames", "a seq bump wrote a number of frames other than 1: %s" % bf,
                    {"theorem_or_correspondence": "hypothesis b = 1 of the oracles"}, False)
    for iv in stats.get("impl_violations", []):
        v.violation(iv["signature"], iv["detail"], dict(iv.get("replay") or {}, seed=v.seed, how="harness policy -only <history>"),
                    not iv["signature"].startswith("harness/"))

    def rep(m, oracle=None):
        d = {"case_lines": [m["case"]], "history": _tag(m, TAGPOS.get(m["entry"], 0)), "seed": v.seed,
             "how": "harness policy -seed <seed> -only <history>, then the runner"}
        if oracle:
            d["oracle"], d["oracle_says"] = oracle, m["model"]
        return d

    def short(m):
        return m["case"].split("\t")[1][:300]

    oracle_found = False
    for (entry, code), l in sorted(by.items()):
        m = min(l, key=lambda x: len(x["case"]))
        if entry == "policy_idle_ok" and code == 3:
            v.violation(F_LOOP, "with MinCheckpointPageN <= 1 or TruncatePageN == 1 an idle database gets a new L0 file on "
                        "every sync, for ever: the single frame written by the seq bump after a checkpoint already meets "
                        "the threshold, so the next sync checkpoints again (%d idle phases; Coq: "
                        "idle_silent_refuted_threshold_le_b). [Min;Trunc;b;MaxSyncWALBytes;pending;L0 counts] = %s"
                        % (len(l), short(m)), rep(m, entry), True)
        elif entry == "policy_idle_ok" and code == 4:
            v.violation(F_PINNED, "while an application read transaction stays open and a threshold (or the interval) is "
                        "met, every sync attempts a checkpoint that cannot restart the WAL, appends a seq-bump frame, and "
                        "the next sync replicates that frame as a new L0 file: one file per sync with the application idle "
                        "(%d phases; Coq: idle_pinned_refuted). %s" % (len(l), short(m)), rep(m, entry), True)
        elif entry == "policy_bounded_ok" and code == 2:
            v.violation(F_LATE, "TruncatePageN < MinCheckpointPageN: after a successful Sync the live generation held "
                        ">= TruncatePageN + 1 frames (but < MinCheckpointPageN + 1): exceedsTruncateThreshold is applied to "
                        "the offset BEFORE the sync, the checkpoint comes one Sync late (%d syncs; Coq: "
                        "wal_bounded_refuted_trunc_below_min). [Min;Trunc;b;frames] = %s" % (len(l), short(m)), rep(m, entry), True)
        elif entry == "policy_bounded_ok":
            v.violation("C13/wal-not-bounded", "after a successful Sync with no application transaction open the live WAL "
                        "generation holds at least min(MinCheckpointPageN, TruncatePageN) + 1 frames (%d syncs). "
                        "[Min;Trunc;b;frames] = %s" % (len(l), short(m)), rep(m, entry), True)
            oracle_found = True
        elif entry == "policy_idle_ok" and [x for x in l if _tag(x, 8) == 1]:
            ls = [x for x in l if _tag(x, 8) == 1]
            m = min(ls, key=lambda x: len(x["case"]))
            v.violation("C13/idle-not-silent-after-uncommitted-wal-frames",
                        "after a write transaction spilled uncommitted frames into the WAL (rolled back, or committed "
                        "later) idle syncs kept creating L0 files: more than (pending chunks + 1) new files, or a file "
                        "after a sync that created none (%d idle phases after a spill, %d in all). "
                        "[Min;Trunc;b;MaxSyncWALBytes;pending;L0 counts] = %s" % (len(ls), len(l), short(m)), rep(m, entry), True)
            oracle_found = True
        elif entry == "policy_idle_ok":
            v.violation("C13/idle-not-silent", "idle syncs kept creating L0 files: more than (pending chunks + 1) new files, "
                        "or a file after a sync that created none (%d idle phases). "
                        "[Min;Trunc;b;MaxSyncWALBytes;pending;L0 counts] = %s" % (len(l), short(m)), rep(m, entry), True)
            oracle_found = True
    for (entry, code), l in sorted(by.items()):
        if entry.endswith("_ok"):
            continue
        m = min(l, key=lambda x: len(x["case"]))
        v.violation("C13/model-mismatch:" + entry,
                    "implementation and model disagree on %d cases of %s%s; first: %s  model says %s"
                    % (len(l), entry, "" if oracle_found else "; the bounded-WAL and idle-silence oracles reported nothing new",
                       short(m), m["model"][:200]),
                    dict(rep(m), theorem_or_correspondence="correspondence %s (Policy/Policy.v vs db.go)" % entry,
                         model_says=m["model"]), False)


def replay(v, path):
    rep = json.load(open(path))
    r = rep["replay"]
    hist = r.get("history")
    if hist is None or hist < 0:
        lines = r.get("case_lines")
        if not lines:
            print("replay file names no input:", r.get("theorem_or_correspondence"))
            return 1
    C.build_runner(LAYERS)
    C.build_harness("policy")
    out = os.path.join(C.WORK, PID, "replay")
    os.makedirs(out, exist_ok=True)
    if hist is not None and hist >= 0:
        ok, o = gen_cases(v, out, only=hist, seed=r.get("seed", rep.get("seed", 1)))
        print(o.strip()[-3000:])
        if not ok:
            return 2
        casefile = os.path.join(out, "cases.txt")
    else:
        casefile = os.path.join(out, "cases.txt")
        open(casefile, "w").write("\n".join(lines) + "\n")
    total, mism, errors = C.run_runner(casefile, LAYERS, shards=1)
    for m in mism:
        print("REPLAY-MISMATCH entry=%s model=%s case=%s" % (m["entry"], m["model"][:200], m["case"][:400]))
    print("replayed %d case(s), %d mismatch(es)" % (total, len(mism)))
    return 1 if mism else 0
