"""C15 — timestamp restore never returns data from after the requested time."""
from .. import common as C
from . import store_common as S

PID = "C15"


def classify(m):
    if m["entry"] == "store_ts_hyp_ok":
        return ("C15/timestamp-hypothesis-violated-on-real-listing",
                "on a replica produced by the real code on the real clock some file (snapshots included) is stamped earlier "
                "than the replication time of the newest transaction it contains, an L0 stamp differs from its replication "
                "time, replication times go backwards, or (all L0 files present) ts_hyp of ts_exact_for_listing fails — the "
                "premise under which a timestamp restore returns nothing replicated at or after T; input (pos listing "
                "record(TXID replication-time)), times as ranks", True)
    return ("C15/timestamp-restore-violates-spec",
            "for some timestamp T the implementation's plan uses a file created at/after T, is not a valid chain, does not "
            "end at the last transaction replicated before T although all L0 files are present, fails although a chain "
            "exists, succeeds for T before the first backup, or a later T gave an earlier state; input (pos listing "
            "queries(T status plan))", True)


def run(v):
    proof_ok, problems = C.standard_proof_phase(v, PID)
    if not proof_ok:
        v.violation("C15/proof-broken", "; ".join(problems),
                    {"theorem_or_correspondence": "Properties/C15.v", "problems": problems}, found_input=False)
    S.store_phase(v, PID, "c15", 40, 2500, ("store_ts_ok", "store_ts_hyp_ok", "store_ts_plan", "store_run"), ("C15/",), classify)


def replay(v, path):
    return S.replay(v, path, PID)
