"""C19 — legacy 0.3.x backups restore to the right state or fail."""
import json
import os

from .. import common as C

PID = "C19"
LAYERS = ["V3"]

# codes returned by the spec-level oracle V3.Entry.v3_plan_ok (1 = outcome is what the property prescribes)
ORACLE_CODES = {
    20: ("C19/trailing-segment-of-non-final-index-lost-undetected",
         "RestoreV3 returned a database although the last segment(s) of a non-final WAL index are missing: the "
         "planner cannot tell a shortened WAL file from a complete one, so it checkpoints the short WAL and goes on "
         "with the next index (neither an error nor the state at the end of the last contiguous segment)"),
    21: ("C19/continuation-segment-of-other-index-appended-undetected",
         "RestoreV3 returned a database although the first segment of a WAL index is missing: the following "
         "segment of that index has a non-zero offset equal to the bytes written to the previous WAL file and was "
         "appended to that file (the index test of continuation segments added by 842e1af is gone or ineffective)"),
    22: ("C19/gap-not-detected",
         "RestoreV3 returned a database although the eligible segments have an index gap or an offset gap"),
    30: ("C19/not-newest-eligible-snapshot",
         "RestoreV3 restored from a snapshot that is not a newest one created at or before the requested time"),
    31: ("C19/wrong-state",
         "RestoreV3 succeeded on a gap-free layout but the database is not the source state at the end of the last "
         "eligible WAL segment"),
    32: ("C19/spurious-gap-error",
         "RestoreV3 reported a missing index/segment although the eligible segments are gap-free"),
    40: ("C19/spurious-no-snapshot-error",
         "RestoreV3 reported that there is no snapshot although an eligible one exists"),
    41: ("C19/restored-without-eligible-snapshot",
         "RestoreV3 did not report the no-snapshot error although no snapshot is eligible at the requested time"),
    50: ("C19/other-failure", "RestoreV3 failed in a way the property does not allow (panic, checkpoint or I/O error)"),
    70: ("C19/success-with-different-state-after-download-fault",
         "a read error while downloading, or a stored object that ends early, on the legacy restore path: RestoreV3 returned "
         "nil but the database is not the one the fault-free restore produces (C10: error or a transparent retry, never "
         "success with different content)"),
    71: ("C19/failed-restore-left-output",
         "RestoreV3 failed under a download fault but left a file at the output path"),
    60: ("C19/wrong-format-chosen",
         "with both legacy and current-format backups present, Restore / shouldUseV3Restore did not pick the format "
         "holding the more recent eligible backup"),
}
ORACLES = ("v3_plan_ok", "v3_arbitrate_ok", "v3_fault_ok")


def harness_args(v, out):
    n = 8 if v.tier == "quick" else 60
    a = [C.harness_bin("v3"), "v3", "-out", out, "-n", str(n), "-seed", str(v.seed), "-workers", str(max(4, C.NCPU))]
    if v.tier != "quick":
        a.append("-thorough")
    return a


def oracle_code(m):
    try:
        return int(m["model"], 0)
    except ValueError:
        return -1


def history_of(case_line):
    """the (seed, history index) tag the harness appends to every v3_plan_ok input"""
    try:
        inp = case_line.split("\t")[1]
        tag = inp[inp.rstrip(")").rindex("(") + 1:].rstrip(")").split()
        return {"seed": int(tag[0]), "index": int(tag[1])}
    except Exception:
        return None


def run(v):
    proof_ok, problems = C.standard_proof_phase(v, PID)
    if not proof_ok:
        v.violation("C19/proof-broken", "; ".join(problems),
                    {"theorem_or_correspondence": "Properties/C19.v", "problems": problems}, found_input=False)
    # the extracted entry points are not a dependency of Properties/C19.v: build them explicitly
    ok, o = C.coq_build(targets=["V3/Entry.vo"])
    if ok:
        ok, o = C.build_runner(LAYERS)
    if not ok:
        v.violation("C19/runner-build", o[-1500:], {"theorem_or_correspondence": "extraction of V3/Entry.v"}, False)
        return
    ok, o = C.build_harness("v3")
    if not ok:
        v.violation("C19/harness-build", "harness does not build against the current /repo tree: " + o[-1500:],
                    {"theorem_or_correspondence": "correspondence v3_plan (harness build)"}, False)
        return
    out = os.path.join(C.WORK, PID)
    os.makedirs(out, exist_ok=True)
    cases = os.path.join(out, "cases.txt")
    statsp = os.path.join(out, "stats.json")
    for p in (cases, statsp):
        if os.path.exists(p):
            os.remove(p)
    rc, o = C.sh(harness_args(v, out), timeout=6000)
    if rc != 0 or not os.path.exists(cases) or not os.path.exists(statsp):
        v.violation("C19/harness-run", "harness exit %s, cases.txt %s: %s" % (rc, "present" if os.path.exists(cases) else "MISSING", o[-1500:]),
                    {"theorem_or_correspondence": "correspondence v3_plan (harness run)"}, False)
        return
    total, mism, errors = C.run_runner(cases, LAYERS)
    stats = json.load(open(statsp))
    if total == 0 or stats.get("cases", 0) != total:
        v.violation("C19/no-cases", "the harness wrote %s cases, the runner evaluated %d" % (stats.get("cases"), total),
                    {"theorem_or_correspondence": "correspondence v3_plan (harness run)"}, False)
        return
    spec_bad = [m for m in mism if m["entry"] in ORACLES]
    other = [m for m in mism if m["entry"] not in ORACLES]
    by_code = {}
    for m in spec_bad:
        by_code.setdefault(oracle_code(m), []).append(m)
    v.coverage.update({
        "evaluations": total,
        "distinct_nontrivial": stats["distinct_nontrivial"],
        "rule": "legacy layouts synthesised from real SQLite histories (1-3 generations with random 16-hex ids, 1-4 WAL "
                "indices each, snapshots = database file at checkpoint boundaries, WAL files split at random "
                "frame-aligned offsets incl. a header-only segment and a continuation whose offset equals the previous "
                "WAL's length, LZ4 frame format, mtimes = ticks with occasional ties): RestoreV3 on the complete "
                "layout at every timestamp on and between all file times and at 'latest', and with every single "
                "segment removed (latest + boundary timestamps; all timestamps in the thorough tier); Restore on "
                "the layout combined with a real current-format replica at the boundary timestamps of its files; "
                "observed through a recording ReplicaClient (snapshot and segments opened) and by matching the "
                "restored file's SHA-256 against the page image of every state the source went through. Listing-only "
                "cases: random listings (gaps, ties, non-monotone times, foreign continuation segments) through the real "
                "RestoreV3 / shouldUseV3Restore on an in-memory client, and the planner pieces through the hook file. "
                "distinct = distinct (entry,input); non-trivial = outcome other than 'no snapshot' / non-empty listing.",
        "samples": stats["samples"],
        "input_distribution": stats["classes"],
        "model_mismatches": len(other),
        "oracle_failures_by_code": {str(k): len(x) for k, x in sorted(by_code.items())},
        "runner_errors": errors[:5],
    })
    if errors:
        v.violation("C19/runner-error", "; ".join(errors[:3]), {"theorem_or_correspondence": "runner"}, False)
    for code, ms in sorted(by_code.items()):
        sig, what = ORACLE_CODES.get(code, ("C19/oracle-code-%d" % code, "spec oracle v3_plan_ok returned %d" % code))
        m = ms[0]
        lines = C.case_with_defs(cases, m["line"])
        v.violation(sig, "%s (%d such cases in this run)" % (what, len(ms)),
                    {"case_lines": lines, "oracle_code": code, "history": history_of(lines[-1]) if m["entry"] == "v3_plan_ok" else None, "tier": v.tier,
                     "how": "harness v3 -hist <index> regenerates the source history and layout; case_lines hold the "
                            "listing, timestamp, ground truth and the observed outcome"}, True)
    if other:
        by_entry = {}
        for m in other:
            by_entry.setdefault(m["entry"], []).append(m)
        for entry, ms in sorted(by_entry.items()):
            m = ms[0]
            v.violation("C19/model-mismatch:" + entry,
                        "implementation and model disagree on %d cases of entry %s; no additional spec-oracle failure "
                        "was attributed to it" % (len(ms), entry),
                        {"theorem_or_correspondence": "correspondence %s (V3/Restore.v vs replica.go)" % entry,
                         "case_lines": C.case_with_defs(cases, m["line"]), "model_says": m["model"]},
                        False)


def replay(v, path):
    rep = json.load(open(path))
    r = rep["replay"]
    if r.get("oracle_code") in (70, 71):
        # download-fault jobs are regenerated with their histories: run the check's own batch again
        v.seed = rep.get("seed", v.seed)
        v.tier = rep.get("tier", v.tier)
        n0 = len(v.violations)
        run(v)
        hits = [x for x in v.violations[n0:] if x["signature"] == rep["signature"]]
        for x in hits[:3]:
            print("REPLAY-VIOLATION %s: %s" % (x["signature"], x["detail"][:300]))
        print("batch re-run: %d occurrence(s) of %s" % (len(hits), rep["signature"]))
        return 1 if hits else 0
    lines = r.get("case_lines")
    if not lines:
        print("replay file names no input:", r.get("theorem_or_correspondence"))
        return 1
    C.coq_build(targets=["V3/Entry.vo"])
    ok, o = C.build_runner(LAYERS)
    ok2, o2 = C.build_harness("v3")
    if not (ok and ok2):
        print(o, o2)
        return 2
    out = os.path.join(C.WORK, PID, "replay")
    os.makedirs(out, exist_ok=True)
    hist = r.get("history")
    if hist:
        # regenerate the source history (same seed, same index) and re-run every case of it
        a = [C.harness_bin("v3"), "v3", "-out", out, "-seed", str(rep.get("seed", 1)), "-n", str(hist["index"] + 1),
             "-hist", str(hist["index"]), "-hseed", str(hist["seed"])]
        if r.get("tier", rep.get("tier")) != "quick":
            a.append("-thorough")
    else:
        src = os.path.join(out, "in.txt")
        open(src, "w").write("\n".join(lines) + "\n")
        a = [C.harness_bin("v3"), "v3", "-out", out, "-replay", src]
    for p in ("cases.txt", "stats.json"):
        if os.path.exists(os.path.join(out, p)):
            os.remove(os.path.join(out, p))
    rc, o = C.sh(a, timeout=3000)
    if rc != 0 or not os.path.exists(os.path.join(out, "cases.txt")):
        print(o)
        return 2
    total, mism, errors = C.run_runner(os.path.join(out, "cases.txt"), LAYERS, shards=1)
    want = r.get("oracle_code")
    hits = 0
    for m in mism:
        if want is None or (m["entry"] in ORACLES and oracle_code(m) == want) or m["entry"] not in ORACLES:
            hits += 1
            if hits <= 5:
                print("REPLAY-MISMATCH entry=%s model=%s case=%s" % (m["entry"], m["model"][:200], m["case"][:300]))
    print("replayed %d case(s), %d mismatch(es), %d of the reported kind" % (total, len(mism), hits))
    return 1 if hits else 0
