"""Shared by c10.py and c05.py: the Faults layer's harness/runner plumbing."""
import json
import os

from .. import common as C

LAYERS = ["Faults"]


def build(v, pid):
    # the runner extracts Faults/Entry.vo, which Properties/<pid>.vo does not depend on
    ok, o = C.coq_build(targets=["Faults/Entry.vo"])
    if not ok:
        v.violation(pid + "/runner-build", "Faults/Entry.v does not compile: " + o[-1500:],
                    {"theorem_or_correspondence": "model entry points Faults/Entry.v"}, False)
        return False
    ok, o = C.build_runner(LAYERS)
    if not ok:
        v.violation(pid + "/runner-build", o[-1500:], {"theorem_or_correspondence": "extraction of Faults/Entry.v"}, False)
        return False
    ok, o = C.build_harness("faults")
    if not ok:
        v.violation(pid + "/harness-build", "harness does not build against the current /repo tree: " + o[-1500:],
                    {"theorem_or_correspondence": "correspondence (harness build, hook file export_verif_faults.go)"}, False)
        return False
    return True


def gen(v, pid, out, parts, n):
    os.makedirs(out, exist_ok=True)
    for name in ("cases.txt", "stats.json"):
        p = os.path.join(out, name)
        if os.path.exists(p):
            os.remove(p)
    cmd = [C.harness_bin("faults"), "faults", "-out", out, "-n", str(n), "-seed", str(v.seed), "-part", parts]
    if v.tier == "thorough":
        cmd.append("-thorough")
    rc, o = C.sh(cmd, timeout=6000)
    if rc != 0:
        v.violation(pid + "/harness-run", o[-1500:], {"theorem_or_correspondence": "correspondence (harness run)"}, False)
        return None
    cases, stats = os.path.join(out, "cases.txt"), os.path.join(out, "stats.json")
    if not (os.path.exists(cases) and os.path.exists(stats)) or os.path.getsize(cases) == 0:
        v.violation(pid + "/harness-no-cases", "the harness exited 0 but wrote no cases under %s: %s" % (out, o[-800:]),
                    {"theorem_or_correspondence": "correspondence (harness run)"}, False)
        return None
    st = json.load(open(stats))
    if st.get("cases", 0) == 0:
        v.violation(pid + "/harness-no-cases", "the harness generated 0 cases", {"theorem_or_correspondence": "correspondence (harness run)"}, False)
        return None
    return st


def replay_cases(v, pid, path):
    rep = json.load(open(path))
    r = rep["replay"]
    lines = r.get("case_lines")
    if not build(v, pid):
        return 2
    out = os.path.join(C.WORK, pid, "replay")
    os.makedirs(out, exist_ok=True)
    if not lines:
        part = r.get("part")
        if not part:
            print("replay file names no input:", r.get("theorem_or_correspondence"))
            return 1
        # implementation-level finding of a generated part: regenerate that part with the recorded seed/tier
        cmd = [C.harness_bin("faults"), "faults", "-out", out, "-n", str(r.get("n", 30)), "-seed", str(rep["seed"]), "-part", part]
        if rep.get("tier") == "thorough":
            cmd.append("-thorough")
        rc, o = C.sh(cmd, timeout=6000)
        if rc != 0:
            print(o)
            return 2
        st = json.load(open(os.path.join(out, "stats.json")))
        hits = [iv for iv in st.get("impl_violations", []) if iv["signature"] == rep["signature"]]
        for iv in hits[:5]:
            print("REPLAY-VIOLATION %s: %s" % (iv["signature"], iv["detail"][:400]))
        print("regenerated part %s: %d occurrence(s) of %s" % (part, len(hits), rep["signature"]))
        return 1 if hits else 0
    src = os.path.join(out, "in.txt")
    if all(l.split("\t")[0] in ("compact_run", "compact_inv_ok", "restore_disc_ok", "behind_run", "behind_inv_ok") for l in lines):
        # observations of a generated part: regenerate that part with the recorded seed/tier
        part = r.get("part") or ("compact" if lines[0].startswith("compact") else "behind" if lines[0].startswith("behind") else "restore")
        cmd = [C.harness_bin("faults"), "faults", "-out", out, "-n", str(r.get("n", 30)), "-seed", str(rep["seed"]), "-part", part]
        if rep.get("tier") == "thorough":
            cmd.append("-thorough")
        rc, o = C.sh(cmd, timeout=6000)
        if rc != 0:
            print(o)
            return 2
        total, mism, errors = C.run_runner(os.path.join(out, "cases.txt"), LAYERS)
        for m in mism[:10]:
            print("REPLAY-MISMATCH entry=%s case=%s" % (m["entry"], m["case"][:300]))
        st = json.load(open(os.path.join(out, "stats.json")))
        for iv in st.get("impl_violations", [])[:10]:
            print("REPLAY-VIOLATION %s: %s" % (iv["signature"], iv["detail"][:300]))
        print("regenerated part %s: %d case(s), %d mismatch(es), %d implementation violation(s)"
              % (part, total, len(mism), len(st.get("impl_violations", []))))
        return 1 if (mism or st.get("impl_violations")) else 0
    if all(l.startswith("restore_ops_ok") for l in lines):
        # derived from the source text, not from a run: re-extract and re-evaluate
        from . import c10
        ops = c10.restore_source_ops()
        if not ops:
            print("the file-system calls of Replica.Restore are not recognised in the current source")
            return 2
        open(src, "w").write("restore_ops_ok\t(0 (%s))\t1\nrestore_ops_ok\t(1 (%s))\t1\n"
                             % (" ".join(map(str, ops[0])), " ".join(map(str, ops[1]))))
        total, mism, errors = C.run_runner(src, LAYERS, shards=1)
        for m in mism:
            print("REPLAY-MISMATCH entry=%s case=%s" % (m["entry"], m["case"]))
        print("replayed %d case(s), %d mismatch(es)" % (total, len(mism)))
        return 1 if mism else 0
    open(src, "w").write("\n".join(lines) + "\n")
    rc, o = C.sh([C.harness_bin("faults"), "faults", "-out", out, "-replay", src], timeout=600)
    if rc != 0:
        print(o)
        return 2
    total, mism, errors = C.run_runner(os.path.join(out, "cases.txt"), LAYERS, shards=1)
    for m in mism:
        print("REPLAY-MISMATCH entry=%s model=%s" % (m["entry"], m["model"][:400]))
    print("replayed %d case(s), %d mismatch(es)" % (total, len(mism)))
    return 1 if mism else 0
