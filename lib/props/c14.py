"""C14 — litestream never alters the application's data in the source database.

Proof: coq/Stmts (Model, Proofs, Lock) closed in Properties/C14.v; the sweeps
`all_stmts_safe`, `all_dsns_safe`, `db_file_readonly` run over coq/Gen/Stmts.v and
coq/Gen/FsSites.v, which tools/gen regenerates from the current source first.

Correspondence (harness/cmd/stmts):
  A. statement replay — every regenerated statement text (coq/Gen/stmts.json),
     in several spellings and pre-states, is executed on a real SQLite; the
     abstract effect must equal Model.exec_class (entry stmts_sem) and the user
     view must not change (checked in Go: a concrete violation otherwise);
  B. differential replay — each deterministic application history runs with and
     without litestream; at every quiescent point the property's statement is
     evaluated on the observations (entry stmts_diff_ok, a spec oracle, expected 1)."""
import json
import os
import shutil
import subprocess

from .. import common as C

PID = "C14"
LAYERS = ["Stmts"]
HARNESS = "stmts"


def gen_cases(v, out, only=None):
    n = 40 if v.tier == "quick" else 1600
    steps = 45 if v.tier == "quick" else 60
    shards = 1 if only is not None else max(1, min(8, C.NCPU // 2))
    shutil.rmtree(out, ignore_errors=True) if only is None else None
    os.makedirs(out, exist_ok=True)
    for f in ("cases.txt", "stats.json"):
        if os.path.exists(os.path.join(out, f)):
            os.remove(os.path.join(out, f))
    stmts = os.path.join(C.COQ, "Gen", "stmts.json")
    procs = []
    for k in range(shards):
        sdir = os.path.join(out, "shard%d" % k)
        shutil.rmtree(sdir, ignore_errors=True)
        os.makedirs(sdir)
        cmd = [C.harness_bin(HARNESS), "-out", sdir, "-n", str(n), "-steps", str(steps), "-seed", str(v.seed),
               "-stmts", stmts, "-shard", str(k), "-shards", str(shards),
               "-scenarios", "1" if v.tier == "quick" else "2"]
        if only is not None:
            cmd += ["-only", str(only)]
        procs.append((sdir, subprocess.Popen(cmd, stdout=subprocess.PIPE, stderr=subprocess.STDOUT)))
    log, ok = "", True
    stats = {"cases": 0, "distinct": 0, "distinct_nontrivial": 0, "classes": {}, "samples": [], "extra": {}, "impl_violations": []}
    with open(os.path.join(out, "cases.txt"), "w") as cases:
        for sdir, p in procs:
            try:
                o, _ = p.communicate(timeout=3000)
            except subprocess.TimeoutExpired:
                p.kill()
                o = b"TIMEOUT"
            log += o.decode("utf-8", "replace")
            sp = os.path.join(sdir, "stats.json")
            if p.returncode != 0 or not os.path.exists(sp):
                ok = False
                continue
            cases.write(open(os.path.join(sdir, "cases.txt")).read())
            s = json.load(open(sp))
            for k in ("cases", "distinct", "distinct_nontrivial"):
                stats[k] += s.get(k, 0)
            for k, c in (s.get("classes") or {}).items():
                stats["classes"][k] = stats["classes"].get(k, 0) + c
            for k, c in (s.get("extra") or {}).items():
                if isinstance(c, int) and k != "histories":
                    stats["extra"][k] = stats["extra"].get(k, 0) + c
            stats["samples"] += (s.get("samples") or [])[:2]
            stats["impl_violations"] += s.get("impl_violations") or []
            shutil.rmtree(sdir, ignore_errors=True)
    stats["samples"] = stats["samples"][:3]
    stats["extra"]["histories"] = n if only is None else 1
    json.dump(stats, open(os.path.join(out, "stats.json"), "w"), indent=1)
    if ok and stats["cases"] == 0:
        ok, log = False, log + "\nthe harness produced no cases"
    return ok, log


DIAG = """From Coq Require Import String List Bool.
From LS Require Import Gen.Stmts Gen.FsSites Gen.TxSites Stmts.Model.
Import ListNotations.
Definition bad_stmts := filter (fun st => negb (stmt_safe hole holes st)) stmts.
Definition bad_instances := flat_map (fun st => filter (fun t => negb (is_some (stmt_class_s t))) (instances hole holes st)) bad_stmts.
Eval vm_compute in ("all_stmts_safe fails for", map (fun st => (fst (fst st), snd (fst st))) bad_stmts, "unrecognised texts", bad_instances).
Eval vm_compute in ("all_dsns_safe fails for", filter (fun d => negb (dsn_ok d)) dsns).
Eval vm_compute in ("db_file_readonly fails for", filter (fun s => negb (site_ok s)) sites).
Eval vm_compute in ("tx_release_discipline fails for (function, begin site, variable, guard, guard site, unguarded returns)",
                    filter (fun t => negb (tx_site_ok t)) tx_sites, "cleared without rollback", tx_nil_without_release, "commits", tx_commits).
"""


def diagnose():
    """which entries of the regenerated lists break the sweeps (Model.v and Gen/*.v compile even when Proofs.v does not)"""
    d = os.path.join(C.WORK, PID)
    os.makedirs(d, exist_ok=True)
    path = os.path.join(d, "diag.v")
    open(path, "w").write(DIAG)
    C.coq_build(targets=["Stmts/Model.vo", "Gen/Stmts.vo", "Gen/FsSites.vo", "Gen/TxSites.vo"])
    rc, out = C.sh(["coqc", "-Q", C.COQ, "LS", "-w", "-all", path], cwd=d, timeout=600)
    return " ".join(out.split())[:2400]


def broken_lemmas(problems):
    """names of the lemmas the coq errors fall into"""
    import re
    names = []
    if "translator tools/gen failed" in " ".join(problems):
        names.append("tools/gen (the source left the translators' supported subset)")
    for m in re.finditer(r'File "\./([^"]+\.v)", line (\d+)', " ".join(problems)):
        f, line = os.path.join(C.COQ, m.group(1)), int(m.group(2))
        if not os.path.exists(f):
            continue
        last = None
        for ln, text in enumerate(open(f).read().split("\n"), 1):
            mm = re.match(r"\s*(Lemma|Theorem|Example|Corollary)\s+([A-Za-z0-9_']+)", text)
            if mm:
                last = mm.group(2)
            if ln >= line:
                break
        if last and last not in names:
            names.append(last)
    return names


def run(v):
    proof_ok, problems = C.standard_proof_phase(
        v, PID, extra_checker="; tools/gen regenerates coq/Gen/{Stmts,FsSites,Consts,Scalar}.v from the source first")
    # Properties/GenAgree.v and GenAgreePolicy.v (regenerated scalars/constants = the layers' model functions)
    # are compiled by standard_proof_phase (lib/common.py GEN_AGREE); a failure there is part of `problems`.
    if not proof_ok and any("GenAgree" in p_ for p_ in problems):
        v.violation("C14/gen-agree-broken",
                    "a scalar function or constant regenerated from the source no longer equals the model function "
                    "the theorems are about: " + " | ".join(p_ for p_ in problems if "GenAgree" in p_)[:1500],
                    {"theorem_or_correspondence": "coq/Gen/Agree.v, coq/Gen/AgreePolicy.v", "problems": problems}, False)
    ok, o = C.build_runner(LAYERS)
    if not ok:
        if not proof_ok:
            v.violation("C14/proof-broken", "; ".join(problems),
                        {"theorem_or_correspondence": "Properties/C14.v", "problems": problems}, False)
        v.violation("C14/runner-build", o[-1500:], {"theorem_or_correspondence": "extraction of Stmts/Entry.v"}, False)
        return
    ok, o = C.build_harness(HARNESS)
    if not ok:
        # the hook file (/repo/export_verif_stmts.go) may no longer fit the tree: a renamed internal must
        # not become an alarm; without the tag the harness runs everything except the fault injection
        ok2, o2 = C.build_harness(HARNESS, tags="noverif")
        if ok2:
            v.coverage["fault_injection"] = "unavailable: harness built without the verif tag (%s)" % " ".join(o.split())[-300:]
            ok = True
    if not ok:
        if not proof_ok:
            v.violation("C14/proof-broken", "; ".join(problems),
                        {"theorem_or_correspondence": "Properties/C14.v", "problems": problems}, False)
        v.violation("C14/harness-build", "harness does not build against the current /repo tree: " + o[-1500:],
                    {"theorem_or_correspondence": "correspondence stmts (harness build)"}, False)
        return
    out = os.path.join(C.WORK, PID)
    ok, o = gen_cases(v, out)
    if not ok:
        v.violation("C14/harness-run", o[-1500:], {"theorem_or_correspondence": "correspondence stmts (harness run)"}, False)
        return
    cases = os.path.join(out, "cases.txt")
    total, mism, errors = C.run_runner(cases, LAYERS)
    stats = json.load(open(os.path.join(out, "stats.json")))
    ex = stats.get("extra", {})
    v.coverage.update({
        "evaluations": total,
        "distinct_nontrivial": stats["distinct_nontrivial"],
        "rule": "A: every statement text regenerated from the source (templates with each constant reaching the hole), "
                "5 spellings (as written, lower, upper, extra white space/newlines/semicolons, no semicolon) x up to 10 "
                "pre-states (internal tables absent/empty/populated, journal mode wal/delete), executed on real SQLite: "
                "abstract post-state = Model.exec_class, user view unchanged. B: seeded application histories "
                "(insert/update/delete with overflow blobs, DDL create/alter/drop with indexes, views, a trigger, AUTOINCREMENT, "
                "VACUUM, incremental_vacuum, rollbacks, application checkpoints, reconnects; page sizes 512..65536, "
                "auto_vacuum 0/1/2) run with litestream (Open, Sync, Replica.Sync, Checkpoint PASSIVE/FULL/RESTART/TRUNCATE, "
                "Snapshot, Compact, Close+reopen, Close; MinCheckpointPageN 1..1000, TruncatePageN 0..121359, interval 0/1ns/1h, "
                "MaxSyncWALBytes 0/1/3 frames/1MiB) and without; 35% of the Sync/Checkpoint calls run under an injected fault on "
                "litestream's LTX staging files (open ENOSPC / write ENOSPC / Sync EIO / Close EIO on the k-th staging file, "
                "k=0..4) with application commits landing at staging opens 1..3; after EVERY litestream call a busy_timeout(0) "
                "writer must get the write lock. C: systematic fault scenarios: {CK-PASSIVE, CK-FULL, CK-RESTART, CK-TRUNCATE, "
                "Sync with MinCheckpointPageN=1, Sync with TruncatePageN=1} x every subset of staging opens 1..3 at which an "
                "application commit lands x failing staging file 1..4 x fault kind (quick: one kind per combination), followed by "
                "further application writes, a clean Sync, Close, one more write and the comparison with the control run. "
                "One stmts_diff_ok case per quiescent point (after Open, after "
                "every litestream operation, after Close). distinct = distinct (entry,input); non-trivial = a statement "
                "executed, or a point at which both internal tables exist.",
        "samples": stats["samples"],
        "input_distribution": stats["classes"],
        "model_mismatches": len(mism),
        "runner_errors": errors[:5],
        "histories": ex.get("histories"),
        "histories_completed": ex.get("histories_completed", 0),
        "histories_diverged_on_app_outcome": ex.get("histories_diverged_on_app_outcome", 0),
        "quiescent_points": ex.get("quiescent_points", 0),
        "statement_sites": ex.get("stmt_sites", 0),
        "statement_executions": ex.get("stmt_executions", 0),
        "litestream_ops": {k[3:]: c for k, c in ex.items() if k.startswith("ls:")},
        "db_file_changed_by": {k.split(":", 1)[1]: c for k, c in ex.items() if k.startswith("dbfile_changed_by:")},
        "divergences": {k: c for k, c in ex.items() if k.startswith("diverged:")},
        "fault_scenarios": ex.get("fault_scenarios", 0),
        "faults_fired": ex.get("faults_fired", 0),
        "faults_fired_in": {k.split(":", 1)[1]: c for k, c in ex.items() if k.startswith("fault_fired_in:")},
        "app_steps_during_litestream_op": ex.get("app_steps_during_litestream_op", 0),
        "histories_aborted_on_lock_leak": ex.get("histories_aborted_on_lock_leak", 0),
    })
    v.coverage.setdefault("fault_injection", "openLTXFile hook (export_verif_stmts.go)" if ex.get("fault_injection") else "unavailable")
    if errors:
        v.violation("C14/runner-error", "; ".join(errors[:3]), {"theorem_or_correspondence": "runner"}, False)
    impl = stats.get("impl_violations") or []
    found = False
    seen = set()
    for iv in impl:
        sig = iv["signature"]
        if sig in seen:
            continue
        seen.add(sig)
        if sig.startswith("harness/"):
            v.violation("C14/" + sig, iv["detail"], {"theorem_or_correspondence": "harness", "replay": iv.get("replay")}, False)
        else:
            found = True
            v.violation(sig, iv["detail"], {"history": iv.get("replay"), "how": "harness stmts -only <index> -seed <seed>"}, True)
    spec_bad = [m for m in mism if m["entry"] == "stmts_diff_ok"]
    other = [m for m in mism if m["entry"] != "stmts_diff_ok"]
    if spec_bad and not found:
        m = spec_bad[0]
        found = True
        v.violation("C14/property-statement-fails",
                    "the property's statement evaluated on the differential replay's observations is false at %d quiescent points"
                    % len(spec_bad), {"case_lines": C.case_with_defs(cases, m["line"]), "spec_says": m["model"]}, True)
    if other and not found:
        m = other[0]
        v.violation("C14/model-mismatch:" + m["entry"],
                    "real SQLite and Model.exec_class disagree on the abstract effect of a regenerated statement "
                    "(%d cases); no statement changed the user view" % len(other),
                    {"theorem_or_correspondence": "correspondence stmts_sem (Stmts/Model.v vs SQLite)",
                     "case_lines": C.case_with_defs(cases, m["line"]), "model_says": m["model"]}, False)
    if not proof_ok:
        # a failing input (if any) has been reported above; the broken obligation itself:
        lemmas = broken_lemmas(problems)
        diag = diagnose()
        v.violation("C14/proof-broken", "no longer checks: %s. %s || %s" % (", ".join(lemmas) or "?", diag, "; ".join(problems)),
                    {"theorem_or_correspondence": "Properties/C14.v: " + ", ".join(lemmas), "diagnosis": diag, "problems": problems,
                     "failing_input_reported_separately": found}, False)
    if ex.get("histories_completed", 0) == 0:
        v.violation("C14/no-history-completed", "no differential history ran to completion: " + json.dumps(ex)[:800],
                    {"theorem_or_correspondence": "correspondence stmts (differential replay)"}, False)


def replay(v, path):
    rep = json.load(open(path))
    r = rep["replay"]
    hist = r.get("history") or {}
    C.build_runner(LAYERS)
    ok, o = C.build_harness(HARNESS)
    if not ok:
        print(o)
        return 2
    out = os.path.join(C.WORK, PID, "replay")
    if hist.get("part") == "fault-scenario" and "scenario" in hist:
        ok, o = gen_cases(v, out, only=-2 - int(hist["scenario"]))
    elif hist.get("part") == "differential-replay" and "index" in hist:
        v.seed = int(hist.get("seed", v.seed))
        ok, o = gen_cases(v, out, only=int(hist["index"]))
    elif r.get("case_lines"):
        os.makedirs(out, exist_ok=True)
        open(os.path.join(out, "cases.txt"), "w").write("\n".join(r["case_lines"]) + "\n")
        json.dump({"impl_violations": []}, open(os.path.join(out, "stats.json"), "w"))
        ok = True
    elif hist.get("part") == "statement-replay":
        ok, o = gen_cases(v, out, only=None)
    else:
        print("replay file names no input:", r.get("theorem_or_correspondence"))
        return 1
    if not ok:
        print(o)
        return 2
    total, mism, errors = C.run_runner(os.path.join(out, "cases.txt"), LAYERS, shards=1)
    impl = json.load(open(os.path.join(out, "stats.json"))).get("impl_violations") or []
    for iv in impl:
        print("REPLAY-VIOLATION %s: %s" % (iv["signature"], iv["detail"][:400]))
    for m in mism:
        print("REPLAY-MISMATCH entry=%s model=%s" % (m["entry"], m["model"][:400]))
    print("replayed %d case(s), %d mismatch(es), %d implementation-level violation(s)" % (total, len(mism), len(impl)))
    return 1 if (mism or impl) else 0
