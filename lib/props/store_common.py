"""Shared by C07, C15 and the store-level phase of C06: real histories over a DB registered with a
Store and a file replica (harness command `store`), compared with Store/Ops.v and judged by the
spec oracles of Store/Spec.v."""
import json
import os

from .. import common as C

LAYERS = ["Store"]

RULE = ("real histories (about 35 operations each after an initial sync) over a litestream.DB with a real SQLite "
        "application connection, a Store with 1-3 (C06 focus: 1-8) configured levels and a file replica: write+db.Sync+"
        "Replica.Sync (inserts, updates, deletes, VACUUM-shrinks; page sizes 512/1024/4096), DB.Compact(L), "
        "Store.CompactDB(L or snapshot level, interval chosen to hit / miss the too-early guard), DB.Snapshot, "
        "DB.EnforceSnapshotRetention(ts), DB.EnforceRetentionByTXID(L, floor), DB.EnforceL0RetentionByTime (also inside "
        "Compact(1)), Store.EnforceSnapshotRetention (cascade), Store.SetRetentionEnabled, os.Chtimes on replica files. "
        "'aged' histories re-stamp 85% of new files with one of 12 injected ages and draw thresholds from the same scale "
        "(older / equal / newer; clock-relative thresholds land half a unit after an age), 'real' histories keep the "
        "header timestamps of the real clock and use thresholds at / 1 ms around existing stamps. In the C07 focus every third history starts with a directed scenario: "
        "2-3 snapshots whose ages are placed in EVERY order relative to the threshold (all 4 + 8 subsets expired, not only "
        "TXID prefixes; all 12 within 36 histories), all L0 files aged and trimmed behind L1 by L0 retention, then "
        "Store.EnforceSnapshotRetention (or DB.EnforceSnapshotRetention + the cascade by hand with the returned floor). "
        "Times are emitted as "
        "ranks. Cases: store_run (listing per level with CreatedAt after every operation, status, returned floor = model); "
        "store_inv_ok (RInv (i)-(v) of C07 and, before the first retention pass, levels_contiguous of C06 on every "
        "observed listing); store_ts_plan (CalcRestorePlan over the file client for T at / +-1 ms around / between all "
        "stamps = planner model); store_ts_ok (C15 statement on those answers). Go-side oracles: Restore(latest) = source "
        "image after every retention pass; every file of level >= 1 = ltx.Compactor merge of the archived L0 files of its "
        "range (pages, commit, range, newest input's timestamp); Restore(TXID=k) from the replica = restore of the "
        "archived L0 chain 1..k = source image recorded at sync k; Restore(Timestamp=T) image = state of the chosen TXID; "
        "mtime = header timestamp for every new file. C15 (every second c15 history runs on the real clock and starts "
        "with syncs, a real PASSIVE checkpoint through DB.Checkpoint, more syncs that stay in the WAL, a DB.Snapshot / "
        "snapshot-level CompactDB, more syncs, 2-4 ms apart; real-clock c15 histories also checkpoint at random): the "
        "harness records when each TXID was replicated (L0 header timestamp, which must lie inside the wall-clock window "
        "of its sync) and checks on EVERY file of every level including 9, when written and in the final listing, that "
        "it is stamped no earlier than the replication time of its newest transaction (store_ts_hyp_ok: the same plus "
        "ts_hyp of ts_exact on the real listing, in Coq); timestamp queries additionally at / +-1 ms around every "
        "replication time and every checkpoint / snapshot time, each answer compared with the record: the plan's end "
        "was replicated before T, and with all L0 files present it is the newest such TXID. distinct = distinct (entry,input); non-trivial = history of more "
        "than 4 operations / listing of more than 3 files / more than 3 queries.")


def gen_cases(v, out, focus, n):
    os.makedirs(out, exist_ok=True)
    for name in ("cases.txt", "stats.json"):
        try:
            os.remove(os.path.join(out, name))
        except FileNotFoundError:
            pass
    rc, o = C.sh([C.harness_bin("store"), "-out", out, "-n", str(n), "-seed", str(v.seed), "-focus", focus], timeout=20000)
    if rc == 0 and not (os.path.exists(os.path.join(out, "cases.txt")) and os.path.exists(os.path.join(out, "stats.json"))):
        return False, "harness exited 0 but wrote no cases.txt/stats.json under %s: %s" % (out, o[-500:])
    return rc == 0, o


def first_diff(case_line, model_sx):
    """index of the first operation of a store_run case whose observation differs from the model"""
    import re

    def parse(s):
        toks = re.findall(r"\(|\)|[^\s()]+", s)
        pos = [0]

        def it():
            t = toks[pos[0]]
            pos[0] += 1
            if t == "(":
                l = []
                while toks[pos[0]] != ")":
                    l.append(it())
                pos[0] += 1
                return l
            return int(t, 0)
        return it()
    try:
        f = case_line.split("\t")
        inp, obs, mod = parse(f[1]), parse(f[2]), parse(model_sx)
        names = ["sync", "compact", "compactdb", "snapshot", "snapret", "txidret", "l0ret", "storesnapret", "setret", "restamp"]
        for i, (op, o, m) in enumerate(zip(inp[2], obs, mod)):
            if o != m:
                return ("levels=%d retention_enabled=%d; first difference at operation #%d %s%s: implementation (status,floor,pos)=%s "
                        "listing=%s; model (status,floor,pos)=%s listing=%s; operations so far: %s"
                        % (inp[0], inp[1], i, names[op[0]], op[1:], o[:3], o[3], m[:3], m[3],
                           " ".join("%s%s" % (names[x[0]], x[1:]) for x in inp[2][:i + 1])))[:3000]
    except Exception as e:  # the description is a convenience; the case line is the evidence
        return "could not decode the case: %s" % e
    return "lengths differ"


def store_phase(v, pid, focus, n_quick, n_thorough, own_entries, own_sig_prefixes, classify):
    """Builds runner + harness, runs the histories, fills coverage, reports violations.
    own_entries: runner entries whose mismatches this property reports;
    classify(mismatch) -> (signature, text, found_input)."""
    ok, o = C.build_runner(LAYERS)
    if not ok:
        v.violation(pid + "/runner-build", o[-1500:], {"theorem_or_correspondence": "extraction of Store/Entry.v"}, False)
        return
    ok, o = C.build_harness("store")
    if not ok:
        v.violation(pid + "/harness-build", "harness does not build against the current /repo tree: " + o[-1500:],
                    {"theorem_or_correspondence": "correspondence store_run (harness build)"}, False)
        return
    out = os.path.join(C.WORK, pid + ("-store" if pid == "C06" else ""))
    n = n_quick if v.tier == "quick" else n_thorough
    ok, o = gen_cases(v, out, focus, n)
    if not ok:
        v.violation(pid + "/harness-run", o[-1500:], {"theorem_or_correspondence": "correspondence store_run (harness run)"}, False)
        return
    cases = os.path.join(out, "cases.txt")
    total, mism, errors = C.run_runner(cases, LAYERS)
    stats = json.load(open(os.path.join(out, "stats.json")))
    if total == 0 or total != stats["cases"] or stats.get("extra", {}).get("histories", 0) == 0:
        v.violation(pid + "/no-cases", "the runner evaluated %d cases, the harness wrote %d (%s histories)" %
                    (total, stats["cases"], stats.get("extra", {}).get("histories")),
                    {"theorem_or_correspondence": "correspondence run (case generation)"}, False)
    prev = v.coverage
    v.coverage.update({
        "evaluations": prev.get("evaluations", 0) + total,
        "distinct_nontrivial": prev.get("distinct_nontrivial", 0) + stats["distinct_nontrivial"],
        "store_level": {
            "rule": RULE, "focus": focus, "evaluations": total, "distinct_nontrivial": stats["distinct_nontrivial"],
            "histories": stats.get("extra", {}).get("histories"),
            "operations": stats.get("extra", {}).get("op_counts"),
            "go_side_oracle_evaluations": stats.get("extra", {}).get("oracle_counts"),
            "input_distribution": stats["classes"], "samples": stats["samples"][:2],
            "model_mismatches": len(mism), "runner_errors": errors[:5],
        },
    })
    if "rule" not in prev or pid != "C06":
        v.coverage["rule"] = RULE
        v.coverage["samples"] = stats["samples"]
        v.coverage["input_distribution"] = stats["classes"]
    if errors:
        v.violation(pid + "/runner-error", "; ".join(errors[:3]), {"theorem_or_correspondence": "runner"}, False)
    rep_base = {"seed": v.seed, "focus": focus, "n": n, "how": "harness store -focus %s -seed %d -n %d -only <index>" % (focus, v.seed, n)}
    own_found = False
    for iv in stats.get("impl_violations") or []:
        sig = iv["signature"]
        r = dict(rep_base)
        r.update(iv.get("replay") or {})
        if any(sig.startswith(p) for p in own_sig_prefixes):
            own_found = True
            v.violation(sig, iv["detail"], r, True)
        elif sig.startswith("harness/"):
            v.violation(pid + "/" + sig, "the harness could not drive the implementation: " + iv["detail"], r, False)
    oracle_bad = [m for m in mism if m["entry"] in own_entries and m["entry"] != "store_run" and m["entry"] != "store_ts_plan"]
    seen_entries = set()
    for m in oracle_bad:  # the first failing case of every oracle entry
        if m["entry"] in seen_entries:
            continue
        seen_entries.add(m["entry"])
        sig, text, found = classify(m)
        own_found = True
        nsame = len([x for x in oracle_bad if x["entry"] == m["entry"]])
        v.violation(sig, "%s (%d such cases); case: %s" % (text, nsame, m["case"][:1500]),
                    {"case_lines": C.case_with_defs(cases, m["line"]), "spec_says": m["model"], "how": "runner on case_lines"}, found)
    model_bad = [m for m in mism if m["entry"] in own_entries and m["entry"] in ("store_run", "store_ts_plan")]
    if model_bad:
        m = model_bad[0]
        what = first_diff(m["case"], m["model"]) if m["entry"] == "store_run" else "model says %s for %s" % (m["model"], m["case"][:1200])
        v.violation("%s/model-mismatch:%s" % (pid, m["entry"]),
                    "implementation and model disagree on %d cases%s. %s" %
                    (len(model_bad), "" if own_found else
                     "; every spec oracle of this property held on every listing and restore of this batch, so no "
                     "property-violating input was found: the model (Store/Ops.v / Plan/Planner.v) no longer describes the code", what),
                    {"theorem_or_correspondence": "correspondence %s (Store/Ops.v vs db.go / compactor.go / store.go)" % m["entry"],
                     "case_lines": C.case_with_defs(cases, m["line"]), "model_says": m["model"][:3000]}, False)


def replay(v, path, pid):
    rep = json.load(open(path))
    r = rep["replay"]
    C.build_runner(LAYERS)
    C.build_harness("store")
    out = os.path.join(C.WORK, pid, "replay")
    os.makedirs(out, exist_ok=True)
    if r.get("case_lines"):
        src = os.path.join(out, "cases.txt")
        open(src, "w").write("\n".join(r["case_lines"]) + "\n")
        total, mism, errors = C.run_runner(src, LAYERS, shards=1)
        for m in mism:
            print("REPLAY-MISMATCH entry=%s model=%s" % (m["entry"], m["model"][:400]))
        print("replayed %d recorded case(s), %d mismatch(es)" % (total, len(mism)))
        return 1 if mism else 0
    if "index" in r:
        for name in ("cases.txt", "stats.json"):
            try:
                os.remove(os.path.join(out, name))
            except FileNotFoundError:
                pass
        rc, o = C.sh([C.harness_bin("store"), "-out", out, "-n", str(r.get("n", r["index"] + 1)), "-seed", str(r["seed"]),
                      "-focus", r.get("focus", "c07"), "-only", str(r["index"])], timeout=3000)
        if rc != 0:
            print(o)
            return 2
        stats = json.load(open(os.path.join(out, "stats.json")))
        total, mism, errors = C.run_runner(os.path.join(out, "cases.txt"), LAYERS, shards=1)
        bad = [iv for iv in stats.get("impl_violations") or []]
        for iv in bad:
            print("REPLAY-VIOLATION %s: %s" % (iv["signature"], iv["detail"][:400]))
        for m in mism:
            print("REPLAY-MISMATCH entry=%s" % m["entry"])
        print("replayed history #%d: %d implementation-side violation(s), %d mismatch(es)" % (r["index"], len(bad), len(mism)))
        return 1 if (bad or mism) else 0
    print("replay file names no input:", r.get("theorem_or_correspondence"))
    return 1
