"""C01 — an acknowledged sync restores to exactly the source database."""
from . import db_common as D

PID = "C01"


def run(v):
    # thorough: the enumerated error-exit / kill windows of the checkpoint protocol (harness -sweep: about 700
    # scripted histories) come first, then the random histories
    n, steps = (92, 40) if v.tier == "quick" else (1150, 45)
    D.run_db(v, PID, "c01", n, steps,
             "random histories over {app write/update/delete(+incremental vacuum)/VACUUM/DDL/rollback, app checkpoint in 4 modes, "
             "app connection close/open, long reader on/off, Sync, single verify+sync step, Replica.Sync, Checkpoint(mode), "
             "SyncAndWait, Snapshot, Compact, Close} x page size {512..65536} x auto_vacuum x (MinCheckpointPageN, TruncatePageN, "
             "CheckpointInterval, MaxSyncWALBytes); at every acknowledged instant (SyncAndWait/Close returned nil) the replica is "
             "restored with a full integrity check and compared page by page with the image SQLite itself computes from a copy of "
             "(db, -wal) (only litestream's seq row page and the page-1 change counters may differ); every single verify+sync step "
             "is also compared with the Coq model. distinct = distinct (config, op sequence); non-trivial = at least one acknowledged instant.",
             extra_args=(() if v.tier == "quick" else ("-sweep",)))


def replay(v, path):
    return D.replay_db(v, PID, path)
