"""C01 — an acknowledged sync restores to exactly the source database."""
import os

from .. import common as C
from . import db_common as D

PID = "C01"


def run(v):
    # thorough: the enumerated error-exit / kill windows of the checkpoint protocol (harness -sweep: about 700
    # scripted histories) come first, then the random histories
    n, steps = (92, 40) if v.tier == "quick" else (1150, 45)
    D.run_db(v, PID, "c01", n, steps,
             "random histories over {app write/update/delete(+incremental vacuum)/VACUUM/DDL/rollback, app checkpoint in 4 modes, "
             "app connection close/open, long reader on/off, Sync, single verify+sync step, Replica.Sync, Checkpoint(mode), "
             "SyncAndWait, Snapshot, Compact, Close} x page size {512..65536} x auto_vacuum x (MinCheckpointPageN, TruncatePageN, "
             "CheckpointInterval, MaxSyncWALBytes); at every acknowledged instant (SyncAndWait/Close returned nil) the replica is "
             "restored with a full integrity check and compared page by page with the image SQLite itself computes from a copy of "
             "(db, -wal) (only litestream's seq row page and the page-1 change counters may differ); every single verify+sync step "
             "is also compared with the Coq model. distinct = distinct (config, op sequence); non-trivial = at least one acknowledged instant.",
             extra_args=(() if v.tier == "quick" else ("-sweep",)))
    queued_ack_phase(v)


def queued_ack_phase(v):
    """The one concurrent shape of an acknowledgement the single-threaded histories cannot produce: an
    acknowledging replica sync QUEUED behind an upload pass that started before the newest level-0 file
    existed (seeds C12d, C01e). Scenario queuedsync of the conc harness, built under its own name."""
    import json
    import shutil
    binp = os.path.join(C.BIN, "h_conc_c01")
    ok, o = C.build_harness("conc", out=binp)
    if not ok:
        v.violation("C01/harness-build-conc", "conc harness does not build against the current /repo tree: " + o[-1500:],
                    {"theorem_or_correspondence": "scenario queuedsync (harness build)"}, False)
        return
    out = os.path.join(C.WORK, PID, "queued")
    shutil.rmtree(out, ignore_errors=True)
    os.makedirs(out, exist_ok=True)
    rc, o = C.sh([binp, "conc", "-out", out, "-seed", str(v.seed), "-n", "0", "-f9=false", "-regsched", "0", "-regstress", "0",
                  "-ckptfail=false", "-halfinit=false", "-snapdup", "0", "-queuedsync=true"], timeout=1200)
    sp = os.path.join(out, "stats.json")
    if rc != 0 or not os.path.exists(sp):
        v.violation("C01/harness-run-conc", "conc harness exit %s: %s" % (rc, o[-1000:]),
                    {"theorem_or_correspondence": "scenario queuedsync (harness run)"}, False)
        return
    st = json.load(open(sp))
    v.coverage["queued_acknowledgement"] = (st.get("extra") or {}).get("queuedsync")
    for iv in st.get("impl_violations") or []:
        if "acknowledged-sync-did-not-upload" in iv["signature"]:
            v.violation("C01/acknowledged-sync-did-not-upload@queued-behind-upload", iv["detail"], iv.get("replay") or {}, True)


def replay(v, path):
    import json
    rep = json.load(open(path))
    if "queued-behind-upload" in rep.get("signature", ""):
        n0 = len(v.violations)
        queued_ack_phase(v)
        for x in v.violations[n0:]:
            print("REPLAY-VIOLATION", x["signature"], x["detail"][:300])
        return 1 if len(v.violations) > n0 else 0
    return D.replay_db(v, PID, path)
