"""C10 — restore fails loudly rather than produce a wrong or partial database."""
import json
import os
import re

from .. import common as C
from . import faults_common as F

PID = "C10"

OPS = [
    (r"os\.Stat\(opt\.OutputPath\)", 0),
    (r"os\.Create\(tmpOutputPath\)", 1),
    (r"DecodeDatabaseTo\(f\)", 2),
    (r"\bf\.Sync\(\)", 3),
    (r"\bf\.Close\(\)", 4),
    (r"os\.Rename\(tmpOutputPath, opt\.OutputPath\)", 5),
    (r"internal\.FsyncDir\(", 6),
    (r"os\.Remove\(opt\.OutputPath\)", 7),
    (r'os\.Remove\(opt\.OutputPath \+ "-shm"\)', 8),
    (r'os\.Remove\(opt\.OutputPath \+ "-wal"\)', 9),
    (r"os\.Remove\(tmpOutputPath\)", 10),
    (r"os\.(?:Create|OpenFile|WriteFile)\(opt\.OutputPath\b", 11),
]


def restore_source_ops():
    """file-system calls of func (r *Replica) Restore in textual order, deferred ones moved to the end.
    Returns (success_path_ops, failed_integrity_path_ops) or None when the shape is not recognised."""
    try:
        src = open(os.path.join(C.REPO, "replica.go")).read()
    except OSError:
        return None
    m = re.search(r"\nfunc \(r \*Replica\) Restore\(", src)
    if not m:
        return None
    body = src[m.end():]
    end = re.search(r"\n}\n", body)
    body = body[:end.start()] if end else body
    # the non-follow LTX path starts where the output path is checked for existence
    k = body.find("Ensure output path does not already exist")
    if k >= 0:
        body = body[k:]
    k = body.find("// Enter follow mode")
    if k >= 0:
        body = body[:k]
    toks, deferred = [], []
    for line in body.split("\n"):
        if line.strip().startswith("//"):
            continue
        found = []
        for rx, code in OPS:
            for mm in re.finditer(rx, line):
                found.append((mm.start(), code))
        found.sort()
        if "defer" in line:
            deferred = [c for _, c in found] + deferred
        else:
            toks += [c for _, c in found]
    if not all(c in toks for c in (1, 2, 3, 5)):
        return None
    ok_path = [c for c in toks if c not in (7, 8, 9)] + deferred
    fail_path = toks + deferred
    return ok_path, fail_path


LEGACY_CODES = {
    70: ("C10/legacy-success-with-different-content-after-download-fault",
         "legacy (v0.3.x) restore path: a read error while downloading a snapshot or WAL segment, or a stored object that "
         "ends early, and RestoreV3 returned nil with a database other than the one the fault-free restore produces"),
    71: ("C10/legacy-failed-restore-left-output",
         "legacy (v0.3.x) restore path: RestoreV3 failed under a download fault but left a file at the output path"),
}


def legacy_phase(v):
    """C10 on the legacy restore path: harness v3 -faultonly, spec oracle V3.Entry.v3_fault_ok
    (model and theorems: coq/V3/Faults.v, closed in Properties/C19.v)."""
    ok, o = C.coq_build(targets=["V3/Entry.vo"])
    if ok:
        ok, o = C.build_runner(["V3"])
    if not ok:
        v.violation("C10/runner-build-v3", o[-1500:], {"theorem_or_correspondence": "extraction of V3/Entry.v"}, False)
        return
    ok, o = C.build_harness("v3")
    if not ok:
        v.violation("C10/harness-build-v3", "harness v3 does not build against the current /repo tree: " + o[-1500:],
                    {"theorem_or_correspondence": "correspondence v3_fault_ok (harness build)"}, False)
        return
    out = os.path.join(C.WORK, PID, "legacy")
    os.makedirs(out, exist_ok=True)
    cases = os.path.join(out, "cases.txt")
    statsp = os.path.join(out, "stats.json")
    for p in (cases, statsp):
        if os.path.exists(p):
            os.remove(p)
    n = 6 if v.tier == "quick" else 40
    a = [C.harness_bin("v3"), "v3", "-out", out, "-n", str(n), "-seed", str(v.seed), "-workers", str(max(4, C.NCPU)), "-faultonly"]
    if v.tier != "quick":
        a.append("-thorough")
    rc, o = C.sh(a, timeout=6000)
    if rc != 0 or not os.path.exists(cases) or not os.path.exists(statsp):
        v.violation("C10/harness-run-v3", "harness exit %s: %s" % (rc, o[-1500:]),
                    {"theorem_or_correspondence": "correspondence v3_fault_ok (harness run)"}, False)
        return
    total, mism, errors = C.run_runner(cases, ["V3"])
    stats = json.load(open(statsp))
    nfault = sum(c for k, c in stats["classes"].items() if "/fault/" in k)
    if total == 0 or stats.get("cases", 0) != total or nfault == 0:
        v.violation("C10/no-cases-v3", "the v3 harness wrote %s cases (%d fault jobs), the runner evaluated %d" % (stats.get("cases"), nfault, total),
                    {"theorem_or_correspondence": "correspondence v3_fault_ok (harness run)"}, False)
        return
    v.coverage["legacy_path"] = {
        "evaluations": total, "download_fault_jobs": nfault,
        "rule": "legacy layouts from real SQLite histories; for the snapshot and up to three WAL segments of the fault-free "
                "plan: a read error after 0, 1, half, all-but-one bytes of the stream the client hands out, and the stored "
                "(LZ4) object cut at 0, 1, half, size-8, size-4, size-1 bytes; outcome = error with nothing at the output "
                "path, or the fault-free database (V3.Entry.v3_fault_ok)",
        "input_distribution": {k: c for k, c in stats["classes"].items() if "/fault/" in k},
    }
    # a missing object of the plan (any one WAL segment removed, latest restore): the outcome must be an error
    # unless what is left is still gap-free (oracle v3_plan_ok of C19)
    gone = {}
    for m in mism:
        if m["entry"] != "v3_plan_ok":
            continue
        try:
            code = int(m["model"], 0)
        except ValueError:
            code = -1
        gone.setdefault(code, []).append(m)
    v.coverage["legacy_path"]["missing_object_jobs"] = sum(c for k, c in stats["classes"].items() if "/removed-" in k and k.endswith("/spec"))
    for code, ms in sorted(gone.items()):
        sig = {20: "C10/legacy-trailing-segment-of-non-final-index-lost-undetected",
               21: "C10/legacy-missing-first-segment-not-detected",
               22: "C10/legacy-missing-segment-not-detected"}.get(code, "C10/legacy-restore-oracle-%d" % code)
        v.violation(sig, "legacy (v0.3.x) restore path with one WAL segment of the plan deleted: RestoreV3 does not behave as "
                         "the property prescribes (oracle v3_plan_ok code %d; 20 = the last segment of a non-final WAL index is "
                         "missing and the restore succeeds - F8, 21/22 = a gap that is not detected) (%d such cases)" % (code, len(ms)),
                    {"case_lines": C.case_with_defs(cases, ms[0]["line"]), "oracle_code": code,
                     "how": "harness v3 -faultonly regenerates the layouts"}, True)
    by = {}
    for m in mism:
        if m["entry"] != "v3_fault_ok":
            continue
        try:
            code = int(m["model"], 0)
        except ValueError:
            code = -1
        by.setdefault(code, []).append(m)
    for code, ms in sorted(by.items()):
        sig, what = LEGACY_CODES.get(code, ("C10/legacy-oracle-%d" % code, "v3_fault_ok returned %d" % code))
        v.violation(sig, "%s (%d such cases)" % (what, len(ms)),
                    {"case_lines": C.case_with_defs(cases, ms[0]["line"]), "oracle_code": code,
                     "how": "harness v3 -faultonly regenerates the layouts; the last element of the input is (seed, history, offset)"}, True)


def run(v):
    proof_ok, problems = C.standard_proof_phase(v, PID)
    if not proof_ok:
        v.violation("C10/proof-broken", "; ".join(problems),
                    {"theorem_or_correspondence": "Properties/C10.v", "problems": problems}, found_input=False)
    if not F.build(v, PID):
        return
    out = os.path.join(C.WORK, PID)
    n = 60 if v.tier == "quick" else 2000
    stats = F.gen(v, PID, out, "rr,restore", n)
    if stats is None:
        return
    cases = os.path.join(out, "cases.txt")
    src_ops = restore_source_ops()
    if src_ops:
        with open(cases, "a") as f:
            f.write("restore_ops_ok\t(0 (%s))\t1\n" % " ".join(map(str, src_ops[0])))
            f.write("restore_ops_ok\t(1 (%s))\t1\n" % " ".join(map(str, src_ops[1])))
    total, mism, errors = C.run_runner(cases, F.LAYERS)
    extra = stats.get("extra", {})
    v.coverage.update({
        "evaluations": total,
        "distinct_nontrivial": stats["distinct_nontrivial"],
        "exhaustive": True,
        "rule": "(a) the real internal.ResumableReader over a scripted opener/stream: every outcome schedule of length "
                "<= 4 (5 thorough) over {Data 1, Data 3, DataEOF 0/2, DataErr 0/2, OpenErr, OpenNotExist} x size in {0, len} x "
                "rc given/nil, plus sampled schedules up to 11 items over random files with size </=/> len; per case the "
                "model entry rr_run (bytes and error class of every Read) and the oracle rr_prefix_ok. non-trivial = the "
                "schedule contains a fault. (c) the real Replica.Restore in child processes on three replicas built by real "
                "DB histories (L0 chain; L1 then L0; snapshot then L0): every plan file x {delete (latest and pinned TXID), "
                "truncate (every offset for small files, else boundary offsets + the 14 offsets around the page-block end + "
                "sample), flip one bit (boundary bytes + sample)}, pre-existing output, ten checksum-valid replicas (real "
                "ltx.Encoder + file WriteLTXFile) whose image SQLite rejects (not-a-database, schema root garbage, damaged "
                "table pages, freelist, truncated image) x {quick_check, integrity_check, no check, cancelled context} — "
                "failures both reported as rows and as statement errors must occur —, cancelled context on good replicas, and k in "
                "{0,1,3,4,6} consecutive read failures (error / premature EOF / open error) at 4 offsets; each outcome goes "
                "through the oracle restore_disc_ok (obs_ok of Faults/Restore.v) and the Go-side expectations. "
                "non-trivial = anything but an undamaged restore. distinct = distinct (entry, input).",
        "samples": stats["samples"],
        "input_distribution": stats["classes"],
        "restore_outcomes": extra.get("restore_outcomes"),
        "restore_jobs": extra.get("restore_jobs"),
        "restore_panic_messages": extra.get("restore_panic_messages"),
        "integrity_failure_flavours": extra.get("integrity_failure_flavours"),
        "hash_strength_measured": "flips/truncations accepted by Restore: all decode to the identical image "
                                  "(see restore_outcomes: */ok-identical vs */ok-DIFFERENT)",
        "restore_source_op_order": ({"success_path": src_ops[0], "failed_integrity_path": src_ops[1]} if src_ops else
                                    "skipped: the file-system calls of Replica.Restore were not recognised in replica.go"),
        "model_mismatches": len(mism),
        "runner_errors": errors[:5],
    })
    legacy_phase(v)
    fl = extra.get("integrity_failure_flavours") or {}
    if not fl.get("reported-as-rows") or not fl.get("statement-error"):
        v.violation("C10/harness-coverage-integrity-flavours",
                    "the generated damaged images no longer make the integrity check fail in both ways "
                    "(rows and statement error): %s" % fl,
                    {"theorem_or_correspondence": "harness coverage (restore part, broken replicas)"}, False)
    if errors:
        v.violation("C10/runner-error", "; ".join(errors[:3]), {"theorem_or_correspondence": "runner"}, False)
    # property-level failures observed on the implementation by the harness (each has its own signature)
    ivs = stats.get("impl_violations", [])
    for iv in ivs:
        rp = dict(iv.get("replay") or {})
        rp.update({"part": "restore", "n": n})
        v.violation(iv["signature"], iv["detail"], rp, True)
    prefix_bad = [m for m in mism if m["entry"] == "rr_prefix_ok"]
    disc_bad = [m for m in mism if m["entry"] == "restore_disc_ok"]
    mism = [m for m in mism if m["entry"] != "restore_ops_ok"] + [m for m in mism if m["entry"] == "restore_ops_ok"]
    rr_bad = [m for m in mism if m["entry"] == "rr_run"]
    ops_bad = [m for m in mism if m["entry"] == "restore_ops_ok"]
    if ops_bad:
        m = ops_bad[0]
        v.violation("C10/restore-source-order-breaks-output-discipline",
                    "the file-system calls of Replica.Restore, in source order, publish a temp file that is not completely "
                    "written and fsynced, open the output for writing, or leave output/temp/-wal/-shm behind on the "
                    "failed-integrity path: " + m["case"],
                    {"case_lines": [m["case"]], "history": "crash (power loss) right after the rename, or a failed integrity check"}, True)
    if prefix_bad:
        m = prefix_bad[0]
        v.violation("C10/resumable-reader-not-a-prefix-or-silent-short-stream",
                    "ResumableReader handed its caller bytes that are not a prefix of the stored object, reported EOF "
                    "before size bytes, or went on after the retry budget (%d cases)" % len(prefix_bad),
                    {"case_lines": C.case_with_defs(cases, m["line"] - 1) , "spec_says": m["model"]}, True)
    if disc_bad and not ivs:
        m = disc_bad[0]
        v.violation("C10/restore-output-discipline",
                    "an observed Restore outcome breaks obs_ok (%d cases)" % len(disc_bad),
                    {"case_lines": [m["case"]], "part": "restore", "n": n}, True)
    if rr_bad and not prefix_bad:
        m = rr_bad[0]
        v.violation("C10/model-mismatch:rr_run",
                    "ResumableReader.Read and the model Faults/Resumable.v disagree on %d schedules; the prefix/EOF/sticky "
                    "oracle held on all of them" % len(rr_bad),
                    {"theorem_or_correspondence": "correspondence rr_run (Faults/Resumable.v vs internal/resumable_reader.go)",
                     "case_lines": [m["case"]], "model_says": m["model"][:2000]}, False)
    # Codec layer: the LTX byte layout (coq/Codec) against the real encoder / decoder / compactor / Restore,
    # every truncation length and bit flip of real files (lib/props/codec_phase.py)
    from . import codec_phase
    codec_phase.codec_phase(v, PID)


def replay(v, path):
    from . import codec_phase
    if codec_phase.is_codec_replay(path):
        return codec_phase.replay(v, PID, path)
    rep = json.load(open(path))
    if rep.get("signature", "").startswith("C10/legacy-"):
        # the legacy layouts are regenerated from the seed: run the legacy phase again
        v.seed = rep.get("seed", v.seed)
        v.tier = rep.get("tier", v.tier)
        n0 = len(v.violations)
        v.coverage.setdefault("legacy_path", {})
        legacy_phase(v)
        hits = [x for x in v.violations[n0:] if x["signature"] == rep["signature"]]
        for x in hits[:3]:
            print("REPLAY-VIOLATION %s: %s" % (x["signature"], x["detail"][:300]))
        print("legacy phase re-run: %d occurrence(s) of %s" % (len(hits), rep["signature"]))
        return 1 if hits else 0
    return F.replay_cases(v, PID, path)
