"""Shared by C01 / C02 / C04: histories over a real litestream.DB + SQLite
(harness/cmd/db) with spec-level oracles evaluated in Go, per-step model
correspondence (Db layer) through the extracted runner."""
import json
import os
import shutil

from .. import common as C

LAYERS = ["Db"]


def run_db(v, pid, mode, n, steps, rule, known_prefix_map=None, extra_args=()):
    proof_ok, problems = C.standard_proof_phase(v, pid)
    if not proof_ok:
        v.violation("%s/proof-broken" % pid, "; ".join(problems),
                    {"theorem_or_correspondence": "Properties/%s.v" % pid, "problems": problems}, found_input=False)
    ok, o = C.build_runner(LAYERS)
    if not ok:
        v.violation("%s/runner-build" % pid, o[-1500:], {"theorem_or_correspondence": "extraction of Db/Entry.v"}, False)
        return None
    ok, o = C.build_harness("db")
    if not ok:
        v.violation("%s/harness-build" % pid, "harness does not build against the current /repo tree: " + o[-1500:],
                    {"theorem_or_correspondence": "correspondence db (harness build)"}, False)
        return None
    out = os.path.join(C.WORK, pid)
    shutil.rmtree(out, ignore_errors=True)
    os.makedirs(out, exist_ok=True)
    # histories are independent: run them in parallel shards (index % shards), then merge
    import subprocess
    shards = min(8, max(1, n))
    procs = []
    for k in range(shards):
        so = os.path.join(out, "shard%d" % k)
        os.makedirs(so, exist_ok=True)
        procs.append((so, subprocess.Popen([C.harness_bin("db"), "-out", so, "-n", str(n), "-steps", str(steps), "-seed", str(v.seed),
                                            "-mode", mode, "-shard", str(k), "-shards", str(shards)] + list(extra_args),
                                           stdout=subprocess.PIPE, stderr=subprocess.STDOUT)))
    stats = {"cases": 0, "classes": {}, "samples": [], "impl_violations": [],
             "extra": {"acks": 0, "restores": 0, "sync_steps": 0, "histories": 0, "distinct_histories": 0,
                       "nontrivial_histories": 0, "op_counts": {}}}
    cases = os.path.join(out, "cases.txt")
    with open(cases, "w") as cf:
        for so, p in procs:
            try:
                o, _ = p.communicate(timeout=7000)
            except subprocess.TimeoutExpired:
                p.kill()
                o = b"TIMEOUT"
            sp = os.path.join(so, "stats.json")
            if p.returncode != 0 or not os.path.exists(sp):
                v.violation("%s/harness-run" % pid, o.decode("utf-8", "replace")[-1500:],
                            {"theorem_or_correspondence": "correspondence db (harness run)"}, False)
                return None
            st = json.load(open(sp))
            stats["cases"] += st["cases"]
            for k2, n2 in (st.get("classes") or {}).items():
                stats["classes"][k2] = stats["classes"].get(k2, 0) + n2
            stats["samples"] += (st.get("samples") or [])[-2:]
            stats["impl_violations"] += st.get("impl_violations") or []
            for k2, n2 in (st.get("extra") or {}).items():
                if k2 == "op_counts":
                    for a, b in n2.items():
                        stats["extra"]["op_counts"][a] = stats["extra"]["op_counts"].get(a, 0) + b
                elif k2 == "histories":
                    pass
                else:
                    stats["extra"][k2] = stats["extra"].get(k2, 0) + n2
            cf.write(open(os.path.join(so, "cases.txt")).read())
    stats["extra"]["histories"] = n
    ex = stats.get("extra", {})
    cases = os.path.join(out, "cases.txt")
    total, mism, errors = (0, [], [])
    if stats["cases"] > 0:
        total, mism, errors = C.run_runner(cases, LAYERS)
        if total != stats["cases"]:
            errors.append("runner evaluated %d of %d cases" % (total, stats["cases"]))
    if ex.get("acks", 0) == 0:
        v.violation("%s/no-acknowledged-instants" % pid, "the harness explored no acknowledged instant",
                    {"theorem_or_correspondence": "correspondence db"}, False)
    v.coverage.update({
        "evaluations": ex.get("acks", 0) + ex.get("restores", 0) + total,
        "distinct_nontrivial": ex.get("nontrivial_histories", 0),
        "rule": rule,
        "samples": stats.get("samples", [])[-3:] or ["(none)"],
        "histories": ex.get("histories"),
        "distinct_histories": ex.get("distinct_histories"),
        "acknowledged_instants_checked": ex.get("acks"),
        "restores_compared": ex.get("restores"),
        "sync_steps_compared_with_model": total,
        "model_mismatches": len(mism),
        "op_counts": ex.get("op_counts"),
        "input_distribution": stats.get("classes"),
        "runner_errors": errors[:5],
    })
    if errors:
        v.violation("%s/runner-error" % pid, "; ".join(errors[:3]), {"theorem_or_correspondence": "runner"}, False)
    viol = stats.get("impl_violations") or []
    for iv in viol:
        sig = iv["signature"]
        if sig.startswith("harness/"):
            v.violation("%s/%s" % (pid, sig.replace("/", "-")), iv["detail"],
                        {"theorem_or_correspondence": "harness could not run the history", "history": iv.get("replay")}, False)
            continue
        # C01's oracle is shared: report it under the property being checked
        if "/" in sig:
            sig = pid + "/" + sig.split("/", 1)[1]
        rep = dict(iv.get("replay") or {})
        rep["how"] = "harness db -mode %s -seed %s -only %s" % (rep.get("mode"), rep.get("seed"), rep.get("index"))
        v.violation(sig, iv["detail"], rep, True)
    if mism:
        # reported whether or not an oracle violation was found as well (a known finding among
        # the oracle violations must not hide a model mismatch)
        m = mism[0]
        v.violation("%s/model-mismatch:%s" % (pid, m["entry"]),
                    "the model (Db/Verify.v + Db/Sync.v for sync steps, Db/MachineEntry.v for checkpoint decisions) and db.go "
                    "disagree on %d observed steps (first: entry %s)" % (len(mism), m["entry"]),
                    {"theorem_or_correspondence": "correspondence " + m["entry"], "model_says": m["model"][:2000],
                     "case_lines": C.case_with_defs(cases, m["line"])}, False)
    return stats


def replay_db(v, pid, path):
    rep = json.load(open(path))["replay"]
    if "index" not in rep:
        print("replay file names no history:", rep.get("theorem_or_correspondence"))
        return 1
    C.build_harness("db")
    out = os.path.join(C.WORK, pid, "replay")
    shutil.rmtree(out, ignore_errors=True)
    rc, o = C.sh([C.harness_bin("db"), "-out", out, "-n", str(int(rep["index"]) + 1), "-steps", "40",
                  "-seed", str(rep["seed"]), "-mode", rep["mode"], "-only", str(rep["index"])], timeout=1200)
    st = json.load(open(os.path.join(out, "stats.json")))
    for iv in st.get("impl_violations") or []:
        print("REPLAY-VIOLATION", iv["signature"], iv["detail"][:400])
    print("replayed history %s#%s: %d violation(s)" % (rep["mode"], rep["index"], len(st.get("impl_violations") or [])))
    return 1 if st.get("impl_violations") else 0


def harness_only_phase(v, pid, mode, n, steps, key):
    """run the db harness in one mode without the proof phase (used as an extra phase by other
    properties' checks); violations are reported under pid, coverage goes under v.coverage[key]"""
    import subprocess
    ok, o = C.build_harness("db")
    if not ok:
        v.violation("%s/harness-build" % pid, "db harness does not build against the current /repo tree: " + o[-1500:],
                    {"theorem_or_correspondence": "correspondence db (harness build)"}, False)
        return
    out = os.path.join(C.WORK, pid, key)
    shutil.rmtree(out, ignore_errors=True)
    os.makedirs(out, exist_ok=True)
    shards = min(6, max(1, n))
    procs = []
    for k in range(shards):
        so = os.path.join(out, "shard%d" % k)
        os.makedirs(so, exist_ok=True)
        procs.append((so, subprocess.Popen([C.harness_bin("db"), "-out", so, "-n", str(n), "-steps", str(steps), "-seed", str(v.seed),
                                            "-mode", mode, "-shard", str(k), "-shards", str(shards)],
                                           stdout=subprocess.PIPE, stderr=subprocess.STDOUT)))
    acks = restores = 0
    viol = []
    for so, p in procs:
        try:
            o, _ = p.communicate(timeout=3000)
        except subprocess.TimeoutExpired:
            p.kill()
            o = b"TIMEOUT"
        sp = os.path.join(so, "stats.json")
        if p.returncode != 0 or not os.path.exists(sp):
            v.violation("%s/harness-run" % pid, o.decode("utf-8", "replace")[-1500:],
                        {"theorem_or_correspondence": "correspondence db (%s)" % mode}, False)
            return
        st = json.load(open(sp))
        acks += st["extra"].get("acks", 0)
        restores += st["extra"].get("restores", 0)
        viol += st.get("impl_violations") or []
    v.coverage[key] = {"histories": n, "acknowledged_instants_checked": acks, "restores_compared": restores}
    v.coverage["evaluations"] = v.coverage.get("evaluations", 0) + acks + restores
    if restores == 0:
        v.violation("%s/harness-run" % pid, "the %s phase compared no restores" % mode, {"theorem_or_correspondence": "correspondence db"}, False)
    for iv in viol:
        sig = iv["signature"]
        if sig.startswith("harness/"):
            v.violation("%s/%s" % (pid, sig.replace("/", "-")), iv["detail"], {"theorem_or_correspondence": "harness could not run the history"}, False)
            continue
        sig = pid + "/" + sig.split("/", 1)[1]
        rep = dict(iv.get("replay") or {})
        rep["how"] = "harness db -mode %s -seed %s -only %s" % (mode, rep.get("seed"), rep.get("index"))
        v.violation(sig, iv["detail"], rep, True)
