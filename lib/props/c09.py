"""C09 — only frames SQLite itself treats as committed are ever replicated."""
import json
import os

from .. import common as C

PID = "C09"
LAYERS = ["Wal"]


def gen_cases(v, out):
    n = 300 if v.tier == "quick" else 6000
    for f in ("cases.txt", "stats.json"):
        if os.path.exists(os.path.join(out, f)):
            os.remove(os.path.join(out, f))
    rc, o = C.sh([C.harness_bin("wal"), "-out", out, "-n", str(n), "-seed", str(v.seed)], timeout=3000)
    return rc == 0, o


def run(v):
    proof_ok, problems = C.standard_proof_phase(v, PID)
    if not proof_ok:
        v.violation("C09/proof-broken", "; ".join(problems),
                    {"theorem_or_correspondence": "Properties/C09.v", "problems": problems}, found_input=False)
    ok, o = C.build_runner(LAYERS)
    if not ok:
        v.violation("C09/runner-build", o[-1500:], {"theorem_or_correspondence": "extraction of Wal/Entry.v"}, False)
        return
    ok, o = C.build_harness("wal")
    if not ok:
        v.violation("C09/harness-build", "harness does not build against the current /repo tree: " + o[-1500:],
                    {"theorem_or_correspondence": "correspondence wal_run (harness build)"}, False)
        return
    out = os.path.join(C.WORK, PID)
    ok, o = gen_cases(v, out)
    if not ok:
        v.violation("C09/harness-run", o[-1500:], {"theorem_or_correspondence": "correspondence wal_run (harness run)"}, False)
        return
    cases = os.path.join(out, "cases.txt")
    total, mism, errors = C.run_runner(cases, LAYERS)
    stats = json.load(open(os.path.join(out, "stats.json")))
    v.coverage.update({
        "evaluations": total,
        "distinct_nontrivial": stats["distinct_nontrivial"],
        "rule": "WAL byte strings: synthetic (page sizes 8..4096, both byte orders, shrinking/growing commits, "
                "uncommitted and stale tails) and real SQLite WALs (512..65536), each also mutated (truncate, flips, "
                "dup/swap frames, salt/commit/pgno edits with and without checksum repair, header edits); per WAL: "
                "full read, byte-budgeted read, resumes at frame boundaries, salt scan, and the SQLite-recovery oracle "
                "(wal_spec_ok) on the implementation's output. distinct = distinct (entry,input); non-trivial = "
                "non-empty page map or a non-OK status.",
        "samples": stats["samples"],
        "input_distribution": stats["classes"],
        "model_mismatches": len(mism),
        "runner_errors": errors[:5],
    })
    if errors:
        v.violation("C09/runner-error", "; ".join(errors[:3]), {"theorem_or_correspondence": "runner"}, False)
    spec_bad = [m for m in mism if m["entry"] == "wal_spec_ok"]
    other = [m for m in mism if m["entry"] != "wal_spec_ok"]
    if spec_bad:
        m = spec_bad[0]
        v.violation("C09/differs-from-sqlite-recovery",
                    "the page map returned by WALReader.PageMap is not what SQLite recovers from this WAL "
                    "(%d such cases)" % len(spec_bad),
                    {"case_lines": C.case_with_defs(cases, m["line"]), "spec_says": m["model"],
                     "how": "harness wal -replay"}, True)
    elif other:
        m = other[0]
        v.violation("C09/model-mismatch:" + m["entry"],
                    "implementation and model disagree on %d cases (entry %s first); the SQLite-recovery oracle "
                    "held on every whole-file read of this batch" % (len(other), m["entry"]),
                    {"theorem_or_correspondence": "correspondence " + m["entry"] + " (Wal/Reader.v vs wal_reader.go)",
                     "case_lines": C.case_with_defs(cases, m["line"]), "model_says": m["model"]}, False)


def replay(v, path):
    rep = json.load(open(path))
    lines = rep["replay"].get("case_lines")
    if not lines:
        print("replay file names no input:", rep["replay"].get("theorem_or_correspondence"))
        return 1
    C.build_runner(LAYERS)
    C.build_harness("wal")
    out = os.path.join(C.WORK, PID, "replay")
    os.makedirs(out, exist_ok=True)
    src = os.path.join(out, "in.txt")
    open(src, "w").write("\n".join(lines) + "\n")
    rc, o = C.sh([C.harness_bin("wal"), "-out", out, "-replay", src], timeout=600)
    if rc != 0:
        print(o)
        return 2
    total, mism, errors = C.run_runner(os.path.join(out, "cases.txt"), LAYERS, shards=1)
    for m in mism:
        print("REPLAY-MISMATCH entry=%s model=%s" % (m["entry"], m["model"][:400]))
    print("replayed %d case(s), %d mismatch(es)" % (total, len(mism)))
    return 1 if mism else 0
