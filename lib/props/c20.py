"""C20 — at most one instance holds an unexpired replica lease."""
import json
import os

from .. import common as C

PID = "C20"
LAYERS = ["Lease"]

F6_SIG = "C20/generation-restarts-at-1-after-release: A acquire(gen g); A release; B acquire -> gen 1"

MUTEX_CODES = {
    2: ("C20/two-live-holders",
        "a client acquired or renewed successfully while another client holds an unexpired lease"),
    3: ("C20/revoked-holder-renewed-or-released",
        "a client whose lease had been taken over renewed or released it successfully"),
    4: ("C20/generation-not-increased-on-takeover",
        "an acquire over an existing lease record did not increase the generation"),
}


def gen_cases(v, out):
    n = 20000 if v.tier == "quick" else 0
    rc, o = C.sh([C.harness_bin("lease"), "lease", "-out", out, "-tier", v.tier, "-n", str(n), "-seed", str(v.seed)],
                 timeout=6000)
    return rc == 0, o


def _code(m):
    try:
        return int(m["model"].strip(), 0)
    except ValueError:
        return -1


def _run_line_for(cases_lines, lineno):
    """the lease_run case (same schedule) that precedes an oracle case"""
    for ln in range(lineno, max(0, lineno - 3), -1):
        if cases_lines[ln - 1].startswith("lease_run\t"):
            return cases_lines[ln - 1]
    return cases_lines[lineno - 1]


def _shortest(ms):
    return min(ms, key=lambda m: (len(m["case"]), m["line"]))


def run(v):
    proof_ok, problems = C.standard_proof_phase(v, PID)
    if not proof_ok:
        v.violation("C20/proof-broken", "; ".join(problems),
                    {"theorem_or_correspondence": "Properties/C20.v", "problems": problems}, found_input=False)
    ok, o = C.build_runner(LAYERS)
    if not ok:
        v.violation("C20/runner-build", o[-1500:], {"theorem_or_correspondence": "extraction of Lease/Entry.v"}, False)
        return
    ok, o = C.build_harness("lease")
    if not ok:
        v.violation("C20/harness-build", "harness does not build against the current /repo tree: " + o[-1500:],
                    {"theorem_or_correspondence": "correspondence lease_run (harness build)"}, False)
        return
    out = os.path.join(C.WORK, PID)
    ok, o = gen_cases(v, out)
    if not ok:
        v.violation("C20/harness-run", o[-1500:], {"theorem_or_correspondence": "correspondence lease_run (harness run)"}, False)
        return
    cases = os.path.join(out, "cases.txt")
    total, mism, errors = C.run_runner(cases, LAYERS)
    stats = json.load(open(os.path.join(out, "stats.json")))
    extra = stats.get("extra", {})
    v.coverage.update({
        "evaluations": total,
        "distinct_nontrivial": stats["distinct_nontrivial"],
        "exhaustive": bool(extra.get("scope_2clients_exhaustive")),
        "traces_validated_against_impl": extra.get("schedules", 0),
        "rule": "the real s3.Leaser (one per client) over an in-memory S3 stub with If-Match / If-None-Match semantics "
                "(ETag = md5 of the body); every storage request parks on a scheduler. Scope 1, exhaustive: 2 clients, "
                "every pair (up to exchanging the clients) of a program over {acquire, renew, release} of length 1..%s "
                "and a TTL sign (+1h live / -1h born expired), EVERY interleaving of their requests (stateless DFS, one "
                "execution per complete schedule). Scope 2: 3 clients with programs of length <= 2 containing an acquire, "
                "every interleaving of each chosen triple (quick: seeded sample of triples up to a schedule budget; "
                "thorough: all triples). Per schedule three cases: lease_run (model = implementation on call results "
                "in completion order + final store, timestamps reduced to live/expired) and the spec oracles "
                "lease_mutex_ok / lease_gen_strict_ok on the implementation's own trace. distinct = distinct "
                "(entry, input); non-trivial = lease_run cases in which at least two clients issued a storage request "
                "and at least one call succeeded." % extra.get("scope_2clients_maxlen", "?"),
        "samples": stats["samples"],
        "input_distribution": stats["classes"],
        "scopes": extra,
        "model_mismatches": len([m for m in mism if m["entry"] == "lease_run"]),
        "oracle_failures": len([m for m in mism if m["entry"] != "lease_run"]),
        "runner_errors": errors[:5],
    })
    if errors:
        v.violation("C20/runner-error", "; ".join(errors[:3]), {"theorem_or_correspondence": "runner"}, False)
    if not mism:
        return
    lines = open(cases).read().split("\n")
    mutex_bad = [m for m in mism if m["entry"] == "lease_mutex_ok"]
    strict_bad = [m for m in mism if m["entry"] == "lease_gen_strict_ok"]
    run_bad = [m for m in mism if m["entry"] == "lease_run"]

    by_code = {}
    for m in mutex_bad:
        by_code.setdefault(_code(m), []).append(m)
    for code, ms in sorted(by_code.items()):
        sig, what = MUTEX_CODES.get(code, ("C20/mutex-oracle-code-%d" % code, "the lease oracle rejected the observed trace"))
        m = _shortest(ms)
        v.violation(sig, "%s (%d schedules); observed trace: %s" % (what, len(ms), m["case"].split("\t")[1][:600]),
                    {"case_lines": [_run_line_for(lines, m["line"])], "oracle": "lease_mutex_ok", "oracle_says": m["model"],
                     "how": "harness lease -replay"}, True)

    f6 = [m for m in strict_bad if _code(m) == 5]
    strict_other = [m for m in strict_bad if _code(m) != 5]
    if strict_other:
        m = _shortest(strict_other)
        v.violation("C20/generation-not-strictly-increasing",
                    "the generation did not strictly increase from one owner to the next, in a shape other than "
                    "release-then-acquire (%d schedules); observed trace: %s" % (len(strict_other), m["case"].split("\t")[1][:600]),
                    {"case_lines": [_run_line_for(lines, m["line"])], "oracle": "lease_gen_strict_ok", "oracle_says": m["model"],
                     "how": "harness lease -replay"}, True)
    if f6:
        m = _shortest(f6)
        v.violation(F6_SIG,
                    "after a successful ReleaseLease the lock object is gone and the next acquirer (another owner) starts "
                    "again at generation 1 (%d schedules; Coq: gen_after_release_refuted); observed trace: %s"
                    % (len(f6), m["case"].split("\t")[1][:600]),
                    {"case_lines": [_run_line_for(lines, m["line"])], "oracle": "lease_gen_strict_ok", "oracle_says": m["model"],
                     "how": "harness lease -replay"}, True)
    if run_bad:
        m = _shortest(run_bad)
        oracle_found = bool(mutex_bad or strict_other)
        v.violation("C20/model-mismatch:lease_run",
                    "implementation and model disagree on %d schedules (call results / final store)%s"
                    % (len(run_bad), "" if oracle_found else "; the mutual-exclusion, revocation and takeover-generation "
                       "oracles held on every schedule of this run"),
                    {"theorem_or_correspondence": "correspondence lease_run (Lease/Client.v vs s3/leaser.go)",
                     "case_lines": [m["case"]], "model_says": m["model"], "how": "harness lease -replay"}, False)


def replay(v, path):
    rep = json.load(open(path))
    lines = rep["replay"].get("case_lines")
    if not lines:
        print("replay file names no input:", rep["replay"].get("theorem_or_correspondence"))
        return 1
    C.build_runner(LAYERS)
    C.build_harness("lease")
    out = os.path.join(C.WORK, PID, "replay")
    os.makedirs(out, exist_ok=True)
    src = os.path.join(out, "in.txt")
    open(src, "w").write("\n".join(lines) + "\n")
    rc, o = C.sh([C.harness_bin("lease"), "lease", "-out", out, "-replay", src], timeout=600)
    print(o.strip())
    if rc != 0:
        return 2
    total, mism, errors = C.run_runner(os.path.join(out, "cases.txt"), LAYERS, shards=1)
    for m in mism:
        print("REPLAY-MISMATCH entry=%s model=%s" % (m["entry"], m["model"][:400]))
    print("replayed %d case(s), %d mismatch(es)" % (total, len(mism)))
    return 1 if mism else 0
