"""C20 — at most one instance holds an unexpired replica lease."""
import json
import os
import re

from .. import common as C

PID = "C20"
LAYERS = ["Lease"]

F6_SIG = "C20/generation-restarts-at-1-after-release: A acquire(gen g); A release; B acquire -> gen 1"

MUTEX_CODES = {
    2: ("C20/two-live-holders",
        "a client acquired or renewed successfully at an instant at which another client holds a lease that is "
        "not expired at that instant (exact clock)"),
    3: ("C20/revoked-holder-renewed-or-released",
        "a client whose lease had been taken over renewed or released it successfully"),
    4: ("C20/generation-not-increased-on-takeover",
        "an acquire over an existing lease record did not increase the generation"),
}


PINNED_GUARD = "!existing.IsExpired()"


def acquire_guard():
    """the condition under which AcquireLease refuses because a lease exists, as written in the source:
    `if existing != nil && <guard> {`. Only used to decide how deep the boundary scope goes and recorded
    in the evidence; a different text is not an alarm by itself."""
    try:
        src = open(os.path.join(C.REPO, "s3", "leaser.go")).read()
        body = src[src.index("func (l *Leaser) AcquireLease("):]
        body = body[:body.index("\nfunc ", 10)]
        m = re.search(r"if existing != nil && (.*?) \{\n", body)
        return m.group(1).strip() if m else None
    except (OSError, ValueError):
        return None


def gen_cases(v, out, part, parts, deep=False):
    """one harness run = one part of the enumeration, written to a fresh directory"""
    for fn in ("cases.txt", "stats.json"):
        try:
            os.remove(os.path.join(out, fn))
        except FileNotFoundError:
            pass
    # the sub-command word is stripped by the harness' main before flag parsing
    cmd = [C.harness_bin("lease"), "lease", "-out", out, "-tier", v.tier, "-seed", str(v.seed),
           "-part", str(part), "-parts", str(parts)]
    if deep:
        cmd.append("-deep")
    rc, o = C.sh(cmd, timeout=6000)
    if rc == 0 and not (os.path.exists(os.path.join(out, "cases.txt")) and os.path.exists(os.path.join(out, "stats.json"))):
        return False, "harness exited 0 but wrote no cases.txt/stats.json under %s: %s" % (out, o[-500:])
    return rc == 0, o


def _code(m):
    try:
        return int(m["model"].strip(), 0)
    except ValueError:
        return -1


def _run_line_for(cases_lines, lineno):
    """the lease_run case (same schedule) that precedes an oracle case"""
    for ln in range(lineno, max(0, lineno - 3), -1):
        if cases_lines[ln - 1].startswith("lease_run\t"):
            return cases_lines[ln - 1]
    return cases_lines[lineno - 1]


def run(v):
    proof_ok, problems = C.standard_proof_phase(v, PID)
    if not proof_ok:
        v.violation("C20/proof-broken", "; ".join(problems),
                    {"theorem_or_correspondence": "Properties/C20.v", "problems": problems}, found_input=False)
    ok, o = C.build_runner(LAYERS)
    if not ok:
        v.violation("C20/runner-build", o[-1500:], {"theorem_or_correspondence": "extraction of Lease/Entry.v"}, False)
        return
    ok, o = C.build_harness("lease")
    if not ok:
        v.violation("C20/harness-build", "harness does not build against the current /repo tree: " + o[-1500:],
                    {"theorem_or_correspondence": "correspondence lease_run (harness build)"}, False)
        return
    out = os.path.join(C.WORK, PID)
    os.makedirs(out, exist_ok=True)
    # the thorough enumeration (millions of schedules) is split into parts, one case file at a time
    parts = 1 if v.tier == "quick" else 12
    total, errors = 0, []
    buckets = {}   # (entry, oracle code) -> {"n": count, "best": shortest mismatching case (+ its lease_run line)}
    stats = None
    guard = acquire_guard()
    deep = guard != PINNED_GUARD     # the takeover guard was rewritten: search the boundary scope with two ticks
    for part in range(parts):
        ok, o = gen_cases(v, out, part, parts, deep)
        if not ok:
            v.violation("C20/harness-run", o[-1500:],
                        {"theorem_or_correspondence": "correspondence lease_run (harness run, part %d/%d)" % (part, parts)}, False)
            return
        cases = os.path.join(out, "cases.txt")
        t, m, e = C.run_runner(cases, LAYERS)
        st = json.load(open(os.path.join(out, "stats.json")))
        if t == 0 or t != st.get("cases"):
            v.violation("C20/no-cases", "part %d/%d: the runner evaluated %d cases, the harness reports %s; %s"
                        % (part, parts, t, st.get("cases"), "; ".join(e[:2])),
                        {"theorem_or_correspondence": "correspondence lease_run (case generation)"}, False)
            return
        total += t
        errors += e
        if m:
            txt = open(cases).read().split("\n")
            for x in m:
                key = (x["entry"], _code(x) if x["entry"] != "lease_run" else 0)
                bk = buckets.setdefault(key, {"n": 0, "best": None})
                bk["n"] += 1
                if bk["best"] is None or len(x["case"]) < len(bk["best"]["case"]):
                    x["run_line"] = _run_line_for(txt, x["line"])
                    bk["best"] = x
            del txt
        del m
        if stats is None:
            stats = st
        else:
            stats["distinct_nontrivial"] += st["distinct_nontrivial"]
            for k, c in st["classes"].items():
                stats["classes"][k] = stats["classes"].get(k, 0) + c
            for k, c in st.get("extra", {}).items():
                if isinstance(c, int) and not isinstance(c, bool) and not k.endswith("maxlen"):
                    if "max_" in k:
                        stats["extra"][k] = max(stats["extra"].get(k, 0), c)
                    else:
                        stats["extra"][k] = stats["extra"].get(k, 0) + c
    stats.get("extra", {})["part"] = "%d parts" % parts
    extra = stats.get("extra", {})
    if not extra.get("schedules"):
        v.violation("C20/no-cases", "the harness explored no schedule",
                    {"theorem_or_correspondence": "correspondence lease_run (case generation)"}, False)
        return
    v.coverage.update({
        "evaluations": total,
        "distinct_nontrivial": stats["distinct_nontrivial"],
        "exhaustive": bool(extra.get("scope_2clients_exhaustive")),
        "traces_validated_against_impl": extra.get("schedules", 0),
        "rule": "the real s3.Leaser (one per client) over an in-memory S3 stub with If-Match / If-None-Match semantics "
                "(ETag = md5 of the body); every storage request parks on a scheduler; the run executes inside a "
                "testing/synctest bubble, so the only clock the Leaser reads (time.Now) is exact and advances only by "
                "the schedule's tick steps. A schedule = sequence of (execute the parked request of client i | tick d ns). "
                "Scope 1, exhaustive: 2 clients, every pair (up to exchanging the clients) of a program over {acquire, "
                "renew, release} of length 1..%s and a TTL of +1h / -1h, EVERY interleaving of their requests (stateless "
                "DFS, one execution per complete schedule). Scope 2: 3 clients, programs of length <= 2 containing an "
                "acquire, every interleaving of each chosen triple (quick: seeded sample; thorough: all triples). Scope 3, "
                "exhaustive (boundary scope): 2 clients with TTL 10 s, programs of length 1..2 (thorough: ..3), every "
                "interleaving and every placement of up to %s tick(s) between two requests with durations such that the "
                "request is issued with 10s-1ns, 2s+1ns, 2s, 1s, 1ms, 1ns or 0 ns of validity left on the current lease, or "
                "1 ns after its expiry. Scope 4: seeded random schedules, 2-3 clients, TTLs from {10s,3s,2s,1s,1ns,0,-1ns,"
                "+-1h}, up to 4 ticks. Per schedule three cases: lease_run (model = implementation on call results in "
                "completion order with ExpiresAt and completion time in ns since the start + final store) and the spec "
                "oracles lease_mutex_ok (no acquire/renew succeeds at an instant at which another client's lease is "
                "unexpired; revocation; generation on takeover) / lease_gen_strict_ok on the implementation's own trace. "
                "distinct = distinct (entry, input); non-trivial = lease_run cases in which at least two clients issued a "
                "storage request and at least one call succeeded."
                % (extra.get("scope_2clients_maxlen", "?"), extra.get("scope_boundary_max_ticks", "?")),
        "acquire_guard": {"source_text": guard, "is_pinned_form": not deep,
                          "note": "takeover guard of AcquireLease as written in s3/leaser.go; a rewritten guard makes the "
                                  "quick tier explore the boundary scope with two ticks"},
        "samples": stats["samples"],
        "input_distribution": stats["classes"],
        "scopes": extra,
        "model_mismatches": sum(bk["n"] for k, bk in buckets.items() if k[0] == "lease_run"),
        "oracle_failures": {"%s=%d" % k: bk["n"] for k, bk in sorted(buckets.items()) if k[0] != "lease_run"},
        "runner_errors": errors[:5],
    })
    if errors:
        v.violation("C20/runner-error", "; ".join(errors[:3]), {"theorem_or_correspondence": "runner"}, False)

    def trace_of(m):
        return m["case"].split("\t")[1][:600]

    def rep(m, oracle):
        return {"case_lines": [m["run_line"]], "oracle": oracle, "oracle_says": m["model"], "how": "harness lease -replay"}

    oracle_found = False
    for (entry, code), bk in sorted(buckets.items()):
        m = bk["best"]
        if entry == "lease_mutex_ok":
            sig, what = MUTEX_CODES.get(code, ("C20/mutex-oracle-code-%d" % code, "the lease oracle rejected the observed trace"))
            v.violation(sig, "%s (%d schedules); observed trace: %s" % (what, bk["n"], trace_of(m)), rep(m, entry), True)
            oracle_found = True
        elif entry == "lease_gen_strict_ok" and code == 5:
            v.violation(F6_SIG,
                        "after a successful ReleaseLease the lock object is gone and the next acquirer (another owner) "
                        "starts again at generation 1 (%d schedules; Coq: gen_after_release_refuted); observed trace: %s"
                        % (bk["n"], trace_of(m)), rep(m, entry), True)
        elif entry == "lease_gen_strict_ok":
            v.violation("C20/generation-not-strictly-increasing",
                        "the generation did not strictly increase from one owner to the next, in a shape other than "
                        "release-then-acquire (%d schedules); observed trace: %s" % (bk["n"], trace_of(m)), rep(m, entry), True)
            oracle_found = True
    bk = buckets.get(("lease_run", 0))
    if bk:
        m = bk["best"]
        v.violation("C20/model-mismatch:lease_run",
                    "implementation and model disagree on %d schedules (call results / final store)%s"
                    % (bk["n"], "" if oracle_found else "; the mutual-exclusion, revocation and takeover-generation "
                       "oracles held on every schedule of this run"),
                    {"theorem_or_correspondence": "correspondence lease_run (Lease/Client.v vs s3/leaser.go)",
                     "case_lines": [m["case"]], "model_says": m["model"], "how": "harness lease -replay"}, False)


def replay(v, path):
    rep = json.load(open(path))
    lines = rep["replay"].get("case_lines")
    if not lines:
        print("replay file names no input:", rep["replay"].get("theorem_or_correspondence"))
        return 1
    C.build_runner(LAYERS)
    C.build_harness("lease")
    out = os.path.join(C.WORK, PID, "replay")
    os.makedirs(out, exist_ok=True)
    src = os.path.join(out, "in.txt")
    open(src, "w").write("\n".join(lines) + "\n")
    rc, o = C.sh([C.harness_bin("lease"), "lease", "-out", out, "-replay", src], timeout=600)
    print(o.strip())
    if rc != 0:
        return 2
    total, mism, errors = C.run_runner(os.path.join(out, "cases.txt"), LAYERS, shards=1)
    for m in mism:
        print("REPLAY-MISMATCH entry=%s model=%s" % (m["entry"], m["model"][:400]))
    print("replayed %d case(s), %d mismatch(es)" % (total, len(mism)))
    return 1 if mism else 0
