"""C18 — a VFS read replica serves the same pages as a full restore.

Correspondence: harness `vfs` (real DB + SQLite application connection + file
replica + VFSFile, build tags "vfs verif") against the extracted model of
coq/Vfs (vfs_open / vfs_poll / vfs_lockop: function equality on the index) and
the spec oracle vfs_pages_ok (per-page choice and size equal restore's).  The
harness also compares ReadAt of every page and FileSize with the bytes of
Restore(TXID = Pos()).

A failing check point is attributed with the decidable domain tests of
coq/Vfs/Domain.v (the hypotheses of the positive theorems): a failure at a poll
/ open that violates one of them is the corresponding refuted case (stable
signature); a failure inside the proved domain, or any disagreement between
model and implementation, is reported under its own signature."""
import json
import os

from .. import common as C

PID = "C18"
LAYERS = ["Vfs"]
TAGS = "vfs verif"

SIG_F4 = "C18/poll-partial-shrink-replaces-index-dropping-untouched-pages"
SIG_F5 = "C18/poll-l1-overlaid-over-newer-l0"
SIG_L1SHRINK = "C18/poll-l1-commit-below-polled-l0-commit-replaces-index"
SIG_OPEN = "C18/open-index-keeps-pages-beyond-commit-after-shrink"
SIG_HYD_RESET = "C18/resettime-while-hydrated-jumps-pos-hydrated-file-misses-transactions"
SIG_HYD = "C18/hydrated-read-differs-from-restore-with-correct-index"
SIG_TT = "C18/time-travel-view-differs-from-timestamp-restore"
SIG_RT = "C18/reset-view-differs-from-latest-restore"
SCHED_KINDS = ("tt-set", "tt-unlock", "tt-poll", "rt-reset", "rt-unlock")
SIG_WEDGE = "C18/poll-cannot-pass-maxtxid1-l1-not-contiguous-index-keeps-entries-into-deleted-l0"

WHAT = {
    SIG_F4: "pollLevel replaces the whole index when a file's commit is smaller than its predecessor's; after a partial "
            "shrink (incremental_vacuum) the pages that transaction did not rewrite leave the index (page not found / FileSize too small)",
    SIG_F5: "pollReplicaClient overlays the L1 entries of a poll over the L0 entries regardless of TXID; an L1 file that ends "
            "below the position reached through L0 puts older page versions back",
    SIG_L1SHRINK: "pollLevel(1) starts from the commit reached by the L0 poll; an L1 file with a smaller commit (database grew in a "
                  "later L0 transaction) fires the replace rule and the index keeps only the pages of the polled L1 files",
    SIG_HYD_RESET: "ResetTime (PRAGMA litestream_time = LATEST) on a file whose reads are served from the hydrated copy and that is "
                   "not time travelling: rebuildIndex moves pos to the latest TXID, no poll will ever apply the skipped "
                   "transactions to the hydrated file, and ReadAt serves those pages stale",
    SIG_HYD: "reads served from the hydrated local file differ from the restore at Pos() although the index is the restore's",
    SIG_TT: "after SetTargetTime (with Lock, a poll staged in the pending index, Unlock around it) the view is not the "
            "timestamp restore for the target time",
    SIG_RT: "after ResetTime (with Lock, a poll staged in the pending index, Unlock around it) the view is not the restore "
            "at the latest position",
    SIG_WEDGE: "the L1 listing does not continue at maxTXID1+1 (rebuildIndex seeds maxTXID1 from pos when the plan holds no L1 file, "
               "so the L1 file covering pos starts at or below it and LTXFiles' seek hides it; the next L1 file then fails the "
               "contiguity test and every poll errors): entries that point into L0 files are never moved to L1, and after L0 "
               "retention removes those files the reads fail with SQLITE_BUSY although Restore(TXID=Pos()) succeeds",
    SIG_OPEN: "buildIndexMap overlays the page indexes of the plan and never drops pages above the final commit; after a shrink "
              "inside the plan FileSize (largest indexed page) exceeds the restored size",
}


def gen_cases(v, out):
    """run the harness into a directory emptied of earlier case/stat files. cmd/vfs/main.go strips the
    leading sub-command name before parsing flags, so -out/-n/-seed are honoured in this form."""
    n = 12 if v.tier == "quick" else 1500
    os.makedirs(out, exist_ok=True)
    for name in ("cases.txt", "stats.json", "eval.txt"):
        try:
            os.remove(os.path.join(out, name))
        except FileNotFoundError:
            pass
    rc, o = C.sh([C.harness_bin("vfs"), "vfs", "-out", out, "-n", str(n), "-seed", str(v.seed),
                   "-variants", "2" if v.tier == "quick" else "3"], cwd=out, timeout=20000)
    if rc == 0 and not (os.path.exists(os.path.join(out, "cases.txt")) and os.path.exists(os.path.join(out, "stats.json"))):
        return False, "harness exited 0 but wrote no cases.txt / stats.json under %s: %s" % (out, o[-500:])
    return rc == 0, o


def _eval(cases, lines_by_key, out_dir):
    """Evaluate derived entries with the runner. lines_by_key: key -> list of case-file lines (defs first).
    Returns key -> model output text."""
    if not lines_by_key:
        return {}
    path = os.path.join(out_dir, "eval.txt")
    keys, buf, lnno, at = [], [], 0, {}
    for k, lines in lines_by_key.items():
        for ln in lines:
            buf.append(ln)
            lnno += 1
        at[lnno] = k
    open(path, "w").write("\n".join(buf) + "\n")
    total, evals, errors = C.run_runner(path, LAYERS, shards=1, mode="eval")
    res = {}
    for (ln, entry, outp) in evals:
        if ln in at:
            res[at[ln]] = outp
    return res


def _parse(txt):
    """runner output (numbers printed as 0x..) -> nested python lists"""
    toks = txt.replace("(", " ( ").replace(")", " ) ").split()
    def rd(i):
        if toks[i] == "(":
            out, i = [], i + 1
            while toks[i] != ")":
                x, i = rd(i)
                out.append(x)
            return out, i + 1
        return int(toks[i], 0), i + 1
    try:
        return rd(0)[0]
    except (IndexError, ValueError):
        return None


def _derive(cases, lineno, entry, extra=None):
    """the case at lineno re-targeted at another entry (same input, optionally with one more element)"""
    lines = C.case_with_defs(cases, lineno)
    f = lines[-1].split("\t")
    inp = f[1]
    if extra is not None:
        inp = inp[:-1] + " " + extra + ")"
    return lines[:-1] + ["%s\t%s\t()" % (entry, inp)]


def analyse(v, out, cases, stats, mism):
    """turn mismatches and failing check points into violations; returns coverage extras"""
    points = stats.get("extra", {}).get("points") or []
    herrs = stats.get("extra", {}).get("errors") or []
    bad_lines = {}
    for m in mism:
        bad_lines.setdefault(m["line"], m)
    model_bad = [m for m in mism if m["entry"] in ("vfs_open", "vfs_poll", "vfs_lockop", "vfs_step")]
    for m in model_bad[:1]:
        v.violation("C18/model-mismatch:" + m["entry"],
                    "implementation and model disagree on %d case(s) of %s (coq/Vfs vs vfs.go)"
                    % (len([x for x in model_bad if x["entry"] == m["entry"]]), m["entry"]),
                    {"theorem_or_correspondence": "correspondence " + m["entry"] + " (Vfs/Index.v, Vfs/Poll.v vs vfs.go)",
                     "case_lines": C.case_with_defs(cases, m["line"]), "model_says": m["model"][:2000],
                     "script": next((p["script"] for p in points if p.get("model_line") == m["line"]), None)}, False)
    if herrs:
        v.violation("C18/harness-error", "; ".join(herrs[:3])[:1500],
                    {"theorem_or_correspondence": "harness vfs (history did not run to its end)", "errors": herrs[:5]}, False)

    failing = [p for p in points if (not p["bytes_ok"]) or (p.get("ok_line") in bad_lines)]
    # derived evaluations: page diff for every failing point, domain flags for its open/poll case
    req = {}
    for p in failing:
        if p.get("ok_line"):
            req[("diff", p["id"])] = _derive(cases, p["ok_line"], "vfs_pages_diff")
        if p.get("model_line"):
            if p["kind"] in SCHED_KINDS:
                pass
            elif p["kind"] in ("poll", "lpoll"):
                lockp = str((1 << 30) // _ps(p) + 1)
                req[("dom", p["id"])] = _derive(cases, p["model_line"], "vfs_poll_domain", lockp)
            else:
                req[("dom", p["id"])] = _derive(cases, p["model_line"], "vfs_open_domain")
    plan_defs = {}
    if any(p["kind"] in SCHED_KINDS for p in failing):
        for ln in open(cases):
            if ln.startswith("=plan"):
                plan_defs[ln.split("\t")[0][1:]] = ln.rstrip("\n")
    for p in failing:
        if p["kind"] in SCHED_KINDS and p.get("plan_def") in plan_defs:
            req[("dom", p["id"])] = [plan_defs[p["plan_def"]], "vfs_open_domain\t($%s)\t()" % p["plan_def"]]
    ev = _eval(cases, req, out)

    unjudged, by_sig, last_sig, last_bad = 0, {}, {}, {}
    for p in failing:
        oracle_bad = p.get("ok_line") in bad_lines
        diff = ev.get(("diff", p["id"]), "")
        dom = _parse(ev.get(("dom", p["id"]), "")) if ("dom", p["id"]) in ev else None
        pdiff = _parse(diff) if diff else None
        size_only = (not p.get("bad_pages")) and (not p.get("err_pages")) and bool(pdiff) and pdiff[0] == []
        inst = (p["history"], p["instance"])
        badset = set(x[0] for x in (pdiff[0] if pdiff else [])) | set(p.get("bad_pages") or []) | set(p.get("err_pages") or [])
        if p["size_vfs"] != p["size_ref"]:
            badset.add(-1)
        detail = ("%s at pos %d: FileSize %d vs restored %d; pages with other bytes %s; pages whose read failed %s; "
                  "index-vs-restore diff (pgno verdict: 1 missing 2 beyond-pos 3 stale-version 4 hole) %s"
                  % (p["kind"], p["pos"], p["size_vfs"], p["size_ref"], (p.get("bad_pages") or [])[:12],
                     (p.get("err_pages") or [])[:12], diff[:300]))
        if p.get("note", "").startswith("reference restore failed"):
            continue  # already reported as harness error
        if (not oracle_bad) and not p.get("bad_pages") and not p.get("err_pages") and p["size_vfs"] == p["size_ref"] \
                and p.get("gone_pages"):
            # the index is the right one for Pos(), but it names files retention has deleted: a cold read
            # of those pages fails (ErrNotExist -> retries -> SQLITE_BUSY). Every check point follows an
            # open or a poll, so the poll that should have re-pointed the entries has already run.
            if p["ref_source"] == "archive":
                # Restore(TXID=Pos()) does not exist on the live replica either: the property's reference is undefined
                unjudged += 1
                continue
            poll_failed = False
            if p["kind"] in ("poll", "lpoll") and p.get("model_line"):
                obs = C.case_with_defs(cases, p["model_line"])[-1].split("\t")[2]
                poll_failed = obs.startswith("(0 ")
            if p["kind"] in ("poll", "lpoll") and ((dom and len(dom) > 3 and dom[3] == 1) or poll_failed):
                sig = SIG_WEDGE
            else:
                sig = "C18/read-fails-where-restore-succeeds"
            detail = ("%s at pos %d: Restore(TXID=%d) succeeds on the replica, the index is the restore's, but %d page(s) %s are "
                      "indexed into files that are no longer on the replica (%s); domain flags %s, poll returned error: %s"
                      % (p["kind"], p["pos"], p["pos"], len(p["gone_pages"]), p["gone_pages"][:12], p.get("note", ""), dom, poll_failed))
            if sig not in by_sig:
                by_sig[sig] = {"n": 0, "first": p, "detail": detail, "dom": dom}
            by_sig[sig]["n"] += 1
            continue
        if (not oracle_bad) and p.get("hydrated"):
            # the index is right, the bytes come from the hydrated copy
            if (not p.get("ever_tt")) and p["kind"] in ("rt-reset", "rt-unlock", "reset"):
                sig = SIG_HYD_RESET
            else:
                sig = SIG_HYD
        elif not oracle_bad:
            sig = "C18/read-differs-with-correct-index"
        elif p["kind"] in ("open", "reset", "timetravel"):
            if dom == 0 and size_only:
                sig = SIG_OPEN
            else:
                sig = "C18/open-differs-from-restore"
        elif p["kind"] in SCHED_KINDS:
            # view after SetTargetTime / ResetTime under a schedule of Lock, staged Poll, Unlock
            if dom == 0 and size_only:
                sig = SIG_OPEN
            elif (not p["prev_ok"]) and inst in last_sig and badset <= last_bad.get(inst, set()):
                sig = last_sig[inst]
            else:
                sig = SIG_TT if p["kind"].startswith("tt-") else SIG_RT
        else:
            if dom and dom[0] == 1:
                sig = SIG_F4
            elif dom and dom[1] == 1:
                sig = SIG_F5
            elif dom and dom[2] == 1:
                sig = SIG_L1SHRINK
            elif (not p["prev_ok"]) and inst in last_sig and badset <= last_bad.get(inst, set()):
                sig = last_sig[inst]  # nothing new is wrong: this poll is inside the domain and inherited a wrong index
            else:
                sig = "C18/poll-differs-from-restore-inside-proved-domain"
        last_sig[inst] = sig
        last_bad[inst] = badset
        if sig not in by_sig:
            by_sig[sig] = {"n": 0, "first": p, "detail": detail, "dom": dom}
        by_sig[sig]["n"] += 1
    for sig, d in by_sig.items():
        p = d["first"]
        v.violation(sig, "%s — %d failing check point(s); first: %s" % (WHAT.get(sig, "unexpected failure"), d["n"], d["detail"]),
                    {"script": p["script"], "kind": p["kind"], "pos": p["pos"], "domain_flags": d["dom"],
                     "how": "h_vfs vfs -script '<script>' ; ./check C18 --replay <this file>",
                     "case_lines": (C.case_with_defs(cases, p["model_line"]) if p.get("model_line") else [])[:40]}, True)
    return {"check_points": len(points), "check_points_failing": len(failing),
            "check_points_served_from_hydrated_file": len([p for p in points if p.get("hydrated")]),
            "hydration": "compared on every check point of the hydrated variants (ReadAt warm + cold, FileSize vs restore); "
                         "modelled in coq/Vfs/Hydration.v as the reads-from-hydrated flag (part of the vfs_step correspondence) and a "
                         "ghost image updated by ApplyUpdates (theorem vfs_hydrated_image_agrees_with_index); the hydrated "
                         "file's bytes, Restore/CatchUp inside runHydration and races with the hydration goroutine are "
                         "compared / not scheduled, not modelled",
            "check_points_reference_restore_undefined_on_replica": unjudged,
            "failing_by_signature": {k: d["n"] for k, d in by_sig.items()},
            "points_by_kind": _count(points, "kind")}


def _ps(p):
    s = p["script"]
    return int(s.split("ps=")[1].split()[0])


def _count(points, key):
    out = {}
    for p in points:
        out[p[key]] = out.get(p[key], 0) + 1
    return out


def run(v):
    proof_ok, problems = C.standard_proof_phase(v, PID)
    if not proof_ok:
        v.violation("C18/proof-broken", "; ".join(problems),
                    {"theorem_or_correspondence": "Properties/C18.v", "problems": problems}, found_input=False)
    ok, o = C.build_runner(LAYERS)
    if not ok:
        v.violation("C18/runner-build", o[-1500:], {"theorem_or_correspondence": "extraction of Vfs/Entry.v"}, False)
        return
    ok, o = C.build_harness("vfs", tags=TAGS)
    if not ok:
        v.violation("C18/harness-build", "harness does not build against the current /repo tree (-tags 'vfs verif'): " + o[-1500:],
                    {"theorem_or_correspondence": "correspondence vfs_open / vfs_poll (harness build)"}, False)
        return
    out = os.path.join(C.WORK, PID)
    ok, o = gen_cases(v, out)
    if not ok:
        v.violation("C18/harness-run", o[-1500:], {"theorem_or_correspondence": "correspondence vfs (harness run)"}, False)
        return
    cases = os.path.join(out, "cases.txt")
    total, mism, errors = C.run_runner(cases, LAYERS)
    stats = json.load(open(os.path.join(out, "stats.json")))
    if total == 0 or stats.get("cases", 0) == 0 or total != stats.get("cases"):
        v.violation("C18/no-cases", "the harness produced %s cases, the runner evaluated %d; runner errors: %s"
                    % (stats.get("cases"), total, "; ".join(errors[:3])),
                    {"theorem_or_correspondence": "correspondence vfs (harness produced no / other cases)"}, False)
        return
    if errors:
        v.violation("C18/runner-error", "; ".join(errors[:3]), {"theorem_or_correspondence": "runner"}, False)
    extra = analyse(v, out, cases, stats, mism)
    v.coverage.update({
        "evaluations": total,
        "distinct_nontrivial": stats["distinct_nontrivial"],
        "rule": "histories over a real litestream DB + SQLite application connection (page sizes 512/1024/4096, "
                "auto_vacuum=incremental): inserts, updates, deletes, incremental_vacuum(n), VACUUM, sync, Compact(1), "
                "Compact(2), Snapshot, L0 retention, snapshot+TXID retention, interleaved with VFS open, poll, "
                "lock-poll-unlock, time travel and reset, and schedules Lock; Poll (staged in the pending index); [more writes + sync]; SetTargetTime(earlier time) | ResetTime; [Poll]; Unlock; [Poll]; ResetTime on a VFSFile over the file replica (1-page and 10 MiB page cache), and the same schedules through VFS.Open with HydrationEnabled, started once "
                "hydration is complete (reads from the hydrated local file; hydration races are not scheduled). "
                "24 directed histories (the shapes of F4/F5 and neighbours) run with both cache sizes, then seeded random ones. "
                "Per check point: ReadAt of every page, once with the cache as the history left it and once with a purged (cold) "
                "cache, and FileSize vs Restore(TXID=Pos()) bytes (page-1 bytes 18,19,24..27 masked); a page indexed into a file "
                "that retention deleted while Restore(TXID=Pos()) succeeds is a violation; the index vs the model (vfs_open / vfs_poll / vfs_lockop / vfs_step) and vs the L0-ledger oracle "
                "(vfs_pages_ok). distinct = distinct (entry,input); non-trivial = plan of more than one file / poll that "
                "consumed a file / lock op with pending entries / oracle on an index of more than one page.",
        "samples": [s[:700] for s in stats["samples"]],
        "input_distribution": stats["classes"],
        "model_mismatches": len([m for m in mism if m["entry"] != "vfs_pages_ok"]),
        "oracle_failures": len([m for m in mism if m["entry"] == "vfs_pages_ok"]),
        "runner_errors": errors[:5],
    })
    v.coverage.update(extra)


def replay(v, path):
    rep = json.load(open(path))
    script = rep["replay"].get("script")
    if not script:
        print("replay file names no input:", rep["replay"].get("theorem_or_correspondence"))
        return 1
    C.build_runner(LAYERS)
    ok, o = C.build_harness("vfs", tags=TAGS)
    if not ok:
        print(o)
        return 2
    out = os.path.join(C.WORK, PID, "replay")
    os.makedirs(out, exist_ok=True)
    for name in ("cases.txt", "stats.json"):
        try:
            os.remove(os.path.join(out, name))
        except FileNotFoundError:
            pass
    rc, o = C.sh([C.harness_bin("vfs"), "vfs", "-out", out, "-script", script], cwd=out, timeout=600)
    print(o.strip())
    if rc != 0:
        return 2
    cases = os.path.join(out, "cases.txt")
    total, mism, errors = C.run_runner(cases, LAYERS, shards=1)
    stats = json.load(open(os.path.join(out, "stats.json")))
    for m in mism:
        print("REPLAY-MISMATCH line=%d entry=%s model=%s" % (m["line"], m["entry"], m["model"][:300]))
    for p in stats["extra"]["points"]:
        if not p["bytes_ok"]:
            print("REPLAY-BYTES point=%d kind=%s pos=%d size %d vs %d bad=%s err=%s" %
                  (p["id"], p["kind"], p["pos"], p["size_vfs"], p["size_ref"], p.get("bad_pages"), p.get("err_pages")))
    print("replayed %d case(s), %d mismatch(es)" % (total, len(mism)))
    return 1 if mism or any(not p["bytes_ok"] for p in stats["extra"]["points"]) else 0
