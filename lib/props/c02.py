"""C02 — every replicated TXID is one consistent committed state; TXIDs are monotone."""
from . import db_common as D

PID = "C02"


def run(v):
    n, steps = (56, 30) if v.tier == "quick" else (188, 36)   # histories 48..55 are the snapshot-during-restart scripts
    # quick: deterministic, replayable interleavings only (commits injected at log points inside the
    # protocols); thorough: additionally a real concurrent writer goroutine (schedule-dependent)
    extra = ["-concurrent"] if v.tier == "thorough" else []
    D.run_db(v, PID, "c02", n, steps,
             "application commits interleaved with litestream in three ways: (a) injected from a logger hook at the n-th log record "
             "INSIDE Sync / Checkpoint / Snapshot / Compact (deterministic, replayable), (b) a WAL that predates litestream, with a pinned "
             "reader, a partial application checkpoint and a budgeted first sync, (c) thorough tier only: a concurrent application writer (multi-statement transactions stamping one version number into three tables on "
             "different pages, one in five rolled back) against litestream Sync / Replica.Sync / SyncAndWait / Checkpoint in 4 modes / "
             "Snapshot / Compact chosen at random x page size x thresholds x MaxSyncWALBytes; afterwards every TXID listed at any level "
             "(all of them up to 80, else every level>=1 TXID, the newest 20 and a sample) is restored twice - with all levels and from "
             "the level-0 chain alone - and must be identical both ways, show one version in all three tables (never a rolled-back "
             "marker), be monotone in the TXID; level 0 must be gapless from 1. non-trivial = at least one acknowledged instant.", extra_args=extra)


def replay(v, path):
    return D.replay_db(v, PID, path)
