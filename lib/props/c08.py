"""C08 — restore plans are valid chains and are found whenever one exists."""
import json
import os

from .. import common as C

PID = "C08"
LAYERS = ["Plan"]
ORACLES = ("plan_valid_ok", "plan_complete_ok")


def gen_cases(v, out):
    if v.tier == "quick":
        args = ["-n", "600", "-exh", "1"]
    else:
        args = ["-n", "8000", "-exh", "2"]
    for f in ("cases.txt", "stats.json"):
        if os.path.exists(os.path.join(out, f)):
            os.remove(os.path.join(out, f))
    rc, o = C.sh([C.harness_bin("plan"), "-out", out, "-seed", str(v.seed)] + args, timeout=6000)
    if rc == 0 and not (os.path.exists(os.path.join(out, "cases.txt")) and os.path.exists(os.path.join(out, "stats.json"))):
        return False, "harness exited 0 but wrote no cases.txt/stats.json under %s: %s" % (out, o[-500:])
    return rc == 0, o


def describe(case_line):
    f = case_line.split("\t")
    return f[1] if len(f) > 1 else case_line


def with_defs(cases, ms, limit=40):
    """one pass over the case file: attach to the first `limit` mismatches the `=w` definition
    line in force at their line; returns them sorted by size of the file set (the exhaustive
    small scopes come first in the file, so the first mismatches are already the small ones)"""
    want = {m["line"]: m for m in ms[:limit]}
    last = max(want) if want else 0
    lastdef = None
    with open(cases) as f:
        for ln, line in enumerate(f, 1):
            if ln > last:
                break
            if line.startswith("="):
                lastdef = line.rstrip("\n")
            elif ln in want:
                want[ln]["case_lines"] = ([lastdef] if lastdef and "$w" in line else []) + [line.rstrip("\n")]
    out = [m for m in want.values() if "case_lines" in m]
    out.sort(key=lambda m: (len("".join(m["case_lines"])), m["line"]))
    return out


def readable(m):
    """(files tgt ts [status plan]) with the reference resolved"""
    inp = describe(m["case_lines"][-1])
    if len(m["case_lines"]) > 1:
        inp = inp.replace("$w", m["case_lines"][0].split("\t")[1])
    return inp


def run(v):
    proof_ok, problems = C.standard_proof_phase(v, PID)
    if not proof_ok:
        v.violation("C08/proof-broken", "; ".join(problems),
                    {"theorem_or_correspondence": "Properties/C08.v", "problems": problems}, found_input=False)
    # the runner needs Plan/Entry.vo (and Base/Sx.vo), which Properties/C08.vo does not depend on
    ok, o = C.coq_build(targets=["Plan/Entry.vo"])
    if not ok:
        v.violation("C08/entry-build", o[-1500:], {"theorem_or_correspondence": "coq/Plan/Entry.v does not compile"}, False)
        return
    ok, o = C.build_runner(LAYERS)
    if not ok:
        v.violation("C08/runner-build", o[-1500:], {"theorem_or_correspondence": "extraction of Plan/Entry.v"}, False)
        return
    ok, o = C.build_harness("plan")
    if not ok:
        v.violation("C08/harness-build", "harness does not build against the current /repo tree: " + o[-1500:],
                    {"theorem_or_correspondence": "correspondence plan_run (harness build)"}, False)
        return
    out = os.path.join(C.WORK, PID)
    ok, o = gen_cases(v, out)
    if not ok:
        v.violation("C08/harness-run", o[-1500:], {"theorem_or_correspondence": "correspondence plan_run (harness run)"}, False)
        return
    cases = os.path.join(out, "cases.txt")
    total, mism, errors = C.run_runner(cases, LAYERS)
    stats = json.load(open(os.path.join(out, "stats.json")))
    if total == 0 or total != stats["cases"]:
        v.violation("C08/no-cases", "the runner evaluated %d cases, the harness wrote %d" % (total, stats["cases"]),
                    {"theorem_or_correspondence": "correspondence run (case generation)"}, False)
    v.coverage.update({
        "evaluations": total,
        "distinct_nontrivial": stats["distinct_nontrivial"],
        "rule": "file sets (level,min,max,createdAt) served to the real CalcRestorePlan by an in-memory ReplicaClient: "
                "every subset of all ranges over TXIDs 1..2 at levels {0,1,2,9} and (with early/late creation times) at "
                "{0,1,9}; every subset over 1..3 at {0,1,9} and a 1/257 sample at {0,1,2,9} (thorough: 1/16 of the 2^21, all 3^9 "
                "timed sets over 1..3 at {0,9}, 1/389 of the 2^24 sets over 1..4 at {0,1,9}; sample offsets move with the seed); random sets up to 40 TXIDs over levels 0..9 (compaction-shaped and "
                "arbitrary ranges), listings in arbitrary order (soundness only), a snapshot not starting at 1 (model "
                "equality only), and sets listed through the real file client (listing order checked). Per set: every "
                "target TXID 0..N+1 and timestamps at / one before / one after file times. Per query three cases: "
                "plan_run (error class and (level,min,max) plan equal the model), plan_valid_ok (valid chain per "
                "Plan/Spec.v), plan_complete_ok (error => brute-force reachability finds no chain; gap => a file starts "
                "beyond the furthest reachable TXID; latest-mode plan ends at the greatest TXID). distinct = distinct "
                "(entry,input); non-trivial = at least two files and (a plan of at least two files or an error).",
        "samples": stats["samples"],
        "input_distribution": stats["classes"],
        "queries_run_on_implementation": stats.get("extra", {}).get("queries_run_on_implementation"),
        "model_mismatches": len(mism),
        "runner_errors": errors[:5],
    })
    if errors:
        v.violation("C08/runner-error", "; ".join(errors[:3]), {"theorem_or_correspondence": "runner"}, False)
    valid_bad = [m for m in mism if m["entry"] == "plan_valid_ok"]
    compl_bad = [m for m in mism if m["entry"] == "plan_complete_ok"]
    other = [m for m in mism if m["entry"] not in ORACLES]
    if valid_bad:
        m = with_defs(cases, valid_bad)[0]
        v.violation("C08/plan-not-a-valid-chain",
                    "CalcRestorePlan returned a plan that is not a valid chain (not from TXID 1, not contiguous, wrong "
                    "end, or uses a file created at/after the timestamp) on %d queries; smallest: input "
                    "(files tgt ts status plan) = %s" % (len(valid_bad), readable(m)[:1500]),
                    {"case_lines": m["case_lines"], "spec_says": m["model"],
                     "how": "harness plan -replay"}, True)
    if compl_bad:
        m = with_defs(cases, compl_bad)[0]
        v.violation("C08/plan-missed-or-stopped-short",
                    "CalcRestorePlan returned an error although a valid chain exists, reported a gap that is none, or "
                    "stopped before the greatest TXID in latest mode, on %d queries; smallest: input "
                    "(files tgt ts status plan) = %s" % (len(compl_bad), readable(m)[:1500]),
                    {"case_lines": m["case_lines"], "spec_says": m["model"],
                     "how": "harness plan -replay"}, True)
    if other and not valid_bad and not compl_bad:
        m = with_defs(cases, other)[0]
        v.violation("C08/model-mismatch:" + m["entry"],
                    "implementation and model disagree on %d queries (entry %s); both spec oracles held on every query "
                    "of this batch, so no property-violating input was found: the planner model (Plan/Planner.v) no "
                    "longer describes replica.go" % (len(other), m["entry"]),
                    {"theorem_or_correspondence": "correspondence " + m["entry"] + " (Plan/Planner.v vs replica.go CalcRestorePlan)",
                     "case_lines": m["case_lines"], "model_says": m["model"]}, False)


def replay(v, path):
    rep = json.load(open(path))
    lines = rep["replay"].get("case_lines")
    if not lines:
        print("replay file names no input:", rep["replay"].get("theorem_or_correspondence"))
        return 1
    C.coq_build(targets=["Plan/Entry.vo"])
    C.build_runner(LAYERS)
    C.build_harness("plan")
    out = os.path.join(C.WORK, PID, "replay")
    os.makedirs(out, exist_ok=True)
    src = os.path.join(out, "in.txt")
    open(src, "w").write("\n".join(lines) + "\n")
    if os.path.exists(os.path.join(out, "cases.txt")):
        os.remove(os.path.join(out, "cases.txt"))
    rc, o = C.sh([C.harness_bin("plan"), "-out", out, "-replay", src], timeout=600)
    if rc != 0:
        print(o)
        return 2
    total, mism, errors = C.run_runner(os.path.join(out, "cases.txt"), LAYERS, shards=1)
    for m in mism:
        print("REPLAY-MISMATCH entry=%s model=%s case=%s" % (m["entry"], m["model"][:400], m["case"][:600]))
    print("replayed %d case(s), %d mismatch(es)" % (total, len(mism)))
    return 1 if mism else 0
