"""C11 — files are flushed before they are published, and published before acknowledged.

Proof: coq/Fs (Model, Monitor, Publish, Proofs) closed in Properties/C11.v.
Correspondence: deterministic scripts over the real litestream code run in a
child process under `strace -f -y`; every trace, reduced to the alphabet of
Fs/Model.v (litestream's own files, ack markers written by the child after
each acknowledged operation), is fed to the extracted monitor `publish_ok`
(entry fs_publish_ok, a spec oracle on REAL traces, expected (1 0 0))."""
import json
import os
import re

from .. import common as C

PID = "C11"
LAYERS = ["Fs"]
HARNESS = "crash"

REASONS = {
    1: "create-or-truncate-of-final-name",
    2: "write-through-published-file",
    3: "rename-to-final-name-before-fsync",
    4: "rename-source-not-a-staging-file",
    5: "ack-before-dir-fsync",
    6: "unlink-without-durable-superseding-file",
    7: "ack-of-non-final-name",
    8: "open-for-write-of-final-name",
    9: "directory-removed-or-replaced-while-holding-known-files",
}

F10 = "C11/ack-before-dir-fsync:fetched-baseline-L0"


def _ints(model):
    out = []
    for tok in re.findall(r"-?0x[0-9a-f]+|-?\d+", model):
        out.append(int(tok, 16) if "0x" in tok else int(tok))
    return out


def _what(text):
    """a stable description of the file an offending call is about"""
    if "base " in text and text.startswith("ACK"):
        return "fetched-baseline-L0"
    for pat, name in ((r"\.db-litestream/ltx/(\d+)/", "local-L%s"), (r"replica/ltx/(\d+)/", "replica-L%s")):
        m = re.search(pat, text)
        if m:
            return name % m.group(1)
    if "-txid" in text:
        return "txid-sidecar"
    if "restore/" in text:
        return "restore-output"
    return "other"


def classify(m, infos, case_idx):
    v = _ints(m["model"])
    idx, reason = (v[1], v[2]) if len(v) >= 3 else (0, 0)
    info = infos[case_idx] if case_idx < len(infos) else {"job": {}, "calls": []}
    calls = info.get("calls", [])
    bad = calls[idx - 1] if 0 < idx <= len(calls) else "?"
    text = bad.split("] ", 1)[-1]
    sig = "C11/%s:%s" % (REASONS.get(reason, "reason-%d" % reason), _what(text))
    ctx = calls[max(0, idx - 12):idx]
    return sig, idx, reason, info.get("job", {}), ctx


def analyse(v, out, cases, mism, errors):
    infos = json.load(open(os.path.join(out, "traces.json")))
    stats = json.load(open(os.path.join(out, "stats.json")))
    for iv in stats.get("impl_violations") or []:
        v.violation(iv["signature"], iv["detail"], {"job": iv.get("replay"), "how": "harness crash -mode trace -replay"}, True)
    if errors:
        v.violation("C11/runner-error", "; ".join(errors[:3]), {"theorem_or_correspondence": "runner"}, False)
    for m in mism:
        if m["entry"] != "fs_publish_ok":
            continue
        sig, idx, reason, job, ctx = classify(m, infos, m["line"] - 1)
        detail = ("script %s: system call #%d of the reduced trace violates the publish discipline (%s). "
                  "Last calls: %s" % (job.get("script"), idx, REASONS.get(reason, reason), " | ".join(ctx[-8:])))
        v.violation(sig, detail, {"job": job, "offending_call_index": idx, "reason": REASONS.get(reason, reason),
                                  "trace_tail": ctx, "monitor_says": m["model"],
                                  "how": "harness crash -mode trace -replay <job.json>; runner on cases.txt"}, True)
    return stats, infos


def fresh_out(out):
    """remove the previous run's case/stat files so that a harness that writes nothing cannot be mistaken for a run"""
    import shutil
    os.makedirs(out, exist_ok=True)
    for f in ("cases.txt", "stats.json", "traces.json"):
        try:
            os.remove(os.path.join(out, f))
        except FileNotFoundError:
            pass
    shutil.rmtree(os.path.join(out, "runs"), ignore_errors=True)


def produced(out):
    try:
        st = json.load(open(os.path.join(out, "stats.json")))
        json.load(open(os.path.join(out, "traces.json")))
    except (OSError, ValueError):
        return False
    return os.path.exists(os.path.join(out, "cases.txt")) and st.get("cases", 0) > 0


def run(v):
    proof_ok, problems = C.standard_proof_phase(v, PID)
    if not proof_ok:
        v.violation("C11/proof-broken", "; ".join(problems),
                    {"theorem_or_correspondence": "Properties/C11.v", "problems": problems}, found_input=False)
    ok, o = C.build_runner(LAYERS)
    if not ok:
        v.violation("C11/runner-build", o[-1500:], {"theorem_or_correspondence": "extraction of Fs/Entry.v"}, False)
        return
    ok, o = C.build_harness(HARNESS)
    if not ok:
        v.violation("C11/harness-build", "harness does not build against the current /repo tree: " + o[-1500:],
                    {"theorem_or_correspondence": "correspondence fs_publish_ok (harness build)"}, False)
        return
    out = os.path.join(C.WORK, PID)
    fresh_out(out)
    n = 24 if v.tier == "quick" else 240
    rc, o = C.sh([C.harness_bin(HARNESS), "crash", "-mode", "trace", "-out", out, "-n", str(n), "-seed", str(v.seed)],
                 timeout=3000)
    if rc != 0:
        v.violation("C11/harness-run", o[-1500:], {"theorem_or_correspondence": "correspondence fs_publish_ok (harness run)"}, False)
        return
    cases = os.path.join(out, "cases.txt")
    if not produced(out):
        v.violation("%s/harness-produced-no-cases" % PID, "the harness exited 0 but wrote no cases under " + out + ": " + o[-800:],
                    {"theorem_or_correspondence": "correspondence (harness output)"}, False)
        return
    total, mism, errors = C.run_runner(cases, LAYERS)
    stats, infos = analyse(v, out, cases, mism, errors)
    sample = []
    if infos:
        sample = [{"script": infos[0]["job"].get("script"), "calls": infos[0]["calls"][:40]}]
    v.coverage.update({
        "evaluations": total,
        "distinct_nontrivial": stats["distinct_nontrivial"],
        "traces_validated_against_impl": total,
        "rule": "one case per real system-call trace: deterministic scripts (sync + upload to a file replica, snapshot, "
                "compaction, retention incl. L0/snapshot/TXID retention, passive checkpoint, restore, follow-mode restore, "
                "TXID sidecar, baseline fetch after losing local state, legacy v0.3.x restore (RestoreV3) of a snapshot-only generation and of a snapshot + WAL segments generation built from the real -wal file, initial follow-mode restore on the main thread; and over ONE OPEN DB with directories removed and re-created "
                "between publishes: ResetLocalState then syncs, ResetLocalState + behind-replica baseline fetch then syncs and "
                "uploads, publishes OVER existing final names each acknowledged (same snapshot twice, L0 re-upload after the replica position was set back, sidecar rewritten), restore / sidecar into a re-created output directory with compaction and retention in between) over the real litestream code in a child process "
                "under strace -f -y; script parameters (rounds, rows, payload size, PRNG seed) drawn from the seeded PRNG; "
                "the trace is reduced to litestream's own files (LTX, .tmp, restore output, -txid; SQLite's db/-wal/-shm "
                "ignored) plus mkdir/rmdir (directories are objects with a generation per path in the model, so an fsync through a descriptor "
                "opened before a directory was removed and re-created does not count) and ack markers the child writes after each acknowledged operation, and checked by the extracted "
                "Coq monitor publish_ok. distinct = distinct reduced traces; non-trivial = the trace contains at least one "
                "rename to a final name.",
        "samples": sample,
        "input_distribution": stats["classes"],
        "publishing_renames": stats["extra"]["publishing_renames"],
        "ack_markers": stats["extra"]["ack_markers"],
        "final_ltx_unlinks": stats["extra"]["final_ltx_unlinks"],
        "monitor_rejections": len(mism),
        "runner_errors": errors[:5],
    })
    v.assumptions += [
        "strace reports system calls, results and fd->path resolution faithfully; calls are ordered by completion",
        "the file system behaves no worse than the pessimistic POSIX model of coq/Fs/Model.v",
        "only the file back end has system calls to observe; SQLite's own crash safety is assumed",
    ]


def replay(v, path):
    rep = json.load(open(path))
    job = rep["replay"].get("job")
    if not job:
        print("replay file names no input:", rep["replay"].get("theorem_or_correspondence"))
        return 1
    C.build_runner(LAYERS)
    C.build_harness(HARNESS)
    out = os.path.join(C.WORK, PID, "replay")
    fresh_out(out)
    jf = os.path.join(out, "job.json")
    json.dump(job, open(jf, "w"))
    rc, o = C.sh([C.harness_bin(HARNESS), "crash", "-mode", "trace", "-out", out, "-replay", jf], timeout=600)
    if rc != 0:
        print(o)
        return 2
    cases = os.path.join(out, "cases.txt")
    total, mism, errors = C.run_runner(cases, LAYERS, shards=1)
    infos = json.load(open(os.path.join(out, "traces.json")))
    stats = json.load(open(os.path.join(out, "stats.json")))
    bad = len(stats.get("impl_violations") or [])
    for m in mism:
        sig, idx, reason, job, ctx = classify(m, infos, m["line"] - 1)
        print("REPLAY-VIOLATION %s call #%d: %s" % (sig, idx, ctx[-1] if ctx else "?"))
    print("replayed %d trace(s), %d rejected by the monitor, %d script failures" % (total, len(mism), bad))
    return 1 if (mism or bad) else 0
