"""C17 — databases crossing the 1 GiB lock page replicate and restore correctly."""
import json
import os

from .. import common as C

PID = "C17"
LAYERS = ["Ltx"]
ORACLES = ("ltx_file_ok",)
RESTORE_ORACLE = "ltx_restore_image_ok"
RESTORE_CODES = {80: "restored-size-differs-from-commit", 81: "restored-lock-page-not-zero", 82: "restored-page-differs-from-source"}

CORR = {
    "ltx_lock_pgno": "Ltx/Snapshot.v lockPgno vs ltx.LockPgno",
    "ltx_enc_run": "Ltx/Snapshot.v enc_page/enc_run vs ltx.Encoder.EncodePage (ordering and lock-page rule)",
    "ltx_snapshot_pgnos": "Ltx/Snapshot.v db_pgnos vs the page numbers db.go writeLTXFromDB wrote (first sync, DB.Snapshot, level-1 file from TXID 1)",
    "ltx_wal_pgnos": "Ltx/Snapshot.v wal_pgnos vs the page numbers db.go writeLTXFromWAL wrote (incremental sync with growth fill)",
    "ltx_wal_encode": "Ltx/Snapshot.v wal_pgnos + enc_run vs the REAL db.go writeLTXFromWAL (hook WriteLTXFromWALVerif) on a grid of "
                      "(previous commit, commit, page map) around the lock page",
    "ltx_db_encode": "Ltx/Snapshot.v db_pgnos + enc_run vs the REAL db.go writeLTXFromDB (hook WriteLTXFromDBVerif) for commits around the lock page",
    "ltx_apply": "Ltx/Apply.v apply_all (level-0 files applied in order to the empty database) vs the image a REAL follow-mode "
                 "restore (Replica.Restore with Follow: initial restore + replica.go applyLTXFile per new file) ends with, on the pages "
                 "around the lock page (content ids = hash of the page, page-1 header bytes 18,19,24..27 masked)",
    "ltx_db_content": "Ltx/Snapshot.v db_content (content source of every page frame: database file at (pgno-1)*pageSize, or the WAL frame "
                      "of the page map) vs the bytes the REAL db.go writeLTXFromDB encoded from a database file and WAL made of self-describing pages",
}


def gen_cases(v, out):
    n = 150 if v.tier == "quick" else 3000
    for name in ("cases.txt", "stats.json"):
        try:
            os.remove(os.path.join(out, name))
        except FileNotFoundError:
            pass
    rc, o = C.sh([C.harness_bin("ltx"), "-mode", "c17", "-tier", v.tier, "-out", out, "-n", str(n), "-seed", str(v.seed)],
                 timeout=6 * 3600)
    return rc == 0, o


def run(v):
    proof_ok, problems = C.standard_proof_phase(v, PID)
    if not proof_ok:
        v.violation("C17/proof-broken", "; ".join(problems),
                    {"theorem_or_correspondence": "Properties/C17.v", "problems": problems}, found_input=False)
    ok, o = C.build_runner(LAYERS)
    if not ok:
        v.violation("C17/runner-build", o[-1500:], {"theorem_or_correspondence": "extraction of Ltx/Entry.v"}, False)
        return
    ok, o = C.build_harness("ltx")
    if not ok:
        v.violation("C17/harness-build", "harness does not build against the current /repo tree: " + o[-1500:],
                    {"theorem_or_correspondence": "correspondence ltx_snapshot_pgnos (harness build)"}, False)
        return
    out = os.path.join(C.WORK, PID)
    ok, o = gen_cases(v, out)
    if not ok:
        v.violation("C17/harness-run", o[-1500:], {"theorem_or_correspondence": "correspondence (harness run)"}, False)
        return
    cases = os.path.join(out, "cases.txt")
    if not os.path.exists(cases) or not os.path.exists(os.path.join(out, "stats.json")):
        v.violation("C17/harness-run", "the harness exited 0 but wrote no case file under " + out,
                    {"theorem_or_correspondence": "correspondence (harness run)"}, False)
        return
    total, mism, errors = C.run_runner(cases, LAYERS)
    stats = json.load(open(os.path.join(out, "stats.json")))
    if total == 0 or stats.get("cases", 0) != total:
        v.violation("C17/harness-run", "harness reported %s cases, the runner evaluated %d" % (stats.get("cases"), total),
                    {"theorem_or_correspondence": "correspondence (case file)"}, False)
        return
    extra = stats.get("extra") or {}
    v.coverage.update({
        "evaluations": total,
        "distinct_nontrivial": stats["distinct_nontrivial"],
        "rule": "(a) ltx.LockPgno for the eight page sizes and out-of-range sizes; (b) page-number sequences fed to a real "
                "ltx.Encoder: non-snapshot sequences around the lock page for all eight sizes, small snapshot sequences, "
                "and 1 GiB snapshot sequences reaching the lock page (65536 in quick, all sizes in thorough): accepted "
                "across the lock page, rejected with the lock page / with a too long skip; (b2) the REAL writeLTXFromWAL "
                "(hook /repo/export_verif_ltx.go) on a sparse database file with a directly supplied page map, for all "
                "eight page sizes x previous commit lockPgno-3..+2 x growth -2,0,1,2,3,6 x page map {no growth page, "
                "every growth page, random part + older pages, lock page in the WAL}: emitted page list = wal_pgnos, "
                "status = the encoder's verdict (ltx_wal_encode); the REAL writeLTXFromDB for commits lockPgno..+3 "
                "(ltx_db_encode) and, on a database file and WAL made of self-describing, mutually different pages on both "
                "sides of the lock page (six file pages beyond it; page maps empty / WAL pages on both sides), WHERE the "
                "encoded bytes of each page came from (ltx_db_content; 65536 and 4096 in quick, all eight in thorough); "
                "(b3) restore grid: the snapshot the real writeLTXFromDB wrote for commit = lockPgno-1, lockPgno (the lock "
                "page is the LAST page), lockPgno+1, lockPgno+6 is published as TXID 1 of a file replica and restored by the "
                "real Replica.Restore; decode_lock_zero is evaluated on the restored file (ltx_restore_image_ok: size, lock "
                "page zero, probed pages; commits lockPgno and lockPgno+1 at 65536 in quick, all four at all sizes in thorough); "
                "(c) real SQLite databases whose file and header size are extended past 1 GiB with a "
                "hole, page size 65536 in quick: boundary histories with the FIRST synced size at lockPgno-2, lockPgno-1 "
                "(exactly 1 GiB), lockPgno, lockPgno+1, each followed by transactions growing the database by 1, 2 and 5 "
                "pages (one root page per CREATE TABLE), ONE incremental sync per transaction (the pairs actually "
                "reached are listed under sparse_databases as 'real incremental syncs: ...'; SQLite writes a frame for "
                "every page it allocates, so growth pages without frames are reached only through (b2)); one scenario "
                "(previous size exactly 1 GiB, growth across the lock page) continues through Replica.Sync, DB.Snapshot, "
                "a TRUNCATE checkpoint (so the pages beyond the lock page are in the database FILE and the next sync is a "
                "snapshotting one with MinTXID > 1), DB.Snapshot, DB.Compact(1) twice, DB.Close and Replica.Restore; "
                "in the same scenario a FOLLOWER (Replica.Restore with Follow=true, 20 ms poll, own goroutine) starts "
                "from the snapshot of the first synced size (just below the lock page in the mandatory scenario; at / "
                "beyond it in the lock-last-page / lock-inside scenarios) and applies every later level-0 file (the "
                "growth across the boundary, the in-chain full encoding, small ones); once its -txid sidecar reaches the "
                "last replicated TXID its image is compared page for page (page-1 bytes 18,19,24..27 masked) with the "
                "one-shot restore of that TXID and with the checkpointed source, lock page required empty, and on the "
                "pages around the lock page with the model's apply_all of the level-0 files (ltx_apply); "
                "every sparse database also carries self-describing pages in its FILE from lockPgno-3 up to its first "
                "size, and every full encoding (first sync, in-chain snapshotting sync, level 9, level-1 from TXID 1) is "
                "compared content-wise at those pages (one mandatory history starts 4 pages past the lock page); further scenarios run while the quick tier's 30 s "
                "budget lasts (skipped ones are listed); thorough: all of it for all eight sizes; "
                "observables: header and page-number runs of EVERY LTX file in the replica (spec oracle ltx_file_ok: no "
                "lock page, growth-closed, full files exactly [1..commit] minus lock; model entries ltx_snapshot_pgnos / "
                "ltx_wal_pgnos) and the restored file vs the checkpointed source by 1 MiB stripes with the lock page "
                "required to be zero. distinct = distinct (entry,input); every case is non-trivial by construction.",
        "samples": stats["samples"],
        "input_distribution": stats["classes"],
        "model_mismatches": len(mism),
        "runner_errors": errors[:5],
        "sparse_databases": extra,
    })
    if errors:
        v.violation("C17/runner-error", "; ".join(errors[:3]), {"theorem_or_correspondence": "runner"}, False)
    if not extra.get("sparse databases restored and compared") and not (stats.get("impl_violations")):
        v.violation("C17/no-sparse-database", "no sparse database was driven through the real code in this run",
                    {"theorem_or_correspondence": "correspondence (sparse databases)"}, False)
    for iv in stats.get("impl_violations") or []:
        v.violation(iv["signature"], iv["detail"], iv.get("replay") or {}, True)
    rest_bad = [m for m in mism if m["entry"] == RESTORE_ORACLE]
    mism = [m for m in mism if m["entry"] != RESTORE_ORACLE]
    by = {}
    for m in rest_bad:
        try:
            code = int(m["model"], 0)
        except ValueError:
            code = -1
        by.setdefault(code, []).append(m)
    for code, ms in sorted(by.items()):
        v.violation("C17/" + RESTORE_CODES.get(code, "restore-oracle-%d" % code),
                    "Replica.Restore of a snapshot written by the real writeLTXFromDB for a commit around the lock page: "
                    "decode_lock_zero does not hold of the restored file (size = commit, lock page present and zero, other "
                    "pages equal to the source's); %d such cases; input = [page size; commit; restored size in pages; "
                    "whole pages?; probes (pgno, source kind/id, restored kind/id)]" % len(ms),
                    {"case_lines": C.case_with_defs(cases, ms[0]["line"]), "spec_says": ms[0]["model"],
                     "how": "./check C17 re-runs the restore grid"}, True)
    spec_bad = [m for m in mism if m["entry"] in ORACLES]
    other = [m for m in mism if m["entry"] not in ORACLES]
    if spec_bad:
        m = spec_bad[0]
        v.violation("C17/replicated-file-breaks-lock-page-rule",
                    "an LTX file written by litestream for a database around the lock page contains the lock page, misses a "
                    "page of its growth range, or (full file) is not exactly [1..commit] minus the lock page "
                    "(%d such files); input = [page size; full?; previous commit; commit; page-number runs]" % len(spec_bad),
                    {"case_lines": C.case_with_defs(cases, m["line"]), "spec_says": m["model"],
                     "how": "./check C17 re-runs the sparse-database scenario"}, True)
    if other:
        m = other[0]
        v.violation("C17/model-mismatch:" + m["entry"],
                    "implementation and model disagree on %d cases (entry %s first)" % (len(other), m["entry"]),
                    {"theorem_or_correspondence": "correspondence " + CORR.get(m["entry"], m["entry"]),
                     "case_lines": C.case_with_defs(cases, m["line"]), "model_says": m["model"]},
                    found_input=m["entry"] in ("ltx_snapshot_pgnos", "ltx_wal_pgnos", "ltx_wal_encode", "ltx_db_encode", "ltx_db_content", "ltx_apply") and not spec_bad)


def replay(v, path):
    rep = json.load(open(path))
    lines = rep["replay"].get("case_lines")
    if not lines:
        print("replay file names no input; re-run ./check C17:", rep["replay"].get("scenario") or rep["replay"].get("theorem_or_correspondence"))
        return 1
    C.build_runner(LAYERS)
    C.build_harness("ltx")
    out = os.path.join(C.WORK, PID, "replay")
    os.makedirs(out, exist_ok=True)
    src = os.path.join(out, "in.txt")
    open(src, "w").write("\n".join(lines) + "\n")
    rc, o = C.sh([C.harness_bin("ltx"), "-out", out, "-replay", src], timeout=600)
    print(o.strip())
    # cases that need the sparse database are judged as recorded
    recorded = os.path.join(out, "recorded.txt")
    open(recorded, "w").write("\n".join(l for l in lines if l.split("\t")[0] in ("ltx_file_ok", "ltx_snapshot_pgnos", "ltx_wal_pgnos")) + "\n")
    bad = 0
    for f in (os.path.join(out, "cases.txt"), recorded):
        if os.path.exists(f) and os.path.getsize(f) > 1:
            total, mism, errors = C.run_runner(f, LAYERS, shards=1)
            for m in mism:
                print("REPLAY-MISMATCH entry=%s model=%s" % (m["entry"], m["model"][:400]))
            bad += len(mism)
    print("replayed, %d mismatch(es)" % bad)
    return 1 if bad else 0
