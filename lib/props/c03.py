"""C03 — killing litestream at any instant loses nothing acknowledged and needs no repair.

Proof: coq/Fs kill semantics (kill_anywhere and companions) closed in Properties/C03.v.
Correspondence: the crash harness records a deterministic script over the real
code once (K mutating system calls), re-runs it under
`strace -f -e inject=<call>:signal=KILL:when=k` (SIGKILL on entry to the call)
for sampled / all kill points, and checks the post-kill state with the real
code: every *.ltx verifies, restore output / sidecar absent or complete,
restore of the last acknowledged TXID equals the acknowledged digest, restart +
one more acknowledged sync + restore equals the source. The post-kill
directory state is also compared with the model (entry fs_kill_state)."""
import json
import os

from .. import common as C

PID = "C03"
LAYERS = ["Fs"]
HARNESS = "crash"


def analyse(v, out, mism, errors):
    stats = json.load(open(os.path.join(out, "stats.json")))
    ivs = stats.get("impl_violations") or []
    seen = set()
    for iv in ivs:
        if iv["signature"] in seen:
            continue
        seen.add(iv["signature"])
        n = sum(1 for x in ivs if x["signature"] == iv["signature"])
        v.violation(iv["signature"], iv["detail"] + " (%d kill points with this outcome)" % n,
                    {"job": iv.get("replay"), "how": "harness crash -mode kill -replay <job.json>"}, True)
    if errors:
        v.violation("C03/runner-error", "; ".join(errors[:3]), {"theorem_or_correspondence": "runner"}, False)
    if mism:
        infos = json.load(open(os.path.join(out, "traces.json")))
        m = mism[0]
        idx = m["line"] - 1
        job = infos[idx]["job"] if idx < len(infos) else {}
        v.violation("C03/model-mismatch:fs_kill_state",
                    "post-kill directory state differs from the model's state after the same prefix of system calls on "
                    "%d kill points (first: %s)" % (len(mism), json.dumps(job)),
                    {"theorem_or_correspondence": "correspondence fs_kill_state (Fs/Model.v kill semantics vs the OS)",
                     "job": job, "model_says": m["model"][:2000], "observed": m["case"].split("\t")[-1][:2000]},
                    found_input=bool(ivs))
    return stats


def fresh_out(out):
    """remove the previous run's case/stat files so that a harness that writes nothing cannot be mistaken for a run"""
    import shutil
    os.makedirs(out, exist_ok=True)
    for f in ("cases.txt", "stats.json", "traces.json"):
        try:
            os.remove(os.path.join(out, f))
        except FileNotFoundError:
            pass
    shutil.rmtree(os.path.join(out, "runs"), ignore_errors=True)


def produced(out):
    try:
        st = json.load(open(os.path.join(out, "stats.json")))
        json.load(open(os.path.join(out, "traces.json")))
    except (OSError, ValueError):
        return False
    return os.path.exists(os.path.join(out, "cases.txt")) and st.get("cases", 0) > 0


def run(v):
    proof_ok, problems = C.standard_proof_phase(v, PID)
    if not proof_ok:
        v.violation("C03/proof-broken", "; ".join(problems),
                    {"theorem_or_correspondence": "Properties/C03.v", "problems": problems}, found_input=False)
    ok, o = C.build_runner(LAYERS)
    if not ok:
        v.violation("C03/runner-build", o[-1500:], {"theorem_or_correspondence": "extraction of Fs/Entry.v"}, False)
        return
    ok, o = C.build_harness(HARNESS)
    if not ok:
        v.violation("C03/harness-build", "harness does not build against the current /repo tree: " + o[-1500:],
                    {"theorem_or_correspondence": "correspondence fs_kill_state (harness build)"}, False)
        return
    out = os.path.join(C.WORK, PID)
    fresh_out(out)
    if v.tier == "quick":
        args = ["-n", "10", "-points", "90"]
    else:
        args = ["-n", "24", "-points", "1500"]
    rc, o = C.sh([C.harness_bin(HARNESS), "crash", "-mode", "kill", "-out", out, "-seed", str(v.seed)] + args, timeout=20000)
    if rc != 0:
        v.violation("C03/harness-run", o[-1500:], {"theorem_or_correspondence": "correspondence fs_kill_state (harness run)"}, False)
        return
    cases = os.path.join(out, "cases.txt")
    if not produced(out):
        v.violation("%s/harness-produced-no-cases" % PID, "the harness exited 0 but wrote no cases under " + out + ": " + o[-800:],
                    {"theorem_or_correspondence": "correspondence (harness output)"}, False)
        return
    total, mism, errors = C.run_runner(cases, LAYERS)
    stats = analyse(v, out, mism, errors)
    infos = json.load(open(os.path.join(out, "traces.json")))
    ex = stats["extra"]
    v.coverage.update({
        "evaluations": total,
        "distinct_nontrivial": stats["distinct_nontrivial"],
        "traces_validated_against_impl": total,
        "exhaustive": False,
        "rule": "kill points = (script, system call name, k): the child process running a deterministic script over the real "
                "litestream code (script kept on one OS thread because strace counts injections per thread and per call) is "
                "SIGKILLed on entry to the k-th openat/write/pwrite64/fsync/fdatasync/rename*/unlink*/ftruncate/"
                "copy_file_range/sendfile; quick: 7 scripts (basic; followstart = initial follow-mode restore on the main thread and restorev3 = legacy v0.3.x restore of a snapshot-only and a snapshot+WAL generation, both sampled every 3rd call; republish = publishes over existing final names; retention; reset = ResetLocalState on the open DB then syncs; resetfetch = reset + baseline "
                "fetch + syncs + uploads; retention), about 9 kill points each for the others spread "
                "evenly over the recorded K mutating calls of each; thorough: about 1500 kill points (every 5th-10th mutating call) spread evenly over 24 scripts (basic, reset, "
                "resetfetch, republish, retention, baseline, rerestore, checkpoint, follow, sidecar x 2 parameter draws). After each kill: every *.ltx must "
                "decode and checksum (ltx Decoder.Verify), restore output must be absent or a database in an acknowledged "
                "state, sidecar absent or parsable, restore of the last acknowledged replica TXID must equal the digest "
                "recorded at the ack, and a restart (no repair) + write + Sync + Replica.Sync + restore must equal the "
                "source; in the follow scripts the FOLLOWER is restarted too (Restore with Follow on the same output must resume "
                "or start afresh and converge to the primary's digest); a killed v0.3.x restore is run again and every output "
                "must then equal its replica's state. One model case per kill point compares presence and size of every litestream file with "
                "kill(run prefix). distinct = distinct (prefix, listing); non-trivial = process really killed and at least "
                "one litestream file present.",
        "samples": [i["job"] for i in infos[:3]],
        "input_distribution": stats["classes"],
        "kill_points_run": ex["kill_points_run"],
        "killed": ex["killed"],
        "mutating_calls_per_script": ex["mutating_calls_per_script"],
        "post_kill_violations": len(stats.get("impl_violations") or []),
        "paths_left_out_because_a_call_on_them_was_in_flight": ex.get("paths_left_out_because_a_call_on_them_was_in_flight", 0),
        "model_mismatches": len(mism),
        "runner_errors": errors[:5],
    })
    v.assumptions += [
        "strace's inject=<call>:signal=KILL:when=k kills the process on entry to the call (its effect is not applied); "
        "kills inside a system call are approximated by before/after; a file named by a call that was still in flight on "
        "ANOTHER thread when the process died (entered, never reported finished) is not determined by the completed-call "
        "prefix and is left out of the model comparison for that kill point (counted in coverage); the real-code oracles "
        "(verify, restore, restart) still cover it",
        "a process kill loses no completed system call (page cache survives); power failure is C11's subject",
        "SQLite's own crash safety for db/-wal/-shm is assumed",
    ]


def replay(v, path):
    rep = json.load(open(path))
    job = rep["replay"].get("job")
    if not job:
        print("replay file names no input:", rep["replay"].get("theorem_or_correspondence"))
        return 1
    C.build_runner(LAYERS)
    C.build_harness(HARNESS)
    out = os.path.join(C.WORK, PID, "replay")
    fresh_out(out)
    jf = os.path.join(out, "job.json")
    json.dump(job, open(jf, "w"))
    rc, o = C.sh([C.harness_bin(HARNESS), "crash", "-mode", "kill", "-out", out, "-replay", jf], timeout=600)
    if rc != 0:
        print(o)
        return 2
    total, mism, errors = C.run_runner(os.path.join(out, "cases.txt"), LAYERS, shards=1)
    stats = json.load(open(os.path.join(out, "stats.json")))
    ivs = stats.get("impl_violations") or []
    for iv in ivs:
        print("REPLAY-VIOLATION %s: %s" % (iv["signature"], iv["detail"][:400]))
    for m in mism:
        print("REPLAY-MISMATCH entry=%s model=%s" % (m["entry"], m["model"][:400]))
    print("replayed %d kill point(s), %d post-kill violations, %d model mismatches" % (total, len(ivs), len(mism)))
    return 1 if (ivs or mism) else 0
