#!/bin/sh
# Build the framework from files on disk only (offline): Coq development (full .vo),
# extracted runner, Go harness against /repo's working tree.
set -e
cd "$(dirname "$0")"
export GOFLAGS=-mod=mod GOPROXY=off
python3 - <<'PY'
import sys
sys.path.insert(0, '.')
from lib import common as C
ok, log = C.run_gen()
if not ok: print(log); sys.exit(1)
ok, log = C.coq_build()
if not ok: print(log[-5000:]); sys.exit(1)
import os
for name in sorted(os.listdir(os.path.join(C.VERIF, "harness", "cmd"))):
    ok, log = C.build_harness(name)
    if not ok: print(log[-5000:]); sys.exit(1)
print("setup ok")
PY
