#!/bin/sh
# Build the framework from files on disk only (offline): Coq development (full .vo),
# extracted runner, Go harness against /repo's working tree.
set -e
cd "$(dirname "$0")"
export GOFLAGS=-mod=mod GOPROXY=off
python3 - <<'PY'
import sys
sys.path.insert(0, '.')
from lib import common as C
ok, log = C.run_gen()
if not ok: print(log); sys.exit(1)
ok, log = C.coq_build()
if not ok:
    # every check rebuilds exactly what it needs; a failing file is reported by the check that depends on it
    print("WARNING: full Coq build incomplete:", C.failed_files(log))
import os
for name in sorted(os.listdir(os.path.join(C.VERIF, "harness", "cmd"))):
    tags = "vfs verif" if name == "vfs" else "verif"
    ok, log = C.build_harness(name, tags=tags)
    if not ok: print("WARNING: harness", name, "does not build:", log[-2000:])
print("setup ok")
PY
