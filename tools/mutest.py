#!/usr/bin/env python3
"""tools/mutest.py <patch.diff|-> <ID> [<ID>...]  [--keep] [--tier quick]
Apply a patch to a scratch worktree of /repo (never /repo itself), run the named
checks from a scratch copy of /verif against it, print each exit code and the
VIOLATION lines, then remove the scratch. With '-' no patch is applied
(sanity run: expect rc=0)."""
import os, subprocess, sys, shutil, tempfile, glob
args = [a for a in sys.argv[1:] if not a.startswith("--")]
keep = "--keep" in sys.argv
patch, ids = args[0], args[1:]
base = tempfile.mkdtemp(prefix="mut", dir="/root/scratch") if os.path.isdir("/root/scratch") else tempfile.mkdtemp(prefix="mut")
repo, verif = os.path.join(base, "repo"), os.path.join(base, "verif")
def sh(cmd, **kw): return subprocess.run(cmd, shell=True, **kw)
try:
    sh("git -C /repo worktree add -q --detach %s HEAD" % repo, check=True)
    # uncommitted hook files
    for p in subprocess.check_output("git -C /repo ls-files --others --exclude-standard", shell=True).decode().split():
        os.makedirs(os.path.dirname(os.path.join(repo, p)), exist_ok=True)
        shutil.copy(os.path.join("/repo", p), os.path.join(repo, p))
    if patch != "-":
        r = sh("git -C %s apply %s" % (repo, os.path.abspath(patch)))
        if r.returncode != 0:
            print("PATCH DOES NOT APPLY"); sys.exit(3)
    sh("rsync -a --exclude work --exclude .git /verif/ %s/" % verif, check=True)
    for i in ids:
        env = dict(os.environ, VERIF_REPO=repo)
        r = subprocess.run(["./check", i] + [a for a in sys.argv if a.startswith("--tier")], cwd=verif, env=env, stdout=subprocess.PIPE, stderr=subprocess.PIPE)
        out = r.stdout.decode()
        print("== %s rc=%d" % (i, r.returncode))
        for line in out.split("\n"):
            if line.startswith("VIOLATION") or line.startswith("KNOWN-FINDING"):
                print("   " + line)
                if line.startswith("VIOLATION"):
                    rp = line.split("replay=")[1].split()[0]
                    try:
                        import json; d = json.load(open(rp)); print("   signature:", d["signature"], "|", d["detail"][:300])
                    except Exception as e: print("   (replay unreadable)", e)
        if r.returncode not in (0, 1): print(r.stderr.decode()[-2000:])
finally:
    if not keep:
        sh("git -C /repo worktree remove --force %s" % repo)
        shutil.rmtree(base, ignore_errors=True)
    else:
        print("kept", base)
