package main

import (
	"go/ast"
	"go/token"
	"sort"
)

// Transaction release discipline (C14).
//
// For every X.BeginTx(...) / X.Begin() whose result is assigned to a variable V
// in non-test files of package litestream and cmd/litestream, the source must
// hand the transaction to something that releases it BEFORE any statement that
// can return early:
//
//	defer      a `defer` (call or func literal) that rolls V back, registered in V's scope
//	field:F    V is stored in a struct field (a long-lived owner such as db.rtx)
//	transfer:W V is stored in a variable W for which such a defer is already registered
//	none       V goes out of scope / the function ends without any of these
//
// Every `return` between the Begin and that point is listed unless it is the
// error check of the Begin itself or is preceded, in an enclosing block (or the
// init of an enclosing `if`), by an explicit rollback(V) / V.Rollback() /
// V.Commit().  The check is syntactic and conservative.
type txRec struct {
	fn, site, v, guard, guardSite string
	returns                       []string
}

type txAux struct{ fn, site, what string }

// releases reports whether the node contains rollback(v) / v.Rollback() / v.Commit()
// outside nested function literals (unless inFuncLit).
func releases(n ast.Node, v string, intoFuncLit bool) bool {
	found := false
	ast.Inspect(n, func(x ast.Node) bool {
		if found {
			return false
		}
		if _, ok := x.(*ast.FuncLit); ok && !intoFuncLit {
			return false
		}
		c, ok := x.(*ast.CallExpr)
		if !ok {
			return true
		}
		switch f := c.Fun.(type) {
		case *ast.Ident:
			if f.Name == "rollback" && len(c.Args) == 1 && exprText(c.Args[0]) == v {
				found = true
			}
		case *ast.SelectorExpr:
			if (f.Sel.Name == "Rollback" || f.Sel.Name == "Commit") && exprText(f.X) == v {
				found = true
			} else if releaseVia != nil && releaseVia(f, v) {
				found = true
			}
		}
		return true
	})
	return found
}

// releaseVia: X.m() releases X.F when the method m rolls <its receiver>.F back
// (one level, e.g. db.releaseReadLock() for db.rtx). Set per package by collectTx.
var releaseVia func(f *ast.SelectorExpr, v string) bool

func isBeginCall(e ast.Expr) bool {
	c, ok := e.(*ast.CallExpr)
	if !ok {
		return false
	}
	sel, ok := c.Fun.(*ast.SelectorExpr)
	if !ok {
		return false
	}
	return (sel.Sel.Name == "BeginTx" && len(c.Args) == 2) || (sel.Sel.Name == "Begin" && len(c.Args) == 0)
}

// parents of every node of a function body
func parentMap(body *ast.BlockStmt) map[ast.Node]ast.Node {
	pm := map[ast.Node]ast.Node{}
	var stack []ast.Node
	ast.Inspect(body, func(n ast.Node) bool {
		if n == nil {
			stack = stack[:len(stack)-1]
			return true
		}
		if len(stack) > 0 {
			pm[n] = stack[len(stack)-1]
		}
		stack = append(stack, n)
		return true
	})
	return pm
}

func stmtList(n ast.Node) []ast.Stmt {
	switch b := n.(type) {
	case *ast.BlockStmt:
		return b.List
	case *ast.CaseClause:
		return b.Body
	case *ast.CommClause:
		return b.Body
	}
	return nil
}

func inFuncLit(n ast.Node, pm map[ast.Node]ast.Node, stop ast.Node) bool {
	for p := pm[n]; p != nil && p != stop; p = pm[p] {
		if _, ok := p.(*ast.FuncLit); ok {
			return true
		}
	}
	return false
}

// protected: is the return preceded by an explicit release of v in an enclosing
// block (a statement before the one containing it) or in the init/cond of an
// enclosing if?
func protectedReturn(ret ast.Node, v string, pm map[ast.Node]ast.Node, after token.Pos) bool {
	child := ret
	for p := pm[child]; p != nil; child, p = p, pm[p] {
		if ifs, ok := p.(*ast.IfStmt); ok {
			if ifs.Init != nil && ifs.Init.Pos() > after && releases(ifs.Init, v, false) {
				return true
			}
		}
		for _, s := range stmtList(p) {
			if s == child || s.Pos() >= child.Pos() {
				break
			}
			if s.Pos() <= after {
				continue
			}
			switch s.(type) {
			case *ast.ExprStmt, *ast.AssignStmt, *ast.DeclStmt:
				if releases(s, v, false) {
					return true
				}
			}
		}
	}
	return false
}

func collectTx(w *World) ([]txRec, []txAux, []txAux) {
	var recs []txRec
	var nils, commits []txAux
	for _, rel := range []string{"", "cmd/litestream"} {
		p := w.pkgs[rel]
		releaseVia = func(f *ast.SelectorExpr, v string) bool {
			field, isSel := splitSel(v)
			if !isSel || exprText(f.X)+"."+field != v {
				return false
			}
			for _, g := range p.funcs {
				if g.decl.Name.Name == f.Sel.Name && g.recvName != "" && g.decl.Body != nil {
					saved := releaseVia
					releaseVia = nil
					r := releases(g.decl.Body, g.recvName+"."+field, false)
					releaseVia = saved
					if r {
						return true
					}
				}
			}
			return false
		}
		for _, fi := range p.funcs {
			if fi.decl.Body == nil {
				continue
			}
			fi := fi
			body := fi.decl.Body
			pm := parentMap(body)
			// every defer of the function: (position, the node, enclosing block)
			var defers []*ast.DeferStmt
			ast.Inspect(body, func(n ast.Node) bool {
				if d, ok := n.(*ast.DeferStmt); ok {
					defers = append(defers, d)
				}
				return true
			})
			deferGuards := func(d *ast.DeferStmt, v string) bool { return releases(d.Call, v, true) }

			ast.Inspect(body, func(n ast.Node) bool {
				// commits of any transaction; `V = nil` without a release before it
				if c, ok := n.(*ast.CallExpr); ok {
					if sel, ok := c.Fun.(*ast.SelectorExpr); ok && sel.Sel.Name == "Commit" && len(c.Args) == 0 {
						commits = append(commits, txAux{fi.qual(), site(fi, c), exprText(sel.X) + ".Commit()"})
					}
				}
				as, ok := n.(*ast.AssignStmt)
				if !ok {
					return true
				}
				// V = nil
				if len(as.Lhs) == 1 && len(as.Rhs) == 1 && as.Tok == token.ASSIGN {
					if id, ok := as.Rhs[0].(*ast.Ident); ok && id.Name == "nil" {
						v := exprText(as.Lhs[0])
						if isTxVar(fi, body, v) {
							okRel := false
							par := pm[as]
							for _, s := range stmtList(par) {
								if s == ast.Stmt(as) {
									break
								}
								if releases(s, v, false) {
									okRel = true
								}
							}
							if !okRel && !protectedReturn(as, v, pm, token.NoPos) {
								nils = append(nils, txAux{fi.qual(), site(fi, as), v + " = nil without a rollback before it"})
							}
						}
					}
				}
				if len(as.Rhs) != 1 || !isBeginCall(as.Rhs[0]) || len(as.Lhs) == 0 {
					return true
				}
				v := exprText(as.Lhs[0])
				rec := txRec{fn: fi.qual(), site: site(fi, as), v: v, guard: "none"}
				if _, isSel := as.Lhs[0].(*ast.SelectorExpr); isSel {
					rec.guard, rec.guardSite = "field:"+v, rec.site
					recs = append(recs, rec)
					return true
				}
				local := as.Tok == token.DEFINE
				// the statements after the Begin: its own block, then (unless V is
				// local to that block) the rest of each enclosing block
				var guardPos token.Pos
				var cur ast.Node = as
			scan:
				for blk := pm[cur]; blk != nil; cur, blk = blk, pm[blk] {
					list := stmtList(blk)
					if list == nil {
						if _, isFn := blk.(*ast.FuncLit); isFn {
							break
						}
						continue
					}
					for _, s := range list {
						if s.Pos() < cur.End() {
							continue // not after the Begin (or the statement containing it)
						}
						switch st := s.(type) {
						case *ast.DeferStmt:
							if deferGuards(st, v) {
								rec.guard, rec.guardSite, guardPos = "defer", site(fi, st), st.Pos()
								break scan
							}
						case *ast.AssignStmt:
							// W = V (ownership moves to W)
							if len(st.Lhs) == 1 && len(st.Rhs) == 1 && exprText(st.Rhs[0]) == v {
								wv := exprText(st.Lhs[0])
								if _, isSel := st.Lhs[0].(*ast.SelectorExpr); isSel {
									rec.guard, rec.guardSite, guardPos = "field:"+wv, site(fi, st), st.Pos()
									break scan
								}
								for _, d := range defers {
									if d.Pos() < st.Pos() && !inFuncLit(d, pm, nil) && deferGuards(d, wv) {
										rec.guard, rec.guardSite, guardPos = "transfer:"+wv, site(fi, st), st.Pos()
										break scan
									}
								}
							}
						}
					}
					if local {
						break // V is out of scope after its block
					}
				}
				end := guardPos
				if end == token.NoPos {
					end = body.End()
					if local {
						if blk := pm[as]; blk != nil {
							end = blk.End()
						}
					}
				}
				// the error check of the Begin itself: the `if` right after it
				var errCheck ast.Node
				list := stmtList(pm[as])
				for i, s := range list {
					if s == ast.Stmt(as) && i+1 < len(list) {
						if ifs, ok := list[i+1].(*ast.IfStmt); ok && ifs.Init == nil && exprText(ifs.Cond) == "err!=nil" {
							errCheck = ifs
						}
					}
				}
				ast.Inspect(body, func(x ast.Node) bool {
					r, ok := x.(*ast.ReturnStmt)
					if !ok || r.Pos() <= as.End() || r.Pos() >= end {
						return true
					}
					if inFuncLit(r, pm, nil) {
						return true
					}
					if errCheck != nil && r.Pos() > errCheck.Pos() && r.End() <= errCheck.End() {
						return true
					}
					if protectedReturn(r, v, pm, as.End()) {
						return true
					}
					rec.returns = append(rec.returns, site(fi, r))
					return true
				})
				recs = append(recs, rec)
				return true
			})
		}
	}
	sort.SliceStable(recs, func(i, j int) bool { return recs[i].site < recs[j].site })
	return recs, nils, commits
}

// isTxVar: v (an identifier or selector text) is assigned the result of a Begin
// somewhere in the package function, or is a field that some function of the
// package stores a transaction in (db.rtx).
func isTxVar(fi *FuncInfo, body *ast.BlockStmt, v string) bool {
	found := false
	check := func(b *ast.BlockStmt) {
		txLocals := map[string]bool{}
		ast.Inspect(b, func(n ast.Node) bool {
			as, ok := n.(*ast.AssignStmt)
			if !ok || len(as.Rhs) != 1 || len(as.Lhs) == 0 {
				return true
			}
			if isBeginCall(as.Rhs[0]) {
				txLocals[exprText(as.Lhs[0])] = true
				if exprText(as.Lhs[0]) == v {
					found = true
				}
			} else if len(as.Lhs) == 1 && txLocals[exprText(as.Rhs[0])] && exprText(as.Lhs[0]) == v {
				found = true
			}
			return true
		})
	}
	check(body)
	if !found {
		if _, isSel := splitSel(v); isSel {
			for _, g := range fi.pkg.funcs {
				if g.decl.Body != nil && g.recvType == fi.recvType && g.recvName == fi.recvName {
					check(g.decl.Body)
				}
			}
		}
	}
	return found
}

func splitSel(v string) (string, bool) {
	for i := len(v) - 1; i >= 0; i-- {
		if v[i] == '.' {
			return v[i+1:], true
		}
	}
	return v, false
}
