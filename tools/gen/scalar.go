package main

import (
	"fmt"
	"go/ast"
	"go/token"
	"math/big"
	"sort"
	"strings"
)

// ---- integer constants ------------------------------------------------------------

func evalConstInt(p *Pkg, e ast.Expr, iota int, depth int) (*big.Int, bool) {
	if depth > 10 || e == nil {
		return nil, false
	}
	switch t := e.(type) {
	case *ast.ParenExpr:
		return evalConstInt(p, t.X, iota, depth)
	case *ast.BasicLit:
		if t.Kind == token.INT {
			v := new(big.Int)
			if _, ok := v.SetString(strings.ReplaceAll(t.Value, "_", ""), 0); ok {
				return v, true
			}
		}
		return nil, false
	case *ast.Ident:
		if t.Name == "iota" {
			return big.NewInt(int64(iota)), true
		}
		if cd, ok := p.consts[t.Name]; ok {
			return evalConstInt(p, cd.expr, cd.iota, depth+1)
		}
		return nil, false
	case *ast.UnaryExpr:
		v, ok := evalConstInt(p, t.X, iota, depth)
		if !ok {
			return nil, false
		}
		if t.Op == token.SUB {
			return new(big.Int).Neg(v), true
		}
		if t.Op == token.ADD {
			return v, true
		}
		return nil, false
	case *ast.BinaryExpr:
		a, ok1 := evalConstInt(p, t.X, iota, depth)
		b, ok2 := evalConstInt(p, t.Y, iota, depth)
		if !ok1 || !ok2 {
			return nil, false
		}
		r := new(big.Int)
		switch t.Op {
		case token.ADD:
			return r.Add(a, b), true
		case token.SUB:
			return r.Sub(a, b), true
		case token.MUL:
			return r.Mul(a, b), true
		case token.QUO:
			if b.Sign() == 0 {
				return nil, false
			}
			return r.Quo(a, b), true
		case token.REM:
			if b.Sign() == 0 {
				return nil, false
			}
			return r.Rem(a, b), true
		case token.SHL:
			return r.Lsh(a, uint(b.Uint64())), true
		case token.SHR:
			return r.Rsh(a, uint(b.Uint64())), true
		}
		return nil, false
	case *ast.CallExpr:
		// typed conversion of a constant: int64(X)
		if len(t.Args) == 1 {
			if _, ok := parseBasicType(p, t.Fun); ok {
				return evalConstInt(p, t.Args[0], iota, depth)
			}
		}
	}
	return nil, false
}

type constOut struct {
	name string
	val  *big.Int
	src  string
}

func collectConsts(w *World, extra map[string]*constOut) []constOut {
	root := w.pkgs[""]
	var out []constOut
	need := func(p *Pkg, prefix, name, where string) {
		cd, ok := p.consts[name]
		if !ok {
			die("constant %s not found in %s (renamed or removed): Consts.v cannot be regenerated", name, where)
		}
		v, ok := evalConstInt(p, cd.expr, cd.iota, 0)
		if !ok {
			die("constant %s in %s is not an integer constant expression of the supported subset", name, where)
		}
		out = append(out, constOut{name: prefix + name, val: v, src: where})
	}
	for _, n := range []string{"WALHeaderSize", "WALFrameHeaderSize", "SnapshotLevel"} {
		need(root, "", n, "package litestream")
	}
	// every integer Default* constant of the root package
	var defs []string
	for n, cd := range root.consts {
		if strings.HasPrefix(n, "Default") {
			if _, ok := evalConstInt(root, cd.expr, cd.iota, 0); ok {
				defs = append(defs, n)
			}
		}
	}
	sort.Strings(defs)
	for _, n := range []string{"DefaultMinCheckpointPageN", "DefaultTruncatePageN", "DefaultMaxSyncWALBytes"} {
		found := false
		for _, d := range defs {
			if d == n {
				found = true
			}
		}
		if !found {
			die("constant %s not found as an integer constant in package litestream", n)
		}
	}
	for _, n := range defs {
		need(root, "", n, "package litestream")
	}
	if ip := w.pkgs["internal"]; ip != nil {
		need(ip, "internal_", "resumableReaderMaxRetries", "package internal")
	} else {
		die("package internal not found")
	}
	for _, n := range []string{"HeaderSize", "PageHeaderSize", "TrailerSize", "PENDING_BYTE"} {
		need(w.ltx, "ltx_", n, "module "+w.ltx.rel)
	}
	have := map[string]bool{}
	for _, c := range out {
		have[c.name] = true
	}
	var ek []string
	for k := range extra {
		ek = append(ek, k)
	}
	sort.Strings(ek)
	for _, k := range ek {
		if !have[k] {
			out = append(out, *extra[k])
		}
	}
	return out
}

// ---- scalar functions -----------------------------------------------------------------

type sty struct {
	kind string // "u" "s" "bool" "time" "untyped"
	bits int
}

func (t sty) String() string {
	switch t.kind {
	case "u":
		return fmt.Sprintf("uint%d", t.bits)
	case "s":
		return fmt.Sprintf("int%d", t.bits)
	}
	return t.kind
}

func parseBasicType(p *Pkg, e ast.Expr) (sty, bool) {
	switch t := e.(type) {
	case *ast.StarExpr:
		return sty{}, false
	case *ast.Ident:
		switch t.Name {
		case "uint8", "byte":
			return sty{"u", 8}, true
		case "uint16":
			return sty{"u", 16}, true
		case "uint32":
			return sty{"u", 32}, true
		case "uint64", "uint", "uintptr":
			return sty{"u", 64}, true
		case "int8":
			return sty{"s", 8}, true
		case "int16":
			return sty{"s", 16}, true
		case "int32", "rune":
			return sty{"s", 32}, true
		case "int64", "int":
			return sty{"s", 64}, true // int is 64 bits on the supported platforms
		case "bool":
			return sty{"bool", 0}, true
		}
		if p != nil {
			if u, ok := p.named[t.Name]; ok {
				return parseBasicType(p, u)
			}
		}
	case *ast.SelectorExpr:
		x, _ := t.X.(*ast.Ident)
		if x != nil && x.Name == "time" && t.Sel.Name == "Time" {
			return sty{"time", 0}, true
		}
		if x != nil && x.Name == "time" && t.Sel.Name == "Duration" {
			return sty{"s", 64}, true
		}
		if x != nil && x.Name == "ltx" && theWorld != nil {
			return parseBasicType(theWorld.ltx, t.Sel)
		}
	}
	return sty{}, false
}

var theWorld *World

type scalarTarget struct {
	pkg  string // "" root, "ltx"
	recv string
	name string
	out  string // Gallina name
}

var scalarTargets = []scalarTarget{
	{"", "", "calcWALSize", "calcWALSize"},
	{"", "DB", "effectiveTruncatePageN", "DB_effectiveTruncatePageN"},
	{"", "DB", "exceedsTruncateThreshold", "DB_exceedsTruncateThreshold"},
	{"", "", "restoreCandidateBetter", "restoreCandidateBetter"},
	{"", "Lease", "IsExpired", "Lease_IsExpired"},
	{"ltx", "", "LockPgno", "ltx_LockPgno"},
	{"ltx", "", "IsContiguous", "ltx_IsContiguous"},
}

type sparam struct {
	name string
	ty   sty
}

type scalarFn struct {
	target  scalarTarget
	fi      *FuncInfo
	params  []sparam // final Gallina parameters, in order
	fields  []sparam // receiver / struct-parameter fields (sorted), subset of params
	plain   []sparam // declared scalar parameters
	usesNow bool
	result  sty
	body    string
	src     string
}

type scalarGen struct {
	w      *World
	done   map[string]*scalarFn
	order  []*scalarFn
	consts map[string]*constOut
}

type senv struct {
	g       *scalarGen
	fn      *scalarFn
	fi      *FuncInfo
	locals  map[string]sty
	structs map[string]string // identifier -> struct type name (receiver, struct parameters)
	fields  map[string]sty    // "x_F" -> type
	usesNow bool
}

func (g *scalarGen) fail(fi *FuncInfo, n ast.Node, msg string) {
	die("scalar function %s (%s:%d) is outside the supported subset: %s", fi.qual(), fi.file, fset.Position(n.Pos()).Line, msg)
}

func (g *scalarGen) pkgOf(t scalarTarget) *Pkg {
	if t.pkg == "ltx" {
		return g.w.ltx
	}
	return g.w.pkgs[t.pkg]
}

func (g *scalarGen) translate(t scalarTarget) *scalarFn {
	key := t.pkg + "/" + t.recv + "." + t.name
	if f, ok := g.done[key]; ok {
		if f == nil {
			die("scalar function %s is recursive: outside the supported subset", t.name)
		}
		return f
	}
	g.done[key] = nil
	p := g.pkgOf(t)
	fi := p.funcByName(t.name, t.recv)
	if fi == nil || fi.decl.Body == nil {
		die("scalar function %s%s not found in %s (renamed or removed): Scalar.v cannot be regenerated",
			map[bool]string{true: "(" + t.recv + ").", false: ""}[t.recv != ""], t.name, map[bool]string{true: "the ltx module", false: "package litestream"}[t.pkg == "ltx"])
	}
	fn := &scalarFn{target: t, fi: fi}
	env := &senv{g: g, fn: fn, fi: fi, locals: map[string]sty{}, structs: map[string]string{}, fields: map[string]sty{}}
	if fi.recvName != "" {
		env.structs[fi.recvName] = fi.recvType
	}
	for _, f := range fi.decl.Type.Params.List {
		for _, nm := range f.Names {
			if ty, ok := parseBasicType(p, f.Type); ok {
				fn.plain = append(fn.plain, sparam{nm.Name, ty})
				env.locals[nm.Name] = ty
			} else if st := structTypeName(p, f.Type); st != "" {
				env.structs[nm.Name] = st
			} else {
				g.fail(fi, f, "parameter "+nm.Name+" has a type that is neither an integer, bool, time.Time nor a struct")
			}
		}
	}
	if fi.decl.Type.Results == nil || len(fi.decl.Type.Results.List) != 1 || len(fi.decl.Type.Results.List[0].Names) > 1 {
		g.fail(fi, fi.decl, "exactly one result expected")
	}
	rt, ok := parseBasicType(p, fi.decl.Type.Results.List[0].Type)
	if !ok {
		g.fail(fi, fi.decl, "result type is not an integer or bool")
	}
	fn.result = rt
	fn.body = env.block(fi.decl.Body.List, 1)
	var fnames []string
	for k := range env.fields {
		fnames = append(fnames, k)
	}
	sort.Strings(fnames)
	for _, k := range fnames {
		fn.fields = append(fn.fields, sparam{k, env.fields[k]})
	}
	fn.params = append(append([]sparam{}, fn.fields...), fn.plain...)
	fn.usesNow = env.usesNow
	if fn.usesNow {
		fn.params = append(fn.params, sparam{"now", sty{"time", 0}})
	}
	fn.src = fmt.Sprintf("%s:%d", fi.file, fset.Position(fi.decl.Pos()).Line)
	g.done[key] = fn
	g.order = append(g.order, fn)
	return fn
}

func structTypeName(p *Pkg, e ast.Expr) string {
	switch t := e.(type) {
	case *ast.StarExpr:
		return structTypeName(p, t.X)
	case *ast.Ident:
		if _, ok := p.structs[t.Name]; ok {
			return t.Name
		}
	case *ast.SelectorExpr:
		if x, ok := t.X.(*ast.Ident); ok && x.Name == "ltx" {
			if _, ok := theWorld.ltx.structs[t.Sel.Name]; ok {
				return "ltx." + t.Sel.Name
			}
		}
	}
	return ""
}

func (e *senv) fieldType(structName, field string, at ast.Node) sty {
	p := e.fi.pkg
	name := structName
	if strings.HasPrefix(structName, "ltx.") {
		p = e.g.w.ltx
		name = structName[4:]
	}
	st := p.structs[name]
	if st == nil {
		e.g.fail(e.fi, at, "unknown struct "+structName)
	}
	for _, f := range st.Fields.List {
		for _, nm := range f.Names {
			if nm.Name == field {
				ty, ok := parseBasicType(p, f.Type)
				if !ok {
					e.g.fail(e.fi, at, "field "+structName+"."+field+" is not an integer, bool or time.Time")
				}
				return ty
			}
		}
	}
	e.g.fail(e.fi, at, "no field "+field+" in "+structName)
	return sty{}
}

func ind(n int) string { return strings.Repeat("  ", n) }

// block translates a statement list all of whose paths end in a return.
func (e *senv) block(stmts []ast.Stmt, depth int) string {
	if len(stmts) == 0 {
		e.g.fail(e.fi, e.fi.decl, "a path falls off the end without a return")
	}
	switch s := stmts[0].(type) {
	case *ast.ReturnStmt:
		if len(s.Results) != 1 {
			e.g.fail(e.fi, s, "return with other than one value")
		}
		v, ty := e.expr(s.Results[0])
		return e.convertTo(v, ty, e.fn.result, s)
	case *ast.IfStmt:
		if s.Init != nil {
			e.g.fail(e.fi, s, "if with an init statement")
		}
		c, cty := e.expr(s.Cond)
		if cty.kind != "bool" {
			e.g.fail(e.fi, s, "non-boolean condition")
		}
		thenS := e.block(s.Body.List, depth+1)
		var elseS string
		switch el := s.Else.(type) {
		case nil:
			elseS = e.block(stmts[1:], depth)
			return fmt.Sprintf("if %s then %s\n%selse %s", c, thenS, ind(depth), elseS)
		case *ast.BlockStmt:
			elseS = e.block(el.List, depth+1)
		case *ast.IfStmt:
			elseS = e.block([]ast.Stmt{el}, depth+1)
		}
		if len(stmts) > 1 {
			e.g.fail(e.fi, stmts[1], "statements after an if/else whose branches all return")
		}
		return fmt.Sprintf("if %s then %s\n%selse %s", c, thenS, ind(depth), elseS)
	case *ast.AssignStmt:
		if s.Tok != token.DEFINE || len(s.Lhs) != 1 || len(s.Rhs) != 1 {
			e.g.fail(e.fi, s, "only single `x := e` definitions are supported")
		}
		id, ok := s.Lhs[0].(*ast.Ident)
		if !ok {
			e.g.fail(e.fi, s, "assignment target is not an identifier")
		}
		if _, dup := e.locals[id.Name]; dup {
			e.g.fail(e.fi, s, "re-definition of "+id.Name)
		}
		v, ty := e.expr(s.Rhs[0])
		if ty.kind == "untyped" {
			ty = sty{"s", 64} // default type of an untyped integer constant: int
		}
		e.locals[id.Name] = ty
		rest := e.block(stmts[1:], depth)
		return fmt.Sprintf("let %s := %s in\n%s%s", coqIdent(id.Name), v, ind(depth), rest)
	}
	e.g.fail(e.fi, stmts[0], fmt.Sprintf("statement kind %T", stmts[0]))
	return ""
}

func wrapName(t sty) string {
	switch t.kind {
	case "u":
		return fmt.Sprintf("u%d", t.bits)
	case "s":
		return fmt.Sprintf("i%d", t.bits)
	}
	return ""
}

func (e *senv) convertTo(v string, from, to sty, at ast.Node) string {
	if from == to {
		return v
	}
	if from.kind == "untyped" && (to.kind == "u" || to.kind == "s") {
		return v // the Go compiler checks that the constant fits
	}
	e.g.fail(e.fi, at, fmt.Sprintf("implicit use of a %s value as %s", from, to))
	return ""
}

// unify the operand types of a binary operator
func (e *senv) unify(a, b sty, at ast.Node) sty {
	if a == b {
		return a
	}
	if a.kind == "untyped" {
		return b
	}
	if b.kind == "untyped" {
		return a
	}
	e.g.fail(e.fi, at, fmt.Sprintf("operands of different types %s and %s", a, b))
	return a
}

func (e *senv) wrap(v string, t sty) string {
	if w := wrapName(t); w != "" {
		return "(" + w + " " + v + ")"
	}
	return v
}

func (e *senv) expr(x ast.Expr) (string, sty) {
	switch t := x.(type) {
	case *ast.ParenExpr:
		return e.expr(t.X)
	case *ast.BasicLit:
		if t.Kind == token.INT {
			v := new(big.Int)
			if _, ok := v.SetString(strings.ReplaceAll(t.Value, "_", ""), 0); ok {
				return v.String(), sty{"untyped", 0}
			}
		}
		e.g.fail(e.fi, x, "literal "+t.Value)
	case *ast.Ident:
		if t.Name == "true" || t.Name == "false" {
			return t.Name, sty{"bool", 0}
		}
		if ty, ok := e.locals[t.Name]; ok {
			return coqIdent(t.Name), ty
		}
		if cd, ok := e.fi.pkg.consts[t.Name]; ok {
			v, ok := evalConstInt(e.fi.pkg, cd.expr, cd.iota, 0)
			if !ok {
				e.g.fail(e.fi, x, "constant "+t.Name+" is not an integer constant")
			}
			name := t.Name
			if e.fi.pkg == e.g.w.ltx {
				name = "ltx_" + name
			}
			e.g.consts[name] = &constOut{name: name, val: v, src: "used by " + e.fi.qual()}
			ty := sty{"untyped", 0}
			if cd.typ != nil {
				if tt, ok := parseBasicType(e.fi.pkg, cd.typ); ok {
					ty = tt
				}
			}
			return name, ty
		}
		e.g.fail(e.fi, x, "identifier "+t.Name+" is neither a parameter, a local nor an integer constant")
	case *ast.SelectorExpr:
		if id, ok := t.X.(*ast.Ident); ok {
			if st, ok := e.structs[id.Name]; ok {
				ty := e.fieldType(st, t.Sel.Name, x)
				name := id.Name + "_" + t.Sel.Name
				e.fields[name] = ty
				return name, ty
			}
		}
		e.g.fail(e.fi, x, "selector "+exprText(x))
	case *ast.UnaryExpr:
		v, ty := e.expr(t.X)
		switch t.Op {
		case token.NOT:
			if ty.kind != "bool" {
				e.g.fail(e.fi, x, "! on a non-boolean")
			}
			return "(negb " + v + ")", ty
		case token.SUB:
			if ty.kind == "untyped" {
				return "(- " + v + ")", ty
			}
			if ty.kind == "u" || ty.kind == "s" {
				return e.wrap("(- "+v+")", ty), ty
			}
		}
		e.g.fail(e.fi, x, "unary operator "+t.Op.String())
	case *ast.BinaryExpr:
		a, ta := e.expr(t.X)
		b, tb := e.expr(t.Y)
		switch t.Op {
		case token.LAND, token.LOR:
			if ta.kind != "bool" || tb.kind != "bool" {
				e.g.fail(e.fi, x, "boolean operator on non-booleans")
			}
			op := "&&"
			if t.Op == token.LOR {
				op = "||"
			}
			return "(" + a + " " + op + " " + b + ")", sty{"bool", 0}
		case token.EQL, token.NEQ, token.LSS, token.LEQ, token.GTR, token.GEQ:
			ty := e.unify(ta, tb, x)
			if ty.kind == "time" {
				e.g.fail(e.fi, x, "comparison operator on time.Time")
			}
			if ty.kind == "bool" {
				if t.Op == token.EQL {
					return "(Bool.eqb " + a + " " + b + ")", sty{"bool", 0}
				}
				if t.Op == token.NEQ {
					return "(xorb " + a + " " + b + ")", sty{"bool", 0}
				}
				e.g.fail(e.fi, x, "ordering on booleans")
			}
			switch t.Op {
			case token.EQL:
				return "(" + a + " =? " + b + ")", sty{"bool", 0}
			case token.NEQ:
				return "(negb (" + a + " =? " + b + "))", sty{"bool", 0}
			case token.LSS:
				return "(" + a + " <? " + b + ")", sty{"bool", 0}
			case token.LEQ:
				return "(" + a + " <=? " + b + ")", sty{"bool", 0}
			case token.GTR: // a > b  is  b < a
				return "(" + b + " <? " + a + ")", sty{"bool", 0}
			case token.GEQ: // a >= b  is  b <= a
				return "(" + b + " <=? " + a + ")", sty{"bool", 0}
			}
		case token.ADD, token.SUB, token.MUL, token.QUO, token.REM:
			ty := e.unify(ta, tb, x)
			if ty.kind != "u" && ty.kind != "s" && ty.kind != "untyped" {
				e.g.fail(e.fi, x, "arithmetic on "+ty.String())
			}
			var s string
			switch t.Op {
			case token.ADD:
				s = "(" + a + " + " + b + ")"
			case token.SUB:
				s = "(" + a + " - " + b + ")"
			case token.MUL:
				s = "(" + a + " * " + b + ")"
			case token.QUO: // Go integer division truncates toward zero (and panics on 0)
				s = "(Z.quot " + a + " " + b + ")"
			case token.REM:
				s = "(Z.rem " + a + " " + b + ")"
			}
			return e.wrap(s, ty), ty
		case token.SHL, token.SHR:
			if ta.kind != "u" && ta.kind != "untyped" {
				e.g.fail(e.fi, x, "shift of a signed value")
			}
			if t.Op == token.SHL {
				return e.wrap("(Z.shiftl "+a+" "+b+")", ta), ta
			}
			return "(Z.shiftr " + a + " " + b + ")", ta
		}
		e.g.fail(e.fi, x, "operator "+t.Op.String())
	case *ast.CallExpr:
		// conversion
		if len(t.Args) == 1 {
			if ty, ok := parseBasicType(e.fi.pkg, t.Fun); ok && (ty.kind == "u" || ty.kind == "s") {
				v, from := e.expr(t.Args[0])
				if from.kind != "u" && from.kind != "s" && from.kind != "untyped" {
					e.g.fail(e.fi, x, "conversion of a "+from.String())
				}
				return e.wrap(v, ty), ty
			}
		}
		if exprText(t.Fun) == "time.Now" && len(t.Args) == 0 {
			e.usesNow = true
			return "now", sty{"time", 0}
		}
		// call of another function of the subset (same package)
		if id, ok := t.Fun.(*ast.Ident); ok {
			if callee := e.fi.pkg.funcByName(id.Name, ""); callee != nil {
				return e.call(scalarTarget{pkg: e.fn.target.pkg, recv: "", name: id.Name, out: prefixOf(e.fn.target.pkg) + id.Name}, "", t, x)
			}
		}
		if sel, ok := t.Fun.(*ast.SelectorExpr); ok {
			// method of the same receiver
			if id, ok := sel.X.(*ast.Ident); ok {
				if st, ok := e.structs[id.Name]; ok && !strings.Contains(st, ".") {
					if callee := e.fi.pkg.funcByName(sel.Sel.Name, st); callee != nil {
						return e.call(scalarTarget{pkg: e.fn.target.pkg, recv: st, name: sel.Sel.Name, out: prefixOf(e.fn.target.pkg) + st + "_" + sel.Sel.Name}, id.Name, t, x)
					}
				}
			}
			// time.Time methods
			recv, rty := e.expr(sel.X)
			if rty.kind == "time" {
				switch sel.Sel.Name {
				case "After", "Before", "Equal":
					if len(t.Args) != 1 {
						break
					}
					a, aty := e.expr(t.Args[0])
					if aty.kind != "time" {
						e.g.fail(e.fi, x, "argument of "+sel.Sel.Name+" is not a time.Time")
					}
					switch sel.Sel.Name {
					case "After": // recv.After(a)  is  a < recv
						return "(" + a + " <? " + recv + ")", sty{"bool", 0}
					case "Before":
						return "(" + recv + " <? " + a + ")", sty{"bool", 0}
					case "Equal":
						return "(" + recv + " =? " + a + ")", sty{"bool", 0}
					}
				case "IsZero":
					return "(" + recv + " =? 0)", sty{"bool", 0}
				}
			}
		}
		e.g.fail(e.fi, x, "call "+exprText(t.Fun))
	}
	e.g.fail(e.fi, x, fmt.Sprintf("expression kind %T", x))
	return "", sty{}
}

func prefixOf(pkg string) string {
	if pkg == "ltx" {
		return "ltx_"
	}
	return ""
}

// call of another translated function; recvIdent is the caller's name for the
// shared receiver ("" for plain functions).
func (e *senv) call(t scalarTarget, recvIdent string, c *ast.CallExpr, at ast.Node) (string, sty) {
	callee := e.g.translate(t)
	if callee.usesNow {
		e.usesNow = true
	}
	if len(c.Args) != len(callee.plain) {
		e.g.fail(e.fi, at, "call of "+t.name+" passes struct-typed arguments")
	}
	var args []string
	for _, f := range callee.fields {
		// callee's receiver field "<calleeRecv>_<F>" is the caller's "<recvIdent>_<F>"
		i := strings.Index(f.name, "_")
		if recvIdent == "" || callee.fi.recvName == "" || f.name[:i] != callee.fi.recvName {
			e.g.fail(e.fi, at, "call of "+t.name+" whose struct parameters are not the shared receiver")
		}
		name := recvIdent + f.name[i:]
		e.fields[name] = f.ty
		args = append(args, name)
	}
	for i, a := range c.Args {
		v, ty := e.expr(a)
		args = append(args, e.convertTo(v, ty, callee.plain[i].ty, at))
	}
	if callee.usesNow {
		args = append(args, "now")
	}
	return "(" + callee.target.out + " " + strings.Join(args, " ") + ")", callee.result
}
