package main

import (
	"go/ast"
	"go/token"
	"sort"
	"strings"
)

// Control-flow skeletons (C01 / C04).
//
// The whole-history machine of coq/Db/Machine.v mirrors checkpointWithExecutor and
// execCheckpoint step for step: which calls are made in which order, under which
// mode tests, where an error returns, where the sync-state flags are cleared and
// which deferred functions are installed before which call.  This translator
// prints exactly that structure — the calls, assignments, guards, defers and
// returns that the machine's steps stand for, in source order, with logging,
// diagnostics, metrics and trace points left out — and coq/Db/Skeleton.v states
// the list the machine was written against.  A change of order, a dropped or
// moved defer, a new exit between two steps or a changed mode test breaks that
// obligation directly.  The print is independent of the names of locals, of the
// order of operands, of the text of error messages and of every guard that is not
// a test of the checkpoint mode (those appear as "if _"); returns appear as
// "return" / "return error".

// calls whose position in the protocol matters (by callee text)
var skelCalls = map[string]bool{
	"db.chkMu.TryLock": true, "db.chkMu.Unlock": true, "readWALHeader": true,
	"db.verifyAndSyncWithExecutor": true, "exec.applySyncResult": true, "db.db.BeginTx": true,
	"db.execCheckpoint": true, "rollback": true, "db.bumpLitestreamSeq": true, "db.sync": true,
	"db.releaseReadLock": true, "db.acquireReadLock": true, "db.db.QueryRowContext": true,
	"bytes.Equal": true, "db.syncOnce": true, "db.lockExec": true, "db.syncLocked": true,
	"db.newSyncExecutor": true, "db.applySyncExecutor": true, "db.ensureWALExists": true,
	"db.checkpointIfNeeded": true, "db.checkpointWithExecutor": true, "db.exceedsTruncateThreshold": true,
}

// skelVerifyMode is set while verifyWithExecutor is printed: additionally the calls that decide
// continuity, the assignments to the fields of the result (info.*, except the free-text reason) and the
// guards made only of struct fields and constants (exec.state.*, exec.pos.TXID, info.offset vs
// WALHeaderSize) are printed; guards that mention locals stay "if _".
var skelVerifyMode bool

// skelSnapMode is set while snapshotReader is printed: the calls of the read phase by name, method calls
// on locals by METHOD name only (".pageMap", ".EncodeHeader", ".CloseWithError" = the failure exit), and the
// body of the streaming goroutine ("go { ... }").
var skelSnapMode bool

var skelSnapCalls = map[string]bool{"os.Open": true, "NewWALReader": true, "ltx.NewEncoder": true, "db.writeLTXFromDB": true,
	"snapshotHeaderWALRange": true}
var skelSnapMethods = map[string]bool{"pageMap": true, "EncodeHeader": true, "CloseWithError": true}

var skelVerifyCalls = map[string]bool{"db.lastPageMatch": true, "db.detectFullCheckpoint": true, "os.Stat": true, "os.Open": true}

// assignments whose target matters
func skelTarget(s string) bool {
	if skelVerifyMode && strings.HasPrefix(s, "info.") && s != "info.reason" {
		return true
	}
	return strings.HasPrefix(s, "exec.state.")
}

// the value assigned to a sync-state field, up to the names of locals
func skelValue(v string) string {
	switch v {
	case "true", "false":
		return v
	}
	if skelVerifyMode && v == "WALHeaderSize" {
		return v
	}
	return "expr"
}

// a guard made only of field atoms: "!exec.state.reachedWALEnd", "exec.state.syncedToWALEnd",
// "exec.pos.TXID==0", "info.offset==WALHeaderSize"; "" for anything that mentions something else
func skelFieldTests(e ast.Expr) string {
	var op token.Token
	var atoms []string
	ok := true
	fieldOperand := func(t string) bool {
		return strings.HasPrefix(t, "exec.state.") || t == "exec.pos.TXID" || t == "info.offset" || t == "WALHeaderSize" || t == "0" ||
			t == "info.snapshotting"
	}
	var walk func(x ast.Expr)
	walk = func(x ast.Expr) {
		switch t := x.(type) {
		case *ast.ParenExpr:
			walk(t.X)
		case *ast.UnaryExpr:
			if t.Op == token.NOT && fieldOperand(exprText(t.X)) {
				atoms = append(atoms, "!"+exprText(t.X))
				return
			}
			ok = false
		case *ast.BinaryExpr:
			if t.Op == token.LOR || t.Op == token.LAND {
				if op != 0 && op != t.Op {
					ok = false
					return
				}
				op = t.Op
				walk(t.X)
				walk(t.Y)
				return
			}
			a, b := exprText(t.X), exprText(t.Y)
			if fieldOperand(a) && fieldOperand(b) && (t.Op == token.EQL || t.Op == token.NEQ) {
				if b < a { // == and != are symmetric: operand order does not matter
					a, b = b, a
				}
				atoms = append(atoms, a+t.Op.String()+b)
				return
			}
			ok = false
		default:
			if fieldOperand(exprText(x)) {
				atoms = append(atoms, exprText(x))
				return
			}
			ok = false
		}
	}
	walk(e)
	if !ok || len(atoms) == 0 {
		return ""
	}
	sort.Strings(atoms)
	sep := " "
	if op != 0 {
		sep = " " + op.String() + " "
	}
	return strings.Join(atoms, sep)
}

// mode tests of a condition, independent of operand order and of the other conjuncts:
// "mode==Passive", "mode!=Passive&mode!=Truncate", ... ; "" when the condition has none
func skelModeTests(e ast.Expr) string {
	var tests []string
	ast.Inspect(e, func(n ast.Node) bool {
		b, ok := n.(*ast.BinaryExpr)
		if !ok || (b.Op != token.EQL && b.Op != token.NEQ) {
			return true
		}
		x, y := exprText(b.X), exprText(b.Y)
		if y == "mode" {
			x, y = y, x
		}
		if x == "mode" && strings.HasPrefix(y, "CheckpointMode") {
			tests = append(tests, "mode"+b.Op.String()+strings.TrimPrefix(y, "CheckpointMode"))
		}
		return true
	})
	sort.Strings(tests)
	return strings.Join(tests, "&")
}

// a pure disjunction (or conjunction) of tests of the sync result's fields, operands sorted:
// "!result.limited || !result.synced || result.syncedToWALEnd"; "" for anything else
func skelResultTests(e ast.Expr) string {
	var op token.Token
	var atoms []string
	ok := true
	var walk func(x ast.Expr)
	walk = func(x ast.Expr) {
		switch t := x.(type) {
		case *ast.ParenExpr:
			walk(t.X)
		case *ast.BinaryExpr:
			if t.Op == token.LOR || t.Op == token.LAND {
				if op != 0 && op != t.Op {
					ok = false
					return
				}
				op = t.Op
				walk(t.X)
				walk(t.Y)
				return
			}
			atoms = append(atoms, exprText(t))
		default:
			atoms = append(atoms, exprText(x))
		}
	}
	walk(e)
	if !ok {
		return ""
	}
	uses := false
	for _, a := range atoms {
		if strings.Contains(a, "result.") {
			uses = true
		}
	}
	if !uses {
		return ""
	}
	sort.Strings(atoms)
	sep := " "
	if op != 0 {
		sep = " " + op.String() + " "
	}
	return strings.Join(atoms, sep)
}

func skelExprTokens(e ast.Expr, out *[]string) {
	ast.Inspect(e, func(n ast.Node) bool {
		switch c := n.(type) {
		case *ast.FuncLit:
			return false
		case *ast.CallExpr:
			name := exprText(c.Fun)
			if sel, ok := c.Fun.(*ast.SelectorExpr); ok && skelSnapMode && skelSnapMethods[sel.Sel.Name] {
				*out = append(*out, "call ."+sel.Sel.Name)
			} else if skelCalls[name] || (skelVerifyMode && skelVerifyCalls[name]) || (skelSnapMode && skelSnapCalls[name]) {
				*out = append(*out, "call "+name)
			} else if sel, ok := c.Fun.(*ast.SelectorExpr); ok && sel.Sel.Name == "ExecContext" && len(c.Args) >= 2 {
				if lit, ok := c.Args[1].(*ast.BasicLit); ok && lit.Kind == token.STRING {
					*out = append(*out, "exec "+strings.Trim(lit.Value, "`\""))
				}
			}
		}
		return true
	})
}

func skelReturn(r *ast.ReturnStmt) string {
	for _, x := range r.Results {
		t := exprText(x)
		if strings.HasPrefix(t, "fmt.Errorf(") || t == "err" || strings.HasPrefix(t, "context.Cause(") || strings.HasPrefix(t, "NewLTXError(") {
			return "return error"
		}
	}
	return "return"
}

func skelStmts(list []ast.Stmt, out *[]string) {
	for _, st := range list {
		skelStmt(st, out)
	}
}

func skelStmt(st ast.Stmt, out *[]string) {
	switch s := st.(type) {
	case *ast.ExprStmt:
		skelExprTokens(s.X, out)
	case *ast.AssignStmt:
		for _, r := range s.Rhs {
			skelExprTokens(r, out)
		}
		for i, l := range s.Lhs {
			if t := exprText(l); skelTarget(t) {
				v := "expr"
				if i < len(s.Rhs) && len(s.Lhs) == len(s.Rhs) {
					v = skelValue(exprText(s.Rhs[i]))
				}
				*out = append(*out, "set "+t+" = "+v)
			}
		}
	case *ast.DeclStmt:
		if gd, ok := s.Decl.(*ast.GenDecl); ok {
			for _, sp := range gd.Specs {
				if vs, ok := sp.(*ast.ValueSpec); ok {
					for _, v := range vs.Values {
						skelExprTokens(v, out)
					}
				}
			}
		}
	case *ast.DeferStmt:
		var inner []string
		if fl, ok := s.Call.Fun.(*ast.FuncLit); ok {
			skelStmts(fl.Body.List, &inner)
		} else {
			skelExprTokens(s.Call, &inner)
		}
		if len(inner) > 0 {
			*out = append(*out, "defer {")
			*out = append(*out, inner...)
			*out = append(*out, "}")
		}
	case *ast.ReturnStmt:
		for _, r := range s.Results {
			skelExprTokens(r, out)
		}
		*out = append(*out, skelReturn(s))
	case *ast.IfStmt:
		if s.Init != nil {
			skelStmt(s.Init, out)
		}
		var cond []string
		skelExprTokens(s.Cond, &cond)
		*out = append(*out, cond...)
		var body, els []string
		skelStmts(s.Body.List, &body)
		if s.Else != nil {
			switch e := s.Else.(type) {
			case *ast.BlockStmt:
				skelStmts(e.List, &els)
			case *ast.IfStmt:
				skelStmt(e, &els)
			}
		}
		c := exprText(s.Cond)
		switch {
		case len(body) == 0 && len(els) == 0:
		case c == "err!=nil" && len(els) == 0:
			// the error check of the call just made
			*out = append(*out, "on-error {")
			*out = append(*out, body...)
			*out = append(*out, "}")
		default:
			if mt := skelModeTests(s.Cond); mt != "" {
				*out = append(*out, "if "+mt+" {")
			} else if rt := skelResultTests(s.Cond); rt != "" {
				*out = append(*out, "if "+rt+" {")
			} else if ft := skelFieldTests(s.Cond); skelVerifyMode && ft != "" {
				*out = append(*out, "if "+ft+" {")
			} else {
				*out = append(*out, "if _ {")
			}
			*out = append(*out, body...)
			if len(els) > 0 {
				*out = append(*out, "} else {")
				*out = append(*out, els...)
			}
			*out = append(*out, "}")
		}
	case *ast.ForStmt:
		var body []string
		skelStmts(s.Body.List, &body)
		if len(body) > 0 {
			*out = append(*out, "loop {")
			*out = append(*out, body...)
			*out = append(*out, "}")
		}
	case *ast.BlockStmt:
		skelStmts(s.List, out)
	case *ast.GoStmt:
		if fl, ok := s.Call.Fun.(*ast.FuncLit); ok && skelSnapMode {
			var body []string
			skelStmts(fl.Body.List, &body)
			*out = append(*out, "go {")
			*out = append(*out, body...)
			*out = append(*out, "}")
		}
	}
}

// collectSkeletons returns (function, tokens) for the functions the machine mirrors.
func collectSkeletons(w *World) [][2]any {
	var res [][2]any
	p := w.pkgs[""]
	for _, name := range []string{"checkpointWithExecutor", "execCheckpoint", "Sync", "syncLocked", "verifyWithExecutor", "snapshotReader"} {
		skelVerifyMode = name == "verifyWithExecutor"
		skelSnapMode = name == "snapshotReader"
		fi := p.funcByName(name, "DB")
		if fi == nil || fi.decl.Body == nil {
			die("skeleton: func (db *DB) %s not found: the translator no longer understands the source", name)
		}
		var out []string
		skelStmts(fi.decl.Body.List, &out)
		if len(out) == 0 {
			die("skeleton: func (db *DB) %s has an empty skeleton", name)
		}
		res = append(res, [2]any{name, out})
	}
	skelVerifyMode, skelSnapMode = false, false
	return res
}

// syncStateResetSites: the methods of DB (non-test files of the root package) that assign the zero
// value to db.syncState, sorted. The whole-history theorems treat Close / a new process / (since
// a3c8cc9) ResetLocalState as the points after which verify runs with the sync state of a fresh
// session; a site that disappears breaks the obligation sync_state_reset_sites_agree.
func syncStateResetSites(w *World) []string {
	var out []string
	p := w.pkgs[""]
	for _, fi := range p.funcs {
		if fi.recvType != "DB" || fi.decl.Body == nil {
			continue
		}
		found := false
		ast.Inspect(fi.decl.Body, func(n ast.Node) bool {
			as, ok := n.(*ast.AssignStmt)
			if !ok {
				return true
			}
			for i, l := range as.Lhs {
				if exprText(l) != "db.syncState" || i >= len(as.Rhs) {
					continue
				}
				if cl, ok := as.Rhs[i].(*ast.CompositeLit); ok && len(cl.Elts) == 0 && exprText(cl.Type) == "syncState" {
					found = true
				}
			}
			return true
		})
		if found {
			out = append(out, fi.decl.Name.Name)
		}
	}
	sort.Strings(out)
	return out
}

